(* C01 model: write-ahead-log distribution over N partitions and its replay at start-up, in the variant of today's
   code (_current) and in a repaired variant (_repaired), over a last-write-wins store and a small history machine
   (write / log switch / data-file commit / log removal) whose every reachable state is a possible crash image.
   Executable definitions only.

   Code mirrored (engine): WAL.writeBinary (record k goes to partition (writeReq++) mod N, the counter is never reset),
   WAL.Switch / LogWriter.Switch (closes the current file of every partition; the next write opens the next file),
   tsstoreImpl.writeSnapshot (Switch -> index flush -> commitSnapshot -> RemoveWalFiles, file by file),
   WAL.restoreLog (per partition the files oldest first), consumeRecordSerial (one record from partition 0..N-1
   cyclically, skipping finished partitions), shard.syncReplayWal (replay -> ForceFlush -> remove the replayed files). *)
From Coq Require Import NArith ZArith List Bool Arith.
Import ListNotations.

Section Wal.
Context {A : Type}.

Fixpoint app_at (i : nat) (x : A) (parts : list (list A)) : list (list A) :=
  match parts, i with
  | [], _ => []
  | p :: r, 0 => (p ++ [x]) :: r
  | p :: r, S j => p :: app_at j x r
  end.

(* the record written when the counter is c goes to partition c mod n *)
Fixpoint distribute (n phase : nat) (xs : list A) (parts : list (list A)) : list (list A) :=
  match xs with
  | [] => parts
  | x :: r => distribute n (S phase) r (app_at (phase mod n) x parts)
  end.

Definition heads (parts : list (list A)) : list A :=
  flat_map (fun p => match p with [] => [] | x :: _ => [x] end) parts.
Definition tails (parts : list (list A)) : list (list A) := map (@tl A) parts.

(* serial replay: one record from every unfinished partition, partition 0 first, round after round *)
Fixpoint replay (fuel : nat) (parts : list (list A)) : list A :=
  match fuel with
  | 0 => []
  | S f => heads parts ++ replay f (tails parts)
  end.

Definition total (parts : list (list A)) : nat := fold_right (fun p acc => length p + acc) 0 parts.
End Wal.

(* ---- last-write-wins store ---- *)
Definition key := (N * N * N)%type.          (* series, time, field *)
Definition cellw := (key * Z)%type.
Definition batch := list cellw.              (* one acknowledged write request = one WAL record *)
Definition store := key -> option Z.
Definition empty_store : store := fun _ => None.
Definition key_eqb (a b : key) : bool :=
  match a, b with (s1, t1, f1), (s2, t2, f2) => N.eqb s1 s2 && N.eqb t1 t2 && N.eqb f1 f2 end.
Definition put (st : store) (c : cellw) : store := fun k => if key_eqb k (fst c) then Some (snd c) else st k.
Definition apply_batch (st : store) (b : batch) : store := fold_left put b st.
Definition lww_from (st : store) (bs : list batch) : store := fold_left apply_batch bs st.
Definition lww (bs : list batch) : store := lww_from empty_store bs.
Definition over (a b : store) : store := fun k => match b k with Some v => Some v | None => a k end.

(* ---- history machine: every reachable state is a crash image ---- *)
(* closed: the WAL epochs already switched, oldest first; opn: the records of the current epoch;
   nf: how many closed epochs are committed to data files; nj: how many closed epochs had their log removed *)
Record wstate := mkw { closed : list (list batch); opn : list batch; nf : nat; nj : nat }.
(* measurements: the series id carries its measurement (series s belongs to measurement s / 1000) *)
Definition mst_of (k : key) : N := N.div (fst (fst k)) 1000.
Definition keep_not (m : N) (b : batch) : batch := filter (fun c => negb (N.eqb (mst_of (fst c)) m)) b.
Definition has_mst (m : N) (b : batch) : bool := existsb (fun c => N.eqb (mst_of (fst c)) m) b.
(* shard.DropMeasurement m = ForceFlush (log switch, commit, log removal: the ordinary ops below) followed by the removal
   of m's data files; it returns - the drop is acknowledged - only after that. WDrop m therefore takes effect only when
   the log of every closed epoch is removed and no record of m sits in the current epoch; otherwise it is a drop that was
   not acknowledged (crash positions inside it are the states of its flush ops) and has no effect. *)
Inductive wop := WWrite (b : batch) | WSwitch | WCommit | WRemove | WDrop (m : N).

Definition wstep (st : wstate) (o : wop) : wstate :=
  match o with
  | WWrite b => mkw (closed st) (opn st ++ [b]) (nf st) (nj st)
  | WSwitch => mkw (closed st ++ [opn st]) [] (nf st) (nj st)
  | WCommit => if Nat.ltb (nf st) (length (closed st)) then mkw (closed st) (opn st) (S (nf st)) (nj st) else st
  | WRemove => if Nat.ltb (nj st) (nf st) then mkw (closed st) (opn st) (nf st) (S (nj st)) else st
  | WDrop m => if Nat.eqb (nj st) (length (closed st)) && negb (existsb (has_mst m) (opn st))
               then mkw (map (map (keep_not m)) (closed st)) (opn st) (nf st) (nj st) else st
  end.
Definition drop_ready (st : wstate) (m : N) : bool :=
  Nat.eqb (nj st) (length (closed st)) && negb (existsb (has_mst m) (opn st)).
Definition winit : wstate := mkw [] [] 0 0.
Definition wrun (ops : list wop) : wstate := fold_left wstep ops winit.

Definition acked (st : wstate) : list batch := concat (closed st) ++ opn st.
Definition flushed (st : wstate) : list batch := concat (firstn (nf st) (closed st)).
Definition live_epochs (st : wstate) : list (list batch) := skipn (nj st) (closed st) ++ [opn st].

(* repaired: the counter is re-phased at every switch, a flushed epoch's log dies as a whole, and replay goes epoch
   by epoch (oldest first), round-robin inside an epoch *)
Definition replay_repaired (n : nat) (st : wstate) : list batch :=
  concat (map (fun e => replay (length e) (distribute n 0 e (repeat [] n))) (live_epochs st)).
Definition recovered_repaired (n : nat) (st : wstate) : store :=
  over (lww (flushed st)) (lww (replay_repaired n st)).

(* current: one counter over all records ever written; the partitions' live files are concatenated oldest first and
   consumed round-robin across epochs. removed_epochs whole epochs are gone; of the next epoch the partitions listed in
   gone_parts are already removed (RemoveWalFiles goes file by file). *)
Definition epoch_sizes (st : wstate) : list nat := map (@length batch) (closed st) ++ [length (opn st)].
Fixpoint tag_epochs (e : nat) (eps : list (list batch)) : list (nat * batch) :=
  match eps with
  | [] => []
  | ep :: r => map (fun b => (e, b)) ep ++ tag_epochs (S e) r
  end.
Definition placed_current (n : nat) (st : wstate) : list (list (nat * batch)) :=
  distribute n 0 (tag_epochs 0 (closed st ++ [opn st])) (repeat [] n).
Definition live_current (n : nat) (st : wstate) (gone_parts : list nat) : list (list (nat * batch)) :=
  map (fun ip => filter (fun eb => Nat.ltb (nj st) (fst eb) ||
                                   (Nat.eqb (nj st) (fst eb) && negb (existsb (Nat.eqb (fst ip)) gone_parts)))
                        (snd ip))
      (combine (seq 0 n) (placed_current n st)).
Definition replay_current (n : nat) (st : wstate) (gone_parts : list nat) : list batch :=
  let parts := live_current n st gone_parts in map snd (replay (total parts) parts).
Definition recovered_current (n : nat) (st : wstate) (gone_parts : list nat) : store :=
  over (lww (flushed st)) (lww (replay_current n st gone_parts)).

(* ---- record framing: [type:1][len:4 big endian][payload] ---- *)
Definition be32 (n : N) : list N :=
  [N.modulo (N.div n 16777216) 256; N.modulo (N.div n 65536) 256; N.modulo (N.div n 256) 256; N.modulo n 256].
Definition frame (typ : N) (payload : list N) : list N := typ :: be32 (N.of_nat (length payload)) ++ payload.
Inductive rd := Incomplete | Record (typ : N) (payload rest : list N).
Definition unbe32 (b : list N) : N :=
  match b with [a; b; c; d] => a * 16777216 + b * 65536 + c * 256 + d | _ => 0 end%N.
(* the repaired reader: a record is taken only if header and the whole payload are present *)
Definition read_frame (bs : list N) : rd :=
  match bs with
  | t :: b1 :: b2 :: b3 :: b4 :: rest =>
      let len := N.to_nat (unbe32 [b1; b2; b3; b4]) in
      if (N.ltb 0 t && N.ltb t 3)%bool && Nat.leb len (length rest)
      then Record t (firstn len rest) (skipn len rest) else Incomplete
  | _ => Incomplete
  end.

(* ---- order of the log files of one partition at restart (WAL.restoreLog) ---- *)
(* file names are "<decimal sequence number>.wal"; restoreLog orders them: shorter name = older, equal length: string order *)
Fixpoint digits_fuel (fuel n : nat) (acc : list nat) : list nat :=
  match fuel with
  | 0 => acc
  | S f => if Nat.ltb n 10 then n :: acc else digits_fuel f (Nat.div n 10) (Nat.modulo n 10 :: acc)
  end.
Definition digits (n : nat) : list nat := digits_fuel (S n) n [].
Fixpoint lex_ltb (a b : list nat) : bool :=
  match a, b with
  | [], [] => false
  | [], _ :: _ => true
  | _ :: _, [] => false
  | x :: a', y :: b' => Nat.ltb x y || (Nat.eqb x y && lex_ltb a' b')
  end.
Definition name_ltb (a b : nat) : bool :=
  let da := digits a in let db := digits b in
  Nat.ltb (length da) (length db) || (Nat.eqb (length da) (length db) && lex_ltb da db).
(* a plain string comparison of the names (what a simplified comparator would do) *)
Definition name_ltb_lex (a b : nat) : bool := lex_ltb (digits a) (digits b).

Section FileOrder.
Context {B : Type}.
Definition wfile := (nat * list B)%type.        (* sequence number, records in append order *)
Fixpoint insert_file (cmp : nat -> nat -> bool) (x : wfile) (l : list wfile) : list wfile :=
  match l with
  | [] => [x]
  | y :: r => if cmp (fst x) (fst y) then x :: l else y :: insert_file cmp x r
  end.
Definition sort_files (cmp : nat -> nat -> bool) (l : list wfile) : list wfile := fold_right (insert_file cmp) [] l.
(* the records of a partition in the order replay reads them, from any directory listing *)
Definition restore_records (cmp : nat -> nat -> bool) (listing : list wfile) : list B :=
  concat (map snd (sort_files cmp listing)).
End FileOrder.

(* ---- series index durability across a memtable flush ---- *)
(* series created by writes sit in the in-memory index until an index flush; a memtable flush is
   log switch -> index flush -> data-file commit -> log removal (tsstoreImpl.writeSnapshot); the index also has its own
   background flusher. A flush order is a list of the four actions; writes and background flushes interleave freely. *)
Inductive faction := ASwitch | AIndex | ACommit | ARemove.
Record istate := mki {
  i_mem : list N; i_snap : list N; i_files : list N;      (* series of the rows in memtable / snapshot table / data files *)
  i_walcur : list N; i_walold : list N;                    (* series of the live log records: current epoch / switched epoch *)
  i_idxmem : list N; i_idxdur : list N;                    (* series known to the index: in memory / durable *)
  i_pc : nat                                               (* position inside the running flush, 0 = idle *)
}.
Inductive iop := IWrite (s : N) | IStep | IBgIndexFlush.
Definition do_action (a : faction) (st : istate) : istate :=
  match a with
  | ASwitch => mki [] (i_mem st) (i_files st) [] (i_walcur st ++ i_walold st) (i_idxmem st) (i_idxdur st) (i_pc st)
  | AIndex => mki (i_mem st) (i_snap st) (i_files st) (i_walcur st) (i_walold st) (i_idxmem st) (i_idxmem st) (i_pc st)
  | ACommit => mki (i_mem st) [] (i_snap st ++ i_files st) (i_walcur st) (i_walold st) (i_idxmem st) (i_idxdur st) (i_pc st)
  | ARemove => mki (i_mem st) (i_snap st) (i_files st) (i_walcur st) [] (i_idxmem st) (i_idxdur st) (i_pc st)
  end.
Definition istep (order : list faction) (st : istate) (o : iop) : istate :=
  match o with
  | IWrite s => mki (s :: i_mem st) (i_snap st) (i_files st) (s :: i_walcur st) (i_walold st) (s :: i_idxmem st) (i_idxdur st) (i_pc st)
  | IBgIndexFlush => mki (i_mem st) (i_snap st) (i_files st) (i_walcur st) (i_walold st) (i_idxmem st) (i_idxmem st) (i_pc st)
  | IStep =>
      match nth_error order (i_pc st) with
      | Some a => let st' := do_action a st in
                  mki (i_mem st') (i_snap st') (i_files st') (i_walcur st') (i_walold st') (i_idxmem st') (i_idxdur st')
                      (if Nat.eqb (S (i_pc st)) (length order) then 0 else S (i_pc st))
      | None => st
      end
  end.
Definition iinit : istate := mki [] [] [] [] [] [] [] 0.
Definition irun (order : list faction) (ops : list iop) : istate := fold_left (istep order) ops iinit.
Definition good_order : list faction := [ASwitch; AIndex; ACommit; ARemove].
Definition index_last_order : list faction := [ASwitch; ACommit; ARemove; AIndex].
Definition memN (s : N) (l : list N) : bool := existsb (N.eqb s) l.
(* every series that has rows in data files can be found after a crash: through the durable index, or it is re-created
   by replaying a live log record *)
Definition recoverable (st : istate) : bool :=
  forallb (fun s => memN s (i_idxdur st) || memN s (i_walold st) || memN s (i_walcur st)) (i_files st).

(* ---- memtable flush with its per-measurement skip, DROP MEASUREMENT as its steps, the volatile flags ---- *)
(* Code mirrored (engine/shard.go): shard.commitSnapshot skips every measurement that carries the "deleting" mark
   (droppedMst) while writeSnapshot removes the switched log files regardless; shard.DropMeasurement = set the mark, refuse
   while replayingWal, ForceFlush (log switch, commit with the skip, log removal), remove the measurement's data files,
   clear the mark; replayingWal is set by every (re)start and cleared when the log has been re-applied and flushed; the mark
   lives in memory only. Data files hold what the commits wrote (x_files), so rows skipped by a commit are really gone
   once their log is removed. Ghost fields: x_gone = the acknowledged batches whose log is removed, x_taint = the
   measurements for which a drop began and was neither acknowledged nor (in the order that checks the replay flag first)
   refused - they survive a crash, the mark does not.
   early = true is the order of today's DropMeasurement (mark first, replay check second); early = false checks first.
   clear = false is a refusal path that forgets to clear the mark. *)
Definition keep_out (ms : list N) (b : batch) : batch := filter (fun c => negb (existsb (N.eqb (mst_of (fst c))) ms)) b.
Record xstate := mkx {
  x_files : list batch; x_gone : list batch; x_logs : list (list batch); x_nc : nat; x_open : list batch;
  x_marks : list N; x_replaying : bool; x_taint : list N }.
Inductive xop := XWrite (b : batch) | XSwitch | XCommit | XRemove
               | XDropBegin (m : N) | XDropRefused (m : N) | XDropDone (m : N) | XCrash | XReplayDone.
Definition memNb (m : N) (l : list N) : bool := existsb (N.eqb m) l.
Definition xstep (early clear : bool) (st : xstate) (o : xop) : xstate :=
  match o with
  | XWrite b => mkx (x_files st) (x_gone st) (x_logs st) (x_nc st) (x_open st ++ [b]) (x_marks st) (x_replaying st) (x_taint st)
  | XSwitch => mkx (x_files st) (x_gone st) (x_logs st ++ [x_open st]) (x_nc st) [] (x_marks st) (x_replaying st) (x_taint st)
  | XCommit => if Nat.ltb (x_nc st) (length (x_logs st))
               then mkx (x_files st ++ map (keep_out (x_marks st)) (nth (x_nc st) (x_logs st) [])) (x_gone st) (x_logs st) (S (x_nc st))
                        (x_open st) (x_marks st) (x_replaying st) (x_taint st)
               else st
  | XRemove => match x_logs st with
               | e :: r => if Nat.ltb 0 (x_nc st)
                           then mkx (x_files st) (x_gone st ++ e) r (pred (x_nc st)) (x_open st) (x_marks st) (x_replaying st) (x_taint st)
                           else st
               | [] => st
               end
  | XDropBegin m => if x_replaying st && negb early then st
                    else mkx (x_files st) (x_gone st) (x_logs st) (x_nc st) (x_open st) (m :: x_marks st) (x_replaying st) (m :: x_taint st)
  | XDropRefused m => if x_replaying st && early && clear
                      then mkx (x_files st) (x_gone st) (x_logs st) (x_nc st) (x_open st) (remove N.eq_dec m (x_marks st)) (x_replaying st)
                               (remove N.eq_dec m (x_taint st))
                      else st
  | XDropDone m => if memNb m (x_marks st) && Nat.eqb (length (x_logs st)) 0 && negb (existsb (has_mst m) (x_open st))
                   then mkx (map (keep_not m) (x_files st)) (map (keep_not m) (x_gone st)) (x_logs st) (x_nc st) (x_open st)
                            (remove N.eq_dec m (x_marks st)) (x_replaying st) (remove N.eq_dec m (x_taint st))
                   else st
  | XCrash => mkx (x_files st) (x_gone st) (x_logs st) (x_nc st) (x_open st) [] true (x_taint st)
  | XReplayDone => mkx (x_files st) (x_gone st) (x_logs st) (x_nc st) (x_open st) (x_marks st) false (x_taint st)
  end.
Definition xinit : xstate := mkx [] [] [] 0 [] [] false [].
Definition xrun (early clear : bool) (ops : list xop) : xstate := fold_left (xstep early clear) ops xinit.
Definition x_acked (st : xstate) : list batch := x_gone st ++ concat (x_logs st) ++ x_open st.
(* what a restart finds: the data files, overlaid with the live log replayed epoch by epoch *)
Definition x_recovered (st : xstate) : store := over (lww (x_files st)) (lww (concat (x_logs st) ++ x_open st)).

(* ---- design sketch for a repair of the replay order (NOTES.md, C01-walphase): epoch-numbered log files ---- *)
(* Every log switch starts a new epoch number shared by all partitions and re-phases the counter; partition 0's file of the
   epoch is created (under the exclusive lock) before the first record of the epoch is appended anywhere and is the FIRST
   file a removal deletes; at restart an epoch whose partition-0 file is missing is ignored (its removal had begun, so it is
   committed); live epochs are replayed one after the other, round-robin from partition 0 inside an epoch. *)
Definition efiles := list (option (list batch)).            (* the files of one epoch, per partition; None = no such file *)
Definition wrap_epoch (parts : list (list batch)) : efiles :=
  match parts with
  | [] => []
  | p0 :: r => Some p0 :: map (fun p => match p with [] => None | _ => Some p end) r
  end.
Definition epoch_files (n : nat) (e : list batch) : efiles := wrap_epoch (distribute n 0 e (repeat [] n)).
(* removal goes file by file, partition 0 first: after j steps the first j existing files are gone *)
Fixpoint remove_files (j : nat) (ef : efiles) {struct ef} : efiles :=
  match ef with
  | [] => []
  | None :: r => None :: remove_files j r
  | Some p :: r => match j with 0 => Some p :: r | S j' => None :: remove_files j' r end
  end.
Definition unwrap (ef : efiles) : list (list batch) := map (fun o => match o with Some p => p | None => [] end) ef.
Definition epoch_live (ef : efiles) : bool := match ef with Some _ :: _ => true | _ => false end.
Definition replay_epoch_files (ef : efiles) : list batch :=
  if epoch_live ef then replay (total (unwrap ef)) (unwrap ef) else [].
Definition replay_disk (d : list efiles) : list batch := concat (map replay_epoch_files d).
(* the disk of a history-machine state whose oldest live epoch has lost its first j files *)
Definition disk (n : nat) (st : wstate) (j : nat) : list efiles :=
  match live_epochs st with
  | e :: r => remove_files j (epoch_files n e) :: map (epoch_files n) r
  | [] => []
  end.
Definition recovered_disk (n : nat) (st : wstate) (j : nat) : store := over (lww (flushed st)) (lww (replay_disk (disk n st j))).

(* ---- concurrent write requests on the WAL (engine/wal.go WAL.Write / writeBinary) ---- *)
(* A request first passes an exclusive section on the WAL's lock (WAL.Write: l.mu.Lock, maxRowTime, l.mu.Unlock) - with
   barrier = true it can do so only while no request holds the lock shared; then, holding the lock shared (writeBinary:
   l.mu.RLock), it takes its slot (writeReq++) and appends its record to partition slot mod n under that partition's lock -
   requests that are inside together may append to one partition in ANY order; then it releases the lock and is
   acknowledged. A request is named by its slot. Ghost: cw_quiet = for every entry into the exclusive section the counter
   value at that moment and the requests acknowledged by then. A request that enters then or later gets a slot >= that
   counter value (slots are handed out in increasing order). *)
Record cwstate := mkcw0 {
  cw_ctr : nat; cw_parts : list (list nat);
  cw_waiting : nat;                 (* requests that passed the exclusive section and have no slot yet *)
  cw_inside : list nat;             (* slot taken, record not appended: these hold the lock shared *)
  cw_appended : list nat; cw_acked : list nat;
  cw_quiet : list (nat * list nat) }.
Inductive cwop := CEnter | CSlot | CAppend (s : nat) | CAck (s : nat).
Definition memb (x : nat) (l : list nat) : bool := existsb (Nat.eqb x) l.
Definition cwstep (barrier : bool) (n : nat) (st : cwstate) (o : cwop) : cwstate :=
  match o with
  | CEnter =>
      if barrier && negb (match cw_inside st with [] => true | _ => false end) then st
      else mkcw0 (cw_ctr st) (cw_parts st) (S (cw_waiting st)) (cw_inside st) (cw_appended st) (cw_acked st)
                 ((cw_ctr st, cw_acked st) :: cw_quiet st)
  | CSlot =>
      match cw_waiting st with
      | S k => mkcw0 (S (cw_ctr st)) (cw_parts st) k (cw_ctr st :: cw_inside st) (cw_appended st) (cw_acked st) (cw_quiet st)
      | 0 => st
      end
  | CAppend s =>
      if memb s (cw_inside st)
      then mkcw0 (cw_ctr st) (app_at (s mod n) s (cw_parts st)) (cw_waiting st) (remove Nat.eq_dec s (cw_inside st))
                 (s :: cw_appended st) (cw_acked st) (cw_quiet st)
      else st
  | CAck s => if memb s (cw_appended st)
              then mkcw0 (cw_ctr st) (cw_parts st) (cw_waiting st) (cw_inside st) (cw_appended st) (s :: cw_acked st) (cw_quiet st)
              else st
  end.
Definition cwinit (n : nat) : cwstate := mkcw0 0 (repeat [] n) 0 [] [] [] [].
Definition cwrun (barrier : bool) (n : nat) (ops : list cwop) : cwstate := fold_left (cwstep barrier n) ops (cwinit n).
Definition cw_replay (st : cwstate) : list nat := replay (total (cw_parts st)) (cw_parts st).

(* ---- asynchronous replay (wal-replay-async): replay steps interleaved with new write requests ---- *)
(* After a restart the shard accepts writes at once while a goroutine re-applies the log record by record (shard.replayWal /
   syncReplayWal). one_table = true is today's code: replayed records and new writes go to the same memtable in arrival
   order. one_table = false is the ordering rule that makes it correct: replayed records go to a table of their own that is
   read BELOW the table of the new writes (and flushed before it). Ghost: a_new = the writes acknowledged since the restart. *)
Record astate := mka { a_files : list batch; a_log : list batch; a_done : list batch; a_tbl : list batch;
                       a_rep : list batch; a_act : list batch; a_new : list batch }.
Inductive aop := AReplayOne | AWrite (b : batch).
Definition astep (st : astate) (o : aop) : astate :=
  match o with
  | AReplayOne => match a_log st with
                  | r :: rest => mka (a_files st) rest (a_done st ++ [r]) (a_tbl st ++ [r]) (a_rep st ++ [r]) (a_act st) (a_new st)
                  | [] => st
                  end
  | AWrite b => mka (a_files st) (a_log st) (a_done st) (a_tbl st ++ [b]) (a_rep st) (a_act st ++ [b]) (a_new st ++ [b])
  end.
Definition ainit (files log : list batch) : astate := mka files log [] [] [] [] [].
Definition arun (files log : list batch) (ops : list aop) : astate := fold_left astep ops (ainit files log).
Definition a_read (one_table : bool) (st : astate) : store :=
  if one_table then over (lww (a_files st)) (lww (a_tbl st))
  else over (over (lww (a_files st)) (lww (a_rep st))) (lww (a_act st)).
