(* C01 proofs, part 2: order of the log files at restart; durability of the series index across a memtable flush. *)
From Coq Require Import NArith ZArith List Bool Arith Lia Permutation Sorted.
From OG Require Import C01.Model.
Import ListNotations.

(* ---------- file order ---------- *)
Section FileOrderProofs.
Context {B : Type}.
Notation wf := (@wfile B).
Definition klt (a b : wf) : Prop := fst a < fst b.

Lemma insert_perm cmp (x : wf) l : Permutation (insert_file cmp x l) (x :: l).
Proof.
  induction l as [|y r IH]; cbn; [apply Permutation_refl|].
  destruct (cmp (fst x) (fst y)); [apply Permutation_refl|].
  eapply Permutation_trans; [apply perm_skip; exact IH | apply perm_swap].
Qed.

Lemma sort_perm cmp (l : list wf) : Permutation (sort_files cmp l) l.
Proof.
  induction l as [|x l IH]; cbn; [constructor|].
  eapply Permutation_trans; [apply insert_perm | apply perm_skip; exact IH].
Qed.

Lemma insert_sorted (x : wf) l :
  StronglySorted klt l -> ~ In (fst x) (map fst l) -> StronglySorted klt (insert_file Nat.ltb x l).
Proof.
  induction 1 as [|y r Hs IH Hf]; intro Hn; cbn [insert_file].
  - constructor; constructor.
  - destruct (Nat.ltb_spec (fst x) (fst y)) as [Hlt|Hge].
    + constructor; [constructor; assumption|]. constructor; [exact Hlt|].
      eapply Forall_impl; [|exact Hf]. intros a Ha. unfold klt in *. lia.
    + assert (Hxy : fst y < fst x).
      { cbn in Hn. assert (fst y <> fst x) by (intro E; apply Hn; left; exact E). lia. }
      constructor.
      * apply IH. intro Hi. apply Hn. right. exact Hi.
      * apply (Permutation_Forall (Permutation_sym (insert_perm Nat.ltb x r))). constructor; assumption.
Qed.

Lemma sort_sorted (l : list wf) : NoDup (map fst l) -> StronglySorted klt (sort_files Nat.ltb l).
Proof.
  induction l as [|x l IH]; cbn; intro Hd; [constructor|].
  inversion Hd as [|? ? Hn Hd']; subst. apply insert_sorted; [apply IH; exact Hd'|].
  intro Hi. apply Hn. eapply Permutation_in; [|exact Hi]. apply Permutation_map. apply sort_perm.
Qed.

Lemma sorted_perm_unique (l1 : list wf) : forall l2,
  StronglySorted klt l1 -> StronglySorted klt l2 -> Permutation l1 l2 -> l1 = l2.
Proof.
  induction l1 as [|a l1 IH]; intros l2 H1 H2 Hp.
  - apply Permutation_nil in Hp. subst. reflexivity.
  - destruct l2 as [|b l2]; [apply Permutation_sym, Permutation_nil in Hp; discriminate|].
    inversion H1 as [|? ? H1' F1]; subst. inversion H2 as [|? ? H2' F2]; subst.
    assert (Ea : a = b).
    { assert (Ia : In a (b :: l2)) by (eapply Permutation_in; [exact Hp | left; reflexivity]).
      assert (Ib : In b (a :: l1)) by (eapply Permutation_in; [apply Permutation_sym; exact Hp | left; reflexivity]).
      destruct Ia as [E|Ia]; [symmetry; exact E|]. destruct Ib as [E|Ib]; [exact E|].
      rewrite Forall_forall in F1, F2. pose proof (F1 b Ib). pose proof (F2 a Ia). unfold klt in *. lia. }
    subst b. f_equal. apply IH; auto. eapply Permutation_cons_inv. exact Hp.
Qed.

Lemma sorted_nodup (l : list wf) : StronglySorted klt l -> NoDup (map fst l).
Proof.
  induction 1 as [|y r Hs IH Hf]; cbn; constructor; [|exact IH].
  intro Hi. apply in_map_iff in Hi. destruct Hi as [z [E Hz]]. rewrite Forall_forall in Hf. pose proof (Hf z Hz). unfold klt in *. lia.
Qed.

Lemma insert_ext cmp cmp' (x : wf) l :
  (forall y, In y l -> cmp (fst x) (fst y) = cmp' (fst x) (fst y)) -> insert_file cmp x l = insert_file cmp' x l.
Proof.
  induction l as [|y r IH]; intro H; cbn; [reflexivity|].
  rewrite (H y (or_introl eq_refl)). destruct (cmp' (fst x) (fst y)); [reflexivity|]. f_equal. apply IH. intros z Hz. apply H. right. exact Hz.
Qed.

Lemma sort_cons cmp (x : wf) l : sort_files cmp (x :: l) = insert_file cmp x (sort_files cmp l).
Proof. reflexivity. Qed.

Lemma sort_ext cmp cmp' (l : list wf) :
  (forall x y, In x l -> In y l -> cmp (fst x) (fst y) = cmp' (fst x) (fst y)) -> sort_files cmp l = sort_files cmp' l.
Proof.
  induction l as [|x l IH]; intro H; [reflexivity|]. rewrite !sort_cons.
  rewrite IH by (intros a b Ha Hb; apply H; right; assumption).
  apply insert_ext. intros y Hy. apply H; [left; reflexivity | right].
  eapply Permutation_in; [apply sort_perm | exact Hy].
Qed.

(* files created with increasing sequence numbers come back in creation order from ANY directory listing when the
   comparator is the numeric order *)
Theorem restore_numeric (created listing : list wf) :
  StronglySorted klt created -> Permutation listing created -> sort_files Nat.ltb listing = created.
Proof.
  intros Hs Hp. apply sorted_perm_unique.
  - apply sort_sorted. eapply Permutation_NoDup; [apply Permutation_map, Permutation_sym; exact Hp | apply sorted_nodup; exact Hs].
  - exact Hs.
  - eapply Permutation_trans; [apply sort_perm | exact Hp].
Qed.
End FileOrderProofs.

(* restoreLog's comparator on decimal names (length first, then string order) is the numeric order - finite table *)
Definition name_table_bound := 260.
Lemma name_ltb_numeric_table :
  forallb (fun a => forallb (fun b => Bool.eqb (name_ltb a b) (Nat.ltb a b)) (seq 0 name_table_bound)) (seq 0 name_table_bound) = true.
Proof. vm_compute. reflexivity. Qed.

Lemma name_ltb_numeric a b : a < name_table_bound -> b < name_table_bound -> name_ltb a b = Nat.ltb a b.
Proof.
  intros Ha Hb. pose proof name_ltb_numeric_table as H. rewrite forallb_forall in H.
  specialize (H a). rewrite forallb_forall in H. apply Bool.eqb_prop. apply H; apply in_seq; lia.
Qed.

Theorem restore_code_order {B} (created listing : list (@wfile B)) :
  StronglySorted klt created -> Permutation listing created ->
  (forall f, In f created -> fst f < name_table_bound) ->
  restore_records name_ltb listing = concat (map snd created).
Proof.
  intros Hs Hp Hb. unfold restore_records. f_equal. f_equal.
  rewrite (sort_ext name_ltb Nat.ltb listing).
  - apply restore_numeric; assumption.
  - intros x y Hx Hy. apply name_ltb_numeric; apply Hb; eapply Permutation_in; try exact Hp; assumption.
Qed.

(* the plain string comparison reads 10.wal before 9.wal *)
Lemma lex_order_refuted :
  restore_records name_ltb_lex [(9, [1%Z]); (10, [2%Z])] = [2%Z; 1%Z] /\ restore_records name_ltb [(10, [2%Z]); (9, [1%Z])] = [1%Z; 2%Z].
Proof. vm_compute. split; reflexivity. Qed.

(* ---------- series index durability ---------- *)
Lemma memN_In s l : memN s l = true <-> In s l.
Proof.
  unfold memN. rewrite existsb_exists. split.
  - intros [x [Hx E]]. apply N.eqb_eq in E. subst. exact Hx.
  - intro H. exists s. split; [exact H | apply N.eqb_refl].
Qed.

Definition Iinv (st : istate) : Prop :=
  incl (i_mem st) (i_walcur st) /\ incl (i_idxdur st) (i_idxmem st) /\ incl (i_files st) (i_idxmem st) /\
  incl (i_snap st) (i_idxmem st) /\ incl (i_mem st) (i_idxmem st) /\
  match i_pc st with
  | 0 => i_snap st = [] /\ i_walold st = [] /\ (forall s, In s (i_files st) -> In s (i_idxdur st) \/ In s (i_walcur st))
  | 1 => incl (i_snap st) (i_walold st) /\
         (forall s, In s (i_files st) -> In s (i_idxdur st) \/ In s (i_walold st) \/ In s (i_walcur st))
  | 2 => incl (i_snap st) (i_idxdur st) /\ incl (i_files st) (i_idxdur st)
  | 3 => i_snap st = [] /\ incl (i_files st) (i_idxdur st)
  | _ => False
  end.

Ltac inc := unfold incl in *; cbn [In]; intros; repeat rewrite in_app_iff in *; intuition (subst; eauto).

Lemma Iinv_step st o : Iinv st -> Iinv (istep good_order st o).
Proof.
  destruct st as [mem snap files wc wo im idd pc]. unfold Iinv. cbn [i_mem i_snap i_files i_walcur i_walold i_idxmem i_idxdur i_pc].
  intros [A1 [A2 [A3 [A4 [A5 Hpc]]]]].
  destruct o as [s| |].
  - (* write *)
    cbn. repeat split; try solve [inc].
    destruct pc as [|[|[|[|pc]]]]; try exact Hpc.
    + destruct Hpc as [H1 [H2 H3]]. repeat split; auto; try (intros x Hx; specialize (H3 x Hx); inc).
    + destruct Hpc as [H1 H2]. split; [exact H1|]. intros x Hx. specialize (H2 x Hx). inc.
  - (* one step of the running flush *)
    destruct pc as [|[|[|[|pc]]]]; cbn; cbn in Hpc.
    + destruct Hpc as [H1 [H2 H3]]. subst snap wo. repeat split; try solve [inc].
      intros x Hx. specialize (H3 x Hx). inc.
    + destruct Hpc as [H1 H2]. repeat split; try solve [inc].
    + destruct Hpc as [H1 H2]. repeat split; try solve [inc].
    + destruct Hpc as [H1 H2]. subst snap. repeat split; try solve [inc].
    + exact (False_ind _ Hpc).
  - (* background index flush *)
    cbn. repeat split; try solve [inc].
    destruct pc as [|[|[|[|pc]]]]; try exact Hpc.
    + destruct Hpc as [H1 [H2 H3]]. repeat split; auto; try (intros x Hx; specialize (H3 x Hx); inc).
    + destruct Hpc as [H1 H2]. split; [exact H1|]. intros x Hx. specialize (H2 x Hx). inc.
    + destruct Hpc as [H1 H2]. split; assumption.
    + destruct Hpc as [H1 H2]. split; assumption.
Qed.

Lemma Iinv_run ops : Iinv (irun good_order ops).
Proof.
  unfold irun. assert (H : Iinv iinit) by (unfold Iinv; cbn; repeat split; try solve [inc]).
  revert H. generalize iinit. induction ops as [|o ops IH]; intros st H; [exact H|]. cbn. apply IH. apply Iinv_step. exact H.
Qed.

Lemma Iinv_recoverable st : Iinv st -> recoverable st = true.
Proof.
  intros [A1 [A2 [A3 [A4 [A5 Hpc]]]]]. unfold recoverable. apply forallb_forall. intros s Hs.
  apply orb_true_iff. destruct (i_pc st) as [|[|[|[|pc]]]].
  - destruct Hpc as [_ [_ H3]]. destruct (H3 s Hs) as [H|H]; [left; apply orb_true_iff; left | right]; apply memN_In; exact H.
  - destruct Hpc as [_ H2]. destruct (H2 s Hs) as [H|[H|H]]; [left; apply orb_true_iff; left | left; apply orb_true_iff; right | right]; apply memN_In; exact H.
  - destruct Hpc as [_ H2]. left. apply orb_true_iff. left. apply memN_In. apply H2. exact Hs.
  - destruct Hpc as [_ H2]. left. apply orb_true_iff. left. apply memN_In. apply H2. exact Hs.
  - destruct Hpc.
Qed.

Theorem index_durable_good_order ops : recoverable (irun good_order ops) = true.
Proof. apply Iinv_recoverable. apply Iinv_run. Qed.

Lemma index_last_refuted : recoverable (irun index_last_order [IWrite 7%N; IStep; IStep; IStep]) = false.
Proof. vm_compute. reflexivity. Qed.
