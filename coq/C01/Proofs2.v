(* C01 proofs, part 2: order of the log files at restart; durability of the series index across a memtable flush. *)
From Coq Require Import NArith ZArith List Bool Arith Lia Permutation Sorted.
From OG Require Import C01.Model.
Import ListNotations.

(* ---------- file order ---------- *)
Section FileOrderProofs.
Context {B : Type}.
Notation wf := (@wfile B).
Definition klt (a b : wf) : Prop := fst a < fst b.

Lemma insert_perm cmp (x : wf) l : Permutation (insert_file cmp x l) (x :: l).
Proof.
  induction l as [|y r IH]; cbn; [apply Permutation_refl|].
  destruct (cmp (fst x) (fst y)); [apply Permutation_refl|].
  eapply Permutation_trans; [apply perm_skip; exact IH | apply perm_swap].
Qed.

Lemma sort_perm cmp (l : list wf) : Permutation (sort_files cmp l) l.
Proof.
  induction l as [|x l IH]; cbn; [constructor|].
  eapply Permutation_trans; [apply insert_perm | apply perm_skip; exact IH].
Qed.

Lemma insert_sorted (x : wf) l :
  StronglySorted klt l -> ~ In (fst x) (map fst l) -> StronglySorted klt (insert_file Nat.ltb x l).
Proof.
  induction 1 as [|y r Hs IH Hf]; intro Hn; cbn [insert_file].
  - constructor; constructor.
  - destruct (Nat.ltb_spec (fst x) (fst y)) as [Hlt|Hge].
    + constructor; [constructor; assumption|]. constructor; [exact Hlt|].
      eapply Forall_impl; [|exact Hf]. intros a Ha. unfold klt in *. lia.
    + assert (Hxy : fst y < fst x).
      { cbn in Hn. assert (fst y <> fst x) by (intro E; apply Hn; left; exact E). lia. }
      constructor.
      * apply IH. intro Hi. apply Hn. right. exact Hi.
      * apply (Permutation_Forall (Permutation_sym (insert_perm Nat.ltb x r))). constructor; assumption.
Qed.

Lemma sort_sorted (l : list wf) : NoDup (map fst l) -> StronglySorted klt (sort_files Nat.ltb l).
Proof.
  induction l as [|x l IH]; cbn; intro Hd; [constructor|].
  inversion Hd as [|? ? Hn Hd']; subst. apply insert_sorted; [apply IH; exact Hd'|].
  intro Hi. apply Hn. eapply Permutation_in; [|exact Hi]. apply Permutation_map. apply sort_perm.
Qed.

Lemma sorted_perm_unique (l1 : list wf) : forall l2,
  StronglySorted klt l1 -> StronglySorted klt l2 -> Permutation l1 l2 -> l1 = l2.
Proof.
  induction l1 as [|a l1 IH]; intros l2 H1 H2 Hp.
  - apply Permutation_nil in Hp. subst. reflexivity.
  - destruct l2 as [|b l2]; [apply Permutation_sym, Permutation_nil in Hp; discriminate|].
    inversion H1 as [|? ? H1' F1]; subst. inversion H2 as [|? ? H2' F2]; subst.
    assert (Ea : a = b).
    { assert (Ia : In a (b :: l2)) by (eapply Permutation_in; [exact Hp | left; reflexivity]).
      assert (Ib : In b (a :: l1)) by (eapply Permutation_in; [apply Permutation_sym; exact Hp | left; reflexivity]).
      destruct Ia as [E|Ia]; [symmetry; exact E|]. destruct Ib as [E|Ib]; [exact E|].
      rewrite Forall_forall in F1, F2. pose proof (F1 b Ib). pose proof (F2 a Ia). unfold klt in *. lia. }
    subst b. f_equal. apply IH; auto. eapply Permutation_cons_inv. exact Hp.
Qed.

Lemma sorted_nodup (l : list wf) : StronglySorted klt l -> NoDup (map fst l).
Proof.
  induction 1 as [|y r Hs IH Hf]; cbn; constructor; [|exact IH].
  intro Hi. apply in_map_iff in Hi. destruct Hi as [z [E Hz]]. rewrite Forall_forall in Hf. pose proof (Hf z Hz). unfold klt in *. lia.
Qed.

Lemma insert_ext cmp cmp' (x : wf) l :
  (forall y, In y l -> cmp (fst x) (fst y) = cmp' (fst x) (fst y)) -> insert_file cmp x l = insert_file cmp' x l.
Proof.
  induction l as [|y r IH]; intro H; cbn; [reflexivity|].
  rewrite (H y (or_introl eq_refl)). destruct (cmp' (fst x) (fst y)); [reflexivity|]. f_equal. apply IH. intros z Hz. apply H. right. exact Hz.
Qed.

Lemma sort_cons cmp (x : wf) l : sort_files cmp (x :: l) = insert_file cmp x (sort_files cmp l).
Proof. reflexivity. Qed.

Lemma sort_ext cmp cmp' (l : list wf) :
  (forall x y, In x l -> In y l -> cmp (fst x) (fst y) = cmp' (fst x) (fst y)) -> sort_files cmp l = sort_files cmp' l.
Proof.
  induction l as [|x l IH]; intro H; [reflexivity|]. rewrite !sort_cons.
  rewrite IH by (intros a b Ha Hb; apply H; right; assumption).
  apply insert_ext. intros y Hy. apply H; [left; reflexivity | right].
  eapply Permutation_in; [apply sort_perm | exact Hy].
Qed.

(* files created with increasing sequence numbers come back in creation order from ANY directory listing when the
   comparator is the numeric order *)
Theorem restore_numeric (created listing : list wf) :
  StronglySorted klt created -> Permutation listing created -> sort_files Nat.ltb listing = created.
Proof.
  intros Hs Hp. apply sorted_perm_unique.
  - apply sort_sorted. eapply Permutation_NoDup; [apply Permutation_map, Permutation_sym; exact Hp | apply sorted_nodup; exact Hs].
  - exact Hs.
  - eapply Permutation_trans; [apply sort_perm | exact Hp].
Qed.
End FileOrderProofs.

(* restoreLog's comparator on decimal names (shorter name first, then string order) is the numeric order, for ALL numbers *)
(* value of a digit list, most significant first *)
Definition dval (ds : list nat) : nat := fold_left (fun a d => 10 * a + d) ds 0.
Definition dvalacc (a : nat) (ds : list nat) : nat := fold_left (fun a d => 10 * a + d) ds a.

Lemma dvalacc_app a ds : dvalacc a ds = a * 10 ^ length ds + dval ds.
Proof.
  unfold dval, dvalacc. revert a. induction ds as [|d ds IH]; intro a; cbn [fold_left length].
  - cbn. lia.
  - rewrite IH. rewrite (IH (10 * 0 + d)). cbn [Nat.pow]. nia.
Qed.

Lemma dval_cons d ds : dval (d :: ds) = d * 10 ^ length ds + dval ds.
Proof. unfold dval at 1. cbn [fold_left]. change (fold_left _ ds (10 * 0 + d)) with (dvalacc (10 * 0 + d) ds). rewrite dvalacc_app. lia. Qed.

Definition small (ds : list nat) : Prop := Forall (fun d => d < 10) ds.

Lemma dval_bound ds : small ds -> dval ds < 10 ^ length ds.
Proof.
  induction 1 as [|d ds Hd _ IH]; [cbn; lia|]. rewrite dval_cons. cbn [length Nat.pow]. nia.
Qed.

(* equal length: string order = numeric order *)
Lemma lex_ltb_val a : forall b, length a = length b -> small a -> small b -> lex_ltb a b = Nat.ltb (dval a) (dval b).
Proof.
  induction a as [|x a IH]; intros [|y b] Hl Ha Hb; try discriminate; [reflexivity|].
  cbn [lex_ltb]. inversion Ha; subst. inversion Hb; subst. cbn in Hl. injection Hl as Hl.
  rewrite !dval_cons, <- Hl. pose proof (dval_bound a H2). pose proof (dval_bound b H4). rewrite <- Hl in H0.
  rewrite (IH b Hl H2 H4).
  destruct (Nat.ltb_spec x y); cbn [orb].
  - symmetry. apply Nat.ltb_lt. nia.
  - destruct (Nat.eqb_spec x y); cbn [andb].
    + subst. destruct (Nat.ltb_spec (dval a) (dval b)); symmetry; [apply Nat.ltb_lt | apply Nat.ltb_ge]; nia.
    + symmetry. apply Nat.ltb_ge. nia.
Qed.

(* canonical: digits below ten, no leading zero *)
Definition canon (ds : list nat) : Prop := small ds /\ match ds with [] => False | d :: r => d <> 0 \/ r = [] end.

Lemma canon_lower d r : canon (d :: r) -> r <> [] -> 10 ^ length r <= dval (d :: r).
Proof.
  intros [Hs Hh] Hr. rewrite dval_cons. destruct Hh as [Hh|Hh]; [|contradiction]. nia.
Qed.

Lemma shorter_smaller a b : canon a -> canon b -> length a < length b -> dval a < dval b.
Proof.
  intros Ha Hb Hl. destruct Ha as [Hsa Hha]. pose proof (dval_bound a Hsa).
  destruct b as [|d r]; [destruct Hb as [_ []]|].
  assert (Hr : r <> []) by (intro; subst; cbn in Hl; destruct a; [destruct Hha | cbn in Hl; lia]).
  pose proof (canon_lower d r Hb Hr). cbn [length] in Hl.
  assert (10 ^ length a <= 10 ^ length r) by (apply Nat.pow_le_mono_r; lia). lia.
Qed.

(* the digits function yields the canonical representation *)
Lemma digits_fuel_S f n acc :
  digits_fuel (S f) n acc = if Nat.ltb n 10 then n :: acc else digits_fuel f (Nat.div n 10) (Nat.modulo n 10 :: acc).
Proof. reflexivity. Qed.

Lemma digits_fuel_spec f : forall n acc, n <= f -> small acc ->
  small (digits_fuel (S f) n acc) /\ dval (digits_fuel (S f) n acc) = n * 10 ^ length acc + dval acc /\
  (exists d r, digits_fuel (S f) n acc = d :: r /\ (d <> 0 \/ (n = 0 /\ r = acc))) .
Proof.
  induction f as [|f IH]; intros n acc Hn Hacc; rewrite digits_fuel_S; destruct (Nat.ltb_spec n 10) as [Hlt|Hge].
  - repeat split.
    + constructor; assumption.
    + rewrite dval_cons. lia.
    + exists n, acc. split; [reflexivity|]. destruct n; [right; auto | left; lia].
  - lia.
  - repeat split.
    + constructor; assumption.
    + rewrite dval_cons. lia.
    + exists n, acc. split; [reflexivity|]. destruct n; [right; auto | left; lia].
  - assert (Hd : n / 10 <= f).
    { assert (n / 10 < n) by (apply Nat.div_lt; lia). lia. }
    assert (Hm : n mod 10 < 10) by (apply Nat.mod_upper_bound; lia).
    destruct (IH (n / 10) (n mod 10 :: acc) Hd) as [H1 [H2 [d [r [E H3]]]]]; [constructor; assumption|].
    repeat split.
    + exact H1.
    + rewrite H2. rewrite dval_cons. cbn [length Nat.pow].
      pose proof (Nat.div_mod n 10). nia.
    + exists d, r. split; [exact E|]. left. destruct H3 as [H3|[H3 _]]; [exact H3|].
      exfalso. assert (n / 10 > 0) by (apply Nat.div_str_pos; lia). lia.
Qed.

Lemma digits_canon n : canon (digits n) /\ dval (digits n) = n.
Proof.
  unfold digits. destruct (digits_fuel_spec n n [] (le_n n)) as [H1 [H2 [d [r [E H3]]]]]; [constructor|].
  change (dval []) with 0 in H2. cbn [length Nat.pow] in H2. split; [|lia]. split; [exact H1|]. rewrite E. destruct H3 as [H3|[_ H3]]; [left; exact H3 | right; exact H3].
Qed.

Theorem name_ltb_is_numeric a b : name_ltb a b = Nat.ltb a b.
Proof.
  unfold name_ltb. destruct (digits_canon a) as [Ca Va]. destruct (digits_canon b) as [Cb Vb].
  destruct (Nat.ltb_spec (length (digits a)) (length (digits b))) as [Hl|Hl]; cbn [orb].
  - symmetry. apply Nat.ltb_lt. rewrite <- Va, <- Vb. apply shorter_smaller; assumption.
  - destruct (Nat.eqb_spec (length (digits a)) (length (digits b))) as [He|He]; cbn [andb].
    + rewrite (lex_ltb_val _ _ He (proj1 Ca) (proj1 Cb)). rewrite Va, Vb. reflexivity.
    + symmetry. apply Nat.ltb_ge. rewrite <- Va, <- Vb.
      assert (length (digits b) < length (digits a)) by lia.
      pose proof (shorter_smaller _ _ Cb Ca H). lia.
Qed.

Theorem restore_code_order {B} (created listing : list (@wfile B)) :
  StronglySorted klt created -> Permutation listing created ->
  restore_records name_ltb listing = concat (map snd created).
Proof.
  intros Hs Hp. unfold restore_records. f_equal. f_equal.
  rewrite (sort_ext name_ltb Nat.ltb listing).
  - apply restore_numeric; assumption.
  - intros x y _ _. apply name_ltb_is_numeric.
Qed.

(* the plain string comparison reads 10.wal before 9.wal *)
Lemma lex_order_refuted :
  restore_records name_ltb_lex [(9, [1%Z]); (10, [2%Z])] = [2%Z; 1%Z] /\ restore_records name_ltb [(10, [2%Z]); (9, [1%Z])] = [1%Z; 2%Z].
Proof. vm_compute. split; reflexivity. Qed.

(* ---------- series index durability ---------- *)
Lemma memN_In s l : memN s l = true <-> In s l.
Proof.
  unfold memN. rewrite existsb_exists. split.
  - intros [x [Hx E]]. apply N.eqb_eq in E. subst. exact Hx.
  - intro H. exists s. split; [exact H | apply N.eqb_refl].
Qed.

Definition Iinv (st : istate) : Prop :=
  incl (i_mem st) (i_walcur st) /\ incl (i_idxdur st) (i_idxmem st) /\ incl (i_files st) (i_idxmem st) /\
  incl (i_snap st) (i_idxmem st) /\ incl (i_mem st) (i_idxmem st) /\
  match i_pc st with
  | 0 => i_snap st = [] /\ i_walold st = [] /\ (forall s, In s (i_files st) -> In s (i_idxdur st) \/ In s (i_walcur st))
  | 1 => incl (i_snap st) (i_walold st) /\
         (forall s, In s (i_files st) -> In s (i_idxdur st) \/ In s (i_walold st) \/ In s (i_walcur st))
  | 2 => incl (i_snap st) (i_idxdur st) /\ incl (i_files st) (i_idxdur st)
  | 3 => i_snap st = [] /\ incl (i_files st) (i_idxdur st)
  | _ => False
  end.

Ltac inc := unfold incl in *; cbn [In]; intros; repeat rewrite in_app_iff in *; intuition (subst; eauto).

Lemma Iinv_step st o : Iinv st -> Iinv (istep good_order st o).
Proof.
  destruct st as [mem snap files wc wo im idd pc]. unfold Iinv. cbn [i_mem i_snap i_files i_walcur i_walold i_idxmem i_idxdur i_pc].
  intros [A1 [A2 [A3 [A4 [A5 Hpc]]]]].
  destruct o as [s| |].
  - (* write *)
    cbn. repeat split; try solve [inc].
    destruct pc as [|[|[|[|pc]]]]; try exact Hpc.
    + destruct Hpc as [H1 [H2 H3]]. repeat split; auto; try (intros x Hx; specialize (H3 x Hx); inc).
    + destruct Hpc as [H1 H2]. split; [exact H1|]. intros x Hx. specialize (H2 x Hx). inc.
  - (* one step of the running flush *)
    destruct pc as [|[|[|[|pc]]]]; cbn; cbn in Hpc.
    + destruct Hpc as [H1 [H2 H3]]. subst snap wo. repeat split; try solve [inc].
      intros x Hx. specialize (H3 x Hx). inc.
    + destruct Hpc as [H1 H2]. repeat split; try solve [inc].
    + destruct Hpc as [H1 H2]. repeat split; try solve [inc].
    + destruct Hpc as [H1 H2]. subst snap. repeat split; try solve [inc].
    + exact (False_ind _ Hpc).
  - (* background index flush *)
    cbn. repeat split; try solve [inc].
    destruct pc as [|[|[|[|pc]]]]; try exact Hpc.
    + destruct Hpc as [H1 [H2 H3]]. repeat split; auto; try (intros x Hx; specialize (H3 x Hx); inc).
    + destruct Hpc as [H1 H2]. split; [exact H1|]. intros x Hx. specialize (H2 x Hx). inc.
    + destruct Hpc as [H1 H2]. split; assumption.
    + destruct Hpc as [H1 H2]. split; assumption.
Qed.

Lemma Iinv_run ops : Iinv (irun good_order ops).
Proof.
  unfold irun. assert (H : Iinv iinit) by (unfold Iinv; cbn; repeat split; try solve [inc]).
  revert H. generalize iinit. induction ops as [|o ops IH]; intros st H; [exact H|]. cbn. apply IH. apply Iinv_step. exact H.
Qed.

Lemma Iinv_recoverable st : Iinv st -> recoverable st = true.
Proof.
  intros [A1 [A2 [A3 [A4 [A5 Hpc]]]]]. unfold recoverable. apply forallb_forall. intros s Hs.
  apply orb_true_iff. destruct (i_pc st) as [|[|[|[|pc]]]].
  - destruct Hpc as [_ [_ H3]]. destruct (H3 s Hs) as [H|H]; [left; apply orb_true_iff; left | right]; apply memN_In; exact H.
  - destruct Hpc as [_ H2]. destruct (H2 s Hs) as [H|[H|H]]; [left; apply orb_true_iff; left | left; apply orb_true_iff; right | right]; apply memN_In; exact H.
  - destruct Hpc as [_ H2]. left. apply orb_true_iff. left. apply memN_In. apply H2. exact Hs.
  - destruct Hpc as [_ H2]. left. apply orb_true_iff. left. apply memN_In. apply H2. exact Hs.
  - destruct Hpc.
Qed.

Theorem index_durable_good_order ops : recoverable (irun good_order ops) = true.
Proof. apply Iinv_recoverable. apply Iinv_run. Qed.

Lemma index_last_refuted : recoverable (irun index_last_order [IWrite 7%N; IStep; IStep; IStep]) = false.
Proof. vm_compute. reflexivity. Qed.
