(* C01 proofs, part 3: the flush with its per-measurement skip, DROP MEASUREMENT as steps, deleting marks and the replay
   flag (machine xstate of Model.v): recovery is exact for every measurement that has no unfinished drop; a refused drop
   changes nothing. *)
From Coq Require Import NArith ZArith List Bool Arith Lia.
From OG Require Import C01.Model C01.Proofs.
Import ListNotations.

Lemma keep_not_out m b : keep_not m b = keep_out [m] b.
Proof.
  unfold keep_not, keep_out. apply filter_ext. intro c. cbn. rewrite orb_false_r. reflexivity.
Qed.

Lemma memNb_In m l : memNb m l = true <-> In m l.
Proof.
  unfold memNb. rewrite existsb_exists. split.
  - intros [x [Hx E]]. apply N.eqb_eq in E. subst. exact Hx.
  - intro H. exists m. split; [exact H | apply N.eqb_refl].
Qed.

Lemma out_ext a b c : (forall x, In x a <-> In x b) -> keep_out a c = keep_out b c.
Proof.
  intro H. unfold keep_out. apply filter_ext. intro x. f_equal.
  destruct (existsb (N.eqb (mst_of (fst x))) a) eqn:Ea, (existsb (N.eqb (mst_of (fst x))) b) eqn:Eb; try reflexivity.
  - apply (memNb_In (mst_of (fst x)) a) in Ea. apply H in Ea. apply (memNb_In (mst_of (fst x)) b) in Ea. unfold memNb in Ea. congruence.
  - apply (memNb_In (mst_of (fst x)) b) in Eb. apply H in Eb. apply (memNb_In (mst_of (fst x)) a) in Eb. unfold memNb in Eb. congruence.
Qed.

Lemma out_out a b c : keep_out a (keep_out b c) = keep_out (a ++ b) c.
Proof.
  unfold keep_out. induction c as [|x c IH]; [reflexivity|]. cbn [filter]. rewrite existsb_app.
  destruct (existsb (N.eqb (mst_of (fst x))) b) eqn:Eb; cbn [negb].
  - rewrite orb_true_r. cbn [negb]. exact IH.
  - rewrite orb_false_r. cbn [filter]. destruct (existsb (N.eqb (mst_of (fst x))) a); cbn [negb]; [exact IH | f_equal; exact IH].
Qed.

Lemma out_absorb T ms c : incl ms T -> keep_out T (keep_out ms c) = keep_out T c.
Proof.
  intro H. rewrite out_out. apply out_ext. intro x. rewrite in_app_iff. split; [intros [Hx|Hx]; [exact Hx | apply H; exact Hx] | intro Hx; left; exact Hx].
Qed.

Lemma map_out_absorb T ms bs : incl ms T -> map (keep_out T) (map (keep_out ms) bs) = map (keep_out T) bs.
Proof. intro H. rewrite map_map. apply map_ext. intro c. apply out_absorb. exact H. Qed.

Lemma apply_keep_out st T b k : ~ In (mst_of k) T -> apply_batch st (keep_out T b) k = apply_batch st b k.
Proof.
  intro Hk. unfold apply_batch, keep_out. induction b as [|c b IH] using rev_ind; [reflexivity|].
  rewrite filter_app, !fold_left_app. cbn [filter].
  destruct (existsb (N.eqb (mst_of (fst c))) T) eqn:E; cbn [negb fold_left].
  - rewrite put_apply.
    destruct (key_eqb k (fst c)) eqn:E2; [|exact IH].
    apply key_eqb_eq in E2. exfalso. apply Hk. apply (memNb_In (mst_of k) T). unfold memNb. rewrite E2. exact E.
  - rewrite !put_apply. destruct (key_eqb k (fst c)); [reflexivity | exact IH].
Qed.

Lemma lww_keep_out T bs k : ~ In (mst_of k) T -> lww (map (keep_out T) bs) k = lww bs k.
Proof.
  intro Hk. unfold lww, lww_from. induction bs as [|b bs IH] using rev_ind; [reflexivity|].
  rewrite map_app, !fold_left_app. cbn [map fold_left].
  rewrite (apply_batch_over _ (keep_out T b) k), (apply_batch_over _ b k), !over_apply.
  rewrite (apply_keep_out empty_store T b k Hk). destruct (apply_batch empty_store b k); [reflexivity | exact IH].
Qed.

Lemma in_remove_iff (m x : N) l : In x (remove N.eq_dec m l) <-> In x l /\ x <> m.
Proof.
  split.
  - intro H. apply in_remove in H. exact H.
  - intros [H1 H2]. apply in_in_remove; assumption.
Qed.

(* ---------- the invariant ---------- *)
Definition xinv (st : xstate) : Prop :=
  x_nc st <= length (x_logs st) /\ incl (x_marks st) (x_taint st) /\
  map (keep_out (x_taint st)) (x_files st) = map (keep_out (x_taint st)) (x_gone st ++ concat (firstn (x_nc st) (x_logs st))).

Lemma firstn_S_nth {B} (d : B) n : forall l, n < length l -> firstn (S n) l = firstn n l ++ [nth n l d].
Proof.
  induction n as [|n IH]; intros l H; destruct l as [|x l]; cbn in *; try lia; [reflexivity|].
  f_equal. apply IH. lia.
Qed.

Ltac xs := cbn [x_files x_gone x_logs x_nc x_open x_marks x_replaying x_taint].

Lemma xstep_inv clear st o : xinv st -> xinv (xstep false clear st o).
Proof.
  intros (H1 & H2 & H3). destruct o; unfold xstep, xinv.
  - xs. auto.
  - xs. rewrite app_length. xs. split; [lia|]. split; [exact H2|]. rewrite firstn_app. replace (x_nc st - length (x_logs st)) with 0 by lia.
    xs. rewrite app_nil_r. exact H3.
  - destruct (Nat.ltb (x_nc st) (length (x_logs st))) eqn:E; [|xs; auto]. apply Nat.ltb_lt in E. xs.
    split; [lia|]. split; [exact H2|].
    rewrite (firstn_S_nth [] (x_nc st) (x_logs st) E), concat_app. cbn [concat]. rewrite app_nil_r.
    rewrite map_app, H3. rewrite (map_out_absorb _ _ _ H2). rewrite <- map_app, <- app_assoc. reflexivity.
  - destruct (x_logs st) as [|e r] eqn:El; [xs; rewrite El; auto|].
    destruct (Nat.ltb 0 (x_nc st)) eqn:E; [|xs; rewrite El; auto]. apply Nat.ltb_lt in E. xs. cbn in H1.
    split; [lia|]. split; [exact H2|].
    rewrite H3. destruct (x_nc st) as [|n]; [lia|]. xs. rewrite <- app_assoc. reflexivity.
  - rewrite andb_true_r. destruct (x_replaying st); [xs; auto|]. xs.
    split; [exact H1|]. split.
    + intros x [Hx|Hx]; [left; exact Hx | right; apply H2; exact Hx].
    + assert (E : forall bs, map (keep_out (m :: x_taint st)) bs = map (keep_out [m]) (map (keep_out (x_taint st)) bs)).
      { intro bs. rewrite map_map. apply map_ext. intro c. rewrite out_out. reflexivity. }
      rewrite !E, H3. reflexivity.
  - rewrite andb_false_r. xs. auto.
  - destruct (memNb m (x_marks st) && Nat.eqb (length (x_logs st)) 0 && negb (existsb (has_mst m) (x_open st))) eqn:G; [|xs; auto].
    apply andb_prop in G. destruct G as [G _]. apply andb_prop in G. destruct G as [Gm Gl].
    apply memNb_In in Gm. apply Nat.eqb_eq in Gl. apply length_zero_iff_nil in Gl. xs.
    rewrite Gl in *. cbn in H1. assert (x_nc st = 0) as Hn by lia. rewrite Hn in *. cbn in H3. xs. rewrite app_nil_r in *.
    split; [lia|]. split.
    + intros x Hx. apply in_remove_iff in Hx. apply in_remove_iff. split; [apply H2; tauto | tauto].
    + assert (E : forall bs, map (keep_out (remove N.eq_dec m (x_taint st))) (map (keep_not m) bs) = map (keep_out (x_taint st)) bs).
      { intro bs. rewrite map_map. apply map_ext. intro c. rewrite keep_not_out, out_out. apply out_ext. intro x.
        rewrite in_app_iff, in_remove_iff. xs. split.
        - intros [[Hx _]|[Hx|[]]]; [exact Hx | subst; apply H2; exact Gm].
        - intro Hx. destruct (N.eq_dec x m); [right; left; symmetry; assumption | left; split; assumption]. }
      rewrite !E. exact H3.
  - xs. split; [exact H1|]. split; [intros x []|exact H3].
  - xs. auto.
Qed.

Lemma xrun_inv clear ops : xinv (xrun false clear ops).
Proof.
  unfold xrun. assert (H : xinv xinit) by (unfold xinv; cbn; split; [lia|]; split; [intros x []|reflexivity]).
  revert H. generalize xinit. induction ops as [|o ops IH]; intros st H; [exact H|]. cbn. apply IH. apply xstep_inv. exact H.
Qed.

Lemma xinv_exact st k : xinv st -> ~ In (mst_of k) (x_taint st) -> x_recovered st k = lww (x_acked st) k.
Proof.
  intros (H1 & _ & H3) Hk. unfold x_recovered, x_acked.
  set (Cn := concat (firstn (x_nc st) (x_logs st))) in *. set (R := concat (skipn (x_nc st) (x_logs st))).
  assert (El : concat (x_logs st) = Cn ++ R).
  { unfold Cn, R. rewrite <- concat_app, firstn_skipn. reflexivity. }
  rewrite El. rewrite over_apply.
  assert (Ef : lww (x_files st) k = lww (x_gone st ++ Cn) k).
  { rewrite <- (lww_keep_out (x_taint st) (x_files st) k Hk), H3. apply lww_keep_out. exact Hk. }
  rewrite Ef. rewrite <- over_apply. rewrite <- !app_assoc.
  apply (over_overlap (x_gone st) Cn (R ++ x_open st) k).
Qed.

Theorem flush_skip_exact clear ops k :
  ~ In (mst_of k) (x_taint (xrun false clear ops)) ->
  x_recovered (xrun false clear ops) k = lww (x_acked (xrun false clear ops)) k.
Proof. intro H. apply xinv_exact; [apply xrun_inv | exact H]. Qed.

(* no drop ever began: no taint, recovery exact for every cell *)
Lemma no_drop_no_taint early clear ops : Forall (fun o => match o with XDropBegin _ => False | _ => True end) ops ->
  x_taint (xrun early clear ops) = [].
Proof.
  unfold xrun. assert (H : x_taint xinit = []) by reflexivity. revert H. generalize xinit.
  induction ops as [|o ops IH]; intros st H Hf; [exact H|]. cbn. inversion Hf; subst. apply IH; [|assumption].
  destruct o; unfold xstep; try exact H; try contradiction.
  - destruct (Nat.ltb (x_nc st) (length (x_logs st))); exact H.
  - destruct (x_logs st); [exact H|]. destruct (Nat.ltb 0 (x_nc st)); exact H.
  - destruct (x_replaying st && early && clear); xs; [rewrite H; reflexivity | exact H].
  - destruct (memNb m (x_marks st) && Nat.eqb (length (x_logs st)) 0 && negb (existsb (has_mst m) (x_open st))); xs; [rewrite H; reflexivity | exact H].
Qed.

(* a drop attempted while the log is being re-applied: refused, and nothing at all has changed - whatever happens between
   the attempt and the refusal *)
Lemma xrun_app early clear a b : xrun early clear (a ++ b) = fold_left (xstep early clear) b (xrun early clear a).
Proof. unfold xrun. apply fold_left_app. Qed.

Lemma refused_is_noop clear st m : xstep false clear st (XDropRefused m) = st.
Proof. unfold xstep. rewrite andb_false_r. reflexivity. Qed.

Lemma begin_replaying_noop clear st m : x_replaying st = true -> xstep false clear st (XDropBegin m) = st.
Proof. intro H. unfold xstep. rewrite H. reflexivity. Qed.

Theorem refused_drop_changes_nothing clear ops1 ops2 ops3 m : x_replaying (xrun false clear ops1) = true ->
  xrun false clear (ops1 ++ XDropBegin m :: ops2 ++ XDropRefused m :: ops3) = xrun false clear (ops1 ++ ops2 ++ ops3).
Proof.
  intro H. rewrite !xrun_app. cbn [fold_left]. rewrite (begin_replaying_noop clear _ m H).
  rewrite !fold_left_app. cbn [fold_left]. rewrite refused_is_noop. reflexivity.
Qed.

(* an acknowledged drop: exactly the cells of m leave the acknowledged history *)
Theorem xdrop_spec early clear st m :
  memNb m (x_marks st) && Nat.eqb (length (x_logs st)) 0 && negb (existsb (has_mst m) (x_open st)) = true ->
  x_acked (xstep early clear st (XDropDone m)) = map (keep_not m) (x_acked st).
Proof.
  intro G. unfold xstep. rewrite G. unfold x_acked. cbn.
  apply andb_prop in G. destruct G as [G Go]. apply andb_prop in G. destruct G as [_ Gl].
  apply Nat.eqb_eq in Gl. apply length_zero_iff_nil in Gl. rewrite Gl. cbn. rewrite map_app. f_equal.
  apply negb_true_iff in Go. induction (x_open st) as [|b l IH]; [reflexivity|].
  cbn in Go. apply orb_false_iff in Go. destruct Go as [G1 G2]. cbn [map]. rewrite (keep_not_id m b G1). f_equal. apply IH. exact G2.
Qed.

(* sensitivity: with today's order (mark first, replay check second) a flush that runs between the mark and the refusal
   discards acknowledged rows although the drop was refused and no drop is pending afterwards *)
Definition kx : key := (1000, 1, 1)%N.
Definition window_ops : list xop := [XWrite [(kx, 5%Z)]; XCrash; XDropBegin 1%N; XSwitch; XCommit; XRemove; XDropRefused 1%N].
Lemma early_mark_window :
  x_taint (xrun true true window_ops) = [] /\ x_marks (xrun true true window_ops) = [] /\
  lww (x_acked (xrun true true window_ops)) kx = Some 5%Z /\ x_recovered (xrun true true window_ops) kx = None.
Proof. vm_compute. repeat split; reflexivity. Qed.

(* sensitivity: a refusal path that does not clear the mark makes every later flush discard the measurement *)
Definition stale_ops : list xop := [XWrite [(kx, 5%Z)]; XCrash; XDropBegin 1%N; XDropRefused 1%N; XReplayDone; XWrite [(kx, 6%Z)]; XSwitch; XCommit; XRemove].
Lemma stale_mark_loses :
  lww (x_acked (xrun true false stale_ops)) kx = Some 6%Z /\ x_recovered (xrun true false stale_ops) kx = None /\
  x_recovered (xrun true true stale_ops) kx = Some 6%Z /\ x_recovered (xrun false true stale_ops) kx = Some 6%Z.
Proof. vm_compute. repeat split; reflexivity. Qed.

(* ---------- asynchronous replay: the two-table rule ---------- *)
Lemma arun_shape files log ops :
  a_files (arun files log ops) = files /\ a_done (arun files log ops) ++ a_log (arun files log ops) = log /\
  a_rep (arun files log ops) = a_done (arun files log ops) /\ a_act (arun files log ops) = a_new (arun files log ops).
Proof.
  unfold arun. assert (H : a_files (ainit files log) = files /\ a_done (ainit files log) ++ a_log (ainit files log) = log /\
    a_rep (ainit files log) = a_done (ainit files log) /\ a_act (ainit files log) = a_new (ainit files log)) by (cbn; auto).
  revert H. generalize (ainit files log). induction ops as [|o ops IH]; intros st H; [exact H|]. cbn [fold_left]. apply IH.
  destruct H as (H1 & H2 & H3 & H4). destruct o; unfold astep.
  - destruct (a_log st) as [|r rest] eqn:E; [rewrite E; auto|]. cbn. rewrite <- app_assoc. cbn. rewrite H3. auto.
  - cbn. rewrite H4. auto.
Qed.

(* with the replayed records below the new writes, at EVERY moment of EVERY interleaving a read shows the last-write-wins state
   of (data files, the records re-applied so far, the writes acknowledged since the restart) - the same as if the re-applied
   part of the log had been applied before the first new write *)
Theorem async_two_tables_exact files log ops k :
  a_read false (arun files log ops) k =
  lww (files ++ a_done (arun files log ops) ++ a_new (arun files log ops)) k.
Proof.
  destruct (arun_shape files log ops) as (H1 & _ & H3 & H4). unfold a_read. rewrite H1, H3, H4.
  rewrite (lww_app files (a_done (arun files log ops) ++ a_new (arun files log ops)) k), !over_apply.
  rewrite (lww_app (a_done (arun files log ops)) (a_new (arun files log ops)) k), over_apply.
  destruct (lww (a_new (arun files log ops)) k); reflexivity.
Qed.

(* today's single table: a write acknowledged during the replay is overwritten by the older logged value *)
Definition ka : key := (1, 1, 1)%N.
Lemma async_one_table_reverts :
  let st := arun [] [[(ka, 1%Z)]] [AWrite [(ka, 2%Z)]; AReplayOne] in
  a_log st = [] /\ a_read true st ka = Some 1%Z /\ a_read false st ka = Some 2%Z /\ lww ([] ++ a_done st ++ a_new st) ka = Some 2%Z.
Proof. vm_compute. repeat split; reflexivity. Qed.
