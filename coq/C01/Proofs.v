(* C01 proofs: round-robin replay of a phase-0 distribution returns the append order; last-write-wins algebra; the
   repaired recovery is exact in every reachable state of the history machine. *)
From Coq Require Import NArith ZArith List Bool Arith Lia.
From OG Require Import C01.Model.
Import ListNotations.

Section WalProofs.
Context {A : Type}.
Implicit Types (parts : list (list A)) (xs : list A).

Lemma app_at_split A1 p A2 (x : A) : app_at (length A1) x (A1 ++ p :: A2) = A1 ++ (p ++ [x]) :: A2.
Proof. induction A1 as [|a A1 IH]; cbn; [reflexivity | rewrite IH; reflexivity]. Qed.

Lemma distribute_snoc n xs : forall ph parts (x : A),
  distribute n ph (xs ++ [x]) parts = app_at ((ph + length xs) mod n) x (distribute n ph xs parts).
Proof.
  induction xs as [|y xs IH]; intros ph parts x; cbn [distribute app length].
  - rewrite Nat.add_0_r. reflexivity.
  - rewrite IH. replace (S ph + length xs) with (ph + S (length xs)) by lia. reflexivity.
Qed.

Lemma heads_app (l1 l2 : list (list A)) : heads (l1 ++ l2) = heads l1 ++ heads l2.
Proof. unfold heads. apply flat_map_app. Qed.

Lemma tails_app (l1 l2 : list (list A)) : tails (l1 ++ l2) = tails l1 ++ tails l2.
Proof. unfold tails. apply map_app. Qed.

Lemma heads_cons (p : list A) l : heads (p :: l) = match p with [] => [] | x :: _ => [x] end ++ heads l.
Proof. reflexivity. Qed.

Lemma tails_cons (p : list A) l : tails (p :: l) = tl p :: tails l.
Proof. reflexivity. Qed.

Lemma heads_empty (l : list (list A)) : Forall (fun p => length p = 0) l -> heads l = [].
Proof.
  induction 1 as [|p l Hp _ IH]; [reflexivity|]. destruct p; [|discriminate]. cbn. exact IH.
Qed.

Lemma tails_empty (l : list (list A)) : Forall (fun p => length p = 0) l -> Forall (fun p => length p = 0) (tails l).
Proof.
  induction 1 as [|p l Hp _ IH]; cbn; constructor; auto. destruct p; [reflexivity | discriminate].
Qed.

Lemma replay_empty f (l : list (list A)) : Forall (fun p => length p = 0) l -> replay f l = [].
Proof.
  revert l. induction f as [|f IH]; intros l H; [reflexivity|]. cbn. rewrite (heads_empty l H). cbn.
  apply IH. apply tails_empty. exact H.
Qed.

Lemma tails_len q (l : list (list A)) : Forall (fun p => length p = S q) l -> Forall (fun p => length p = q) (tails l).
Proof.
  induction 1 as [|p l Hp _ IH]; cbn; constructor; auto. destruct p; [discriminate|]. cbn in *. lia.
Qed.

(* appending to the partition that is next in round-robin order appends to the replay *)
Lemma replay_snoc q : forall (A1 : list (list A)) p A2 (x : A) F,
  Forall (fun p => length p = S q) A1 -> length p = q -> Forall (fun p => length p = q) A2 -> S q <= F ->
  replay F (A1 ++ (p ++ [x]) :: A2) = replay F (A1 ++ p :: A2) ++ [x].
Proof.
  induction q as [|q IH]; intros A1 p A2 x F H1 Hp H2 HF; destruct F as [|f]; try lia.
  - destruct p; [|discriminate]. cbn [replay app].
    rewrite !heads_app, !tails_app, !heads_cons, !tails_cons. cbn [tl app].
    rewrite (heads_empty A2 H2), !app_nil_r.
    assert (E1 : Forall (fun p => length p = 0) (tails A1 ++ [] :: tails A2)).
    { apply Forall_app. split; [apply tails_len; exact H1 | constructor; [reflexivity | apply tails_empty; exact H2]]. }
    rewrite (replay_empty f _ E1), !app_nil_r. reflexivity.
  - destruct p as [|y p]; [discriminate|]. cbn [replay].
    rewrite !heads_app, !tails_app. rewrite <- !app_comm_cons. rewrite !heads_cons, !tails_cons. cbn [tl].
    rewrite (IH (tails A1) p (tails A2) x f).
    + rewrite !app_assoc. reflexivity.
    + apply tails_len. exact H1.
    + cbn in Hp. lia.
    + apply tails_len. exact H2.
    + lia.
Qed.

(* the shape of a phase-0 distribution after c records: the first r partitions hold q+1 records, the others q *)
Definition shape (n c : nat) (xs : list A) (parts : list (list A)) : Prop :=
  exists q A1 p A2,
    parts = A1 ++ p :: A2 /\ length parts = n /\ c = q * n + length A1 /\
    Forall (fun p => length p = S q) A1 /\ length p = q /\ Forall (fun p => length p = q) A2 /\
    (forall F, (S q <= F \/ (length A1 = 0 /\ q <= F)) -> replay F parts = xs).

Lemma shape_init n : 0 < n -> shape n 0 [] (repeat [] n).
Proof.
  intro Hn. destruct n as [|n]; [lia|]. exists 0, [], [], (repeat [] n). cbn [repeat app length].
  repeat split; auto.
  - rewrite repeat_length. reflexivity.
  - apply Forall_forall. intros p Hp. apply repeat_spec in Hp. subst. reflexivity.
  - intros F _. apply replay_empty. constructor; [reflexivity|].
    apply Forall_forall. intros p Hp. apply repeat_spec in Hp. subst. reflexivity.
Qed.

Lemma shape_step n c xs parts (x : A) :
  0 < n -> shape n c xs parts -> shape n (S c) (xs ++ [x]) (app_at (c mod n) x parts).
Proof.
  intros Hn [q [A1 [p [A2 [E [Hl [Hc [H1 [Hp [H2 Hr]]]]]]]]]].
  assert (Hlen : length A1 + S (length A2) = n) by (rewrite <- Hl, E, app_length; reflexivity).
  assert (Hmod : c mod n = length A1).
  { rewrite Hc. rewrite Nat.add_comm. rewrite Nat.mod_add by lia. apply Nat.mod_small. lia. }
  rewrite Hmod, E, app_at_split.
  destruct A2 as [|a A2].
  - (* wrap: every partition now holds q+1 records *)
    destruct A1 as [|b A1].
    + exists (S q), [], (p ++ [x]), []. cbn [app length] in *. repeat split; auto.
      * lia.
      * rewrite app_length. cbn. lia.
      * intros F HF. assert (HF' : S q <= F) by lia.
        pose proof (replay_snoc q [] p [] x F H1 Hp H2 HF') as R. cbn [app] in R. rewrite R. f_equal.
        rewrite E in Hr. apply Hr. left. lia.
    + exists (S q), [], b, (A1 ++ [p ++ [x]]). cbn [app length] in *. repeat split.
      * rewrite !app_length. cbn. lia.
      * cbn. lia.
      * constructor.
      * inversion H1; subst. assumption.
      * inversion H1; subst. apply Forall_app. split; [assumption|]. constructor; [|constructor].
        rewrite app_length. cbn. lia.
      * intros F HF. assert (HF' : S q <= F) by lia.
        pose proof (replay_snoc q (b :: A1) p [] x F H1 Hp H2 HF') as R. cbn [app] in R. rewrite R. f_equal.
        rewrite E in Hr. apply Hr. left. lia.
  - cbn [length] in Hlen. exists q, (A1 ++ [p ++ [x]]), a, A2. repeat split.
    + rewrite <- app_assoc. reflexivity.
    + rewrite !app_length. cbn. lia.
    + rewrite app_length. cbn. lia.
    + apply Forall_app. split; [assumption|]. constructor; [|constructor]. rewrite app_length. cbn. lia.
    + inversion H2; subst. assumption.
    + inversion H2; subst. assumption.
    + intros F HF. rewrite app_length in HF. cbn in HF.
      assert (HF' : S q <= F) by lia.
      rewrite (replay_snoc q A1 p (a :: A2) x F H1 Hp H2 HF'). f_equal.
      rewrite E in Hr. apply Hr. left. lia.
Qed.

Lemma shape_distribute n : 0 < n -> forall xs, shape n (length xs) xs (distribute n 0 xs (repeat [] n)).
Proof.
  intros Hn xs. induction xs as [|x xs IH] using rev_ind.
  - cbn. apply shape_init. exact Hn.
  - rewrite distribute_snoc, app_length. cbn [length plus].
    replace (length xs + 1) with (S (length xs)) by lia. apply shape_step; assumption.
Qed.

Theorem replay_phase0 n xs : 0 < n -> replay (length xs) (distribute n 0 xs (repeat [] n)) = xs.
Proof.
  intro Hn. destruct (shape_distribute n Hn xs) as [q [A1 [p [A2 [E [Hl [Hc [H1 [Hp [H2 Hr]]]]]]]]]].
  apply Hr. destruct (length A1) as [|r] eqn:Er.
  - right. split; [reflexivity|]. rewrite Hc. nia.
  - left. rewrite Hc. nia.
Qed.
End WalProofs.

(* ---------- last-write-wins algebra ---------- *)
Definition store_eq (a b : store) : Prop := forall k, a k = b k.

Lemma put_apply st c k : put st c k = if key_eqb k (fst c) then Some (snd c) else st k.
Proof. reflexivity. Qed.

Lemma over_apply a b k : over a b k = match b k with Some v => Some v | None => a k end.
Proof. reflexivity. Qed.

Lemma apply_batch_over st b : store_eq (apply_batch st b) (over st (apply_batch empty_store b)).
Proof.
  unfold apply_batch. revert st. induction b as [|c b IH] using rev_ind; intros st k.
  - reflexivity.
  - rewrite !fold_left_app. cbn [fold_left]. rewrite over_apply, !put_apply.
    destruct (key_eqb k (fst c)); [reflexivity|]. rewrite (IH st k). apply over_apply.
Qed.

Lemma lww_from_over bs : forall st, store_eq (lww_from st bs) (over st (lww bs)).
Proof.
  unfold lww, lww_from. induction bs as [|b bs IH] using rev_ind; intros st k.
  - reflexivity.
  - rewrite !fold_left_app. cbn [fold_left].
    rewrite (apply_batch_over (fold_left apply_batch bs st) b k).
    rewrite (over_apply st), (apply_batch_over (fold_left apply_batch bs empty_store) b k).
    rewrite !over_apply. destruct (apply_batch empty_store b k); [reflexivity|].
    rewrite (IH st k). apply over_apply.
Qed.

Lemma lww_app a b : store_eq (lww (a ++ b)) (over (lww a) (lww b)).
Proof. intro k. unfold lww at 1, lww_from. rewrite fold_left_app. apply (lww_from_over b (lww a) k). Qed.

(* re-applying, in order, a part that was already applied last changes nothing *)
Lemma over_overlap a b c : store_eq (over (lww (a ++ b)) (lww (b ++ c))) (lww (a ++ b ++ c)).
Proof.
  intro k. rewrite (lww_app a (b ++ c) k). rewrite !over_apply.
  rewrite (lww_app b c k), (lww_app a b k). rewrite !over_apply.
  destruct (lww c k); [reflexivity|]. destruct (lww b k); reflexivity.
Qed.

(* ---------- the history machine ---------- *)
Definition winv (st : wstate) : Prop := nj st <= nf st /\ nf st <= length (closed st).

Lemma wstep_inv st o : winv st -> winv (wstep st o).
Proof.
  intros [H1 H2]. destruct o; unfold wstep, winv.
  - cbn. auto.
  - cbn. rewrite app_length. cbn. lia.
  - destruct (Nat.ltb (nf st) (length (closed st))) eqn:E; cbn; [apply Nat.ltb_lt in E; lia | lia].
  - destruct (Nat.ltb (nj st) (nf st)) eqn:E; cbn; [apply Nat.ltb_lt in E; lia | lia].
  - destruct (Nat.eqb (nj st) (length (closed st)) && negb (existsb (has_mst m) (opn st))); cbn; [rewrite map_length|]; lia.
Qed.

Lemma wrun_inv ops : winv (wrun ops).
Proof.
  unfold wrun. assert (H : winv winit) by (unfold winv; cbn; lia).
  revert H. generalize winit. induction ops as [|o ops IH]; intros st H; [exact H|]. cbn. apply IH. apply wstep_inv. exact H.
Qed.

Lemma replay_repaired_is_live n st : 0 < n -> replay_repaired n st = concat (live_epochs st).
Proof.
  intro Hn. unfold replay_repaired. f_equal. rewrite <- (map_id (live_epochs st)) at 2.
  apply map_ext. intro e. apply replay_phase0. exact Hn.
Qed.

Lemma firstn_plus {B} (j k : nat) : forall l : list B, firstn (j + k) l = firstn j l ++ firstn k (skipn j l).
Proof.
  induction j as [|j IH]; intro l; [reflexivity|]. destruct l as [|x l]; cbn.
  - rewrite firstn_nil. reflexivity.
  - rewrite IH. reflexivity.
Qed.

Lemma skipn_plus {B} (j k : nat) : forall l : list B, skipn k (skipn j l) = skipn (j + k) l.
Proof.
  induction j as [|j IH]; intro l; [reflexivity|]. destruct l as [|x l]; cbn.
  - rewrite skipn_nil. reflexivity.
  - apply IH.
Qed.

Lemma concat_split_3 (l : list (list batch)) j f :
  j <= f -> f <= length l ->
  concat (firstn f l) = concat (firstn j l) ++ concat (firstn (f - j) (skipn j l)) /\
  concat (skipn j l) = concat (firstn (f - j) (skipn j l)) ++ concat (skipn f l).
Proof.
  intros Hj Hf. split.
  - replace f with (j + (f - j)) at 1 by lia. rewrite firstn_plus, concat_app. reflexivity.
  - rewrite <- (firstn_skipn (f - j) (skipn j l)) at 1. rewrite concat_app. f_equal. f_equal.
    rewrite skipn_plus. f_equal. lia.
Qed.

Theorem recovery_exact_repaired n ops : 0 < n ->
  store_eq (recovered_repaired n (wrun ops)) (lww (acked (wrun ops))).
Proof.
  intro Hn. pose proof (wrun_inv ops) as [H1 H2]. set (st := wrun ops) in *.
  unfold recovered_repaired. rewrite (replay_repaired_is_live n st Hn).
  unfold flushed, live_epochs, acked. rewrite concat_app. cbn [concat]. rewrite app_nil_r.
  destruct (concat_split_3 (closed st) (nj st) (nf st) H1 H2) as [E1 E2].
  rewrite E1, E2. intro k.
  rewrite <- app_assoc.
  rewrite (over_overlap (concat (firstn (nj st) (closed st))) (concat (firstn (nf st - nj st) (skipn (nj st) (closed st))))
             (concat (skipn (nf st) (closed st)) ++ opn st) k).
  assert (Ec : concat (closed st) = concat (firstn (nj st) (closed st)) ++
            concat (firstn (nf st - nj st) (skipn (nj st) (closed st))) ++ concat (skipn (nf st) (closed st))).
  { rewrite <- (firstn_skipn (nj st) (closed st)) at 1. rewrite concat_app. rewrite E2. reflexivity. }
  rewrite Ec. rewrite <- !app_assoc. reflexivity.
Qed.

(* ---------- framing (finite check on a concrete record; the general statement is C07's frame_prefix_rejected) ---------- *)
Definition ex_frame : list N := frame 1 [10; 20; 30; 40; 50; 60; 70]%N.
Lemma ex_frame_prefixes_rejected :
  forallb (fun k => match read_frame (firstn k ex_frame) with Incomplete => true | _ => false end) (seq 0 (length ex_frame)) = true
  /\ read_frame ex_frame = Record 1 [10; 20; 30; 40; 50; 60; 70]%N [].
Proof. split; vm_compute; reflexivity. Qed.

(* ---------- DROP MEASUREMENT ---------- *)
Definition clean (m : N) (bs : list batch) : Prop := Forall (fun b => has_mst m b = false) bs.

Lemma keep_not_clean m b : has_mst m (keep_not m b) = false.
Proof.
  unfold has_mst, keep_not. induction b as [|c b IH]; [reflexivity|]. cbn.
  destruct (N.eqb (mst_of (fst c)) m) eqn:E; cbn; [exact IH | rewrite E; exact IH].
Qed.

Lemma keep_not_sub m m' b : has_mst m b = false -> has_mst m (keep_not m' b) = false.
Proof.
  unfold has_mst, keep_not. induction b as [|c b IH]; [reflexivity|]. cbn. intro H. apply orb_false_iff in H. destruct H as [H1 H2].
  destruct (negb (N.eqb (mst_of (fst c)) m')); cbn; [rewrite H1; cbn|]; apply IH; exact H2.
Qed.

Lemma apply_batch_untouched st b k : (forall c, In c b -> key_eqb k (fst c) = false) -> apply_batch st b k = st k.
Proof.
  unfold apply_batch. revert st. induction b as [|c b IH]; intros st H; [reflexivity|]. cbn [fold_left].
  rewrite IH by (intros c' Hc; apply H; right; exact Hc). rewrite put_apply. rewrite (H c (or_introl eq_refl)). reflexivity.
Qed.

Lemma key_eqb_eq a b : key_eqb a b = true -> a = b.
Proof.
  destruct a as [[a1 a2] a3], b as [[b1 b2] b3]. cbn. intro H. apply andb_prop in H. destruct H as [H H3]. apply andb_prop in H. destruct H as [H1 H2].
  apply N.eqb_eq in H1, H2, H3. subst. reflexivity.
Qed.

Lemma clean_untouched m b k : has_mst m b = false -> mst_of k = m -> forall c, In c b -> key_eqb k (fst c) = false.
Proof.
  intros H Hk c Hc. destruct (key_eqb k (fst c)) eqn:E; [|reflexivity]. apply key_eqb_eq in E. exfalso.
  unfold has_mst in H. assert (Hx : existsb (fun c0 => N.eqb (mst_of (fst c0)) m) b = true).
  { apply existsb_exists. exists c. split; [exact Hc|]. rewrite <- E, Hk. apply N.eqb_refl. }
  congruence.
Qed.

Lemma lww_clean m bs k : clean m bs -> mst_of k = m -> lww bs k = None.
Proof.
  intros Hc Hk. unfold lww, lww_from. assert (G : forall st, st k = None -> fold_left apply_batch bs st k = None).
  { induction Hc as [|b bs Hb _ IH]; intros st Hst; [exact Hst|]. cbn [fold_left]. apply IH.
    rewrite (apply_batch_untouched st b k); [exact Hst|]. apply (clean_untouched m); assumption. }
  apply G. reflexivity.
Qed.

Definition wclean (m : N) (st : wstate) : Prop := clean m (concat (closed st)) /\ clean m (opn st).

Lemma clean_concat_map m (l : list (list batch)) : clean m (concat (map (map (keep_not m)) l)).
Proof.
  unfold clean. induction l as [|e l IH]; cbn; [constructor|]. apply Forall_app. split; [|exact IH].
  apply Forall_forall. intros b Hb. apply in_map_iff in Hb. destruct Hb as [b0 [<- _]]. apply keep_not_clean.
Qed.

Lemma clean_concat_map_sub m m' (l : list (list batch)) : clean m (concat l) -> clean m (concat (map (map (keep_not m')) l)).
Proof.
  unfold clean. induction l as [|e l IH]; cbn; intro H; [constructor|]. apply Forall_app in H. destruct H as [H1 H2].
  apply Forall_app. split; [|apply IH; exact H2].
  apply Forall_forall. intros b Hb. apply in_map_iff in Hb. destruct Hb as [b0 [<- Hb0]]. apply keep_not_sub.
  rewrite Forall_forall in H1. apply H1. exact Hb0.
Qed.

Lemma wclean_step m st o :
  wclean m st -> match o with WWrite b => has_mst m b = false | _ => True end -> wclean m (wstep st o).
Proof.
  intros [H1 H2] Ho. destruct o; unfold wstep, wclean; cbn [closed opn].
  - split; [exact H1|]. apply Forall_app. split; [exact H2 | constructor; [exact Ho | constructor]].
  - split; [|constructor]. rewrite concat_app. cbn [concat]. rewrite app_nil_r. apply Forall_app. split; assumption.
  - destruct (Nat.ltb (nf st) (length (closed st))); cbn; split; assumption.
  - destruct (Nat.ltb (nj st) (nf st)); cbn; split; assumption.
  - destruct (Nat.eqb (nj st) (length (closed st)) && negb (existsb (has_mst m0) (opn st))); cbn [closed opn]; split; try assumption.
    apply clean_concat_map_sub. exact H1.
Qed.

Lemma wrun_app ops1 ops2 : wrun (ops1 ++ ops2) = fold_left wstep ops2 (wrun ops1).
Proof. unfold wrun. apply fold_left_app. Qed.

Theorem dropped_stays_dropped n ops1 m ops2 k : 0 < n ->
  drop_ready (wrun ops1) m = true ->
  Forall (fun o => match o with WWrite b => has_mst m b = false | _ => True end) ops2 ->
  mst_of k = m ->
  recovered_repaired n (wrun (ops1 ++ WDrop m :: ops2)) k = None.
Proof.
  intros Hn Hr Hw Hk. rewrite (recovery_exact_repaired n _ Hn k).
  apply (lww_clean m); [|exact Hk].
  rewrite wrun_app. cbn [fold_left].
  assert (H0 : wclean m (wstep (wrun ops1) (WDrop m))).
  { unfold wstep. unfold drop_ready in Hr. rewrite Hr. unfold wclean. cbn [closed opn]. split; [apply clean_concat_map|].
    apply andb_prop in Hr. destruct Hr as [_ Hr]. apply negb_true_iff in Hr.
    unfold clean. apply Forall_forall. intros b Hb. destruct (has_mst m b) eqn:E; [|reflexivity].
    exfalso. assert (existsb (has_mst m) (opn (wrun ops1)) = true) by (apply existsb_exists; exists b; auto). congruence. }
  assert (G : forall st, wclean m st -> wclean m (fold_left wstep ops2 st)).
  { induction Hw as [|o ops2 Ho _ IH]; intros st Hst; [exact Hst|]. cbn [fold_left]. apply IH. apply wclean_step; assumption. }
  destruct (G _ H0) as [G1 G2]. unfold acked. apply Forall_app. split; assumption.
Qed.

Lemma keep_not_id m b : has_mst m b = false -> keep_not m b = b.
Proof.
  unfold has_mst, keep_not. induction b as [|c b IH]; [reflexivity|]. cbn. intro H. apply orb_false_iff in H. destruct H as [H1 H2].
  rewrite H1. cbn. f_equal. apply IH. exact H2.
Qed.

(* an acknowledged drop removes exactly the cells of m from the acknowledged history *)
Theorem drop_spec st m : drop_ready st m = true -> acked (wstep st (WDrop m)) = map (keep_not m) (acked st).
Proof.
  intro Hr. unfold wstep. unfold drop_ready in Hr. rewrite Hr. unfold acked. cbn [closed opn]. rewrite map_app. f_equal.
  - rewrite concat_map. reflexivity.
  - apply andb_prop in Hr. destruct Hr as [_ Hr]. apply negb_true_iff in Hr.
    induction (opn st) as [|b l IH]; [reflexivity|]. cbn in Hr. apply orb_false_iff in Hr. destruct Hr as [H1 H2].
    cbn [map]. rewrite (keep_not_id m b H1). f_equal. apply IH. exact H2.
Qed.

Lemma apply_keep_not st m b k : mst_of k <> m -> apply_batch st (keep_not m b) k = apply_batch st b k.
Proof.
  intro Hk. unfold apply_batch, keep_not. induction b as [|c b IH] using rev_ind; [reflexivity|].
  rewrite filter_app, !fold_left_app. cbn [filter].
  destruct (N.eqb (mst_of (fst c)) m) eqn:E; cbn [negb fold_left].
  - rewrite put_apply.
    destruct (key_eqb k (fst c)) eqn:E2; [|exact IH].
    apply key_eqb_eq in E2. apply N.eqb_eq in E. subst k. contradiction.
  - rewrite !put_apply. destruct (key_eqb k (fst c)); [reflexivity | exact IH].
Qed.

Lemma lww_keep_not m bs k : mst_of k <> m -> lww (map (keep_not m) bs) k = lww bs k.
Proof.
  intro Hk. unfold lww, lww_from. induction bs as [|b bs IH] using rev_ind; [reflexivity|].
  rewrite map_app, !fold_left_app. cbn [map fold_left].
  rewrite (apply_batch_over _ (keep_not m b) k), (apply_batch_over _ b k), !over_apply.
  rewrite (apply_keep_not empty_store m b k Hk). destruct (apply_batch empty_store b k); [reflexivity | exact IH].
Qed.

(* ... and leaves every other measurement as it was *)
Theorem drop_keeps_others st m k : drop_ready st m = true -> mst_of k <> m ->
  lww (acked (wstep st (WDrop m))) k = lww (acked st) k.
Proof. intros Hr Hk. rewrite (drop_spec st m Hr). apply lww_keep_not. exact Hk. Qed.
