(* C01 correspondence evaluator: for every crash image the harness reports the acknowledged prefix, the write in flight,
   the abstract live WAL (per partition the op indexes of the complete records, oldest first; for a second-level crash
   the chain parent image -> sub image) and the cells the real recovery produced. The model computes
   (a) the repaired recovery = last-write-wins of the acknowledged writes (optionally plus the write in flight) and
   (b) the current recovery = that store overlaid with the live records in partition-round-robin order (once per image
   of the chain), and reports which of them the observation equals: code 1 = repaired only, 2 = current only,
   3 = both, 0 = neither. *)
From Coq Require Import NArith ZArith List Bool Arith.
From OG Require Import C01.Model.
Import ListNotations.

Record cimage := mkci { ci_acked : nat; ci_inflight : option nat; ci_chain : list (list (list nat)); ci_obs : list (key * Z) }.
Record ccase := mkcc { cc_batches : list batch; cc_drops : list nat; cc_images : list cimage }.

Definition lookup (obs : list (key * Z)) (k : key) : option Z :=
  match find (fun e => key_eqb (fst e) k) obs with Some e => Some (snd e) | None => None end.
Definition optz_eqb (a b : option Z) : bool :=
  match a, b with Some x, Some y => Z.eqb x y | None, None => true | _, _ => false end.
Definition universe (bs : list batch) (obs : list (key * Z)) : list key := map fst (concat bs) ++ map fst obs.
Definition matches (st : store) (obs : list (key * Z)) (univ : list key) : bool :=
  forallb (fun k => optz_eqb (st k) (lookup obs k)) univ.

Definition replayed (bs : list batch) (parts : list (list nat)) : list batch :=
  map (fun i => nth i bs []) (replay (total parts) parts).
(* the acknowledged writes that count: those after the last acknowledged DROP MEASUREMENT (one measurement) *)
Definition acked_batches (bs : list batch) (drops : list nat) (acked : nat) : list batch :=
  let start := fold_left (fun acc d => if Nat.ltb d acked then Nat.max acc (S d) else acc) drops 0 in
  skipn start (firstn acked bs).
Definition current_store (bs : list batch) (drops : list nat) (im : cimage) : store :=
  fold_left (fun st parts => over st (lww (replayed bs parts))) (ci_chain im) (lww (acked_batches bs drops (ci_acked im))).
(* every observed cell carries the value the store has (a not yet acknowledged drop may have removed any part) *)
Definition submatches (st : store) (obs : list (key * Z)) : bool :=
  forallb (fun e => optz_eqb (st (fst e)) (Some (snd e))) obs.

Definition image_code (bs : list batch) (drops : list nat) (im : cimage) : nat :=
  let univ := universe bs (ci_obs im) in
  let base := lww (acked_batches bs drops (ci_acked im)) in
  let rep := matches base (ci_obs im) univ ||
             match ci_inflight im with
             | Some i => if existsb (Nat.eqb i) drops then submatches base (ci_obs im)
                         else matches (apply_batch base (nth i bs [])) (ci_obs im) univ
             | None => false
             end in
  let cur := matches (current_store bs drops im) (ci_obs im) univ in
  (if rep then 1 else 0) + (if cur then 2 else 0).

Definition case_codes (c : ccase) : list nat := map (image_code (cc_batches c) (cc_drops c)) (cc_images c).
Definition all_codes (cs : list ccase) : list (list nat) := map case_codes cs.
