(* C01 correspondence evaluator: for every crash image the harness reports the acknowledged prefix of the history, the
   operation in flight, what the re-opened shard acknowledged while an asynchronous replay was held (a drop, a write),
   the abstract live WAL (per partition the op indexes of the complete records, oldest first; for a second-level crash
   the chain parent image -> sub image), the bookkeeping of the flush in progress (epochs of the complete records, number
   of completed log removals, partitions already removed from the epoch being removed) and the cells the real recovery
   produced. The model computes
   (t) the live-log tie: live_current (Model.v: placement by counter mod n, whole epochs below nj gone, the partitions in
       gone_parts gone from epoch nj) of the history machine state must equal the log found on disk, record by record;
   (a) the repaired recovery = last-write-wins of the acknowledged operations (drops remove their measurement), optionally
       plus the operation in flight, plus what was acknowledged during a held replay; and
   (b) the current recovery = that store overlaid with the live records in partition-round-robin order (once per image
       of the chain) - which is also what an asynchronous replay does to writes acknowledged before it ran -
   and reports which of them the observation equals: code 1 = repaired only, 2 = current only, 3 = both, 0 = neither;
   +4 when the live-log tie fails, +8 when the flush/drop machine (xstate) recovers something else than the shard shows. *)
From Coq Require Import NArith ZArith List Bool Arith.
From OG Require Import C01.Model.
Import ListNotations.

Inductive cop := CW (b : batch) | CD (m : N) | CN.       (* write, drop measurement, anything without effect on the contents *)

Record ctie := mkct { ct_eps : list (list nat); ct_nj : nat; ct_gone : list nat; ct_missing : list nat }.
Record cimage := mkci { ci_acked : nat; ci_inflight : option nat; ci_post : list cop; ci_chain : list (list (list nat));
                        ci_tie : option ctie; ci_obs : list (key * Z) }.
(* a raw log file of a crash image: its bytes, the number of records completely appended, the bytes of a torn append at its end *)
Record cwal := mkcw { cw_bytes : list N; cw_nrec : nat; cw_torn : nat }.
Record ccase := mkcc { cc_nwal : nat; cc_ops : list cop; cc_xops : list (list xop); cc_images : list cimage; cc_wals : list cwal }.

Definition lookup (obs : list (key * Z)) (k : key) : option Z :=
  match find (fun e => key_eqb (fst e) k) obs with Some e => Some (snd e) | None => None end.
Definition optz_eqb (a b : option Z) : bool :=
  match a, b with Some x, Some y => Z.eqb x y | None, None => true | _, _ => false end.
Definition batch_of (o : cop) : batch := match o with CW b => b | _ => [] end.
Definition universe (ops : list cop) (im : cimage) : list key :=
  map fst (concat (map batch_of ops)) ++ map fst (concat (map batch_of (ci_post im))) ++ map fst (ci_obs im).
Definition matches (st : store) (obs : list (key * Z)) (univ : list key) : bool :=
  forallb (fun k => optz_eqb (st k) (lookup obs k)) univ.

(* the acknowledged history as a batch list: a drop removes the cells of its measurement from everything before it *)
Definition hist (ops : list cop) : list batch :=
  fold_left (fun bs o => match o with CW b => bs ++ [b] | CD m => map (keep_not m) bs | CN => bs end) ops [].

Definition replayed (ops : list cop) (parts : list (list nat)) : list batch :=
  map (fun i => batch_of (nth i ops CN)) (replay (total parts) parts).
Definition current_store (ops : list cop) (base : list cop) (im : cimage) : store :=
  fold_left (fun st parts => over st (lww (replayed ops parts))) (ci_chain im) (lww (hist base)).

(* a drop in flight: other measurements exactly as acknowledged; of the measurement being dropped every observed cell
   carries a value that some acknowledged write since the last acknowledged drop gave to it (any part may be gone or
   back at an older flushed value) *)
Definition ever (bs : list batch) (k : key) (v : Z) : bool :=
  existsb (fun b => existsb (fun c => key_eqb (fst c) k && Z.eqb (snd c) v) b) bs.
Definition partial_drop (ops base : list cop) (m : N) (obs : list (key * Z)) (univ : list key) : bool :=
  forallb (fun k => N.eqb (mst_of k) m || optz_eqb (lww (hist base) k) (lookup obs k)) univ &&
  forallb (fun e => negb (N.eqb (mst_of (fst e)) m) || ever (hist base) (fst e) (snd e)) obs.

(* ---- live-log tie ---- *)
Definition tagb (i : nat) : batch := [((N.of_nat i, 0, 0)%N, 0%Z)].
Definition idx_of (b : batch) : nat := match b with (k, _) :: _ => N.to_nat (fst (fst k)) | [] => 0 end.
Definition live_idx (n : nat) (t : ctie) : list (list nat) :=
  let eps := ct_eps t in
  let st := mkw (map (map tagb) (removelast eps)) (map tagb (last eps [])) 0 (ct_nj t) in
  (* the ops in ct_missing hold a WAL slot (they are in ct_eps at their slot position) but their record is not on disk
     yet: a writer held at its log append *)
  map (fun p => filter (fun i => negb (existsb (Nat.eqb i) (ct_missing t))) (map (fun eb => idx_of (snd eb)) p))
      (live_current n st (ct_gone t)).
Definition natlist_eqb (a b : list nat) : bool := if list_eq_dec Nat.eq_dec a b then true else false.
Definition parts_eqb (a b : list (list nat)) : bool := if list_eq_dec (list_eq_dec Nat.eq_dec) a b then true else false.
Definition tie_ok (n : nat) (im : cimage) : bool :=
  match ci_tie im, ci_chain im with
  | Some t, [parts] => parts_eqb (live_idx n t) parts
  | _, _ => true
  end.

(* the flush/drop machine of Model.v (xstate, the order that checks the replay flag first) run on the steps of the
   acknowledged ops: what it recovers must be what the real shard shows whenever the oracle accepts the acknowledged state *)
Definition xstore (xops : list (list xop)) (acked : nat) : store := x_recovered (xrun false true (concat (firstn acked xops))).

Definition image_code (n : nat) (ops : list cop) (xops : list (list xop)) (im : cimage) : nat :=
  let univ := universe ops im in
  let acked := firstn (ci_acked im) ops in
  let base := acked ++ ci_post im in
  let rep := matches (lww (hist base)) (ci_obs im) univ ||
             match ci_inflight im with
             | Some i => match nth i ops CN with
                         | CD m => matches (lww (hist (acked ++ [CD m] ++ ci_post im))) (ci_obs im) univ ||
                                   partial_drop ops base m (ci_obs im) univ
                         | o => matches (lww (hist (acked ++ [o] ++ ci_post im))) (ci_obs im) univ
                         end
             | None => false
             end in
  let cur := matches (current_store ops base im) (ci_obs im) univ in
  let xok := match ci_inflight im, ci_post im with
             | None, [] => negb (matches (lww (hist base)) (ci_obs im) univ) || matches (xstore xops (ci_acked im)) (ci_obs im) univ
             | _, _ => true
             end in
  (if rep then 1 else 0) + (if cur then 2 else 0) + (if tie_ok n im then 0 else 4) + (if xok then 0 else 8).

Definition case_codes (c : ccase) : list nat := map (image_code (cc_nwal c) (cc_ops c) (cc_xops c)) (cc_images c).
Definition all_codes (cs : list ccase) : list (list nat) := map case_codes cs.

(* ---- framing tie: the bytes the real WAL wrote, read with the model's reader (Model.v read_frame: [type:1][len:4 BE][payload]):
   exactly the tracked number of complete records, every one of the line-protocol type, and what is left at the end is
   exactly the torn append, which the reader refuses ---- *)
Fixpoint frames (fuel : nat) (bs : list N) : list N * nat :=
  match fuel with
  | 0 => ([], length bs)
  | S f => match read_frame bs with
           | Record t _ rest => let r := frames f rest in (t :: fst r, snd r)
           | Incomplete => ([], length bs)
           end
  end.
Definition wal_ok (w : cwal) : bool :=
  let r := frames (S (cw_nrec w)) (cw_bytes w) in
  Nat.eqb (length (fst r)) (cw_nrec w) && forallb (N.eqb 1) (fst r) && Nat.eqb (snd r) (cw_torn w).
Definition frame_fails (c : ccase) : nat := length (filter (fun w => negb (wal_ok w)) (cc_wals c)).
Definition all_frame_fails (cs : list ccase) : list nat := map frame_fails cs.
