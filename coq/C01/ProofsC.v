(* C01 proofs, part C: concurrent write requests. With the exclusive section at the head of WAL.Write (barrier) the replay
   order respects the acknowledgement order: a request acknowledged before another one entered is replayed before it,
   although requests that are inside together may append to one partition in any order. *)
From Coq Require Import NArith ZArith List Bool Arith Lia.
From OG Require Import C01.Model C01.Proofs.
Import ListNotations.

Definition before {A} (x y : A) (l : list A) : Prop := exists l1 l2 l3, l = l1 ++ x :: l2 ++ y :: l3.

Lemma before_app_l {A} (x y : A) l0 l : before x y l -> before x y (l0 ++ l).
Proof. intros (l1 & l2 & l3 & E). exists (l0 ++ l1), l2, l3. rewrite E, app_assoc. reflexivity. Qed.
Lemma before_app_r {A} (x y : A) l0 l : before x y l -> before x y (l ++ l0).
Proof.
  intros (l1 & l2 & l3 & E). exists l1, l2, (l3 ++ l0). rewrite E.
  repeat (rewrite <- app_assoc; cbn [app]). reflexivity.
Qed.
Lemma before_in_in {A} (x y : A) l r : In x l -> In y r -> before x y (l ++ r).
Proof.
  intros Hx Hy. apply in_split in Hx. destruct Hx as (a & b & Ea). apply in_split in Hy. destruct Hy as (c & d & Ec).
  exists a, (b ++ c), d. rewrite Ea, Ec. repeat (rewrite <- app_assoc; cbn [app]). reflexivity.
Qed.

Section Lex.
Context {A : Type}.
Implicit Types parts : list (list A).

Lemma nth_tails parts p : nth p (tails parts) [] = tl (nth p parts []).
Proof. unfold tails. revert p. induction parts as [|a r IH]; intro p; destruct p; cbn; try reflexivity. apply IH. Qed.

Lemma heads_in parts p (y : A) : nth_error (nth p parts []) 0 = Some y -> In y (heads parts).
Proof.
  revert p. induction parts as [|a r IH]; intros p H.
  - destruct p; cbn in H; discriminate.
  - rewrite heads_cons. apply in_or_app. destruct p; cbn in H.
    + left. destruct a; [discriminate|]. inversion H; subst. left. reflexivity.
    + right. apply (IH p H).
Qed.

Lemma heads_before parts p1 p2 (x y : A) : p1 < p2 ->
  nth_error (nth p1 parts []) 0 = Some x -> nth_error (nth p2 parts []) 0 = Some y -> before x y (heads parts).
Proof.
  revert p1 p2. induction parts as [|a r IH]; intros p1 p2 Hlt Hx Hy.
  - destruct p1; cbn in Hx; discriminate.
  - rewrite heads_cons. destruct p2 as [|p2]; [lia|]. cbn [nth] in Hy. destruct p1 as [|p1].
    + cbn [nth] in Hx. destruct a as [|a0 a']; [discriminate|]. cbn in Hx. inversion Hx; subst.
      apply (before_in_in x y [x] (heads r)); [left; reflexivity | apply (heads_in r p2 y Hy)].
    + cbn [nth] in Hx. apply before_app_l. apply (IH p1 p2); [lia | exact Hx | exact Hy].
Qed.

Lemma nth_error_tl (l : list A) i : nth_error (tl l) i = nth_error l (S i).
Proof. destruct l; [destruct i; reflexivity | reflexivity]. Qed.

Lemma replay_in F : forall parts p i (y : A), nth_error (nth p parts []) i = Some y -> i < F -> In y (replay F parts).
Proof.
  induction F as [|f IH]; intros parts p i y H Hi; [lia|]. cbn [replay]. apply in_or_app. destruct i as [|i].
  - left. apply (heads_in parts p y H).
  - right. apply (IH (tails parts) p i y); [|lia]. rewrite nth_tails, nth_error_tl. exact H.
Qed.

(* the replay order is the lexicographic order of (position inside the partition, partition number) *)
Lemma replay_lex F : forall parts p1 i1 p2 i2 (x y : A),
  nth_error (nth p1 parts []) i1 = Some x -> nth_error (nth p2 parts []) i2 = Some y ->
  i1 < i2 \/ (i1 = i2 /\ p1 < p2) -> i2 < F -> before x y (replay F parts).
Proof.
  induction F as [|f IH]; intros parts p1 i1 p2 i2 x y Hx Hy Hl HF; [lia|]. cbn [replay]. destruct i1 as [|i1].
  - destruct i2 as [|i2].
    + apply before_app_r. apply (heads_before parts p1 p2 x y); [lia | exact Hx | exact Hy].
    + apply before_in_in; [apply (heads_in parts p1 x Hx)|].
      apply (replay_in f (tails parts) p2 i2 y); [rewrite nth_tails, nth_error_tl; exact Hy | lia].
  - destruct i2 as [|i2]; [lia|]. apply before_app_l.
    apply (IH (tails parts) p1 i1 p2 i2 x y); [rewrite nth_tails, nth_error_tl; exact Hx | rewrite nth_tails, nth_error_tl; exact Hy | lia | lia].
Qed.
End Lex.

(* ---------- how many of the slots 0..m-1 go to partition p ---------- *)
Fixpoint cnt (n p m : nat) : nat := match m with 0 => 0 | S m' => cnt n p m' + (if Nat.eqb (m' mod n) p then 1 else 0) end.

Lemma div_mod_S n m : 0 < n ->
  (S (m mod n) < n /\ S m / n = m / n /\ S m mod n = S (m mod n)) \/ (S (m mod n) = n /\ S m / n = S (m / n) /\ S m mod n = 0).
Proof.
  intro Hn. pose proof (Nat.div_mod m n ltac:(lia)) as E. pose proof (Nat.mod_upper_bound m n ltac:(lia)) as Hb.
  destruct (Nat.eq_dec (S (m mod n)) n) as [Heq|Hne].
  - right. split; [exact Heq|]. assert (S m = n * S (m / n) + 0) by lia. split.
    + symmetry. apply (Nat.div_unique (S m) n (S (m / n)) 0); lia.
    + symmetry. apply (Nat.mod_unique (S m) n (S (m / n)) 0); lia.
  - left. split; [lia|]. assert (S m = n * (m / n) + S (m mod n)) by lia. split.
    + symmetry. apply (Nat.div_unique (S m) n (m / n) (S (m mod n))); lia.
    + symmetry. apply (Nat.mod_unique (S m) n (m / n) (S (m mod n))); lia.
Qed.

Lemma cnt_shape n p m : 0 < n -> p < n -> cnt n p m = m / n + (if Nat.ltb p (m mod n) then 1 else 0).
Proof.
  intros Hn Hp. induction m as [|m IH].
  - cbn. rewrite Nat.div_0_l, Nat.mod_0_l by lia. destruct (Nat.ltb_spec p 0); lia.
  - cbn [cnt]. rewrite IH. destruct (div_mod_S n m Hn) as [(H1 & H2 & H3)|(H1 & H2 & H3)]; rewrite H2, H3.
    + destruct (Nat.eqb_spec (m mod n) p), (Nat.ltb_spec p (m mod n)), (Nat.ltb_spec p (S (m mod n))); lia.
    + destruct (Nat.eqb_spec (m mod n) p), (Nat.ltb_spec p (m mod n)), (Nat.ltb_spec p 0); lia.
Qed.

(* staircase: a position below the count of p1 and a position at or above the count of p2 are in replay order *)
Lemma staircase n m p1 p2 i1 i2 : 0 < n -> p1 < n -> p2 < n -> i1 < cnt n p1 m -> cnt n p2 m <= i2 ->
  i1 < i2 \/ (i1 = i2 /\ p1 < p2).
Proof.
  intros Hn H1 H2 Ha Hb. rewrite (cnt_shape n p1 m Hn H1) in Ha. rewrite (cnt_shape n p2 m Hn H2) in Hb.
  destruct (Nat.ltb_spec p1 (m mod n)), (Nat.ltb_spec p2 (m mod n)); lia.
Qed.


(* ---------- the machine ---------- *)
Definition inpart (n p : nat) (l : list nat) : nat := length (filter (fun s => Nat.eqb (s mod n) p) l).

Record cwinv (n : nat) (st : cwstate) : Prop := mkinv {
  ci_len : length (cw_parts st) = n;
  ci_cnt : forall p, p < n -> length (nth p (cw_parts st) []) + inpart n p (cw_inside st) = cnt n p (cw_ctr st);
  ci_nodup : NoDup (cw_inside st);
  ci_inside_lt : forall s, In s (cw_inside st) -> s < cw_ctr st;
  ci_disk_lt : forall p i s, nth_error (nth p (cw_parts st) []) i = Some s -> s < cw_ctr st;
  ci_app_disk : forall s, In s (cw_appended st) -> s < cw_ctr st /\ exists i, nth_error (nth (s mod n) (cw_parts st) []) i = Some s;
  ci_ack_app : forall s, In s (cw_acked st) -> In s (cw_appended st);
  ci_quiet : forall m A, In (m, A) (cw_quiet st) ->
     m <= cw_ctr st /\ (forall s, In s (cw_inside st) -> m <= s) /\ (forall s, In s A -> s < m /\ In s (cw_appended st)) /\
     forall p, p < n -> cnt n p m <= length (nth p (cw_parts st) []) /\
        forall i s, nth_error (nth p (cw_parts st) []) i = Some s -> (i < cnt n p m -> s < m) /\ (cnt n p m <= i -> m <= s)
}.

Lemma nth_app_at {A} (x : A) : forall parts q p, q < length parts ->
  nth p (app_at q x parts) [] = if Nat.eqb p q then nth p parts [] ++ [x] else nth p parts [].
Proof.
  induction parts as [|a r IH]; intros q p Hq; [cbn in Hq; lia|]. destruct q as [|q]; destruct p as [|p]; cbn; try reflexivity.
  cbn in Hq. rewrite IH by lia. reflexivity.
Qed.

Lemma app_at_len {A} i (x : A) parts : length (app_at i x parts) = length parts.
Proof. revert i. induction parts as [|p r IH]; intro i; [destruct i; reflexivity|]. destruct i; cbn; [reflexivity | rewrite IH; reflexivity]. Qed.

Lemma nodup_remove (s : nat) l : NoDup l -> NoDup (remove Nat.eq_dec s l).
Proof.
  induction 1 as [|a l Hn Hd IH]; cbn; [constructor|]. destruct (Nat.eq_dec s a); [exact IH|]. constructor; [|exact IH].
  intro Hi. apply in_remove in Hi. tauto.
Qed.

Lemma inpart_remove n p s l : NoDup l -> In s l ->
  inpart n p (remove Nat.eq_dec s l) + (if Nat.eqb (s mod n) p then 1 else 0) = inpart n p l.
Proof.
  unfold inpart. induction 1 as [|a l Hn Hd IH]; intro Hi; [destruct Hi|]. cbn [remove filter].
  destruct (Nat.eq_dec s a) as [E|E].
  - subst a. rewrite (notin_remove Nat.eq_dec l s Hn). destruct (Nat.eqb (s mod n) p); cbn; lia.
  - destruct Hi as [Hi|Hi]; [congruence|]. specialize (IH Hi). cbn [filter]. destruct (Nat.eqb (a mod n) p); cbn [length]; lia.
Qed.

Lemma nth_error_snoc {A} (l : list A) (x y : A) i : nth_error (l ++ [x]) i = Some y ->
  (i < length l /\ nth_error l i = Some y) \/ (i = length l /\ y = x).
Proof.
  intro H. destruct (Nat.lt_ge_cases i (length l)) as [Hlt|Hge].
  - left. split; [exact Hlt|]. rewrite nth_error_app1 in H by exact Hlt. exact H.
  - right. rewrite nth_error_app2 in H by exact Hge. destruct (i - length l) as [|k] eqn:E.
    + cbn in H. inversion H. split; [lia | reflexivity].
    + cbn in H. destruct k; discriminate.
Qed.

Lemma memb_In x l : memb x l = true <-> In x l.
Proof.
  unfold memb. rewrite existsb_exists. split.
  - intros (y & Hy & E). apply Nat.eqb_eq in E. subst. exact Hy.
  - intro H. exists x. split; [exact H | apply Nat.eqb_refl].
Qed.

Lemma cwstep_inv n st o : 0 < n -> cwinv n st -> cwinv n (cwstep true n st o).
Proof.
  intros Hn I. destruct I as [I1 I2 I3 I4 I5 I6 I7 I8]. destruct o as [| |s|s]; unfold cwstep.
  - (* CEnter *)
    cbn [andb]. destruct (cw_inside st) as [|x ins] eqn:Ei; cbn [negb]; [|rewrite <- Ei in *; constructor; auto].
    apply mkinv; cbn [cw_ctr cw_parts cw_waiting cw_inside cw_appended cw_acked cw_quiet]; rewrite ?Ei.
    + exact I1.
    + exact I2.
    + exact I3.
    + exact I4.
    + exact I5.
    + exact I6.
    + exact I7.
    + intros m A [E|Hq]; [|exact (I8 m A Hq)].
      inversion E; subst m A. split; [lia|]. split; [intros s []|]. split.
      * intros s Hs. pose proof (I7 s Hs) as Ha. split; [apply (I6 s Ha) | exact Ha].
      * intros p Hp. specialize (I2 p Hp). unfold inpart in I2. cbn in I2. split; [lia|].
        intros i s Hs. split; [intros _; apply (I5 p i s Hs)|].
        intro Hge. assert (i < length (nth p (cw_parts st) [])) by (apply nth_error_Some; congruence). lia.
  - (* CSlot *)
    destruct (cw_waiting st) as [|k]; [constructor; auto|].
    constructor; cbn [cw_ctr cw_parts cw_waiting cw_inside cw_appended cw_acked cw_quiet]; auto.
    + intros p Hp. specialize (I2 p Hp). unfold inpart in *. cbn [filter cnt]. destruct (Nat.eqb (cw_ctr st mod n) p); cbn [length]; lia.
    + constructor; [|exact I3]. intro Hi. apply I4 in Hi. lia.
    + intros s [E|Hs]; [lia | apply I4 in Hs; lia].
    + intros p i s Hs. apply I5 in Hs. lia.
    + intros s Hs. destruct (I6 s Hs) as [Ha Hb]. split; [lia | exact Hb].
    + intros m A Hq. destruct (I8 m A Hq) as (Q1 & Q2 & Q3 & Q4). split; [lia|]. split; [|split; [exact Q3 | exact Q4]].
      intros s [E|Hs]; [lia | apply Q2; exact Hs].
  - (* CAppend *)
    destruct (memb s (cw_inside st)) eqn:Em; [|constructor; auto]. apply memb_In in Em.
    assert (Hq : s mod n < length (cw_parts st)) by (rewrite I1; apply Nat.mod_upper_bound; lia).
    assert (Hnth : forall p, nth p (app_at (s mod n) s (cw_parts st)) [] =
                             if Nat.eqb p (s mod n) then nth p (cw_parts st) [] ++ [s] else nth p (cw_parts st) [])
      by (intro p; apply nth_app_at; exact Hq).
    constructor; cbn [cw_ctr cw_parts cw_waiting cw_inside cw_appended cw_acked cw_quiet].
    + rewrite app_at_len. exact I1.
    + intros p Hp. specialize (I2 p Hp). pose proof (inpart_remove n p s (cw_inside st) I3 Em) as R. rewrite Hnth.
      rewrite (Nat.eqb_sym p (s mod n)). destruct (Nat.eqb (s mod n) p); [rewrite app_length; cbn [length]; lia | lia].
    + apply nodup_remove. exact I3.
    + intros x Hx. apply in_remove in Hx. apply I4. tauto.
    + intros p i x Hx. rewrite Hnth in Hx. destruct (Nat.eqb p (s mod n)); [|apply (I5 p i x Hx)].
      apply nth_error_snoc in Hx. destruct Hx as [[_ Hx]|[_ Hx]]; [apply (I5 p i x Hx) | subst x; apply I4; exact Em].
    + intros x [E|Hx].
      * subst x. split; [apply I4; exact Em|]. exists (length (nth (s mod n) (cw_parts st) [])). rewrite Hnth, Nat.eqb_refl.
        rewrite nth_error_app2 by lia. rewrite Nat.sub_diag. reflexivity.
      * destruct (I6 x Hx) as [Ha [i Hi]]. split; [exact Ha|]. rewrite Hnth. destruct (Nat.eqb (x mod n) (s mod n)); [|exists i; exact Hi].
        exists i. rewrite nth_error_app1; [exact Hi | apply nth_error_Some; congruence].
    + intros x Hx. right. apply I7. exact Hx.
    + intros m A Hqm. destruct (I8 m A Hqm) as (Q1 & Q2 & Q3 & Q4). split; [exact Q1|]. split; [|split].
      * intros x Hx. apply in_remove in Hx. apply Q2. tauto.
      * intros x Hx. destruct (Q3 x Hx) as [Ha Hb]. split; [exact Ha | right; exact Hb].
      * intros p Hp. destruct (Q4 p Hp) as [L E]. rewrite Hnth. destruct (Nat.eqb p (s mod n)); [|split; [exact L | exact E]].
        split; [rewrite app_length; lia|]. intros i x Hx. apply nth_error_snoc in Hx. destruct Hx as [[_ Hx]|[Hi Hx]]; [apply (E i x Hx)|].
        subst x. split; [intro; lia | intros _; apply Q2; exact Em].
  - (* CAck *)
    destruct (memb s (cw_appended st)) eqn:Em; [|constructor; auto]. apply memb_In in Em.
    constructor; cbn [cw_ctr cw_parts cw_waiting cw_inside cw_appended cw_acked cw_quiet]; auto.
    intros x [E|Hx]; [subst; exact Em | apply I7; exact Hx].
Qed.

Lemma nth_repeat_nil {A} n p : nth p (repeat (@nil A) n) [] = [].
Proof. revert p. induction n; intro p; destruct p; cbn; auto. Qed.

Lemma cwinit_inv n : cwinv n (cwinit n).
Proof.
  apply mkinv; unfold cwinit; cbn [cw_ctr cw_parts cw_waiting cw_inside cw_appended cw_acked cw_quiet].
  - apply repeat_length.
  - intros p _. rewrite nth_repeat_nil. reflexivity.
  - constructor.
  - intros s [].
  - intros p i s H. rewrite nth_repeat_nil in H. destruct i; discriminate.
  - intros s [].
  - intros s [].
  - intros m A [].
Qed.

Lemma cwrun_inv n ops : 0 < n -> cwinv n (cwrun true n ops).
Proof.
  intro Hn. unfold cwrun. pose proof (cwinit_inv n) as H. revert H. generalize (cwinit n).
  induction ops as [|o ops IH]; intros st H; [exact H|]. cbn. apply IH. apply cwstep_inv; assumption.
Qed.

Lemma length_le_total {A} (parts : list (list A)) p : length (nth p parts []) <= total parts.
Proof.
  revert p. induction parts as [|a r IH]; intro p; [destruct p; cbn; lia|]. unfold total in *. destruct p; cbn; [lia|].
  specialize (IH p). lia.
Qed.

(* With the barrier: take any entry into the exclusive section (counter value m at that moment). Every record of a slot below
   m - in particular every request acknowledged by then - is replayed before every record of a slot >= m - in particular every
   request that entered then or later - wherever the two records sit and whatever the requests that were inside together did
   to the order inside a partition. *)
Theorem barrier_order n ops m A p1 i1 s1 p2 i2 s2 : 0 < n -> In (m, A) (cw_quiet (cwrun true n ops)) ->
  nth_error (nth p1 (cw_parts (cwrun true n ops)) []) i1 = Some s1 ->
  nth_error (nth p2 (cw_parts (cwrun true n ops)) []) i2 = Some s2 ->
  s1 < m -> m <= s2 -> before s1 s2 (cw_replay (cwrun true n ops)).
Proof.
  intros Hn Hq H1 H2 Hlt Hge. pose proof (cwrun_inv n ops Hn) as I. set (st := cwrun true n ops) in *.
  destruct I as [I1 _ _ _ _ _ _ I8]. destruct (I8 m A Hq) as (_ & _ & _ & Q4).
  assert (P1 : p1 < n).
  { rewrite <- I1. destruct (Nat.lt_ge_cases p1 (length (cw_parts st))) as [|Hge1]; [assumption|].
    rewrite (nth_overflow _ _ Hge1) in H1. destruct i1; discriminate. }
  assert (P2 : p2 < n).
  { rewrite <- I1. destruct (Nat.lt_ge_cases p2 (length (cw_parts st))) as [|Hge2]; [assumption|].
    rewrite (nth_overflow _ _ Hge2) in H2. destruct i2; discriminate. }
  destruct (Q4 p1 P1) as [_ E1]. destruct (Q4 p2 P2) as [_ E2].
  assert (C1 : i1 < cnt n p1 m). { destruct (Nat.lt_ge_cases i1 (cnt n p1 m)) as [|Hc]; [assumption|]. apply (E1 i1 s1 H1) in Hc. lia. }
  assert (C2 : cnt n p2 m <= i2). { destruct (Nat.lt_ge_cases i2 (cnt n p2 m)) as [Hc|]; [|assumption]. apply (E2 i2 s2 H2) in Hc. lia. }
  unfold cw_replay. apply (replay_lex (total (cw_parts st)) (cw_parts st) p1 i1 p2 i2 s1 s2 H1 H2).
  - apply (staircase n m p1 p2 i1 i2 Hn P1 P2 C1 C2).
  - assert (i2 < length (nth p2 (cw_parts st) [])) by (apply nth_error_Some; congruence). pose proof (length_le_total (cw_parts st) p2). lia.
Qed.

(* ... and the requests acknowledged when the exclusive section was entered are on disk, with slots below m *)
Theorem acked_at_entry_on_disk n ops m A s : 0 < n -> In (m, A) (cw_quiet (cwrun true n ops)) -> In s A ->
  s < m /\ exists i, nth_error (nth (s mod n) (cw_parts (cwrun true n ops)) []) i = Some s.
Proof.
  intros Hn Hq Hs. pose proof (cwrun_inv n ops Hn) as I. destruct I as [_ _ _ _ _ I6 _ I8].
  destruct (I8 m A Hq) as (_ & _ & Q3 & _). destruct (Q3 s Hs) as [Ha Hb]. split; [exact Ha | apply (I6 s Hb)].
Qed.

(* sensitivity: without the exclusive section (a WAL.Write that takes its slot without first waiting for the requests inside)
   a request acknowledged before another one entered can be replayed after it: 2 partitions, request 0 takes slot 0 and stalls
   before its partition lock, request 1 (slot 1) is written and acknowledged, THEN request 2 enters, takes slot 2 (partition 0
   again), is written; request 0 is written last. Replay: 2, 1, 0 - request 1 after request 2. *)
Definition nobarrier_ops : list cwop := [CEnter; CSlot; CEnter; CSlot; CAppend 1; CAck 1; CEnter; CSlot; CAppend 2; CAck 2; CAppend 0; CAck 0].
Lemma nobarrier_inversion :
  cw_replay (cwrun false 2 nobarrier_ops) = [2; 1; 0] /\ In (2, [1]) (cw_quiet (cwrun false 2 nobarrier_ops)) /\
  cw_replay (cwrun true 2 nobarrier_ops) = [0].
Proof. vm_compute. repeat split; auto. Qed.
