(* C01 property theorems. *)
From Coq Require Import NArith ZArith List Bool Arith.
From Coq Require Import Permutation Sorted.
From OG Require Import C01.Model C01.Proofs C01.Proofs2 C01.Proofs3 C01.Proofs4 C01.Proofs5 C01.ProofsC C01.ModelF C01.ProofsF.
Import ListNotations.

(* records appended to partition (counter mod n) starting from counter 0, replayed one record per unfinished
   partition in partition order round after round, come back in append order - for every n > 0 and every list *)
Theorem replay_order_phase0 : forall (A : Type) (n : nat) (xs : list A), 0 < n ->
  replay (length xs) (distribute n 0 xs (repeat [] n)) = xs.
Proof. intros A n xs H. exact (replay_phase0 n xs H). Qed.
Print Assumptions replay_order_phase0.

(* Main theorem for the repaired variant (counter re-phased at every log switch, replay epoch by epoch, a flushed
   epoch's log removed as a whole): in EVERY reachable state of the history machine - any interleaving of acknowledged
   writes, log switches, data-file commits and log removals, which includes every crash position between the steps of
   a flush and every crash position inside recovery itself (recovery = switch, commit, removals of the same machine) -
   the store recovered from (committed data files, live log) equals the last-write-wins store of all acknowledged
   writes: nothing lost, nothing reverted, nothing invented. A torn last record is a write that is not in the history
   (it was never acknowledged); a complete unacknowledged record is a write that is. *)
Theorem C01_recovery_exact : forall (n : nat) (ops : list wop) (k : key), 0 < n ->
  recovered_repaired n (wrun ops) k = lww (acked (wrun ops)) k.
Proof. intros n ops k H. exact (recovery_exact_repaired n ops H k). Qed.
Print Assumptions C01_recovery_exact.

(* DROP MEASUREMENT in the history machine (WDrop m: acknowledged only after its own flush removed every closed epoch's log).
   C01_recovery_exact above already quantifies over op lists containing drops anywhere, also between any two flush steps;
   the three theorems below say what the acknowledged history is after a drop: exactly the cells of m are gone, every other
   measurement is untouched, and nothing of m comes back in ANY later state (any later writes to other measurements,
   flush steps, further drops, crash positions), i.e. recovery never brings back a dropped measurement. *)
Theorem C01_drop_spec : forall st m, drop_ready st m = true -> acked (wstep st (WDrop m)) = map (keep_not m) (acked st).
Proof. exact drop_spec. Qed.
Print Assumptions C01_drop_spec.

Theorem C01_drop_keeps_other_measurements : forall st m k, drop_ready st m = true -> mst_of k <> m ->
  lww (acked (wstep st (WDrop m))) k = lww (acked st) k.
Proof. exact drop_keeps_others. Qed.
Print Assumptions C01_drop_keeps_other_measurements.

Theorem C01_dropped_measurement_never_comes_back : forall n ops1 m ops2 k, 0 < n ->
  drop_ready (wrun ops1) m = true ->
  Forall (fun o => match o with WWrite b => has_mst m b = false | _ => True end) ops2 ->
  mst_of k = m ->
  recovered_repaired n (wrun (ops1 ++ WDrop m :: ops2)) k = None.
Proof. exact dropped_stays_dropped. Qed.
Print Assumptions C01_dropped_measurement_never_comes_back.

(* The memtable flush with its per-measurement skip (commitSnapshot leaves out every measurement that carries the deleting
   mark while the switched log is removed regardless), DROP MEASUREMENT as its steps (mark, flush, remove the data files,
   clear the mark), the volatile flags (the mark, replayingWal) and crashes that wipe them - machine xstate of Model.v, in
   the order that checks the replay flag before setting the mark. For EVERY interleaving of acknowledged writes, log
   switches, commits (with the skip in force at that moment), log removals, drop attempts (begun, refused, finished),
   crashes and replay completions, and every cell whose measurement has no unfinished drop (x_taint: a drop that began and
   was not acknowledged - running, or cut short by a crash): what a restart finds (data files as the commits wrote them,
   overlaid with the live log) is the last-write-wins state of the acknowledged history. So acknowledged rows are never
   discarded by a flush unless a drop of their measurement is under way; once the drop is acknowledged the equality holds
   again for that measurement too (XDropDone clears the taint and removes the cells from the acknowledged history). *)
Theorem C01_flush_skip_exact : forall (clear : bool) (ops : list xop) (k : key),
  ~ In (mst_of k) (x_taint (xrun false clear ops)) ->
  x_recovered (xrun false clear ops) k = lww (x_acked (xrun false clear ops)) k.
Proof. exact flush_skip_exact. Qed.
Print Assumptions C01_flush_skip_exact.

(* without any drop attempt nothing is ever tainted: exact for every cell, in both orders *)
Theorem C01_flush_exact_without_drops : forall (clear : bool) (ops : list xop) (k : key),
  Forall (fun o => match o with XDropBegin _ => False | _ => True end) ops ->
  x_recovered (xrun false clear ops) k = lww (x_acked (xrun false clear ops)) k.
Proof.
  intros clear ops k H. apply flush_skip_exact. rewrite (no_drop_no_taint false clear ops H). intros [].
Qed.
Print Assumptions C01_flush_exact_without_drops.

(* a DROP MEASUREMENT attempted while the log is being re-applied is refused and changes NOTHING - no mark, no taint, no
   data - whatever writes, flush steps, crashes happen between the attempt and the refusal: the run equals the run
   without the attempt *)
Theorem C01_refused_drop_changes_nothing : forall (clear : bool) (ops1 ops2 ops3 : list xop) (m : N),
  x_replaying (xrun false clear ops1) = true ->
  xrun false clear (ops1 ++ XDropBegin m :: ops2 ++ XDropRefused m :: ops3) = xrun false clear (ops1 ++ ops2 ++ ops3).
Proof. exact refused_drop_changes_nothing. Qed.
Print Assumptions C01_refused_drop_changes_nothing.

(* an acknowledged drop (mark set, every switched log removed, no row of m in the open epoch) removes exactly the cells
   of m from the acknowledged history *)
Theorem C01_xdrop_spec : forall (early clear : bool) (st : xstate) (m : N),
  memNb m (x_marks st) && Nat.eqb (length (x_logs st)) 0 && negb (existsb (has_mst m) (x_open st)) = true ->
  x_acked (xstep early clear st (XDropDone m)) = map (keep_not m) (x_acked st).
Proof. exact xdrop_spec. Qed.
Print Assumptions C01_xdrop_spec.

(* sensitivity (model only, not reproduced on the code - it needs a flush to run between two adjacent statements of
   DropMeasurement): in today's order (mark first, replay check second) a flush between the mark and the refusal discards
   an acknowledged row although the drop was refused and nothing is pending afterwards *)
Theorem refused_drop_window_in_todays_order :
  x_taint (xrun true true window_ops) = [] /\ x_marks (xrun true true window_ops) = [] /\
  lww (x_acked (xrun true true window_ops)) kx = Some 5%Z /\ x_recovered (xrun true true window_ops) kx = None.
Proof. exact early_mark_window. Qed.
Print Assumptions refused_drop_window_in_todays_order.

(* sensitivity (documented mutant): a refusal that leaves the mark set makes the next flush discard the measurement's
   acknowledged rows; with the mark cleared (either order) they survive *)
Theorem stale_deleting_mark_loses_rows :
  lww (x_acked (xrun true false stale_ops)) kx = Some 6%Z /\ x_recovered (xrun true false stale_ops) kx = None /\
  x_recovered (xrun true true stale_ops) kx = Some 6%Z /\ x_recovered (xrun false true stale_ops) kx = Some 6%Z.
Proof. exact stale_mark_loses. Qed.
Print Assumptions stale_deleting_mark_loses_rows.

(* non-vacuity: two measurements (series 1000.. = measurement 1, series 2000.. = measurement 2); a drop of measurement 1
   runs to its end while measurement 2 is written; a second drop of measurement 2 is cut short by a crash after its flush:
   measurement 1 is exact (its re-written cell is there, the dropped one is not), measurement 2 is tainted (its last
   overwrite was discarded by the drop's flush, the older flushed value shows) *)
Example flush_skip_example :
  let k1 := (1000, 1, 1)%N in let k1' := (1000, 2, 1)%N in let k2 := (2000, 1, 1)%N in
  let ops := [XWrite [(k1, 1%Z); (k2, 2%Z)]; XSwitch; XCommit; XRemove; XWrite [(k2, 3%Z)];
              XDropBegin 1%N; XSwitch; XCommit; XRemove; XDropDone 1%N; XWrite [(k1', 4%Z); (k2, 5%Z)];
              XDropBegin 2%N; XSwitch; XCommit; XRemove; XCrash] in
  x_taint (xrun false true ops) = [2%N] /\ x_recovered (xrun false true ops) k1 = None /\
  x_recovered (xrun false true ops) k1' = Some 4%Z /\ lww (x_acked (xrun false true ops)) k1' = Some 4%Z /\
  lww (x_acked (xrun false true ops)) k2 = Some 5%Z /\ x_recovered (xrun false true ops) k2 = Some 3%Z.
Proof. vm_compute. repeat split; reflexivity. Qed.

(* Design sketch for a repair of C01-walphase WITHOUT an epoch tag in the file name (NOTES.md; not a patch): one file number
   per switch epoch shared by all partitions, counter re-phased at the switch, partition 0's file created before the epoch's
   first record and removed FIRST, an epoch without its partition-0 file ignored at restart, live epochs replayed one after
   the other. For every history, every n > 0 and EVERY number j of files already removed from the oldest live epoch (its
   removal may only start after its commit: nj < nf): recovery from the files that are left equals the last-write-wins
   state of the acknowledged writes - the file-by-file removal is atomic for recovery. *)
Theorem C01_marker_first_removal_exact : forall (n : nat) (ops : list wop) (j : nat) (k : key), 0 < n ->
  (j = 0 \/ nj (wrun ops) < nf (wrun ops)) ->
  recovered_disk n (wrun ops) j k = lww (acked (wrun ops)) k.
Proof. exact recovered_disk_exact. Qed.
Print Assumptions C01_marker_first_removal_exact.

(* non-vacuity: 3 partitions, a committed epoch of four records with an overwrite in it, its removal interrupted after one
   and after two files (today's layout reverts the overwrite in such a state: Refuted.v C01_current_partial_removal_reverts) *)
Example marker_first_example :
  let ops := [WWrite [((1, 1, 1)%N, 10%Z)]; WWrite [((1, 1, 1)%N, 11%Z)]; WWrite [((1, 2, 1)%N, 12%Z)]; WWrite [((1, 1, 1)%N, 13%Z)];
              WSwitch; WCommit; WWrite [((1, 2, 1)%N, 14%Z)]] in
  nj (wrun ops) < nf (wrun ops) /\
  recovered_disk 3 (wrun ops) 1 (1, 1, 1)%N = Some 13%Z /\ recovered_disk 3 (wrun ops) 2 (1, 1, 1)%N = Some 13%Z /\
  recovered_disk 3 (wrun ops) 2 (1, 2, 1)%N = Some 14%Z.
Proof. vm_compute. repeat split; try reflexivity; auto. Qed.

(* Concurrent write requests (machine cwstate of Model.v: exclusive section at the head of WAL.Write, then - holding the WAL
   lock shared - slot = counter++, append to partition slot mod n under the partition lock, release, acknowledge; requests
   that are inside together may append to one partition in ANY order). For every n > 0 and EVERY schedule: take any entry
   into the exclusive section, m = the counter value at that moment. Every record with a slot below m is replayed before every
   record with a slot >= m, wherever the two sit. Requests acknowledged by that moment have slots below m and are on disk
   (second theorem); a request that enters then or later gets a slot >= m. So the replay order respects the order
   "acknowledged before the other one started" - for the log of one switch epoch starting at counter 0, i.e. for the
   repaired replay (C01_recovery_exact takes it from there, epoch by epoch). *)
Theorem C01_barrier_replay_respects_ack_order : forall (n : nat) (ops : list cwop) (m : nat) (A : list nat) (p1 i1 s1 p2 i2 s2 : nat),
  0 < n -> In (m, A) (cw_quiet (cwrun true n ops)) ->
  nth_error (nth p1 (cw_parts (cwrun true n ops)) []) i1 = Some s1 ->
  nth_error (nth p2 (cw_parts (cwrun true n ops)) []) i2 = Some s2 ->
  s1 < m -> m <= s2 -> before s1 s2 (cw_replay (cwrun true n ops)).
Proof. exact barrier_order. Qed.
Print Assumptions C01_barrier_replay_respects_ack_order.

Theorem C01_acked_at_entry_on_disk : forall (n : nat) (ops : list cwop) (m : nat) (A : list nat) (s : nat),
  0 < n -> In (m, A) (cw_quiet (cwrun true n ops)) -> In s A ->
  s < m /\ exists i, nth_error (nth (s mod n) (cw_parts (cwrun true n ops)) []) i = Some s.
Proof. exact acked_at_entry_on_disk. Qed.
Print Assumptions C01_acked_at_entry_on_disk.

(* the replay order of any log is the lexicographic order of (position inside the partition, partition number) *)
Theorem C01_replay_order_is_lexicographic : forall (A : Type) (F : nat) (parts : list (list A)) (p1 i1 p2 i2 : nat) (x y : A),
  nth_error (nth p1 parts []) i1 = Some x -> nth_error (nth p2 parts []) i2 = Some y ->
  i1 < i2 \/ (i1 = i2 /\ p1 < p2) -> i2 < F -> before x y (replay F parts).
Proof. intros A F. exact (replay_lex F). Qed.
Print Assumptions C01_replay_order_is_lexicographic.

(* sensitivity (model only; today's code HAS the exclusive section, the harness checks on every run that a request held at
   its log append keeps later requests from being acknowledged): without it request 1, acknowledged before request 2
   entered, is replayed after it *)
Theorem no_barrier_inversion :
  cw_replay (cwrun false 2 nobarrier_ops) = [2; 1; 0] /\ In (2, [1]) (cw_quiet (cwrun false 2 nobarrier_ops)) /\
  cw_replay (cwrun true 2 nobarrier_ops) = [0].
Proof. exact nobarrier_inversion. Qed.
Print Assumptions no_barrier_inversion.

(* non-vacuity: 2 partitions, requests 0 and 2 are inside together and append to partition 0 in swapped order; request 1 was
   acknowledged before the entry at counter 3; request 3 entered there *)
Example barrier_example :
  let ops := [CEnter; CEnter; CEnter; CSlot; CSlot; CSlot; CAppend 2; CAppend 1; CAck 1; CAppend 0; CAck 0; CAck 2; CEnter; CSlot; CAppend 3] in
  cw_parts (cwrun true 2 ops) = [[2; 0]; [1; 3]] /\ In (3, [2; 0; 1]) (cw_quiet (cwrun true 2 ops)) /\ cw_replay (cwrun true 2 ops) = [2; 1; 0; 3].
Proof. vm_compute. repeat split; auto. Qed.

(* PROVED DESIGN for a repair of C01-walphase (ModelF.v; no patch lands, see NOTES.md): file names <epoch>_<rot>.wal, one epoch
   number per log switch shared by all partitions, counter re-phased at the switch, partition 0's <epoch>_0.wal created before
   the epoch's first record (the marker) and removed FIRST, size rotation per partition inside the epoch, restart = list the
   directory in ANY order, sort by epoch number, ignore epochs without marker, replay the live ones one after the other, next
   epoch number above everything on disk; an old-layout log is era 0: marker first, then renamed file by file, removed only
   when no old name is left. For every n > 0, every start (empty log or any old-layout log), EVERY sequence of the file-level
   steps - marker creation, file creation, append, rotation, switch, commit, marker removal, orphan file removal, upgrade
   steps, crash (which forgets the volatile state), in any order and any number, so a crash between any two steps and crashes
   during recovery are included - and every directory listing: what the restart recovers (data files + replayed log) is the
   last-write-wins state of the acknowledged history; the acknowledged history is the old-layout log's content in its replay
   order followed by every appended batch (second theorem). *)
Theorem C01_file_level_recovery_exact : forall (n : nat) (legacy : option (list (list (list batch)) * nat)) (ops : list fop)
    (listing : list lentry) (k : key),
  0 < n -> Permutation listing (on_disk (frun n legacy ops)) ->
  recovered_f (frun n legacy ops) listing k = lww (acked (f_g (frun n legacy ops))) k.
Proof. exact file_level_recovery_exact. Qed.
Print Assumptions C01_file_level_recovery_exact.

Theorem C01_file_level_acked_history : forall (n : nat) (st : fstate) (o : fop),
  acked (f_g (fstep n st o)) = acked (f_g st) ++ match o, f_cure st with FAppend b, Some _ => [b] | _, _ => [] end.
Proof. exact acked_step. Qed.
Print Assumptions C01_file_level_acked_history.

(* non-vacuity: 2 partitions, an old-layout log with two records of one cell; upgrade (marker, rename); an epoch of three
   appends with a size rotation of partition 0 in it; switch; a fourth append; commit, commit; the old era's and the first
   epoch's markers removed (their other files stay behind as orphans); crash. Listing in reverse order. *)
Example file_level_example :
  let kx := (1, 1, 1)%N in
  let ops := [FUpMarker; FUpRename; FOpen; FAppend [(kx, 3%Z)]; FRotate 0; FAppend [(kx, 4%Z)]; FAppend [(kx, 5%Z)]; FSwitch;
              FOpen; FAppend [(kx, 6%Z)]; FCommit; FCommit; FRemoveMarker; FRemoveMarker; FCrash] in
  let st := frun 2 (Some ([[[[(kx, 1%Z)]]]; [[[(kx, 2%Z)]]]], 0)) ops in
  length (f_orph st) = 2 /\ length (f_closed st) = 1 /\ f_cur st = 3 /\
  recovered_f st (rev (on_disk st)) kx = Some 6%Z /\ lww (acked (f_g st)) kx = Some 6%Z /\
  forallb (fun e => negb (le_live e)) (f_orph st) = true /\ map (fun e => length (concat (pconcat e))) (f_orph st) = [3; 2].
Proof. vm_compute. repeat split; reflexivity. Qed.

(* Asynchronous replay (machine astate of Model.v): replay steps interleaved in ANY way with new write requests. The ordering
   rule that makes it correct - replayed records are kept below the writes acknowledged since the restart (a table of their
   own, read under the active one and flushed before it): at every moment a read shows the last-write-wins state of data
   files ++ the records re-applied so far ++ the new writes, as if the re-applied part of the log had come first. Today's
   single table is refuted in Refuted.v (finding C01-asyncreplay). *)
Theorem C01_async_two_tables_exact : forall (files log : list batch) (ops : list aop) (k : key),
  a_read false (arun files log ops) k = lww (files ++ a_done (arun files log ops) ++ a_new (arun files log ops)) k.
Proof. exact async_two_tables_exact. Qed.
Print Assumptions C01_async_two_tables_exact.

(* re-applying in order a part of the history that is already in the data files changes nothing (replay of a log
   whose prefix is flushed) *)
Theorem replay_idempotent : forall (a b c : list batch) (k : key),
  over (lww (a ++ b)) (lww (b ++ c)) k = lww (a ++ b ++ c) k.
Proof. intros a b c k. exact (over_overlap a b c k). Qed.
Print Assumptions replay_idempotent.

(* order of a partition's log files at restart: files created with increasing sequence numbers come back in creation
   order - hence their records in append order - from ANY directory listing, when the comparator is the numeric order *)
Theorem wal_file_order_numeric : forall (B : Type) (created listing : list (@wfile B)),
  StronglySorted klt created -> Permutation listing created -> sort_files Nat.ltb listing = created.
Proof. intros B created listing Hs Hp. exact (restore_numeric created listing Hs Hp). Qed.
Print Assumptions wal_file_order_numeric.

(* restoreLog's comparator on the decimal file names (shorter name first, then string order) is the numeric order for ALL
   sequence numbers (induction on digit lists: canonical decimal representation, value bounds by length) ... *)
Theorem wal_file_name_order_is_numeric : forall a b : nat, name_ltb a b = Nat.ltb a b.
Proof. exact name_ltb_is_numeric. Qed.
Print Assumptions wal_file_name_order_is_numeric.

(* ... so replay reads the records of a partition in write order from any directory listing *)
Theorem wal_file_restore_order : forall (B : Type) (created listing : list (@wfile B)),
  StronglySorted klt created -> Permutation listing created ->
  restore_records name_ltb listing = concat (map snd created).
Proof. intros B created listing Hs Hp. exact (restore_code_order created listing Hs Hp). Qed.
Print Assumptions wal_file_restore_order.

(* sensitivity (documented mutant, not a finding): a plain string comparison of the names replays 10.wal before 9.wal *)
Theorem wal_file_order_lexicographic_refuted :
  restore_records name_ltb_lex [(9, [1%Z]); (10, [2%Z])] = [2%Z; 1%Z] /\ restore_records name_ltb [(10, [2%Z]); (9, [1%Z])] = [1%Z; 2%Z].
Proof. exact lex_order_refuted. Qed.
Print Assumptions wal_file_order_lexicographic_refuted.

(* series index: with the flush order log switch -> index flush -> data-file commit -> log removal, for EVERY interleaving
   of writes (also of brand-new series), flush steps and background index flushes - i.e. at every crash prefix - every
   series that has rows in data files is in the durable index or in a live log record (replay re-creates it) *)
Theorem index_durable_every_crash_prefix : forall ops : list iop, recoverable (irun good_order ops) = true.
Proof. exact index_durable_good_order. Qed.
Print Assumptions index_durable_every_crash_prefix.

(* sensitivity (documented mutant): flushing the index only after the log removal loses a new series at a crash *)
Theorem index_flush_last_refuted : recoverable (irun index_last_order [IWrite 7%N; IStep; IStep; IStep]) = false.
Proof. exact index_last_refuted. Qed.
Print Assumptions index_flush_last_refuted.

(* record framing [type:1][len:4 big endian][payload], for ALL record types 1..2 (line protocol, Arrow), ALL payloads below
   4 GiB and whatever follows in the file: the reader gives back exactly the record and the rest ... *)
Theorem C01_frame_read_back : forall (typ : N) (payload rest : list N), (0 < typ)%N -> (typ < 3)%N ->
  (N.of_nat (length payload) < 4294967296)%N -> read_frame (frame typ payload ++ rest) = Record typ payload rest.
Proof. exact frame_read_back. Qed.
Print Assumptions C01_frame_read_back.

(* ... and EVERY strict byte prefix of a framed record (a torn append at any byte) is refused: a torn record is never applied *)
Theorem C01_torn_record_rejected : forall (typ : N) (payload : list N) (k : nat), (N.of_nat (length payload) < 4294967296)%N ->
  k < length (frame typ payload) -> read_frame (firstn k (frame typ payload)) = Incomplete.
Proof. exact torn_frame_rejected. Qed.
Print Assumptions C01_torn_record_rejected.

(* a concrete framed record: every strict prefix is classified incomplete, the whole record is read back *)
Example torn_record_rejected_example :
  forallb (fun k => match read_frame (firstn k ex_frame) with Incomplete => true | _ => false end) (seq 0 (length ex_frame)) = true
  /\ read_frame ex_frame = Record 1 [10; 20; 30; 40; 50; 60; 70]%N [].
Proof. exact ex_frame_prefixes_rejected. Qed.

(* non-vacuity: a 3-partition history with a flush in the middle and a crash between commit and log removal *)
Example repaired_example :
  let ops := [WWrite [((1, 1, 1)%N, 10%Z)]; WWrite [((1, 1, 1)%N, 11%Z)]; WWrite [((1, 2, 1)%N, 12%Z)]; WWrite [((1, 1, 1)%N, 13%Z)];
              WSwitch; WCommit; WWrite [((1, 1, 1)%N, 14%Z)]; WWrite [((1, 1, 1)%N, 15%Z)]] in
  recovered_repaired 3 (wrun ops) (1, 1, 1)%N = Some 15%Z /\ recovered_repaired 3 (wrun ops) (1, 2, 1)%N = Some 12%Z.
Proof. vm_compute. split; reflexivity. Qed.
