(* C01 property theorems. *)
From Coq Require Import NArith ZArith List Bool Arith.
From OG Require Import C01.Model C01.Proofs.
Import ListNotations.

(* records appended to partition (counter mod n) starting from counter 0, replayed one record per unfinished
   partition in partition order round after round, come back in append order - for every n > 0 and every list *)
Theorem replay_order_phase0 : forall (A : Type) (n : nat) (xs : list A), 0 < n ->
  replay (length xs) (distribute n 0 xs (repeat [] n)) = xs.
Proof. intros A n xs H. exact (replay_phase0 n xs H). Qed.
Print Assumptions replay_order_phase0.

(* Main theorem for the repaired variant (counter re-phased at every log switch, replay epoch by epoch, a flushed
   epoch's log removed as a whole): in EVERY reachable state of the history machine - any interleaving of acknowledged
   writes, log switches, data-file commits and log removals, which includes every crash position between the steps of
   a flush and every crash position inside recovery itself (recovery = switch, commit, removals of the same machine) -
   the store recovered from (committed data files, live log) equals the last-write-wins store of all acknowledged
   writes: nothing lost, nothing reverted, nothing invented. A torn last record is a write that is not in the history
   (it was never acknowledged); a complete unacknowledged record is a write that is. *)
Theorem C01_recovery_exact : forall (n : nat) (ops : list wop) (k : key), 0 < n ->
  recovered_repaired n (wrun ops) k = lww (acked (wrun ops)) k.
Proof. intros n ops k H. exact (recovery_exact_repaired n ops H k). Qed.
Print Assumptions C01_recovery_exact.

(* re-applying in order a part of the history that is already in the data files changes nothing (replay of a log
   whose prefix is flushed) *)
Theorem replay_idempotent : forall (a b c : list batch) (k : key),
  over (lww (a ++ b)) (lww (b ++ c)) k = lww (a ++ b ++ c) k.
Proof. intros a b c k. exact (over_overlap a b c k). Qed.
Print Assumptions replay_idempotent.

(* a concrete framed record: every strict prefix is classified incomplete, the whole record is read back *)
Example torn_record_rejected_example :
  forallb (fun k => match read_frame (firstn k ex_frame) with Incomplete => true | _ => false end) (seq 0 (length ex_frame)) = true
  /\ read_frame ex_frame = Record 1 [10; 20; 30; 40; 50; 60; 70]%N [].
Proof. exact ex_frame_prefixes_rejected. Qed.

(* non-vacuity: a 3-partition history with a flush in the middle and a crash between commit and log removal *)
Example repaired_example :
  let ops := [WWrite [((1, 1, 1)%N, 10%Z)]; WWrite [((1, 1, 1)%N, 11%Z)]; WWrite [((1, 2, 1)%N, 12%Z)]; WWrite [((1, 1, 1)%N, 13%Z)];
              WSwitch; WCommit; WWrite [((1, 1, 1)%N, 14%Z)]; WWrite [((1, 1, 1)%N, 15%Z)]] in
  recovered_repaired 3 (wrun ops) (1, 1, 1)%N = Some 15%Z /\ recovered_repaired 3 (wrun ops) (1, 2, 1)%N = Some 12%Z.
Proof. vm_compute. split; reflexivity. Qed.
