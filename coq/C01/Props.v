(* C01 property theorems. *)
From Coq Require Import NArith ZArith List Bool Arith.
From Coq Require Import Permutation Sorted.
From OG Require Import C01.Model C01.Proofs C01.Proofs2.
Import ListNotations.

(* records appended to partition (counter mod n) starting from counter 0, replayed one record per unfinished
   partition in partition order round after round, come back in append order - for every n > 0 and every list *)
Theorem replay_order_phase0 : forall (A : Type) (n : nat) (xs : list A), 0 < n ->
  replay (length xs) (distribute n 0 xs (repeat [] n)) = xs.
Proof. intros A n xs H. exact (replay_phase0 n xs H). Qed.
Print Assumptions replay_order_phase0.

(* Main theorem for the repaired variant (counter re-phased at every log switch, replay epoch by epoch, a flushed
   epoch's log removed as a whole): in EVERY reachable state of the history machine - any interleaving of acknowledged
   writes, log switches, data-file commits and log removals, which includes every crash position between the steps of
   a flush and every crash position inside recovery itself (recovery = switch, commit, removals of the same machine) -
   the store recovered from (committed data files, live log) equals the last-write-wins store of all acknowledged
   writes: nothing lost, nothing reverted, nothing invented. A torn last record is a write that is not in the history
   (it was never acknowledged); a complete unacknowledged record is a write that is. *)
Theorem C01_recovery_exact : forall (n : nat) (ops : list wop) (k : key), 0 < n ->
  recovered_repaired n (wrun ops) k = lww (acked (wrun ops)) k.
Proof. intros n ops k H. exact (recovery_exact_repaired n ops H k). Qed.
Print Assumptions C01_recovery_exact.

(* DROP MEASUREMENT in the history machine (WDrop m: acknowledged only after its own flush removed every closed epoch's log).
   C01_recovery_exact above already quantifies over op lists containing drops anywhere, also between any two flush steps;
   the three theorems below say what the acknowledged history is after a drop: exactly the cells of m are gone, every other
   measurement is untouched, and nothing of m comes back in ANY later state (any later writes to other measurements,
   flush steps, further drops, crash positions), i.e. recovery never brings back a dropped measurement. *)
Theorem C01_drop_spec : forall st m, drop_ready st m = true -> acked (wstep st (WDrop m)) = map (keep_not m) (acked st).
Proof. exact drop_spec. Qed.
Print Assumptions C01_drop_spec.

Theorem C01_drop_keeps_other_measurements : forall st m k, drop_ready st m = true -> mst_of k <> m ->
  lww (acked (wstep st (WDrop m))) k = lww (acked st) k.
Proof. exact drop_keeps_others. Qed.
Print Assumptions C01_drop_keeps_other_measurements.

Theorem C01_dropped_measurement_never_comes_back : forall n ops1 m ops2 k, 0 < n ->
  drop_ready (wrun ops1) m = true ->
  Forall (fun o => match o with WWrite b => has_mst m b = false | _ => True end) ops2 ->
  mst_of k = m ->
  recovered_repaired n (wrun (ops1 ++ WDrop m :: ops2)) k = None.
Proof. exact dropped_stays_dropped. Qed.
Print Assumptions C01_dropped_measurement_never_comes_back.

(* re-applying in order a part of the history that is already in the data files changes nothing (replay of a log
   whose prefix is flushed) *)
Theorem replay_idempotent : forall (a b c : list batch) (k : key),
  over (lww (a ++ b)) (lww (b ++ c)) k = lww (a ++ b ++ c) k.
Proof. intros a b c k. exact (over_overlap a b c k). Qed.
Print Assumptions replay_idempotent.

(* order of a partition's log files at restart: files created with increasing sequence numbers come back in creation
   order - hence their records in append order - from ANY directory listing, when the comparator is the numeric order *)
Theorem wal_file_order_numeric : forall (B : Type) (created listing : list (@wfile B)),
  StronglySorted klt created -> Permutation listing created -> sort_files Nat.ltb listing = created.
Proof. intros B created listing Hs Hp. exact (restore_numeric created listing Hs Hp). Qed.
Print Assumptions wal_file_order_numeric.

(* restoreLog's comparator on the decimal file names (shorter name first, then string order) is the numeric order for ALL
   sequence numbers (induction on digit lists: canonical decimal representation, value bounds by length) ... *)
Theorem wal_file_name_order_is_numeric : forall a b : nat, name_ltb a b = Nat.ltb a b.
Proof. exact name_ltb_is_numeric. Qed.
Print Assumptions wal_file_name_order_is_numeric.

(* ... so replay reads the records of a partition in write order from any directory listing *)
Theorem wal_file_restore_order : forall (B : Type) (created listing : list (@wfile B)),
  StronglySorted klt created -> Permutation listing created ->
  restore_records name_ltb listing = concat (map snd created).
Proof. intros B created listing Hs Hp. exact (restore_code_order created listing Hs Hp). Qed.
Print Assumptions wal_file_restore_order.

(* sensitivity (documented mutant, not a finding): a plain string comparison of the names replays 10.wal before 9.wal *)
Theorem wal_file_order_lexicographic_refuted :
  restore_records name_ltb_lex [(9, [1%Z]); (10, [2%Z])] = [2%Z; 1%Z] /\ restore_records name_ltb [(10, [2%Z]); (9, [1%Z])] = [1%Z; 2%Z].
Proof. exact lex_order_refuted. Qed.
Print Assumptions wal_file_order_lexicographic_refuted.

(* series index: with the flush order log switch -> index flush -> data-file commit -> log removal, for EVERY interleaving
   of writes (also of brand-new series), flush steps and background index flushes - i.e. at every crash prefix - every
   series that has rows in data files is in the durable index or in a live log record (replay re-creates it) *)
Theorem index_durable_every_crash_prefix : forall ops : list iop, recoverable (irun good_order ops) = true.
Proof. exact index_durable_good_order. Qed.
Print Assumptions index_durable_every_crash_prefix.

(* sensitivity (documented mutant): flushing the index only after the log removal loses a new series at a crash *)
Theorem index_flush_last_refuted : recoverable (irun index_last_order [IWrite 7%N; IStep; IStep; IStep]) = false.
Proof. exact index_last_refuted. Qed.
Print Assumptions index_flush_last_refuted.

(* a concrete framed record: every strict prefix is classified incomplete, the whole record is read back *)
Example torn_record_rejected_example :
  forallb (fun k => match read_frame (firstn k ex_frame) with Incomplete => true | _ => false end) (seq 0 (length ex_frame)) = true
  /\ read_frame ex_frame = Record 1 [10; 20; 30; 40; 50; 60; 70]%N [].
Proof. exact ex_frame_prefixes_rejected. Qed.

(* non-vacuity: a 3-partition history with a flush in the middle and a crash between commit and log removal *)
Example repaired_example :
  let ops := [WWrite [((1, 1, 1)%N, 10%Z)]; WWrite [((1, 1, 1)%N, 11%Z)]; WWrite [((1, 2, 1)%N, 12%Z)]; WWrite [((1, 1, 1)%N, 13%Z)];
              WSwitch; WCommit; WWrite [((1, 1, 1)%N, 14%Z)]; WWrite [((1, 1, 1)%N, 15%Z)]] in
  recovered_repaired 3 (wrun ops) (1, 1, 1)%N = Some 15%Z /\ recovered_repaired 3 (wrun ops) (1, 2, 1)%N = Some 12%Z.
Proof. vm_compute. split; reflexivity. Qed.
