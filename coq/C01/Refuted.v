(* C01: today's code (one never-reset write counter, round-robin replay across epochs starting at partition 0) violates
   the property. Witness of DESIGN.md: 16 partitions; 15 single-point writes; flush (switch, commit, log removal);
   write (s,t)=111; write (s,t)=222; crash. Record 111 is in partition 15, record 222 in partition 0, replay applies
   222 then 111: the older value is recovered. *)
From Coq Require Import NArith ZArith List Bool Arith.
From OG Require Import C01.Proofs3 C01.Model.
Import ListNotations.

Definition w_ops : list wop :=
  map (fun i => WWrite [((1, N.of_nat i, 1)%N, Z.of_nat (1000 + i))]) (seq 0 15) ++
  [WSwitch; WCommit; WRemove; WWrite [((1, 3, 1)%N, 111%Z)]; WWrite [((1, 3, 1)%N, 222%Z)]].

Theorem C01_current_reverts_overwrite :
  exists (n : nat) (ops : list wop) (k : key), 0 < n /\ recovered_current n (wrun ops) [] k <> lww (acked (wrun ops)) k.
Proof.
  exists 16, w_ops, (1, 3, 1)%N. split; [apply Nat.lt_0_succ|]. vm_compute. discriminate.
Qed.
Print Assumptions C01_current_reverts_overwrite.

(* second witness: resetting the counter at the switch is not enough while replay still interleaves epochs - here the
   crash happens between the data-file commit and the log removal (two epochs live), 2 partitions: epoch 1 = one write
   (partition 0), epoch 2 = two writes to the same cell; even with the counter re-phased to 0 at the switch, partition 0
   holds [w1; a] and partition 1 holds [b], and the cyclic reader yields w1, b, a. *)
Definition rephased_parts : list (list batch) :=
  [[ [((1, 9, 1)%N, 1%Z)]; [((1, 3, 1)%N, 111%Z)] ]; [ [((1, 3, 1)%N, 222%Z)] ]].
Theorem C01_counter_reset_alone_is_not_enough :
  lww (replay 3 rephased_parts) (1, 3, 1)%N = Some 111%Z.
Proof. vm_compute. reflexivity. Qed.
Print Assumptions C01_counter_reset_alone_is_not_enough.

(* third witness: log files of a flushed epoch are removed one by one; a crash after the file holding the newer
   record was removed and before the file holding the older one is removed re-applies the older value over the data
   files (2 partitions: writes a then b to one cell, flush, partition 1 (b) already removed) *)
Theorem C01_current_partial_removal_reverts :
  let ops := [WWrite [((1, 3, 1)%N, 111%Z)]; WWrite [((1, 3, 1)%N, 222%Z)]; WSwitch; WCommit] in
  recovered_current 2 (wrun ops) [1] (1, 3, 1)%N = Some 111%Z /\ lww (acked (wrun ops)) (1, 3, 1)%N = Some 222%Z.
Proof. vm_compute. split; reflexivity. Qed.
Print Assumptions C01_current_partial_removal_reverts.

(* finding C01-asyncreplay: with one table for replayed records and new writes, a write acknowledged during the asynchronous
   replay (value 2) is overwritten by the older logged value (1) when the replay reaches that record *)
Theorem C01_async_replay_reverts_new_write :
  let st := arun [] [[(ka, 1%Z)]] [AWrite [(ka, 2%Z)]; AReplayOne] in
  a_log st = [] /\ a_read true st ka = Some 1%Z /\ a_read false st ka = Some 2%Z /\ lww ([] ++ a_done st ++ a_new st) ka = Some 2%Z.
Proof. exact async_one_table_reverts. Qed.
Print Assumptions C01_async_replay_reverts_new_write.
