(* C01 proofs, part 4: the epoch-numbered log layout of the repair sketch - partition 0's file as the epoch's marker makes
   the file-by-file removal of an epoch atomic for recovery, and recovery from the files is exact. *)
From Coq Require Import NArith ZArith List Bool Arith Lia.
From OG Require Import C01.Model C01.Proofs.
Import ListNotations.

Lemma app_at_length {A} i (x : A) parts : length (app_at i x parts) = length parts.
Proof. revert i. induction parts as [|p r IH]; intro i; [destruct i; reflexivity|]. destruct i; cbn; [reflexivity | rewrite IH; reflexivity]. Qed.

Lemma total_app_at {A} i (x : A) parts : i < length parts -> total (app_at i x parts) = S (total parts).
Proof.
  revert i. induction parts as [|p r IH]; intros i H; [cbn in H; lia|]. destruct i; cbn.
  - rewrite app_length. cbn. unfold total. lia.
  - cbn in H. unfold total in *. cbn. rewrite IH by lia. lia.
Qed.

Lemma distribute_length {A} n (xs : list A) : forall ph parts, length (distribute n ph xs parts) = length parts.
Proof. induction xs as [|x xs IH]; intros ph parts; [reflexivity|]. cbn. rewrite IH. apply app_at_length. Qed.

Lemma total_distribute {A} n (xs : list A) : 0 < n -> forall ph parts, length parts = n ->
  total (distribute n ph xs parts) = length xs + total parts.
Proof.
  intro Hn. induction xs as [|x xs IH]; intros ph parts Hl; [reflexivity|]. cbn [distribute length].
  rewrite IH by (rewrite app_at_length; exact Hl). rewrite total_app_at; [lia|]. rewrite Hl. apply Nat.mod_upper_bound. lia.
Qed.

Lemma total_repeat_nil {A} n : total (repeat (@nil A) n) = 0.
Proof. induction n; [reflexivity|]. cbn. exact IHn. Qed.

Lemma unwrap_wrap parts : unwrap (wrap_epoch parts) = parts.
Proof.
  destruct parts as [|p0 r]; [reflexivity|]. cbn. f_equal. rewrite map_map. rewrite <- (map_id r) at 2. apply map_ext.
  intro p. destruct p; reflexivity.
Qed.

Lemma epoch_files_live n e : 0 < n -> epoch_live (epoch_files n e) = true.
Proof.
  intro Hn. unfold epoch_files. pose proof (distribute_length n e 0 (repeat [] n)) as Hl. rewrite repeat_length in Hl.
  destruct (distribute n 0 e (repeat [] n)); [cbn in Hl; lia | reflexivity].
Qed.

(* an untouched epoch is replayed from its files in write order *)
Lemma replay_epoch_exact n e : 0 < n -> replay_epoch_files (epoch_files n e) = e.
Proof.
  intro Hn. unfold replay_epoch_files. rewrite (epoch_files_live n e Hn). unfold epoch_files. rewrite unwrap_wrap.
  rewrite (total_distribute n e Hn 0 (repeat [] n) (repeat_length _ _)), total_repeat_nil, Nat.add_0_r.
  apply replay_phase0. exact Hn.
Qed.

(* as soon as the removal has taken its first step the epoch is not live any more, whatever else is still there *)
Lemma removal_started_dead n e j : 0 < n -> replay_epoch_files (remove_files (S j) (epoch_files n e)) = [].
Proof.
  intro Hn. unfold replay_epoch_files, epoch_files. pose proof (distribute_length n e 0 (repeat [] n)) as Hl. rewrite repeat_length in Hl.
  destruct (distribute n 0 e (repeat [] n)); [cbn in Hl; lia | reflexivity].
Qed.

Lemma remove_zero ef : remove_files 0 ef = ef.
Proof. induction ef as [|o r IH]; [reflexivity|]. destruct o; cbn; [reflexivity | rewrite IH; reflexivity]. Qed.

Lemma replay_disk_all n eps : 0 < n -> replay_disk (map (epoch_files n) eps) = concat eps.
Proof.
  intro Hn. unfold replay_disk. rewrite map_map. f_equal. rewrite <- (map_id eps) at 2. apply map_ext. intro e. apply replay_epoch_exact. exact Hn.
Qed.

Lemma live_epochs_cons st : exists e r, live_epochs st = e :: r.
Proof.
  unfold live_epochs. destruct (skipn (nj st) (closed st)) as [|e r]; [exists (opn st), []; reflexivity | exists e, (r ++ [opn st]); reflexivity].
Qed.

Lemma skipn_cons {B} (l : list B) : forall k, k < length l -> exists e r, skipn k l = e :: r /\ skipn (S k) l = r.
Proof.
  induction l as [|c l IH]; intros k Hk; [cbn in Hk; lia|].
  destruct k; [exists c, l; split; reflexivity|]. cbn in Hk. destruct (IH k ltac:(lia)) as (e & r & E1 & E2). exists e, r. split; assumption.
Qed.

(* no removal in progress: the files give back exactly what the repaired replay of the abstract state gives *)
Theorem disk_replay_idle n st : 0 < n -> replay_disk (disk n st 0) = replay_repaired n st.
Proof.
  intro Hn. rewrite (replay_repaired_is_live n st Hn). unfold disk. destruct (live_epochs_cons st) as (e & r & E). rewrite E.
  rewrite remove_zero. change (epoch_files n e :: map (epoch_files n) r) with (map (epoch_files n) (e :: r)). apply replay_disk_all. exact Hn.
Qed.

(* a removal in progress (any number of steps >= 1, partition 0 first) of the oldest live epoch: the files give back what
   the abstract state gives AFTER the whole-epoch removal *)
Theorem disk_replay_removing n st j : 0 < n -> nj st < nf st -> nf st <= length (closed st) ->
  replay_disk (disk n st (S j)) = replay_repaired n (wstep st WRemove).
Proof.
  intros Hn H1 H2. rewrite (replay_repaired_is_live n _ Hn). unfold wstep. apply Nat.ltb_lt in H1 as H1b. rewrite H1b.
  unfold disk, live_epochs. cbn [closed opn nj]. apply Nat.ltb_lt in H1b.
  assert (Hs : exists e r, skipn (nj st) (closed st) = e :: r /\ skipn (S (nj st)) (closed st) = r) by (apply skipn_cons; lia).
  destruct Hs as (e & r & E1 & E2). rewrite E1, E2. cbn [app]. unfold replay_disk. cbn [map concat].
  rewrite (removal_started_dead n e j Hn). cbn [app].
  change (concat (map replay_epoch_files (map (epoch_files n) (r ++ [opn st])))) with (replay_disk (map (epoch_files n) (r ++ [opn st]))).
  apply replay_disk_all. exact Hn.
Qed.

(* recovery from the files is exact at every step of every removal *)
Theorem recovered_disk_exact n ops j k : 0 < n -> (j = 0 \/ nj (wrun ops) < nf (wrun ops)) ->
  recovered_disk n (wrun ops) j k = lww (acked (wrun ops)) k.
Proof.
  intros Hn Hj. pose proof (wrun_inv ops) as [I1 I2]. unfold recovered_disk. destruct j as [|j].
  - rewrite (disk_replay_idle n _ Hn). apply (recovery_exact_repaired n ops Hn k).
  - destruct Hj as [Hj|Hj]; [discriminate|]. rewrite (disk_replay_removing n _ j Hn Hj I2).
    pose proof (recovery_exact_repaired n (ops ++ [WRemove]) Hn k) as E. rewrite wrun_app in E. cbn [fold_left] in E.
    unfold recovered_repaired in E. unfold wstep at 1 in E. apply Nat.ltb_lt in Hj as Hjb. rewrite Hjb in E.
    unfold flushed in E |- *. cbn [closed nf] in E. unfold wstep in E |- *. rewrite Hjb in E |- *.
    rewrite E. unfold acked. reflexivity.
Qed.
