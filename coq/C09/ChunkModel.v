(* C09 - CHUNKS: a chunk is what one data file stores for one series: a list of segments (at most max-rows-per-segment
   rows each, ascending times over the whole chunk) plus, per column, ONE statistics record for the whole chunk
   (ColumnMeta.preAgg: count, sum, min and max with the time of their first occurrence) and the time range of every
   segment (ChunkMeta.timeRange). Executable definitions only.

   Mirrors, for one column of one series:
     engine/immutable/reader.go        readSumCount / readSumCountFromData, readMinMax / readMinMaxFromData:
                                       chunk statistics when the WHOLE chunk lies in the range (ChunkMeta.allRowsInRange),
                                       otherwise every segment overlapping the range is decoded and its rows in range are used
     engine/immutable/first_last_reader.go FirstLastReader.Read: segments are visited from the front (first) / the back
                                       (last); per segment (a) the chunk's stored min / max is taken when its time is the
                                       segment's first / last time, (b) a null-free segment that starts at / after the range
                                       start (ends at / before the range end) gives its first / last row, (c) otherwise the
                                       time column is decoded and the first / last non-null row in range is searched; a
                                       segment without such a row is skipped
     engine/iterators_helper.go        recordIter.set{Int,Float,Bool,String}ColumnMeta: statistics of the memtable rows
   Variants: `_current` = the code before /repo commits 4c0ceca (reader) and 21620c9 (memtable), `_repaired` = after. *)
From Coq Require Import ZArith List Bool.
From OG Require Import C09.Model.
Import ListNotations.
Open Scope Z_scope.

Record chunk := { c_segs : list (list row); c_stats : stats }.

Definition rows_lo (s : list row) : Z := match s with r :: _ => fst r | [] => 0 end.
Definition rows_hi (s : list row) : Z := fst (last s (0, None)).
Definition chunk_rows (c : chunk) : list row := concat (c_segs c).
Definition chunk_lo (c : chunk) : Z := rows_lo (chunk_rows c).      (* ChunkMeta.MinMaxTime *)
Definition chunk_hi (c : chunk) : Z := rows_hi (chunk_rows c).
Definition mk_chunk (segs : list (list row)) : chunk := {| c_segs := segs; c_stats := build_stats (concat segs) |}.

Definition overlaps (lo hi a b : Z) : bool := (lo <=? b) && (a <=? hi).            (* util.TimeRange.Overlaps *)
Definition all_in_range (lo hi : Z) (c : chunk) : bool := (lo <=? chunk_lo c) && (chunk_hi c <=? hi).

(* count / sum / min / max of a chunk that is only partly inside the range: every overlapping segment, rows in range *)
Definition seg_scan (lo hi : Z) (s : list row) : stats :=
  if overlaps lo hi (rows_lo s) (rows_hi s) then build_stats (filter (in_range lo hi) s) else empty.
Definition chunk_scan (lo hi : Z) (c : chunk) : stats :=
  fold_right (fun s acc => combine (seg_scan lo hi s) acc) empty (c_segs c).
Definition chunk_agg (lo hi : Z) (c : chunk) : stats :=
  if all_in_range lo hi c then c_stats c else chunk_scan lo hi c.

Definition no_nulls (s : list row) : bool := forallb (fun r : row => match snd r with Some _ => true | None => false end) s.
Definition first_row_val (s : list row) : option Z := match s with r :: _ => snd r | [] => None end.
Definition last_row_val (s : list row) : option Z := snd (last s (0, None)).
Fixpoint scan_first (rows : list row) : option (Z * Z) :=       (* readFirstRowIndex over the rows in range *)
  match rows with
  | [] => None
  | (t, Some v) :: _ => Some (v, t)
  | (_, None) :: rest => scan_first rest
  end.
Fixpoint scan_last (rows : list row) : option (Z * Z) :=        (* readLastRowIndex *)
  match rows with
  | [] => None
  | (t, o) :: rest => match scan_last rest with
                      | Some r => Some r
                      | None => match o with Some v => Some (v, t) | None => None end
                      end
  end.

(* FirstLastReader.Read, first = true. `stamp s` is the time given to the row taken by branch (b):
   _current: the chunk's first time (r.cm.minTime()), _repaired: the segment's first time (minMaxSeg.minTime()).
   `pre` is the chunk's stored minimum when the column type has one the reader can use (integer, float), else None. *)
Fixpoint first_scan (stamp : list row -> Z) (lo hi : Z) (pre : option (Z * Z)) (segs : list (list row)) : option (Z * Z) :=
  match segs with
  | [] => None
  | s :: rest =>
    if negb (overlaps lo hi (rows_lo s) (rows_hi s)) then first_scan stamp lo hi pre rest
    else
      match (if lo <=? rows_lo s then match pre with Some (v, t) => if t =? rows_lo s then Some (v, t) else None | None => None end else None) with
      | Some r => Some r                                                            (* (a) readFirstOrLastFromPreAgg *)
      | None =>
        if no_nulls s && (lo <=? rows_lo s)
        then match first_row_val s with Some v => Some (v, stamp s) | None => None end   (* (b) *)
        else match scan_first (filter (in_range lo hi) s) with                      (* (c) *)
             | Some r => Some r
             | None => first_scan stamp lo hi pre rest
             end
      end
  end.

(* first = false: the segments are visited from the back *)
Fixpoint last_scan (stamp : list row -> Z) (lo hi : Z) (pre : option (Z * Z)) (rsegs : list (list row)) : option (Z * Z) :=
  match rsegs with
  | [] => None
  | s :: rest =>
    if negb (overlaps lo hi (rows_lo s) (rows_hi s)) then last_scan stamp lo hi pre rest
    else
      match (if rows_hi s <=? hi then match pre with Some (v, t) => if t =? rows_hi s then Some (v, t) else None | None => None end else None) with
      | Some r => Some r
      | None =>
        if no_nulls s && (rows_hi s <=? hi)
        then match last_row_val s with Some v => Some (v, stamp s) | None => None end
        else match scan_last (filter (in_range lo hi) s) with
             | Some r => Some r
             | None => last_scan stamp lo hi pre rest
             end
      end
  end.

Definition pre_min (use_pre : bool) (c : chunk) : option (Z * Z) := if use_pre then smin (c_stats c) else None.
Definition pre_max (use_pre : bool) (c : chunk) : option (Z * Z) := if use_pre then smax (c_stats c) else None.

Definition first_reader_repaired (use_pre : bool) (lo hi : Z) (c : chunk) : option (Z * Z) :=
  first_scan rows_lo lo hi (pre_min use_pre c) (c_segs c).
Definition first_reader_current (use_pre : bool) (lo hi : Z) (c : chunk) : option (Z * Z) :=
  first_scan (fun _ => chunk_lo c) lo hi (pre_min use_pre c) (c_segs c).
Definition last_reader_repaired (use_pre : bool) (lo hi : Z) (c : chunk) : option (Z * Z) :=
  last_scan rows_hi lo hi (pre_max use_pre c) (rev (c_segs c)).
Definition last_reader_current (use_pre : bool) (lo hi : Z) (c : chunk) : option (Z * Z) :=
  last_scan (fun _ => chunk_hi c) lo hi (pre_max use_pre c) (rev (c_segs c)).

(* the chunk is consulted at all only when it overlaps the range (Location.Contains / readData) *)
Definition chunk_live (lo hi : Z) (c : chunk) : bool := overlaps lo hi (chunk_lo c) (chunk_hi c).

(* the partial result one chunk contributes (all six functions at once) *)
Definition chunk_partial (fr lr : bool -> Z -> Z -> chunk -> option (Z * Z)) (use_pre : bool) (lo hi : Z) (c : chunk) : stats :=
  if chunk_live lo hi c then
    let a := chunk_agg lo hi c in
    {| cnt := cnt a; sum := sum a; smin := smin a; smax := smax a; sfirst := fr use_pre lo hi c; slast := lr use_pre lo hi c |}
  else empty.
Definition chunk_partial_repaired := chunk_partial first_reader_repaired last_reader_repaired.
Definition chunk_partial_current := chunk_partial first_reader_current last_reader_current.

(* ---- memtable statistics (recordIter.set*ColumnMeta): one pass over the rows of the memtable record ----
   The record holds every row that carries ANY selected field; the column of this call may be null in a row.
   `last` is the last non-null VALUE; its time is
     _current : the time of the last ROW of the record (timeCols[len-1]),
     _repaired: the time of that value (lastVTime). *)
Record macc := { m_cnt : Z; m_sum : Z; m_min : option (Z * Z); m_max : option (Z * Z); m_first : option (Z * Z);
                 m_lastv : option Z; m_lastvt : Z }.
Definition macc0 : macc := {| m_cnt := 0; m_sum := 0; m_min := None; m_max := None; m_first := None; m_lastv := None; m_lastvt := 0 |}.
Definition mstep (a : macc) (r : row) : macc :=
  match snd r with
  | None => a
  | Some v =>
    let t := fst r in
    {| m_cnt := m_cnt a + 1; m_sum := m_sum a + v;
       m_min := match m_min a with
                | None => Some (v, t)
                | Some (mv, mt) => if (v <? mv) || ((v =? mv) && (t <? mt)) then Some (v, t) else Some (mv, mt)
                end;
       m_max := match m_max a with
                | None => Some (v, t)
                | Some (mv, mt) => if (mv <? v) || ((v =? mv) && (t <? mt)) then Some (v, t) else Some (mv, mt)
                end;
       m_first := match m_first a with None => Some (v, t) | Some f => Some f end;
       m_lastv := Some v; m_lastvt := t |}
  end.
Definition mloop (rows : list row) : macc := fold_left mstep rows macc0.
Definition mem_stats (last_time : macc -> list row -> Z) (rows : list row) : stats :=
  let a := mloop rows in
  {| cnt := m_cnt a; sum := m_sum a; smin := m_min a; smax := m_max a; sfirst := m_first a;
     slast := match m_lastv a with Some v => Some (v, last_time a rows) | None => None end |}.
Definition mem_stats_repaired : list row -> stats := mem_stats (fun a _ => m_lastvt a).
Definition mem_stats_current : list row -> stats := mem_stats (fun _ rows => rows_hi rows).

(* ---- the whole shortcut over chunks (ordered and out-of-order files) and the memtable ---- *)
Definition agg_chunks (part : bool -> Z -> Z -> chunk -> stats) (mem : list row -> stats) (use_pre : bool) (lo hi : Z)
           (chunks : list chunk) (memrows : list row) : stats :=
  fold_right (fun c acc => combine (part use_pre lo hi c) acc) (mem (filter (in_range lo hi) memrows)) chunks.
Definition agg_chunks_repaired := agg_chunks chunk_partial_repaired mem_stats_repaired.
Definition agg_chunks_current_reader := agg_chunks chunk_partial_current mem_stats_repaired.   (* before 4c0ceca *)
Definition agg_chunks_current_mem := agg_chunks chunk_partial_repaired mem_stats_current.      (* before 21620c9 *)
Definition all_chunk_rows (chunks : list chunk) (memrows : list row) : list row := concat (map chunk_rows chunks) ++ memrows.

(* ---- ORDER BY time DESC ----
   The aggregate of a (group, bucket) does not depend on the order in which its rows are visited (`_repaired`: agg_rows of
   the rows in any order, see C09_order_irrelevant / C09_desc_rows_repaired).
   `_current`, row path (exact-statistics hint, field filter, time bucket): the series-level reducers
   (engine/series_agg_func.gen.go *FirstReduce / *LastReduce, "last is designed in ascending order") take the first / last
   ARRIVING value; under DESC the rows arrive newest first, so first and last are swapped.
   `_current`, shortcut path with GROUP BY tag (the schema forces ascending order only when there is no GROUP BY): every
   container's partial result (file reader on reversed columns, memtable builder on the reversed record) is positional,
   i.e. swapped, and the partial results are then merged by time. (The times the real reader attaches under DESC are not
   modelled; the variant reproduces the values of the witness.) *)
Definition swap_fl (s : stats) : stats :=
  {| cnt := cnt s; sum := sum s; smin := smin s; smax := smax s; sfirst := slast s; slast := sfirst s |}.
Definition agg_rows_desc_current (rows : list row) : stats := swap_fl (agg_rows rows).
Definition agg_rows_desc_repaired (rows : list row) : stats := agg_rows (rev rows).
Definition agg_chunks_desc_current (use_pre : bool) (lo hi : Z) (chunks : list chunk) (memrows : list row) : stats :=
  fold_right (fun c acc => combine (swap_fl (chunk_partial_repaired use_pre lo hi c)) acc)
             (swap_fl (mem_stats_repaired (filter (in_range lo hi) memrows))) chunks.
