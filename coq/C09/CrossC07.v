(* C09 x C07: one source of truth about the stored statistics. C07 models the statistics BUILDERS
   (coq/C07/ModelStats.v: IntegerPreAgg.reset / addValues accumulated segment by segment over int64 bit patterns, with the
   repaired start-value rule); C09 models the statistics as build_stats of the rows. Imported, not copied: on every run the
   two models are evaluated on the decoded segments of every integer column of every data file the harness produces and must
   agree - and C09's build_stats is compared with what is STORED (Corr.check_stored), so stored = C09 = C07. *)
From Coq Require Import ZArith List Bool.
From OG Require Import C09.Model C09.ChunkModel C09.Corr.
From OG Require C07.Model C07.ModelPreAgg C07.ModelStats.
Import ListNotations.
Open Scope Z_scope.

(* for an integer column, C07's builder model
   run over the decoded SEGMENTS (int64 bit patterns, accumulation segment by segment, repaired start-value rule) must give
   the statistics C09's build_stats gives over the concatenated rows - count, sum, min and max with their times ---- *)
Definition c07_rows (s : list row) : list OG.C07.ModelStats.srow :=
  map (fun r : row => (option_map (fun v => v mod OG.C07.Model.M64) (snd r), fst r)) s.
Definition check_c07_int (segs : list (list mrow)) (f : nat) : bool :=
  let rows := map (col f) segs in
  let s7 := OG.C07.ModelStats.int_build true (map c07_rows rows) in
  let s9 := build_stats (concat rows) in
  let sg := OG.C07.ModelPreAgg.sgn64 in
  (OG.C07.ModelPreAgg.s_cnt s7 =? cnt s9)
  && (if cnt s9 =? 0 then true
      else (sg (OG.C07.ModelPreAgg.s_sum s7) =? sum s9)
           && opt_pair_eqb (smin s9) (Some (sg (OG.C07.ModelPreAgg.s_min s7), OG.C07.ModelPreAgg.s_minT s7))
           && opt_pair_eqb (smax s9) (Some (sg (OG.C07.ModelPreAgg.s_max s7), OG.C07.ModelPreAgg.s_maxT s7))).
Definition check_c07 (segs : list (list mrow)) (s : stored) : bool :=
  let '(f, kind, _, _, _, _) := s in if kind =? 0 then check_c07_int segs f else true.


(* chunk results plus kind 4 = the two models disagree on an integer column *)
Fixpoint c07_from (k : nat) (cs : list chunk_case) : list (nat * nat * nat) :=
  match cs with
  | [] => []
  | cc :: rest => map (fun i => (k, 4, i)%nat) (bad_indices (check_c07 (fst (fst (fst cc)))) 0 (snd (fst cc))) ++ c07_from (S k) rest
  end.
Definition flat_chunks7 (cs : list chunk_case) : list (nat * nat * nat) := flat_chunks cs ++ c07_from 0 cs.

(* the cross-check is not vacuous: two segments, nulls, the minimum 3 carried by two rows (earliest time 2 reported), sum 16 *)
Example check_c07_example :
  let segs := [[(1, [Some 7]); (2, [Some 3]); (4, [None])]; [(5, [Some 3]); (6, [Some 3])]] in
  check_c07_int segs 0 = true /\
  OG.C07.ModelPreAgg.s_minT (OG.C07.ModelStats.int_build true (map c07_rows (map (col 0) segs))) = 2 /\
  OG.C07.ModelPreAgg.s_sum (OG.C07.ModelStats.int_build true (map c07_rows (map (col 0) segs))) = 16.
Proof. vm_compute. repeat split. Qed.
