(* C09 - aggregates served from stored statistics equal aggregates over the rows. Executable model (definitions only).

   Mirrors engine/immutable/pre_aggregation.go + column_builder.go (per column and segment: count, sum, min and max with
   the time of their first occurrence), engine/immutable/location.go readData/isPreAggRead (statistics are used for a
   segment only when its whole time range lies inside the query range, rows are read otherwise), immutable.AggregateData
   (combination of partial results) and engine/iterators_helper.go matchPreAgg (eligibility).
   One series, one field: a row is (time, value or null); values are integers (floats of the harness are k/4). *)
From Coq Require Import ZArith List Bool.
Import ListNotations.
Open Scope Z_scope.

Definition row := (Z * option Z)%type.

(* a partial aggregate: count of non-null values, their sum, min / max / first / last as (value, time) *)
Record stats := { cnt : Z; sum : Z; smin : option (Z * Z); smax : option (Z * Z); sfirst : option (Z * Z); slast : option (Z * Z) }.
Definition empty : stats := {| cnt := 0; sum := 0; smin := None; smax := None; sfirst := None; slast := None |}.

(* tie rules: min/max keep the earlier time among equal values; first = smallest time, last = greatest time; two
   candidates with the same time (only possible across flush generations) keep the greater value - a symmetric rule, so
   that combination is commutative *)
Definition pick (better : Z * Z -> Z * Z -> bool) (a b : option (Z * Z)) : option (Z * Z) :=
  match a, b with
  | Some x, Some y => if better x y then Some x else Some y
  | Some x, None => Some x
  | None, y => y
  end.
Definition min_better (x y : Z * Z) : bool := (fst x <? fst y) || ((fst x =? fst y) && (snd x <=? snd y)).
Definition max_better (x y : Z * Z) : bool := (fst y <? fst x) || ((fst x =? fst y) && (snd x <=? snd y)).
Definition first_better (x y : Z * Z) : bool := (snd x <? snd y) || ((snd x =? snd y) && (fst y <=? fst x)).
Definition last_better (x y : Z * Z) : bool := (snd y <? snd x) || ((snd x =? snd y) && (fst y <=? fst x)).

Definition combine (a b : stats) : stats :=
  {| cnt := cnt a + cnt b; sum := sum a + sum b;
     smin := pick min_better (smin a) (smin b); smax := pick max_better (smax a) (smax b);
     sfirst := pick first_better (sfirst a) (sfirst b); slast := pick last_better (slast a) (slast b) |}.

Definition of_row (r : row) : stats :=
  match snd r with
  | None => empty
  | Some v => {| cnt := 1; sum := v; smin := Some (v, fst r); smax := Some (v, fst r); sfirst := Some (v, fst r); slast := Some (v, fst r) |}
  end.

(* BuildPreAgg: statistics of a row list; also the definition of "the aggregate over the rows" *)
Definition build_stats (rows : list row) : stats := fold_right (fun r acc => combine (of_row r) acc) empty rows.
Definition agg_rows := build_stats.

Definition in_range (lo hi : Z) (r : row) : bool := (lo <=? fst r) && (fst r <=? hi).

(* a stored segment: its rows (ascending time, non-empty) and the statistics written with it *)
Record segment := { s_rows : list row; s_stats : stats }.
Definition mk_segment (rows : list row) : segment := {| s_rows := rows; s_stats := build_stats rows |}.
Definition seg_min (s : segment) : Z := match s_rows s with r :: _ => fst r | [] => 0 end.
Definition seg_max (s : segment) : Z := fst (last (s_rows s) (0, None)).
Definition covered (lo hi : Z) (s : segment) : bool := (lo <=? seg_min s) && (seg_max s <=? hi).

(* the shortcut: statistics for fully covered segments, rows for partially covered ones; memtable rows are aggregated
   from the rows and combined *)
Definition agg_segment (lo hi : Z) (s : segment) : stats :=
  if covered lo hi s then s_stats s else build_stats (filter (in_range lo hi) (s_rows s)).
Definition agg_short (lo hi : Z) (segs : list segment) (memrows : list row) : stats :=
  fold_right (fun s acc => combine (agg_segment lo hi s) acc) (build_stats (filter (in_range lo hi) memrows)) segs.

(* all rows the containers hold, in container order *)
Definition all_rows (segs : list segment) (memrows : list row) : list row := concat (map s_rows segs) ++ memrows.

(* mean = sum / count is derived by the caller from the two *)
Definition mean_num_den (s : stats) : Z * Z := (sum s, cnt s).

(* eligibility of the shortcut (matchPreAgg): only calls, no time bucket, no field filter, no exact-statistics hint, not PromQL *)
Record query := { q_calls_only : bool; q_interval : bool; q_field_filter : bool; q_exact_hint : bool; q_promql : bool }.
Definition eligible (q : query) : bool :=
  q_calls_only q && negb (q_interval q) && negb (q_field_filter q) && negb (q_exact_hint q) && negb (q_promql q).

Definition sorted_rows (rows : list row) : Prop := forall i j, (i < j < length rows)%nat -> fst (nth i rows (0, None)) < fst (nth j rows (0, None)).
Definition wf_segment (s : segment) : Prop := s_rows s <> [] /\ sorted_rows (s_rows s) /\ s_stats s = build_stats (s_rows s).

(* ---- several aggregates in one statement: every column is aggregated on its own ----
   A multi-column row is (time, value-or-null per selected field). A statement `select f(a), g(b), ..` asks, per column
   i, for one component of the statistics of column i; the statistics of column i must not depend on the other columns
   (a field that is entirely null in one container - memtable, file, segment - contributes `empty` for that column and
   nothing else). *)
Definition mrow := (Z * list (option Z))%type.
Definition col (i : nat) (rows : list mrow) : list row := map (fun r : mrow => (fst r, nth i (snd r) None)) rows.
Definition agg_multi_rows (n : nat) (rows : list mrow) : list stats := map (fun i => agg_rows (col i rows)) (seq 0 n).
Definition col_segments (i : nat) (segs : list (list mrow)) : list segment := map (fun s => mk_segment (col i s)) segs.
Definition agg_multi_short (n : nat) (lo hi : Z) (segs : list (list mrow)) (memrows : list mrow) : list stats :=
  map (fun i => agg_short lo hi (col_segments i segs) (col i memrows)) (seq 0 n).
