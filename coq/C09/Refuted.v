(* C09: the precondition is needed. When the same (series,time) is stored in two flush generations, the plain select
   returns one row (last write wins, C02) while the shortcut adds both segments' statistics: counts differ. This is the
   documented trade-off the property statement excludes (no hint, no filter, no bucket, cross-generation overwrite); it
   is NOT a finding. *)
From Coq Require Import ZArith List Bool.
From OG Require Import C09.Model C09.ChunkModel.
Import ListNotations.
Open Scope Z_scope.

Theorem C09_dup_refuted :
  exists segs selected,
    (* selected = last-write-wins read of the two generations *)
    selected = [(1, Some 10); (2, Some 99)] /\
    segs = [mk_segment [(1, Some 10); (2, Some 20)]; mk_segment [(2, Some 99)]] /\
    cnt (agg_short 0 10 segs []) = 3 /\ cnt (agg_rows selected) = 2.
Proof. eexists. eexists. repeat split. Qed.
Print Assumptions C09_dup_refuted.

(* ---- the two defects found by this check and since repaired in /repo: the `_current` variants of the model violate the
   property (they are kept so that the correspondence can tell which variant a working tree implements) ---- *)

(* C09-firstlast-chunk-time (before /repo 4c0ceca): branch (b) of FirstLastReader.Read stamps the row with the CHUNK's
   first / last time. File: 9 rows, segments [0..18] and [23] (max-rows-per-segment 8); memtable row t=20 x=99.
   first(x) over 19..23: the reader reports value 23 at time 0, which beats the memtable's (99, 20); the rows say 99. *)
Theorem C09_first_chunk_time_refuted :
  exists c mem lo hi,
    c = mk_chunk [[(0, Some 0); (2, Some 2); (4, Some 4); (6, Some 6); (8, Some 8); (9, Some 9); (13, Some 13); (18, Some 18)]; [(23, Some 23)]] /\
    sfirst (agg_chunks_current_reader false lo hi [c] mem) = Some (23, 0) /\
    sfirst (agg_rows (filter (in_range lo hi) (all_chunk_rows [c] mem))) = Some (99, 20).
Proof. eexists. exists [(20, Some 99)], 19, 23. repeat split. Qed.
Print Assumptions C09_first_chunk_time_refuted.
Theorem C09_last_chunk_time_refuted :
  exists c mem lo hi,
    c = mk_chunk [[(0, Some 0); (2, Some 2); (4, Some 4); (6, Some 6); (8, Some 8); (9, Some 9); (13, Some 13); (18, Some 18)]; [(23, Some 23)]] /\
    slast (agg_chunks_current_reader false lo hi [c] mem) = Some (18, 23) /\
    slast (agg_rows (filter (in_range lo hi) (all_chunk_rows [c] mem))) = Some (77, 19).
Proof. eexists. exists [(19, Some 77)], 0, 20. repeat split. Qed.
Print Assumptions C09_last_chunk_time_refuted.

(* C09-memtable-last-time (before /repo 21620c9): the memtable builder stamps the last non-null VALUE with the time of
   the record's last ROW. File: x=4 at t=6. Memtable record of a two-aggregate statement: x=2 at t=5 and a row at t=7
   that carries only the other field. last(x) over 0..9: the memtable's (2, 7) beats the file's (4, 6); the rows say 4. *)
Theorem C09_memtable_last_time_refuted :
  exists c mem lo hi,
    c = mk_chunk [[(6, Some 4)]] /\ mem = [(5, Some 2); (7, None)] /\
    slast (agg_chunks_current_mem true lo hi [c] mem) = Some (2, 7) /\
    slast (agg_rows (filter (in_range lo hi) (all_chunk_rows [c] mem))) = Some (4, 6).
Proof. eexists. eexists. exists 0, 9. repeat split. Qed.
Print Assumptions C09_memtable_last_time_refuted.

(* ---- ORDER BY time DESC (open findings C09-desc-firstlast-rowpath / C09-desc-firstlast-shortcut) ---- *)
(* row path: positional first / last on rows that arrive newest first. Bucket [5s,10s) of the server witness: x=4 at t=6,
   x=5 at t=7; `first(x) .. GROUP BY time(5s) ORDER BY time DESC` answers 5 *)
Theorem C09_desc_rowpath_refuted :
  exists rows, rows = [(6, Some 4); (7, Some 5)] /\
    sfirst (agg_rows_desc_current rows) = Some (5, 7) /\ sfirst (agg_rows rows) = Some (4, 6) /\
    slast (agg_rows_desc_current rows) = Some (4, 6) /\ slast (agg_rows rows) = Some (5, 7).
Proof. eexists. repeat split. Qed.
Print Assumptions C09_desc_rowpath_refuted.
(* shortcut path with GROUP BY tag: file x=7 at t=2, x=0 at t=5; memtable x=1 at t=1;
   `last(x) .. GROUP BY host ORDER BY time DESC` answers 7 (the server prints it at t=5); the rows say 0 *)
Theorem C09_desc_shortcut_refuted :
  exists c mem lo hi, c = mk_chunk [[(2, Some 7); (5, Some 0)]] /\ mem = [(1, Some 1)] /\
    option_map fst (slast (agg_chunks_desc_current true lo hi [c] mem)) = Some 7 /\
    option_map fst (slast (agg_rows (filter (in_range lo hi) (all_chunk_rows [c] mem)))) = Some 0.
Proof. eexists. eexists. exists 0, 8. repeat split. Qed.
Print Assumptions C09_desc_shortcut_refuted.
