(* C09: the precondition is needed. When the same (series,time) is stored in two flush generations, the plain select
   returns one row (last write wins, C02) while the shortcut adds both segments' statistics: counts differ. This is the
   documented trade-off the property statement excludes (no hint, no filter, no bucket, cross-generation overwrite); it
   is NOT a finding. *)
From Coq Require Import ZArith List Bool.
From OG Require Import C09.Model.
Import ListNotations.
Open Scope Z_scope.

Theorem C09_dup_refuted :
  exists segs selected,
    (* selected = last-write-wins read of the two generations *)
    selected = [(1, Some 10); (2, Some 99)] /\
    segs = [mk_segment [(1, Some 10); (2, Some 20)]; mk_segment [(2, Some 99)]] /\
    cnt (agg_short 0 10 segs []) = 3 /\ cnt (agg_rows selected) = 2.
Proof. eexists. eexists. repeat split. Qed.
Print Assumptions C09_dup_refuted.
