(* C09 property theorems (model level). The correspondence harness for C09 is NOT built yet (see props/C09/NOTES.md):
   these theorems are about the model only and no check is registered for C09. *)
From Coq Require Import ZArith List Bool Permutation.
From OG Require Import C09.Model C09.Proofs.
Import ListNotations.
Open Scope Z_scope.

(* build_stats_correct: count and sum stored with a segment are the count / sum of its non-null values *)
Theorem C09_build_stats_correct : forall rows,
  cnt (build_stats rows) = Z.of_nat (length (values rows)) /\ sum (build_stats rows) = fold_right Z.add 0 (values rows).
Proof. exact build_stats_count_sum. Qed.
Print Assumptions C09_build_stats_correct.

(* partial aggregates form a commutative monoid: any grouping / order of segments, files and the memtable gives the
   same result (count, sum, min, max, first, last with their tie rules) *)
Theorem C09_combine_assoc : forall a b c, combine (combine a b) c = combine a (combine b c).
Proof. exact combine_assoc. Qed.
Theorem C09_combine_comm : forall a b, combine a b = combine b a.
Proof. exact combine_comm. Qed.
Theorem C09_stats_of_concatenation : forall a b, build_stats (a ++ b) = combine (build_stats a) (build_stats b).
Proof. exact build_stats_app. Qed.
Theorem C09_order_irrelevant : forall a b, Permutation a b -> build_stats a = build_stats b.
Proof. exact build_stats_perm. Qed.

(* a segment fully inside the range may be answered from its statistics; a partially covered one from its rows:
   for every range position both are the statistics of the segment's rows inside the range *)
Theorem C09_segment_shortcut : forall lo hi s, wf_segment s ->
  agg_segment lo hi s = build_stats (filter (in_range lo hi) (s_rows s)).
Proof. exact agg_segment_spec. Qed.
Print Assumptions C09_segment_shortcut.

(* C09_equiv: for every list of well-formed segments (any file / segment layout), memtable rows and range, if the plain
   select returns exactly the stored rows of the range (a permutation: it sorts them by time) - which is the case
   whenever no (series,time) is stored in more than one flush generation - the shortcut equals the aggregate over the
   selected rows, for count, sum (hence mean), min, max, first, last at once *)
Theorem C09_equiv : forall lo hi segs mem selected, Forall wf_segment segs ->
  Permutation (filter (in_range lo hi) (all_rows segs mem)) selected ->
  agg_short lo hi segs mem = agg_rows selected.
Proof. exact equiv_main. Qed.
Print Assumptions C09_equiv.

(* several aggregates in one statement (`select f(a), g(b), ..`): column i of the result is the single-column shortcut of
   column i - it does not depend on the other columns, in particular not on a column that is all-null in some container *)
Theorem C09_multi_columns_independent : forall n lo hi segs mem i, (i < n)%nat ->
  nth i (agg_multi_short n lo hi segs mem) empty = agg_short lo hi (col_segments i segs) (col i mem).
Proof. exact multi_short_nth. Qed.
Theorem C09_multi_equiv : forall n lo hi segs mem (selected : nat -> list row),
  (forall i, (i < n)%nat -> Forall wf_segment (col_segments i segs) /\
                            Permutation (filter (in_range lo hi) (all_rows (col_segments i segs) (col i mem))) (selected i)) ->
  agg_multi_short n lo hi segs mem = map (fun i => agg_rows (selected i)) (seq 0 n).
Proof. exact multi_equiv. Qed.
Print Assumptions C09_multi_equiv.

(* a memtable that holds field 0 but not field 1 still contributes its field-0 rows (the situation of seeded change m3) *)
Example C09_multi_example :
  let seg := [(1, [Some 5; Some 1]); (2, [Some 6; None])] in
  let mem := [(3, [Some 7; None]); (4, [Some 9; None])] in
  map cnt (agg_multi_short 2 0 10 [seg] mem) = [4; 1] /\ map sum (agg_multi_short 2 0 10 [seg] mem) = [27; 1].
Proof. vm_compute. split; reflexivity. Qed.

(* non-vacuity: two segments and a memtable, range cutting through the first segment and covering the second *)
Example C09_example :
  let s1 := mk_segment [(1, Some 4); (2, None); (3, Some (-2))] in
  let s2 := mk_segment [(5, Some 7); (6, Some 7)] in
  let mem := [(8, Some 1); (9, None)] in
  agg_short 2 8 [s1; s2] mem = agg_rows [(2, None); (3, Some (-2)); (5, Some 7); (6, Some 7); (8, Some 1)]
  /\ cnt (agg_short 2 8 [s1; s2] mem) = 4 /\ smax (agg_short 2 8 [s1; s2] mem) = Some (7, 5)
  /\ slast (agg_short 2 8 [s1; s2] mem) = Some (1, 8).
Proof. vm_compute. repeat split. Qed.
