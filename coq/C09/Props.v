(* C09 property theorems. Models: Model.v (segments, statistics monoid), ChunkModel.v (chunks, first/last reader, memtable
   statistics builders), BucketModel.v (time buckets, tag groups). The correspondence (props/C09/run.py, harness/cmd/c09)
   runs these models against the real shard on every check. *)
From Coq Require Import ZArith List Bool Lia Permutation.
From OG Require Import C09.Model C09.Proofs C09.ListSpec C09.ChunkModel C09.ChunkProofs C09.BucketModel C09.BucketProofs C09.CrossC07 C09.CrossC07Proofs.
From OG Require C07.Model C07.ModelPreAgg C07.ModelStats.
Import ListNotations.
Open Scope Z_scope.

(* build_stats_correct: count and sum stored with a segment are the count / sum of its non-null values *)
Theorem C09_build_stats_correct : forall rows,
  cnt (build_stats rows) = Z.of_nat (length (values rows)) /\ sum (build_stats rows) = fold_right Z.add 0 (values rows).
Proof. exact build_stats_count_sum. Qed.
Print Assumptions C09_build_stats_correct.

(* partial aggregates form a commutative monoid: any grouping / order of segments, files and the memtable gives the
   same result (count, sum, min, max, first, last with their tie rules) *)
Theorem C09_combine_assoc : forall a b c, combine (combine a b) c = combine a (combine b c).
Proof. exact combine_assoc. Qed.
Theorem C09_combine_comm : forall a b, combine a b = combine b a.
Proof. exact combine_comm. Qed.
Theorem C09_stats_of_concatenation : forall a b, build_stats (a ++ b) = combine (build_stats a) (build_stats b).
Proof. exact build_stats_app. Qed.
Theorem C09_order_irrelevant : forall a b, Permutation a b -> build_stats a = build_stats b.
Proof. exact build_stats_perm. Qed.

(* a segment fully inside the range may be answered from its statistics; a partially covered one from its rows:
   for every range position both are the statistics of the segment's rows inside the range *)
Theorem C09_segment_shortcut : forall lo hi s, wf_segment s ->
  agg_segment lo hi s = build_stats (filter (in_range lo hi) (s_rows s)).
Proof. exact agg_segment_spec. Qed.
Print Assumptions C09_segment_shortcut.

(* C09_equiv: for every list of well-formed segments (any file / segment layout), memtable rows and range, if the plain
   select returns exactly the stored rows of the range (a permutation: it sorts them by time) - which is the case
   whenever no (series,time) is stored in more than one flush generation - the shortcut equals the aggregate over the
   selected rows, for count, sum (hence mean), min, max, first, last at once *)
Theorem C09_equiv : forall lo hi segs mem selected, Forall wf_segment segs ->
  Permutation (filter (in_range lo hi) (all_rows segs mem)) selected ->
  agg_short lo hi segs mem = agg_rows selected.
Proof. exact equiv_main. Qed.
Print Assumptions C09_equiv.

(* several aggregates in one statement (`select f(a), g(b), ..`): column i of the result is the single-column shortcut of
   column i - it does not depend on the other columns, in particular not on a column that is all-null in some container *)
Theorem C09_multi_columns_independent : forall n lo hi segs mem i, (i < n)%nat ->
  nth i (agg_multi_short n lo hi segs mem) empty = agg_short lo hi (col_segments i segs) (col i mem).
Proof. exact multi_short_nth. Qed.
Theorem C09_multi_equiv : forall n lo hi segs mem (selected : nat -> list row),
  (forall i, (i < n)%nat -> Forall wf_segment (col_segments i segs) /\
                            Permutation (filter (in_range lo hi) (all_rows (col_segments i segs) (col i mem))) (selected i)) ->
  agg_multi_short n lo hi segs mem = map (fun i => agg_rows (selected i)) (seq 0 n).
Proof. exact multi_equiv. Qed.
Print Assumptions C09_multi_equiv.

(* a memtable that holds field 0 but not field 1 still contributes its field-0 rows (the situation of seeded change m3) *)
Example C09_multi_example :
  let seg := [(1, [Some 5; Some 1]); (2, [Some 6; None])] in
  let mem := [(3, [Some 7; None]); (4, [Some 9; None])] in
  map cnt (agg_multi_short 2 0 10 [seg] mem) = [4; 1] /\ map sum (agg_multi_short 2 0 10 [seg] mem) = [27; 1].
Proof. vm_compute. split; reflexivity. Qed.

(* non-vacuity: two segments and a memtable, range cutting through the first segment and covering the second *)
Example C09_example :
  let s1 := mk_segment [(1, Some 4); (2, None); (3, Some (-2))] in
  let s2 := mk_segment [(5, Some 7); (6, Some 7)] in
  let mem := [(8, Some 1); (9, None)] in
  agg_short 2 8 [s1; s2] mem = agg_rows [(2, None); (3, Some (-2)); (5, Some 7); (6, Some 7); (8, Some 1)]
  /\ cnt (agg_short 2 8 [s1; s2] mem) = 4 /\ smax (agg_short 2 8 [s1; s2] mem) = Some (7, 5)
  /\ slast (agg_short 2 8 [s1; s2] mem) = Some (1, 8).
Proof. vm_compute. repeat split. Qed.

(* ================= independent list specifications (ListSpec.v) ================= *)
(* min / max / first / last of build_stats meet specifications that only talk about the list of non-null (value, time)
   pairs - min/max: extreme value, EARLIEST time among the rows carrying it; first/last: extreme time, GREATER value among
   rows of that time - for every row list, in any order *)
Theorem C09_min_spec : forall rows, spec_min rows (smin (build_stats rows)).
Proof. exact build_stats_min_spec. Qed.
Theorem C09_max_spec : forall rows, spec_max rows (smax (build_stats rows)).
Proof. exact build_stats_max_spec. Qed.
Theorem C09_first_spec : forall rows, spec_first rows (sfirst (build_stats rows)).
Proof. exact build_stats_first_spec. Qed.
Theorem C09_last_spec : forall rows, spec_last rows (slast (build_stats rows)).
Proof. exact build_stats_last_spec. Qed.
Print Assumptions C09_last_spec.
(* all six components at once, and the specification determines the statistics uniquely *)
Theorem C09_build_stats_meets_spec : forall rows, spec_all rows (build_stats rows).
Proof. exact build_stats_spec_all. Qed.
Theorem C09_spec_determines_stats : forall rows a b, spec_all rows a -> spec_all rows b -> a = b.
Proof. exact spec_all_unique. Qed.
(* combining two partial results that meet the specification of their rows meets the specification of all the rows:
   the tie rules of combine (segments, files, memtable, series of one tag group) are those of the specification *)
Theorem C09_combine_meets_spec : forall a b sa sb, spec_all a sa -> spec_all b sb -> spec_all (a ++ b) (combine sa sb).
Proof. exact combine_spec_all. Qed.
Print Assumptions C09_combine_meets_spec.
(* on time-ordered rows first / last are the first / last non-null row *)
Theorem C09_first_last_time_ordered : forall rows, asc rows ->
  sfirst (build_stats rows) = first_nonnull rows /\ slast (build_stats rows) = last_nonnull rows.
Proof. exact first_last_time_ordered. Qed.
Example C09_spec_example :   (* two rows carry the minimum 3: the earlier time is reported; nulls are ignored *)
  spec_min [(5, Some 3); (1, None); (2, Some 3); (9, Some 4)] (Some (3, 2)) /\
  smin (build_stats [(5, Some 3); (1, None); (2, Some 3); (9, Some 4)]) = Some (3, 2).
Proof. split; [| reflexivity]. cbn. split; [auto |]. intros v' t' [E | [E | [E | []]]]; inversion E; subst; lia. Qed.

(* ================= chunks, the first/last reader, the memtable builders (ChunkModel.v) ================= *)
(* count / sum / min / max of one chunk: the chunk-level statistics when the whole chunk is inside the range, else a scan
   of the overlapping segments - both are the statistics of the chunk's rows in range, for every segment layout and
   range position *)
Theorem C09_chunk_agg : forall lo hi c, wf_chunk c -> chunk_agg lo hi c = build_stats (filter (in_range lo hi) (chunk_rows c)).
Proof. exact chunk_agg_spec. Qed.
(* the repaired FirstLastReader (stored min/max shortcut, null-free segment shortcut with the SEGMENT's time, row search):
   reader result = first / last over the chunk's rows in range, value AND time *)
Theorem C09_first_reader_repaired : forall use_pre lo hi c, wf_chunk c ->
  first_reader_repaired use_pre lo hi c = sfirst (build_stats (filter (in_range lo hi) (chunk_rows c))).
Proof. exact first_reader_repaired_spec. Qed.
Theorem C09_last_reader_repaired : forall use_pre lo hi c, wf_chunk c ->
  last_reader_repaired use_pre lo hi c = slast (build_stats (filter (in_range lo hi) (chunk_rows c))).
Proof. exact last_reader_repaired_spec. Qed.
Print Assumptions C09_last_reader_repaired.
Theorem C09_chunk_partial : forall use_pre lo hi c, wf_chunk c ->
  chunk_partial_repaired use_pre lo hi c = build_stats (filter (in_range lo hi) (chunk_rows c)).
Proof. exact chunk_partial_repaired_spec. Qed.
(* the repaired memtable builders (time of the last non-null value) compute the statistics of the memtable rows *)
Theorem C09_mem_stats_repaired : forall rows, asc rows -> mem_stats_repaired rows = build_stats rows.
Proof. exact mem_stats_repaired_spec. Qed.
Print Assumptions C09_mem_stats_repaired.
(* the whole shortcut - any number of chunks (ordered / out-of-order files, any segment layout), memtable, any range:
   if the plain select returns exactly the stored rows in range, the shortcut is the aggregate over the selected rows *)
Theorem C09_equiv_chunks : forall use_pre lo hi chunks mem selected, Forall wf_chunk chunks -> asc mem ->
  Permutation (filter (in_range lo hi) (all_chunk_rows chunks mem)) selected ->
  agg_chunks_repaired use_pre lo hi chunks mem = agg_rows selected.
Proof. exact equiv_chunks. Qed.
Print Assumptions C09_equiv_chunks.
Theorem C09_equiv_chunks_meets_spec : forall use_pre lo hi chunks mem selected, Forall wf_chunk chunks -> asc mem ->
  Permutation (filter (in_range lo hi) (all_chunk_rows chunks mem)) selected ->
  spec_all selected (agg_chunks_repaired use_pre lo hi chunks mem).
Proof. exact equiv_chunks_spec. Qed.
(* non-vacuity: the layout of corpus/C09/01 (9 rows, segments of 8 + 1, memtable row at t=20), range 19..23 *)
Example C09_chunk_example :
  let c := mk_chunk [[(0, Some 0); (2, Some 2); (4, Some 4); (6, Some 6); (8, Some 8); (9, Some 9); (13, Some 13); (18, Some 18)]; [(23, Some 23)]] in
  wf_chunk c /\ sfirst (agg_chunks_repaired true 19 23 [c] [(20, Some 99)]) = Some (99, 20)
  /\ first_reader_repaired true 19 23 c = Some (23, 23) /\ first_reader_current true 19 23 c = Some (23, 0)
  /\ last_reader_repaired true 0 20 c = Some (18, 18) /\ last_reader_current true 0 20 c = Some (18, 23).
Proof.
  cbn zeta. split; [| vm_compute; repeat split].
  apply mk_chunk_wf; [repeat constructor; discriminate | apply ascb_asc; reflexivity].
Qed.

(* ================= time buckets and tag groups (BucketModel.v) ================= *)
(* per (tag group, time bucket): whichever eligible segments are answered from their statistics (wholly inside range and
   bucket) and whichever row by row, the result is the aggregate over the rows the plain select returns for that group in
   that bucket *)
Theorem C09_bucket_equiv : forall use lo hi w ss g b selected, 0 < w -> Forall wf_series ss ->
  Permutation (filter (in_rb lo hi w b) (group_rows ss g)) selected ->
  agg_group_bucket use lo hi w ss g b = agg_rows selected.
Proof. exact bucket_equiv. Qed.
Print Assumptions C09_bucket_equiv.
(* per tag group without a bucket (several series per group, each with its own files / memtable) *)
Theorem C09_group_equiv : forall lo hi ss g selected, Forall wf_series ss ->
  Permutation (filter (in_range lo hi) (group_rows ss g)) selected ->
  agg_group_short lo hi ss g = agg_rows selected.
Proof. exact group_equiv. Qed.
(* the buckets of the range partition the rows in range: combining all buckets loses and double counts nothing *)
Theorem C09_bucket_partition : forall lo hi w rows, 0 < w ->
  build_stats (filter (in_range lo hi) rows) =
  fold_stats (map (fun b => build_stats (filter (in_rb lo hi w b) rows)) (buckets lo hi w)).
Proof. exact bucket_partition. Qed.
Theorem C09_bucket_table_total : forall use lo hi w ss g, 0 < w -> Forall wf_series ss ->
  fold_stats (map snd (bucket_table use lo hi w ss g false)) = agg_group_short lo hi ss g.
Proof. exact bucket_table_total. Qed.
Print Assumptions C09_bucket_table_total.
(* descending order: the same value per bucket, the table reversed; row order inside a bucket is irrelevant *)
Theorem C09_descending : forall use lo hi w ss g,
  bucket_table use lo hi w ss g true = rev (bucket_table use lo hi w ss g false).
Proof. exact bucket_table_desc. Qed.
(* ORDER BY time DESC, repaired evaluation: visiting the rows newest-first changes no aggregate *)
Theorem C09_desc_rows_repaired : forall rows, agg_rows_desc_repaired rows = agg_rows rows.
Proof. exact build_stats_rev. Qed.
Example C09_bucket_example :   (* two series in group 7, one in group 8; buckets of width 5 over 0..12; segment [5..8] lies in bucket 1 *)
  let s1 := {| g_key := 7; g_segs := [mk_segment [(1, Some 4); (3, Some 1)]; mk_segment [(5, Some 2); (8, Some 6)]]; g_mem := [(11, Some 9)] |} in
  let s2 := {| g_key := 7; g_segs := [mk_segment [(4, Some 5); (6, None)]]; g_mem := [] |} in
  let s3 := {| g_key := 8; g_segs := []; g_mem := [(2, Some 100)] |} in
  map (fun x => (fst x, cnt (snd x), smax (snd x))) (bucket_table (fun _ => true) 0 12 5 [s1; s2; s3] 7 false)
  = [(0, 3, Some (5, 4)); (1, 2, Some (6, 8)); (2, 1, Some (9, 11))].
Proof. vm_compute. reflexivity. Qed.

(* ================= one source of truth with C07 (CrossC07.v, CrossC07Proofs.v) ================= *)
(* C07's model of the integer statistics BUILDER (IntegerPreAgg.reset / addValues, segment by segment, int64 bit patterns,
   repaired start-value rule; imported from coq/C07/ModelStats.v) computes, for every segment layout of time-ordered rows
   with int64 values, the statistics C09 reasons about: count, sum (as a 64-bit pattern: also when the sum wraps), min and
   max with the times of their first occurrence. With C07's stats_int_repaired this makes `c_stats = build_stats`, the
   hypothesis of the chunk theorems, a consequence of the builder model for integer columns. *)
Theorem C09_stats_builder_agrees_with_C07 : forall segs : list (list row), asc (concat segs) -> vals_in_range (concat segs) ->
  let s7 := OG.C07.ModelStats.int_build true (map c07_rows segs) in
  let s9 := build_stats (concat segs) in
  OG.C07.ModelPreAgg.s_cnt s7 = cnt s9 /\
  OG.C07.ModelPreAgg.s_sum s7 = pat (sum s9) /\
  (cnt s9 <> 0 -> smin s9 = Some (OG.C07.ModelPreAgg.sgn64 (OG.C07.ModelPreAgg.s_min s7), OG.C07.ModelPreAgg.s_minT s7) /\
                  smax s9 = Some (OG.C07.ModelPreAgg.sgn64 (OG.C07.ModelPreAgg.s_max s7), OG.C07.ModelPreAgg.s_maxT s7)).
Proof. exact builder_models_agree. Qed.
Print Assumptions C09_stats_builder_agrees_with_C07.
