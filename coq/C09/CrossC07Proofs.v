(* C09 x C07, PROVED: C07's model of the integer statistics builder (IntegerPreAgg.reset / addValues accumulated segment
   by segment over int64 bit patterns, repaired start-value rule - coq/C07/ModelStats.v int_build) computes, for every
   segment layout of time-ordered rows with int64 values, exactly the statistics C09 reasons about (build_stats of the
   rows): count, sum (as a bit pattern), min and max with their times. Uses C07's own theorem stats_int_repaired
   (builder = first-occurrence reference) and relates that reference to build_stats. *)
From Coq Require Import ZArith List Bool Lia.
From OG Require Import C09.Model C09.Proofs C09.ListSpec C09.ChunkModel C09.ChunkProofs C09.Corr C09.CrossC07.
From OG Require C07.Model C07.ModelPreAgg C07.ModelStats C07.ProofsStats.
Import ListNotations.
Open Scope Z_scope.

Notation M64 := OG.C07.Model.M64.
Notation M63 := OG.C07.Model.M63.
Notation sgn64 := OG.C07.ModelPreAgg.sgn64.
Notation ilt := OG.C07.ModelStats.ilt.
Notation iadd := OG.C07.ModelStats.iadd.
Notation ref_loop := (OG.C07.ModelStats.ref_loop ilt (fun _ => true) iadd).

Definition in_i64 (v : Z) : Prop := - M63 <= v < M63.
Definition pat (v : Z) : Z := v mod M64.

Lemma sgn_pat : forall v, in_i64 v -> sgn64 (pat v) = v.
Proof.
  intros v [L H]. unfold pat, OG.C07.ModelPreAgg.sgn64, OG.C07.Model.M64, OG.C07.Model.M63 in *.
  destruct (Z_lt_le_dec v 0) as [N | N].
  - replace (v mod 18446744073709551616) with (v + 18446744073709551616).
    + destruct (v + 18446744073709551616 <? 9223372036854775808) eqn:E; [apply Z.ltb_lt in E; lia | lia].
    + rewrite <- (Z_mod_plus_full v 1 18446744073709551616). rewrite Z.mod_small; lia.
  - rewrite Z.mod_small by lia. destruct (v <? 9223372036854775808) eqn:E; [reflexivity | apply Z.ltb_ge in E; lia].
Qed.

Definition vals_in_range (rows : list row) : Prop := forall t v, In (t, Some v) rows -> in_i64 v.
Definition dec (o : option (Z * Z)) : option (Z * Z) := match o with Some (p, t) => Some (sgn64 p, t) | None => None end.

Lemma ref_loop_snoc : forall rows mn mx sm n r,
  ref_loop mn mx sm n (rows ++ [r]) =
  let '(mn', mx', sm', n') := ref_loop mn mx sm n rows in ref_loop mn' mx' sm' n' [r].
Proof.
  induction rows as [| [[v |] t] rows IH]; intros; cbn [app OG.C07.ModelStats.ref_loop].
  - destruct (ref_loop mn mx sm n [r]) as [[[? ?] ?] ?]. reflexivity.
  - apply IH.
  - apply IH.
Qed.

Lemma c07_rows_app : forall a b, c07_rows (a ++ b) = c07_rows a ++ c07_rows b.
Proof. intros. unfold c07_rows. apply map_app. Qed.

Lemma smin_time_in : forall rows v t, smin (build_stats rows) = Some (v, t) -> exists r, In r rows /\ fst r = t.
Proof. intros rows v t E. exists (t, Some v). split; [apply smin_in; exact E | reflexivity]. Qed.
Lemma smax_time_in : forall rows v t, smax (build_stats rows) = Some (v, t) -> exists r, In r rows /\ fst r = t.
Proof. intros rows v t E. exists (t, Some v). split; [apply smax_in; exact E | reflexivity]. Qed.

(* the first-occurrence reference over bit patterns, decoded, is build_stats *)
Definition ref_ok (r : option (Z * Z) * option (Z * Z) * Z * Z) (s : stats) : Prop :=
  let '(mn, mx, sm, n) := r in
  n = cnt s /\ sm = pat (sum s) /\ dec mn = smin s /\ dec mx = smax s /\
  (forall p t, mn = Some (p, t) -> exists v, in_i64 v /\ p = pat v) /\ (forall p t, mx = Some (p, t) -> exists v, in_i64 v /\ p = pat v).

Lemma reference_ok : forall rows, asc rows -> vals_in_range rows ->
  ref_ok (ref_loop None None 0 0 (c07_rows rows)) (build_stats rows).
Proof.
  induction rows as [| r rows IH] using rev_ind; intros A R.
  - cbn. repeat split; try reflexivity; intros; discriminate.
  - apply asc_app in A. destruct A as (A1 & _ & A3).
    assert (R1 : vals_in_range rows) by (intros t v I; apply (R t v); apply in_or_app; left; exact I).
    specialize (IH A1 R1). rewrite c07_rows_app.
    change (c07_rows [r]) with [(option_map pat (snd r), fst r)]. rewrite ref_loop_snoc, build_stats_snoc.
    destruct (ref_loop None None 0 0 (c07_rows rows)) as [[[mn mx] sm] n].
    destruct IH as (C & S & Mi & Ma & Pi & Pa).
    destruct r as [t [v |]]; cbn [option_map snd fst OG.C07.ModelStats.ref_loop of_row].
    2:{ rewrite combine_empty_r. repeat split; auto. }
    assert (V : in_i64 v) by (apply (R t v); apply in_or_app; right; left; reflexivity).
    unfold ref_ok. cbn [combine cnt sum smin smax].
    split; [lia |]. split.
    { unfold OG.C07.ModelStats.iadd. rewrite S. unfold pat. symmetry. apply Zplus_mod. }
    split.
    { (* min *)
      unfold OG.C07.ModelStats.ref_step. destruct mn as [[pm tm] |]; cbn [dec] in Mi |- *.
      - destruct (Pi pm tm eq_refl) as (m & Rm & Em). subst pm. rewrite (sgn_pat m Rm) in Mi. rewrite <- Mi. cbn [pick].
        unfold OG.C07.ModelStats.ilt. rewrite (sgn_pat v V), (sgn_pat m Rm). unfold min_better; cbn [fst snd].
        symmetry in Mi. destruct (smin_time_in _ _ _ Mi) as (x & Ix & Ex). specialize (A3 x (t, Some v) Ix (or_introl eq_refl)). cbn [fst] in A3.
        destruct (v <? m) eqn:B1; cbn [dec]; rewrite ?sgn_pat by assumption;
          destruct ((m <? v) || ((m =? v) && (tm <=? t))) eqn:B2; auto; bools; lia.
      - rewrite <- Mi. cbn [pick dec]. rewrite (sgn_pat v V). reflexivity. }
    split.
    { (* max *)
      unfold OG.C07.ModelStats.ref_step. destruct mx as [[pm tm] |]; cbn [dec] in Ma |- *.
      - destruct (Pa pm tm eq_refl) as (m & Rm & Em). subst pm. rewrite (sgn_pat m Rm) in Ma. rewrite <- Ma. cbn [pick].
        unfold OG.C07.ModelStats.ilt. rewrite (sgn_pat v V), (sgn_pat m Rm). unfold max_better; cbn [fst snd].
        symmetry in Ma. destruct (smax_time_in _ _ _ Ma) as (x & Ix & Ex). specialize (A3 x (t, Some v) Ix (or_introl eq_refl)). cbn [fst] in A3.
        destruct (m <? v) eqn:B1; cbn [dec]; rewrite ?sgn_pat by assumption;
          destruct ((v <? m) || ((m =? v) && (tm <=? t))) eqn:B2; auto; bools; lia.
      - rewrite <- Ma. cbn [pick dec]. rewrite (sgn_pat v V). reflexivity. }
    split.
    + intros p t0 E. unfold OG.C07.ModelStats.ref_step in E. destruct mn as [[pm tm] |].
      * destruct (ilt (pat v) pm); inversion E; subst; [exists v; auto | apply (Pi _ _ eq_refl)].
      * inversion E; subst. exists v; auto.
    + intros p t0 E. unfold OG.C07.ModelStats.ref_step in E. destruct mx as [[pm tm] |].
      * destruct (ilt pm (pat v)); inversion E; subst; [exists v; auto | apply (Pa _ _ eq_refl)].
      * inversion E; subst. exists v; auto.
Qed.

Lemma c07_rows_concat : forall segs, concat (map c07_rows segs) = c07_rows (concat segs).
Proof. induction segs as [| s segs IH]; cbn; auto. rewrite c07_rows_app, IH. reflexivity. Qed.

(* the builder model of C07 and the statistics of C09 agree on every segment layout *)
Theorem builder_models_agree : forall segs : list (list row), asc (concat segs) -> vals_in_range (concat segs) ->
  let s7 := OG.C07.ModelStats.int_build true (map c07_rows segs) in
  let s9 := build_stats (concat segs) in
  OG.C07.ModelPreAgg.s_cnt s7 = cnt s9 /\
  OG.C07.ModelPreAgg.s_sum s7 = pat (sum s9) /\
  (cnt s9 <> 0 -> smin s9 = Some (sgn64 (OG.C07.ModelPreAgg.s_min s7), OG.C07.ModelPreAgg.s_minT s7) /\
                  smax s9 = Some (sgn64 (OG.C07.ModelPreAgg.s_max s7), OG.C07.ModelPreAgg.s_maxT s7)).
Proof.
  intros segs A R s7 s9. subst s7.
  rewrite OG.C07.ProofsStats.stats_int_repaired. unfold OG.C07.ModelStats.int_reference, OG.C07.ModelStats.reference.
  rewrite c07_rows_concat. pose proof (reference_ok (concat segs) A R) as H.
  destruct (ref_loop None None 0 0 (c07_rows (concat segs))) as [[[mn mx] sm] n].
  destruct H as (C & S & Mi & Ma & _ & _). fold s9 in C, S, Mi, Ma.
  unfold OG.C07.ModelStats.int_ref_stat, OG.C07.ModelStats.ref_stat.
  cbn [OG.C07.ModelPreAgg.s_cnt OG.C07.ModelPreAgg.s_sum OG.C07.ModelPreAgg.s_min OG.C07.ModelPreAgg.s_max OG.C07.ModelPreAgg.s_minT OG.C07.ModelPreAgg.s_maxT].
  split; [exact C |]. split; [exact S |]. intros NZ.
  assert (Smin : smin s9 <> None).
  { intros E. pose proof (build_stats_min_spec (concat segs)) as Sp. fold s9 in Sp. rewrite E in Sp. cbn in Sp.
    destruct (build_stats_count_sum (concat segs)) as [Cn _]. fold s9 in Cn. rewrite <- vt_values, map_length, Sp in Cn. cbn in Cn. lia. }
  assert (Smax : smax s9 <> None).
  { intros E. pose proof (build_stats_max_spec (concat segs)) as Sp. fold s9 in Sp. rewrite E in Sp. cbn in Sp.
    destruct (build_stats_count_sum (concat segs)) as [Cn _]. fold s9 in Cn. rewrite <- vt_values, map_length, Sp in Cn. cbn in Cn. lia. }
  destruct mn as [[pm tm] |]; cbn [dec] in Mi; [| congruence].
  destruct mx as [[px tx] |]; cbn [dec] in Ma; [| congruence].
  split; congruence.
Qed.
