(* C09 - proofs about time buckets and tag groups (BucketModel.v) *)
From Coq Require Import ZArith List Bool Lia Permutation.
From OG Require Import C09.Model C09.Proofs C09.BucketModel.
Import ListNotations.
Open Scope Z_scope.

Lemma filter_and : forall A (p q : A -> bool) l, filter (fun x => p x && q x) l = filter q (filter p l).
Proof.
  induction l as [| x l IH]; cbn; auto. destruct (p x); cbn; [destruct (q x); rewrite IH; reflexivity | auto].
Qed.

(* a segment wholly inside the range and inside bucket b: all its rows are selected *)
Lemma seg_bucket_filter_id : forall lo hi w b s, 0 < w -> wf_segment s -> covered lo hi s = true -> seg_in_bucket w b s = true ->
  filter (in_rb lo hi w b) (s_rows s) = s_rows s.
Proof.
  intros lo hi w b s Hw W C B. pose proof (covered_filter_id lo hi s W C) as F.
  destruct W as (N & S & _). apply filter_all. intros r I.
  assert (R : in_range lo hi r = true). { rewrite <- F in I. apply filter_In in I. tauto. }
  unfold in_rb. rewrite R. cbn [andb]. pose proof (sorted_bounds _ r S I) as Bd.
  unfold seg_in_bucket, seg_min, seg_max, in_bucket, bucket_of in *. apply andb_true_iff in B. destruct B as [B1 B2].
  apply Z.eqb_eq in B1. apply Z.eqb_eq in B2. apply Z.eqb_eq.
  destruct (s_rows s) as [| x rows] eqn:E; [congruence |].
  assert (L1 : fst x / w <= fst r / w) by (apply Z.div_le_mono; lia).
  assert (L2 : fst r / w <= fst (last (x :: rows) (0, None)) / w) by (apply Z.div_le_mono; lia).
  lia.
Qed.

Lemma agg_segment_bucket_spec : forall use lo hi w b s, 0 < w -> wf_segment s ->
  agg_segment_bucket use lo hi w b s = build_stats (filter (in_rb lo hi w b) (s_rows s)).
Proof.
  intros use lo hi w b s Hw W. unfold agg_segment_bucket.
  destruct (use s && covered lo hi s && seg_in_bucket w b s) eqn:E; auto.
  apply andb_true_iff in E. destruct E as [E B]. apply andb_true_iff in E. destruct E as [_ C].
  rewrite (seg_bucket_filter_id lo hi w b s Hw W C B). destruct W as (_ & _ & S). exact S.
Qed.

Lemma agg_series_bucket_spec : forall use lo hi w b sr, 0 < w -> Forall wf_segment (g_segs sr) ->
  agg_series_bucket use lo hi w b sr = build_stats (filter (in_rb lo hi w b) (series_rows sr)).
Proof.
  intros use lo hi w b sr Hw W. unfold agg_series_bucket, series_rows, all_rows. rewrite filter_app, build_stats_app.
  induction W as [| s segs Ws Wsegs IH]; cbn [fold_right map concat].
  - rewrite combine_empty_l. reflexivity.
  - rewrite IH, (agg_segment_bucket_spec use lo hi w b s Hw Ws), filter_app, build_stats_app, combine_assoc. reflexivity.
Qed.

Definition wf_series (sr : series) : Prop := Forall wf_segment (g_segs sr).

Lemma agg_group_bucket_spec : forall use lo hi w ss g b, 0 < w -> Forall wf_series ss ->
  agg_group_bucket use lo hi w ss g b = build_stats (filter (in_rb lo hi w b) (group_rows ss g)).
Proof.
  intros use lo hi w ss g b Hw W. unfold agg_group_bucket, group_rows.
  induction W as [| sr ss Wsr Wss IH]; cbn [fold_right filter]; auto.
  destruct (g_key sr =? g); auto. cbn [map concat].
  rewrite IH, (agg_series_bucket_spec use lo hi w b sr Hw Wsr), filter_app, build_stats_app. reflexivity.
Qed.

Lemma agg_group_short_spec : forall lo hi ss g, Forall wf_series ss ->
  agg_group_short lo hi ss g = build_stats (filter (in_range lo hi) (group_rows ss g)).
Proof.
  intros lo hi ss g W. unfold agg_group_short, group_rows.
  induction W as [| sr ss Wsr Wss IH]; cbn [fold_right filter]; auto.
  destruct (g_key sr =? g); auto. cbn [map concat].
  rewrite IH, (agg_short_spec lo hi _ _ Wsr), filter_app, build_stats_app. reflexivity.
Qed.

(* per (group, bucket): whatever mix of statistics and rows the oracle picks, the result is the aggregate over the rows the
   plain select returns for that group inside the range and the bucket *)
Lemma bucket_equiv : forall use lo hi w ss g b selected, 0 < w -> Forall wf_series ss ->
  Permutation (filter (in_rb lo hi w b) (group_rows ss g)) selected ->
  agg_group_bucket use lo hi w ss g b = agg_rows selected.
Proof. intros. rewrite agg_group_bucket_spec; auto. apply build_stats_perm; auto. Qed.

Lemma group_equiv : forall lo hi ss g selected, Forall wf_series ss ->
  Permutation (filter (in_range lo hi) (group_rows ss g)) selected ->
  agg_group_short lo hi ss g = agg_rows selected.
Proof. intros. rewrite agg_group_short_spec; auto. apply build_stats_perm; auto. Qed.

(* ---- the buckets of a range partition its rows: nothing lost, nothing counted twice ---- *)
Lemma in_buckets : forall lo hi w t, 0 < w -> lo <= t <= hi -> In (bucket_of w t) (buckets lo hi w).
Proof.
  intros lo hi w t Hw R. unfold buckets, bucket_of.
  assert (L1 : lo / w <= t / w) by (apply Z.div_le_mono; lia).
  assert (L2 : t / w <= hi / w) by (apply Z.div_le_mono; lia).
  apply in_map_iff. exists (Z.to_nat (t / w - lo / w)). split; [lia |]. apply in_seq. lia.
Qed.

Lemma buckets_nodup : forall lo hi w, NoDup (buckets lo hi w).
Proof.
  intros. unfold buckets. apply FinFun.Injective_map_NoDup; [| apply seq_NoDup]. intros x y E. lia.
Qed.

Definition fold_stats (l : list stats) : stats := fold_right combine empty l.

Lemma fold_one_hit : forall (bs : list Z) (b0 : Z) (x : stats) (f : Z -> stats), NoDup bs -> In b0 bs ->
  fold_stats (map (fun b => if b =? b0 then combine x (f b) else f b) bs) = combine x (fold_stats (map f bs)).
Proof.
  induction bs as [| b bs IH]; intros b0 x f ND I; [destruct I |]. inversion ND as [| ? ? NI ND']; subst.
  unfold fold_stats in *. cbn [map fold_right]. destruct (b =? b0) eqn:E.
  - apply Z.eqb_eq in E. subst b0. rewrite combine_assoc. f_equal. f_equal. f_equal. apply map_ext_in.
    intros a Ia. destruct (a =? b) eqn:E2; auto. apply Z.eqb_eq in E2. subst. contradiction.
  - destruct I as [I | I]; [subst; rewrite Z.eqb_refl in E; discriminate |].
    rewrite (IH b0 x f ND' I). rewrite <- !combine_assoc, (combine_comm (f b) x). reflexivity.
Qed.

Lemma fold_empty : forall (bs : list Z), fold_stats (map (fun _ => empty) bs) = empty.
Proof. induction bs; cbn; auto. unfold fold_stats in *. cbn. rewrite IHbs. reflexivity. Qed.

Lemma bucket_partition_gen : forall lo hi w bs rows, NoDup bs ->
  (forall r, In r rows -> in_range lo hi r = true -> In (bucket_of w (fst r)) bs) ->
  build_stats (filter (in_range lo hi) rows) = fold_stats (map (fun b => build_stats (filter (in_rb lo hi w b) rows)) bs).
Proof.
  intros lo hi w bs rows ND. induction rows as [| r rows IH]; intros H.
  - cbn [filter]. change (build_stats []) with empty. rewrite fold_empty. reflexivity.
  - cbn [filter]. unfold in_rb at 1. destruct (in_range lo hi r) eqn:R; cbn [andb].
    + change (build_stats (r :: filter (in_range lo hi) rows)) with (combine (of_row r) (build_stats (filter (in_range lo hi) rows))).
      rewrite IH by (intros; apply H; [right |]; auto).
      rewrite <- (fold_one_hit bs (bucket_of w (fst r)) (of_row r) _ ND (H r (or_introl eq_refl) R)).
      f_equal. apply map_ext. intros b. unfold in_bucket. destruct (bucket_of w (fst r) =? b) eqn:E.
      * apply Z.eqb_eq in E. subst b. rewrite Z.eqb_refl. reflexivity.
      * rewrite Z.eqb_sym, E. reflexivity.
    + rewrite IH by (intros; apply H; [right |]; auto). reflexivity.
Qed.

Lemma bucket_partition : forall lo hi w rows, 0 < w ->
  build_stats (filter (in_range lo hi) rows) =
  fold_stats (map (fun b => build_stats (filter (in_rb lo hi w b) rows)) (buckets lo hi w)).
Proof.
  intros lo hi w rows Hw. apply bucket_partition_gen; [apply buckets_nodup |].
  intros r _ R. unfold in_range in R. apply andb_true_iff in R. destruct R as [R1 R2].
  apply Z.leb_le in R1. apply Z.leb_le in R2. apply in_buckets; auto.
Qed.

(* combining the per-bucket results of a group over all buckets of the range gives the un-bucketed result of the group *)
Lemma bucket_table_total : forall use lo hi w ss g, 0 < w -> Forall wf_series ss ->
  fold_stats (map snd (bucket_table use lo hi w ss g false)) = agg_group_short lo hi ss g.
Proof.
  intros use lo hi w ss g Hw W. unfold bucket_table. rewrite map_map. cbn [snd].
  rewrite (agg_group_short_spec lo hi ss g W), (bucket_partition lo hi w _ Hw). f_equal. apply map_ext.
  intros b. apply agg_group_bucket_spec; auto.
Qed.

(* descending order: the same per-bucket values, the table reversed; and visiting rows in descending time order changes
   no aggregate *)
Lemma bucket_table_desc : forall use lo hi w ss g,
  bucket_table use lo hi w ss g true = rev (bucket_table use lo hi w ss g false).
Proof. intros. unfold bucket_table. rewrite map_rev. reflexivity. Qed.
Lemma build_stats_rev : forall rows, build_stats (rev rows) = build_stats rows.
Proof. intros. apply build_stats_perm. apply Permutation_sym. apply Permutation_rev. Qed.

Lemma bucket_of_range : forall w t, 0 < w -> bucket_of w t * w <= t < (bucket_of w t + 1) * w.
Proof. intros w t Hw. unfold bucket_of. pose proof (Z.mul_div_le t w Hw). pose proof (Z.mul_succ_div_gt t w Hw). lia. Qed.
