(* C09 proofs *)
From Coq Require Import ZArith List Bool Lia Permutation.
From OG Require Import C09.Model.
Import ListNotations.
Open Scope Z_scope.

Ltac bools :=
  repeat match goal with
         | H : (_ || _) = true |- _ => apply orb_true_iff in H
         | H : (_ || _) = false |- _ => apply orb_false_iff in H
         | H : (_ && _) = true |- _ => apply andb_true_iff in H
         | H : (_ && _) = false |- _ => apply andb_false_iff in H
         | H : (_ <? _) = true |- _ => apply Z.ltb_lt in H
         | H : (_ <? _) = false |- _ => apply Z.ltb_ge in H
         | H : (_ <=? _) = true |- _ => apply Z.leb_le in H
         | H : (_ <=? _) = false |- _ => apply Z.leb_gt in H
         | H : (_ =? _) = true |- _ => apply Z.eqb_eq in H
         | H : (_ =? _) = false |- _ => apply Z.eqb_neq in H
         | H : _ /\ _ |- _ => destruct H
         | H : _ \/ _ |- _ => destruct H
         end.

Ltac pick_tac better :=
  unfold pick, better; cbn [fst snd];
  repeat (match goal with |- context [if ?b then _ else _] => destruct b eqn:? end; cbn [fst snd]);
  try reflexivity; try (f_equal; f_equal; bools; lia); try (exfalso; bools; lia).

Lemma pick_comm_min : forall a b, pick min_better a b = pick min_better b a.
Proof. intros [[? ?]|] [[? ?]|]; pick_tac min_better. Qed.
Lemma pick_comm_max : forall a b, pick max_better a b = pick max_better b a.
Proof. intros [[? ?]|] [[? ?]|]; pick_tac max_better. Qed.
Lemma pick_comm_first : forall a b, pick first_better a b = pick first_better b a.
Proof. intros [[? ?]|] [[? ?]|]; pick_tac first_better. Qed.
Lemma pick_comm_last : forall a b, pick last_better a b = pick last_better b a.
Proof. intros [[? ?]|] [[? ?]|]; pick_tac last_better. Qed.

Lemma pick_assoc_min : forall a b c, pick min_better (pick min_better a b) c = pick min_better a (pick min_better b c).
Proof. intros [[? ?]|] [[? ?]|] [[? ?]|]; pick_tac min_better. Qed.
Lemma pick_assoc_max : forall a b c, pick max_better (pick max_better a b) c = pick max_better a (pick max_better b c).
Proof. intros [[? ?]|] [[? ?]|] [[? ?]|]; pick_tac max_better. Qed.
Lemma pick_assoc_first : forall a b c, pick first_better (pick first_better a b) c = pick first_better a (pick first_better b c).
Proof. intros [[? ?]|] [[? ?]|] [[? ?]|]; pick_tac first_better. Qed.
Lemma pick_assoc_last : forall a b c, pick last_better (pick last_better a b) c = pick last_better a (pick last_better b c).
Proof. intros [[? ?]|] [[? ?]|] [[? ?]|]; pick_tac last_better. Qed.

Lemma stats_eq : forall a b, cnt a = cnt b -> sum a = sum b -> smin a = smin b -> smax a = smax b ->
  sfirst a = sfirst b -> slast a = slast b -> a = b.
Proof. intros [] []; cbn; intros; subst; reflexivity. Qed.

Lemma combine_comm : forall a b, combine a b = combine b a.
Proof.
  intros a b. apply stats_eq; cbn; try lia.
  apply pick_comm_min. apply pick_comm_max. apply pick_comm_first. apply pick_comm_last.
Qed.
Lemma combine_assoc : forall a b c, combine (combine a b) c = combine a (combine b c).
Proof.
  intros a b c. apply stats_eq; cbn; try lia.
  apply pick_assoc_min. apply pick_assoc_max. apply pick_assoc_first. apply pick_assoc_last.
Qed.
Lemma combine_empty_l : forall a, combine empty a = a.
Proof. intros []; reflexivity. Qed.
Lemma combine_empty_r : forall a, combine a empty = a.
Proof. intros a. rewrite combine_comm. apply combine_empty_l. Qed.

Lemma build_stats_app : forall a b, build_stats (a ++ b) = combine (build_stats a) (build_stats b).
Proof.
  induction a as [| r a IH]; intros b; cbn.
  - rewrite combine_empty_l; reflexivity.
  - fold (build_stats (a ++ b)). fold (build_stats a). rewrite IH, combine_assoc. reflexivity.
Qed.

Lemma build_stats_perm : forall a b, Permutation a b -> build_stats a = build_stats b.
Proof.
  induction 1; cbn; auto.
  - fold (build_stats l). fold (build_stats l'). congruence.
  - fold (build_stats l). rewrite <- !combine_assoc. rewrite (combine_comm (of_row y) (of_row x)). reflexivity.
  - congruence.
Qed.

(* what the statistics mean *)
Definition values (rows : list row) : list Z := concat (map (fun r : row => match snd r with Some v => [v] | None => [] end) rows).
Lemma build_stats_count_sum : forall rows,
  cnt (build_stats rows) = Z.of_nat (length (values rows)) /\ sum (build_stats rows) = fold_right Z.add 0 (values rows).
Proof.
  induction rows as [| [t [v |]] rows [IH1 IH2]].
  - split; reflexivity.
  - change (build_stats ((t, Some v) :: rows)) with (combine (of_row (t, Some v)) (build_stats rows)).
    change (values ((t, Some v) :: rows)) with (v :: values rows).
    cbn [combine of_row cnt sum snd fold_right length]. rewrite IH1, IH2, Nat2Z.inj_succ. split; lia.
  - change (build_stats ((t, None) :: rows)) with (combine empty (build_stats rows)). rewrite combine_empty_l.
    change (values ((t, None) :: rows)) with (values rows). auto.
Qed.

(* a covered segment: every row lies in the range, so its stored statistics are the statistics of its rows in range *)
Lemma sorted_bounds : forall rows r, sorted_rows rows -> In r rows ->
  fst (match rows with x :: _ => x | [] => (0, None) end) <= fst r <= fst (last rows (0, None)).
Proof.
  intros rows r HS I. apply In_nth with (d := (0, None)) in I. destruct I as (i & Hi & E). subst r.
  assert (L : last rows (0, None) = nth (length rows - 1) rows (0, None)).
  { clear. induction rows as [| x [| y rows] IH]; cbn in *; auto. rewrite IH. destruct (length rows); cbn; auto. }
  rewrite L. split.
  - destruct rows as [| x rows]; [cbn in Hi; lia |]. destruct i; [cbn; lia |].
    specialize (HS 0%nat (Datatypes.S i)). cbn [nth] in HS. cbn [nth]. cbn [length] in *. lia.
  - destruct (Nat.eq_dec i (length rows - 1)); [subst; lia |]. specialize (HS i (length rows - 1)%nat). lia.
Qed.

Lemma filter_all : forall A (p : A -> bool) l, (forall x, In x l -> p x = true) -> filter p l = l.
Proof.
  induction l as [| x l IH]; intros H; cbn; auto. rewrite (H x (or_introl eq_refl)). f_equal. apply IH. intros; apply H; right; auto.
Qed.

Lemma covered_filter_id : forall lo hi s, wf_segment s -> covered lo hi s = true ->
  filter (in_range lo hi) (s_rows s) = s_rows s.
Proof.
  intros lo hi s (N & S & _) C. unfold covered, seg_min, seg_max in C. apply andb_true_iff in C. destruct C as [C1 C2].
  apply Z.leb_le in C1. apply Z.leb_le in C2.
  apply filter_all. intros r I. pose proof (sorted_bounds _ r S I) as B.
  unfold in_range. destruct (s_rows s) as [| x rows] eqn:E; [congruence |].
  apply andb_true_iff; split; apply Z.leb_le; lia.
Qed.

Lemma agg_segment_spec : forall lo hi s, wf_segment s ->
  agg_segment lo hi s = build_stats (filter (in_range lo hi) (s_rows s)).
Proof.
  intros lo hi s W. unfold agg_segment. destruct (covered lo hi s) eqn:C; auto.
  rewrite (covered_filter_id lo hi s W C). destruct W as (_ & _ & E). auto.
Qed.

Lemma filter_concat : forall A (p : A -> bool) (ls : list (list A)), filter p (concat ls) = concat (map (filter p) ls).
Proof. induction ls as [| l ls IH]; cbn; auto. rewrite filter_app, IH. reflexivity. Qed.

(* the shortcut evaluates to the statistics of all stored rows in range, in container order *)
Lemma agg_short_spec : forall lo hi segs mem, Forall wf_segment segs ->
  agg_short lo hi segs mem = build_stats (filter (in_range lo hi) (all_rows segs mem)).
Proof.
  intros lo hi segs mem W. unfold agg_short, all_rows. rewrite filter_app, build_stats_app.
  induction W as [| s segs Ws Wsegs IH]; cbn.
  - rewrite combine_empty_l. reflexivity.
  - rewrite IH. rewrite (agg_segment_spec lo hi s Ws). rewrite filter_app, build_stats_app, combine_assoc. reflexivity.
Qed.

(* C09_equiv: when the plain select returns exactly the stored rows in range (in any order - it returns them sorted by
   time), the shortcut equals the aggregate over the selected rows. "Exactly the stored rows" is what
   no_cross_generation_dup gives: no (series,time) is stored twice, so the last-write-wins read of C02 drops nothing. *)
Lemma equiv_main : forall lo hi segs mem selected, Forall wf_segment segs ->
  Permutation (filter (in_range lo hi) (all_rows segs mem)) selected ->
  agg_short lo hi segs mem = agg_rows selected.
Proof. intros. rewrite agg_short_spec; auto. apply build_stats_perm; auto. Qed.

(* ---- multi-column statements ---- *)
Lemma multi_short_nth : forall n lo hi segs mem i, (i < n)%nat ->
  nth i (agg_multi_short n lo hi segs mem) empty = agg_short lo hi (col_segments i segs) (col i mem).
Proof.
  intros n lo hi segs mem i H. unfold agg_multi_short.
  rewrite (nth_indep _ empty (agg_short lo hi (col_segments 0 segs) (col 0 mem))) by (rewrite map_length, seq_length; auto).
  rewrite (map_nth (fun i => agg_short lo hi (col_segments i segs) (col i mem)) (seq 0 n) 0%nat i).
  rewrite seq_nth; auto.
Qed.

Lemma multi_rows_nth : forall n rows i, (i < n)%nat -> nth i (agg_multi_rows n rows) empty = agg_rows (col i rows).
Proof.
  intros n rows i H. unfold agg_multi_rows.
  rewrite (nth_indep _ empty (agg_rows (col 0 rows))) by (rewrite map_length, seq_length; auto).
  rewrite (map_nth (fun i => agg_rows (col i rows)) (seq 0 n) 0%nat i). rewrite seq_nth; auto.
Qed.

Lemma mk_segment_wf : forall rows, rows <> [] -> sorted_rows rows -> wf_segment (mk_segment rows).
Proof. intros rows N S. repeat split; auto. Qed.

(* every column of a multi-column statement is the single-column shortcut of that column: if, column by column, the
   plain select of that field returns the stored rows of the range, the statement returns the aggregates over the rows *)
Lemma multi_equiv : forall n lo hi segs mem (selected : nat -> list row),
  (forall i, (i < n)%nat -> Forall wf_segment (col_segments i segs) /\
                            Permutation (filter (in_range lo hi) (all_rows (col_segments i segs) (col i mem))) (selected i)) ->
  agg_multi_short n lo hi segs mem = map (fun i => agg_rows (selected i)) (seq 0 n).
Proof.
  intros n lo hi segs mem selected H. unfold agg_multi_short. apply map_ext_in. intros i I.
  apply in_seq in I. destruct (H i) as [W P]; [lia |]. apply equiv_main; auto.
Qed.
