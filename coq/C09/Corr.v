(* C09 correspondence evaluator: for every checked query group the harness hands over the rows of the plain select
   (time, value) and the aggregate the real shard returned; the model computes the aggregate over the rows
   (agg_rows = build_stats, the same function the theorems are about) and compares the component the query asked for. *)
From Coq Require Import ZArith List Bool.
From OG Require Import C09.Model.
Import ListNotations.
Open Scope Z_scope.

(* fn: 0 count, 1 sum, 2 min, 3 max, 4 first, 5 last; got = None when the shard returned no value for the group *)
Definition check_group (fn : Z) (rows : list (Z * Z)) (got : option Z) : bool :=
  let st := agg_rows (map (fun r => (fst r, Some (snd r))) rows) in
  let sel (o : option (Z * Z)) := match o, got with
                                  | Some (v, _), Some g => v =? g
                                  | None, None => true
                                  | _, _ => false
                                  end in
  if fn =? 0 then match got with Some g => cnt st =? g | None => cnt st =? 0 end
  else if fn =? 1 then match got with Some g => negb (cnt st =? 0) && (sum st =? g) | None => cnt st =? 0 end
  else if fn =? 2 then sel (smin st)
  else if fn =? 3 then sel (smax st)
  else if fn =? 4 then sel (sfirst st)
  else sel (slast st).

Fixpoint mismatches_from (k : nat) (cs : list (Z * list (Z * Z) * option Z)) : list nat :=
  match cs with
  | [] => []
  | (fn, rows, got) :: r => if check_group fn rows got then mismatches_from (S k) r else k :: mismatches_from (S k) r
  end.
Definition mismatches := mismatches_from 0.
