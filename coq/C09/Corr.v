(* C09 correspondence evaluators (run on the harness' cases on every check):
   1. check_group: for every checked query group the harness hands over the rows of the plain select (time, value) and
      the aggregate the real shard returned; the model computes the aggregate over the rows (agg_rows = build_stats, the
      function the theorems are about) and compares the component the query asked for.
   2. chunk cases: for every (data file, series) the decoded segments, the STORED chunk statistics and the partial
      results of real pre-aggregation reads; the model checks the hypotheses of the chunk theorems on the real data
      (segments non-empty, times strictly ascending, stored segment ranges), build_stats of the decoded rows against the
      stored statistics, and chunk_partial_repaired / chunk_partial_current against every read.
   3. memtable cases: the statistics the real builder left against mem_stats_repaired / mem_stats_current. *)
From Coq Require Import ZArith List Bool.
From OG Require Import C09.Model C09.ChunkModel C09.ChunkProofs C09.BucketModel.
Import ListNotations.
Open Scope Z_scope.

Definition opt_pair_eqb (a b : option (Z * Z)) : bool :=
  match a, b with
  | Some (x, y), Some (u, v) => (x =? u) && (y =? v)
  | None, None => true
  | _, _ => false
  end.
Definition opt_val_eqb (a b : option (Z * Z)) : bool :=      (* values only *)
  match a, b with
  | Some (x, _), Some (u, _) => x =? u
  | None, None => true
  | _, _ => false
  end.

(* ---- 1. query groups ----
   fn: 0 count, 1 sum, 2 min, 3 max, 4 first, 5 last, 6 mean (got = sum part, gotcnt = count part);
   got = None when the shard returned no value for the group. A group may hold rows of several series (GROUP BY without
   host): rows of different series with the same time tie for first / last, any of them is accepted - the model's own
   choice (sfirst / slast) fixes the time, the value must be the value of a row at that time. *)
Definition at_time_ok (o : option (Z * Z)) (rows : list (Z * Z)) (got : option Z) : bool :=
  match o, got with
  | Some (_, t), Some g => existsb (fun r : Z * Z => (fst r =? t) && (snd r =? g)) rows
  | None, None => true
  | _, _ => false
  end.
Definition check_group (fn : Z) (rows : list (Z * Z)) (got : option Z) (gotcnt : Z) : bool :=
  let st := agg_rows (map (fun r => (fst r, Some (snd r))) rows) in
  let sel (o : option (Z * Z)) := match o, got with
                                  | Some (v, _), Some g => v =? g
                                  | None, None => true
                                  | _, _ => false
                                  end in
  if fn =? 0 then match got with Some g => cnt st =? g | None => cnt st =? 0 end
  else if fn =? 1 then match got with Some g => negb (cnt st =? 0) && (sum st =? g) | None => cnt st =? 0 end
  else if fn =? 2 then sel (smin st)
  else if fn =? 3 then sel (smax st)
  else if fn =? 4 then at_time_ok (sfirst st) rows got
  else if fn =? 5 then at_time_ok (slast st) rows got
  else match got with
       | Some g => negb (cnt st =? 0) && (fst (mean_num_den st) =? g) && (snd (mean_num_den st) =? gotcnt)
       | None => (cnt st =? 0) && (gotcnt =? 0)
       end.

Fixpoint mismatches_from (k : nat) (cs : list (Z * list (Z * Z) * option Z * Z)) : list nat :=
  match cs with
  | [] => []
  | (fn, rows, got, gc) :: r => if check_group fn rows got gc then mismatches_from (S k) r else k :: mismatches_from (S k) r
  end.
Definition mismatches := mismatches_from 0.

(* ---- 2. chunks ----
   kind: 0 integer, 1 float, 2 boolean, 3 string. *)
Definition use_pre_of (kind : Z) : bool := kind <=? 1.

(* stored statistics of field f: (f, kind, count, sum (integer/float), min (v,t), max (v,t)) *)
Definition stored := (nat * Z * Z * option Z * option (Z * Z) * option (Z * Z))%type.
Definition check_stored (segs : list (list mrow)) (s : stored) : bool :=
  let '(f, kind, c, su, mn, mx) := s in
  let st := build_stats (concat (map (col f) segs)) in
  (cnt st =? c)
  && (if kind <=? 1 then match su with Some x => sum st =? x | None => false end else true)
  && (if kind <=? 1 then opt_pair_eqb (smin st) mn && opt_pair_eqb (smax st) mx        (* value and time *)
      else if kind =? 2 then opt_val_eqb (smin st) mn && opt_val_eqb (smax st) mx      (* boolean: value (see NOTES) *)
      else true).

(* the hypotheses of the chunk theorems, checked on the decoded data: every segment non-empty, times strictly ascending
   over the chunk, and the stored per-segment time ranges are the first / last time of the segment *)
Definition check_layout (segs : list (list mrow)) (ranges : list (Z * Z)) : bool :=
  let tsegs := map (col 0) segs in
  forallb (fun s : list row => match s with [] => false | _ => true end) tsegs
  && ascb (concat tsegs)
  && (length ranges =? length tsegs)%nat
  && forallb (fun p : list row * (Z * Z) => (rows_lo (fst p) =? fst (snd p)) && (rows_hi (fst p) =? snd (snd p))) (List.combine tsegs ranges).

(* one read: (lo, hi, f, kind, fn, got (value, time)) ; time is -1 for count / sum *)
Definition read := (Z * Z * nat * Z * Z * option (Z * Z))%type.
Definition check_read (part : bool -> Z -> Z -> chunk -> stats) (segs : list (list mrow)) (r : read) : bool :=
  let '(lo, hi, f, kind, fn, got) := r in
  let c := mk_chunk (map (col f) segs) in
  let p := part (use_pre_of kind) lo hi c in
  if fn =? 0 then match got with Some (g, _) => negb (cnt p =? 0) && (cnt p =? g) | None => cnt p =? 0 end
  else if fn =? 1 then match got with Some (g, _) => negb (cnt p =? 0) && (sum p =? g) | None => cnt p =? 0 end
  else if fn =? 2 then opt_val_eqb (smin p) got      (* the time of a partial min / max only breaks ties: values *)
  else if fn =? 3 then opt_val_eqb (smax p) got
  else if fn =? 4 then opt_pair_eqb (sfirst p) got
  else opt_pair_eqb (slast p) got.

Fixpoint bad_indices {A} (ok : A -> bool) (k : nat) (l : list A) : list nat :=
  match l with
  | [] => []
  | x :: r => if ok x then bad_indices ok (S k) r else k :: bad_indices ok (S k) r
  end.

Definition chunk_case := (list (list mrow) * list (Z * Z) * list stored * list read)%type.
(* result per chunk: layout ok?, indices of stored statistics that disagree, reads that disagree with the repaired
   model, reads that disagree with the current (pre-4c0ceca) model *)
Definition eval_chunk (cc : chunk_case) : bool * list nat * list nat * list nat :=
  let '(segs, ranges, sts, reads) := cc in
  (check_layout segs ranges,
   bad_indices (check_stored segs) 0 sts,
   bad_indices (check_read chunk_partial_repaired segs) 0 reads,
   bad_indices (check_read chunk_partial_current segs) 0 reads).

(* ---- 3. memtable builders ----
   got: (set, count, sum, min, max, first, last) as the builder left them for column i of the record *)
Definition mstat := (nat * Z * bool * Z * option Z * option (Z * Z) * option (Z * Z) * option (Z * Z) * option (Z * Z))%type.
Definition check_stat_against (st : stats) (m : mstat) : bool :=
  let '(_, kind, set, c, su, mn, mx, fi, la) := m in
  if negb set then cnt st =? 0
  else (cnt st =? c)
       && (if kind <=? 1 then match su with Some x => sum st =? x | None => false end else true)
       && (if kind <=? 2 then opt_pair_eqb (smin st) mn && opt_pair_eqb (smax st) mx else true)
       && opt_pair_eqb (sfirst st) fi && opt_pair_eqb (slast st) la.
Definition check_mstat (mem : list row -> stats) (rows : list mrow) (m : mstat) : bool :=
  let '(i, _, _, _, _, _, _, _, _) := m in check_stat_against (mem (col i rows)) m.
(* ---- 3b. combination of partial results: immutable.AggregateData on the partial results of two containers against the
   model's `combine` of their statistics (tie rules included: the two containers may share timestamps) ---- *)
Definition agg_case := (list row * list row * mstat)%type.
Definition check_agg (c : agg_case) : bool :=
  let '(a, b, m) := c in check_stat_against (combine (build_stats a) (build_stats b)) m.
Definition agg_mismatches (cs : list agg_case) : list nat := bad_indices check_agg 0 cs.
Definition mem_case := (list mrow * list mstat)%type.
Definition eval_mem (mc : mem_case) : bool * list nat * list nat :=
  let '(rows, ms) := mc in
  (ascb (col 0 rows), bad_indices (check_mstat mem_stats_repaired rows) 0 ms, bad_indices (check_mstat mem_stats_current rows) 0 ms).

(* flattened results for the driver: (case index, kind, item index)
   chunks: kind 0 layout, 1 stored statistic, 2 read vs repaired model, 3 read vs current model
   memtable: kind 0 times not ascending, 1 statistic vs repaired model, 2 statistic vs current model *)
Fixpoint flat_chunks_from (k : nat) (cs : list chunk_case) : list (nat * nat * nat) :=
  match cs with
  | [] => []
  | cc :: rest =>
    let '(l, s, a, b) := eval_chunk cc in
    (if l then [] else [(k, 0, 0)%nat]) ++ map (fun i => (k, 1, i)%nat) s ++ map (fun i => (k, 2, i)%nat) a ++ map (fun i => (k, 3, i)%nat) b
    ++ flat_chunks_from (S k) rest
  end.
Definition flat_chunks := flat_chunks_from 0.
Fixpoint flat_mem_from (k : nat) (cs : list mem_case) : list (nat * nat * nat) :=
  match cs with
  | [] => []
  | mc :: rest =>
    let '(l, a, b) := eval_mem mc in
    (if l then [] else [(k, 0, 0)%nat]) ++ map (fun i => (k, 1, i)%nat) a ++ map (fun i => (k, 2, i)%nat) b ++ flat_mem_from (S k) rest
  end.
Definition flat_mem := flat_mem_from 0.

(* ---- 4. time buckets: every row the plain select returned for a (group, bucket) of a GROUP BY time(w) statement lies in
   the model's bucket whose start is the window start the engine reported (times are second offsets from the harness'
   base time 1700000000 s) ---- *)
Definition check_bucket (c : Z * Z * list Z) : bool :=
  let '(w, bt, ts) := c in forallb (fun t => bucket_of w (1700000000 + t) * w =? 1700000000 + bt) ts.
Definition bucket_mismatches (cs : list (Z * Z * list Z)) : list nat := bad_indices check_bucket 0 cs.

(* ---- 5. selector with an auxiliary field (`SELECT last(x), y`): the aux value returned with the selected value must be
   the aux field of a row that carries the selected value - for first / last of the row at the extreme time (the model's
   sfirst / slast fix it), for min / max of any row carrying the value. rows: (time, value, aux). ---- *)
Definition opt_z_eqb (a b : option Z) : bool :=
  match a, b with Some x, Some y => x =? y | None, None => true | _, _ => false end.
Definition check_aux (c : Z * list (Z * Z * option Z) * Z * option Z) : bool :=
  let '(fn, rows, got, gaux) := c in
  let st := agg_rows (map (fun r : Z * Z * option Z => (fst (fst r), Some (snd (fst r)))) rows) in
  let tsel := match (if fn =? 4 then sfirst st else if fn =? 5 then slast st else None) with Some (_, t) => Some t | None => None end in
  existsb (fun r : Z * Z * option Z =>
             (snd (fst r) =? got) && (match tsel with Some t => fst (fst r) =? t | None => true end) && opt_z_eqb (snd r) gaux) rows.
Definition aux_mismatches (cs : list (Z * list (Z * Z * option Z) * Z * option Z)) : list nat := bad_indices check_aux 0 cs.


(* ---- 6. eligibility of the shortcut: the model's `eligible` (calls only, no time bucket, no field filter, no hint, not
   PromQL) against what the shard's query schema decided for the statement (the exact-statistics hint is tested one level
   below, by the cursors: it enters as false here). Case: (has time bucket, has field filter, schema says eligible). ---- *)
Definition check_eligible (c : bool * bool * bool) : bool :=
  let '(iv, ff, got) := c in
  Bool.eqb (eligible {| q_calls_only := true; q_interval := iv; q_field_filter := ff; q_exact_hint := false; q_promql := false |}) got.
Definition eligible_mismatches (cs : list (bool * bool * bool)) : list nat := bad_indices check_eligible 0 cs.
