(* C09 - time buckets (GROUP BY time(w)) and tag groups (GROUP BY tag, several series per group). Executable definitions.

   bucket_of: the window a timestamp falls into (query.ProcessorOptions.Window with zero offset: t - t mod w, floor
   semantics for negative times); a row belongs to exactly one bucket.
   A segment may be answered from its stored statistics for bucket b only when it lies wholly inside the query range AND
   wholly inside b; a segment crossing a bucket (or range) boundary is read row by row. Whether an eligible segment
   actually IS answered from its statistics is left to a choice oracle `use` (today's engine: never - matchPreAgg
   switches the shortcut off as soon as the statement has an interval; the theorem covers every oracle, so an engine
   that starts using statistics inside buckets stays inside the model as long as it respects the two conditions).
   A tag group is a set of series; its result per bucket is the combination of the per-series partial results. *)
From Coq Require Import ZArith List Bool.
From OG Require Import C09.Model.
Import ListNotations.
Open Scope Z_scope.

Definition bucket_of (w t : Z) : Z := t / w.
Definition in_bucket (w b : Z) (r : row) : bool := bucket_of w (fst r) =? b.
Definition in_rb (lo hi w b : Z) (r : row) : bool := in_range lo hi r && in_bucket w b r.

Definition seg_in_bucket (w b : Z) (s : segment) : bool := (bucket_of w (seg_min s) =? b) && (bucket_of w (seg_max s) =? b).
Definition agg_segment_bucket (use : segment -> bool) (lo hi w b : Z) (s : segment) : stats :=
  if use s && covered lo hi s && seg_in_bucket w b s then s_stats s
  else build_stats (filter (in_rb lo hi w b) (s_rows s)).

Record series := { g_key : Z; g_segs : list segment; g_mem : list row }.
Definition series_rows (sr : series) : list row := all_rows (g_segs sr) (g_mem sr).

Definition agg_series_bucket (use : segment -> bool) (lo hi w b : Z) (sr : series) : stats :=
  fold_right (fun s acc => combine (agg_segment_bucket use lo hi w b s) acc)
             (build_stats (filter (in_rb lo hi w b) (g_mem sr))) (g_segs sr).

(* per (group, bucket): the series of the group, combined *)
Definition agg_group_bucket (use : segment -> bool) (lo hi w : Z) (ss : list series) (g b : Z) : stats :=
  fold_right (fun sr acc => if g_key sr =? g then combine (agg_series_bucket use lo hi w b sr) acc else acc) empty ss.
(* per group, no bucket: the statistics shortcut of Model.v per series, combined *)
Definition agg_group_short (lo hi : Z) (ss : list series) (g : Z) : stats :=
  fold_right (fun sr acc => if g_key sr =? g then combine (agg_short lo hi (g_segs sr) (g_mem sr)) acc else acc) empty ss.

Definition group_rows (ss : list series) (g : Z) : list row :=
  concat (map series_rows (filter (fun sr => g_key sr =? g) ss)).

(* the buckets a range touches, ascending *)
Definition buckets (lo hi w : Z) : list Z :=
  map (fun i => bucket_of w lo + Z.of_nat i) (seq 0 (Z.to_nat (bucket_of w hi - bucket_of w lo + 1))).

(* the result table of `GROUP BY time(w)` for one group: ascending, or descending (ORDER BY time DESC) *)
Definition bucket_table (use : segment -> bool) (lo hi w : Z) (ss : list series) (g : Z) (desc : bool) : list (Z * stats) :=
  let bs := buckets lo hi w in
  map (fun b => (b, agg_group_bucket use lo hi w ss g b)) (if desc then rev bs else bs).
