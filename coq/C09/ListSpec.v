(* C09 - independent LIST SPECIFICATIONS of min / max / first / last (with their tie rules) and proofs that the
   statistics builder (build_stats) and the combination of partial results (combine) meet them.

   The specifications talk about the list of non-null (value, time) pairs only - no fold, no pick:
     min   : the value is a lower bound of all values; among the rows carrying it, the reported time is the EARLIEST
     max   : the value is an upper bound; among the rows carrying it, the reported time is the EARLIEST
             (engine: IntegerPreAgg.addValues / readMinRowIndex use a strict comparison while scanning in time order,
              minMeta / maxMeta / addMin / addMax prefer the smaller time on equal values)
     first : the time is the SMALLEST time; among rows of that time (only possible across containers / series) the
             GREATER value is reported   (engine: firstMeta + compareMin take the other side when it is greater)
     last  : the time is the GREATEST time; among rows of that time the GREATER value is reported (lastMeta + compareMin)
   Each specification determines its result uniquely (spec_*_unique). *)
From Coq Require Import ZArith List Bool Lia Permutation.
From OG Require Import C09.Model C09.Proofs.
Import ListNotations.
Open Scope Z_scope.

(* the non-null (value, time) pairs of a row list *)
Definition vt (rows : list row) : list (Z * Z) :=
  flat_map (fun r : row => match snd r with Some v => [(v, fst r)] | None => [] end) rows.

Definition spec_min (rows : list row) (o : option (Z * Z)) : Prop :=
  match o with
  | None => vt rows = []
  | Some (v, t) => In (v, t) (vt rows) /\ forall v' t', In (v', t') (vt rows) -> v <= v' /\ (v' = v -> t <= t')
  end.
Definition spec_max (rows : list row) (o : option (Z * Z)) : Prop :=
  match o with
  | None => vt rows = []
  | Some (v, t) => In (v, t) (vt rows) /\ forall v' t', In (v', t') (vt rows) -> v' <= v /\ (v' = v -> t <= t')
  end.
Definition spec_first (rows : list row) (o : option (Z * Z)) : Prop :=
  match o with
  | None => vt rows = []
  | Some (v, t) => In (v, t) (vt rows) /\ forall v' t', In (v', t') (vt rows) -> t <= t' /\ (t' = t -> v' <= v)
  end.
Definition spec_last (rows : list row) (o : option (Z * Z)) : Prop :=
  match o with
  | None => vt rows = []
  | Some (v, t) => In (v, t) (vt rows) /\ forall v' t', In (v', t') (vt rows) -> t' <= t /\ (t' = t -> v' <= v)
  end.

Lemma vt_cons_some : forall t v rows, vt ((t, Some v) :: rows) = (v, t) :: vt rows.
Proof. reflexivity. Qed.
Lemma vt_cons_none : forall t rows, vt ((t, None) :: rows) = vt rows.
Proof. reflexivity. Qed.
Lemma vt_app : forall a b, vt (a ++ b) = vt a ++ vt b.
Proof. intros. unfold vt. apply flat_map_app. Qed.
Lemma vt_in : forall rows v t, In (v, t) (vt rows) <-> In (t, Some v) rows.
Proof.
  induction rows as [| [t0 [v0 |]] rows IH]; intros v t.
  - split; intros [].
  - rewrite vt_cons_some. cbn [In]. rewrite IH. split; intros [E | I]; auto; left; congruence.
  - rewrite vt_cons_none. cbn [In]. rewrite IH. split; [auto | intros [E | I]; [discriminate | auto]].
Qed.

Lemma build_cons_some : forall t v rows,
  build_stats ((t, Some v) :: rows) = combine (of_row (t, Some v)) (build_stats rows).
Proof. reflexivity. Qed.
Lemma build_cons_none : forall t rows, build_stats ((t, None) :: rows) = build_stats rows.
Proof. intros. change (build_stats ((t, None) :: rows)) with (combine empty (build_stats rows)). apply combine_empty_l. Qed.

(* uniqueness: each specification has at most one solution *)
Lemma spec_min_unique : forall rows a b, spec_min rows a -> spec_min rows b -> a = b.
Proof.
  intros rows [[v t] |] [[v' t'] |]; cbn; intros A B; auto.
  - destruct A as [IA HA], B as [IB HB]. destruct (HA _ _ IB) as [L1 T1]. destruct (HB _ _ IA) as [L2 T2].
    assert (v = v') by lia. subst. assert (t = t') by (specialize (T1 eq_refl); specialize (T2 eq_refl); lia). subst. reflexivity.
  - destruct A as [IA _]. rewrite B in IA. destruct IA.
  - destruct B as [IB _]. rewrite A in IB. destruct IB.
Qed.
Lemma spec_max_unique : forall rows a b, spec_max rows a -> spec_max rows b -> a = b.
Proof.
  intros rows [[v t] |] [[v' t'] |]; cbn; intros A B; auto.
  - destruct A as [IA HA], B as [IB HB]. destruct (HA _ _ IB) as [L1 T1]. destruct (HB _ _ IA) as [L2 T2].
    assert (v = v') by lia. subst. assert (t = t') by (specialize (T1 eq_refl); specialize (T2 eq_refl); lia). subst. reflexivity.
  - destruct A as [IA _]. rewrite B in IA. destruct IA.
  - destruct B as [IB _]. rewrite A in IB. destruct IB.
Qed.
Lemma spec_first_unique : forall rows a b, spec_first rows a -> spec_first rows b -> a = b.
Proof.
  intros rows [[v t] |] [[v' t'] |]; cbn; intros A B; auto.
  - destruct A as [IA HA], B as [IB HB]. destruct (HA _ _ IB) as [L1 T1]. destruct (HB _ _ IA) as [L2 T2].
    assert (t = t') by lia. subst. assert (v = v') by (specialize (T1 eq_refl); specialize (T2 eq_refl); lia). subst. reflexivity.
  - destruct A as [IA _]. rewrite B in IA. destruct IA.
  - destruct B as [IB _]. rewrite A in IB. destruct IB.
Qed.
Lemma spec_last_unique : forall rows a b, spec_last rows a -> spec_last rows b -> a = b.
Proof.
  intros rows [[v t] |] [[v' t'] |]; cbn; intros A B; auto.
  - destruct A as [IA HA], B as [IB HB]. destruct (HA _ _ IB) as [L1 T1]. destruct (HB _ _ IA) as [L2 T2].
    assert (t = t') by lia. subst. assert (v = v') by (specialize (T1 eq_refl); specialize (T2 eq_refl); lia). subst. reflexivity.
  - destruct A as [IA _]. rewrite B in IA. destruct IA.
  - destruct B as [IB _]. rewrite A in IB. destruct IB.
Qed.

(* build_stats meets the specifications, for EVERY row list (no order assumption) *)
Lemma build_stats_min_spec : forall rows, spec_min rows (smin (build_stats rows)).
Proof.
  induction rows as [| [t [v |]] rows IH].
  - reflexivity.
  - rewrite build_cons_some. cbn [combine of_row smin snd fst].
    destruct (smin (build_stats rows)) as [[v0 t0] |]; cbn [pick].
    + unfold min_better; cbn [fst snd]. unfold spec_min in IH. destruct IH as [I0 H0].
      destruct ((v <? v0) || ((v =? v0) && (t <=? t0))) eqn:B; unfold spec_min; rewrite vt_cons_some.
      * split; [left; reflexivity |]. intros v' t' [Eq | I]; [inversion Eq; subst; lia |].
        destruct (H0 _ _ I). bools; lia.
      * split; [right; exact I0 |]. intros v' t' [Eq | I]; [inversion Eq; subst; bools; lia |]. apply H0; auto.
    + unfold spec_min in *. rewrite vt_cons_some, IH. split; [left; reflexivity |]. intros v' t' [Eq | []]. inversion Eq; subst; lia.
  - rewrite build_cons_none. exact IH.
Qed.
Lemma build_stats_max_spec : forall rows, spec_max rows (smax (build_stats rows)).
Proof.
  induction rows as [| [t [v |]] rows IH].
  - reflexivity.
  - rewrite build_cons_some. cbn [combine of_row smax snd fst].
    destruct (smax (build_stats rows)) as [[v0 t0] |]; cbn [pick].
    + unfold max_better; cbn [fst snd]. unfold spec_max in IH. destruct IH as [I0 H0].
      destruct ((v0 <? v) || ((v =? v0) && (t <=? t0))) eqn:B; unfold spec_max; rewrite vt_cons_some.
      * split; [left; reflexivity |]. intros v' t' [Eq | I]; [inversion Eq; subst; lia |].
        destruct (H0 _ _ I). bools; lia.
      * split; [right; exact I0 |]. intros v' t' [Eq | I]; [inversion Eq; subst; bools; lia |]. apply H0; auto.
    + unfold spec_max in *. rewrite vt_cons_some, IH. split; [left; reflexivity |]. intros v' t' [Eq | []]. inversion Eq; subst; lia.
  - rewrite build_cons_none. exact IH.
Qed.
Lemma build_stats_first_spec : forall rows, spec_first rows (sfirst (build_stats rows)).
Proof.
  induction rows as [| [t [v |]] rows IH].
  - reflexivity.
  - rewrite build_cons_some. cbn [combine of_row sfirst snd fst].
    destruct (sfirst (build_stats rows)) as [[v0 t0] |]; cbn [pick].
    + unfold first_better; cbn [fst snd]. unfold spec_first in IH. destruct IH as [I0 H0].
      destruct ((t <? t0) || ((t =? t0) && (v0 <=? v))) eqn:B; unfold spec_first; rewrite vt_cons_some.
      * split; [left; reflexivity |]. intros v' t' [Eq | I]; [inversion Eq; subst; lia |].
        destruct (H0 _ _ I). bools; lia.
      * split; [right; exact I0 |]. intros v' t' [Eq | I]; [inversion Eq; subst; bools; lia |]. apply H0; auto.
    + unfold spec_first in *. rewrite vt_cons_some, IH. split; [left; reflexivity |]. intros v' t' [Eq | []]. inversion Eq; subst; lia.
  - rewrite build_cons_none. exact IH.
Qed.
Lemma build_stats_last_spec : forall rows, spec_last rows (slast (build_stats rows)).
Proof.
  induction rows as [| [t [v |]] rows IH].
  - reflexivity.
  - rewrite build_cons_some. cbn [combine of_row slast snd fst].
    destruct (slast (build_stats rows)) as [[v0 t0] |]; cbn [pick].
    + unfold last_better; cbn [fst snd]. unfold spec_last in IH. destruct IH as [I0 H0].
      destruct ((t0 <? t) || ((t =? t0) && (v0 <=? v))) eqn:B; unfold spec_last; rewrite vt_cons_some.
      * split; [left; reflexivity |]. intros v' t' [Eq | I]; [inversion Eq; subst; lia |].
        destruct (H0 _ _ I). bools; lia.
      * split; [right; exact I0 |]. intros v' t' [Eq | I]; [inversion Eq; subst; bools; lia |]. apply H0; auto.
    + unfold spec_last in *. rewrite vt_cons_some, IH. split; [left; reflexivity |]. intros v' t' [Eq | []]. inversion Eq; subst; lia.
  - rewrite build_cons_none. exact IH.
Qed.

(* all four at once, plus count and sum against the same list *)
Definition spec_all (rows : list row) (s : stats) : Prop :=
  cnt s = Z.of_nat (length (vt rows)) /\ sum s = fold_right Z.add 0 (map fst (vt rows)) /\
  spec_min rows (smin s) /\ spec_max rows (smax s) /\ spec_first rows (sfirst s) /\ spec_last rows (slast s).

Lemma vt_values : forall rows, map fst (vt rows) = values rows.
Proof.
  induction rows as [| [t [v |]] rows IH]; auto.
  - rewrite vt_cons_some. cbn [map fst]. rewrite IH. reflexivity.
Qed.

Lemma build_stats_spec_all : forall rows, spec_all rows (build_stats rows).
Proof.
  intros rows. destruct (build_stats_count_sum rows) as [C S]. unfold spec_all.
  rewrite vt_values, <- (map_length fst (vt rows)), vt_values.
  split; [exact C | split; [exact S | split; [| split; [| split]]]].
  - apply build_stats_min_spec.
  - apply build_stats_max_spec.
  - apply build_stats_first_spec.
  - apply build_stats_last_spec.
Qed.

Lemma spec_all_unique : forall rows a b, spec_all rows a -> spec_all rows b -> a = b.
Proof.
  intros rows a b (A1 & A2 & A3 & A4 & A5 & A6) (B1 & B2 & B3 & B4 & B5 & B6).
  apply stats_eq; try congruence.
  - eapply spec_min_unique; eauto.
  - eapply spec_max_unique; eauto.
  - eapply spec_first_unique; eauto.
  - eapply spec_last_unique; eauto.
Qed.

(* combination of two partial results (two segments, two files, file and memtable, two series of a tag group) meets the
   specification of the concatenated rows: the tie rules are the ones of the specifications *)
Lemma combine_spec_all : forall a b sa sb, spec_all a sa -> spec_all b sb -> spec_all (a ++ b) (combine sa sb).
Proof.
  intros a b sa sb HA HB.
  rewrite (spec_all_unique a sa (build_stats a) HA (build_stats_spec_all a)).
  rewrite (spec_all_unique b sb (build_stats b) HB (build_stats_spec_all b)).
  rewrite <- build_stats_app. apply build_stats_spec_all.
Qed.

(* the specification does not depend on the order of the rows *)
Lemma spec_all_perm : forall a b s, Permutation a b -> spec_all a s -> spec_all b s.
Proof.
  intros a b s P HA. rewrite (spec_all_unique a s (build_stats a) HA (build_stats_spec_all a)).
  rewrite (build_stats_perm a b P). apply build_stats_spec_all.
Qed.

(* ---- time-ordered rows: first / last are the first / last non-null row ---- *)
Fixpoint first_nonnull (rows : list row) : option (Z * Z) :=
  match rows with
  | [] => None
  | (t, Some v) :: _ => Some (v, t)
  | (_, None) :: rest => first_nonnull rest
  end.
Fixpoint last_nonnull (rows : list row) : option (Z * Z) :=
  match rows with
  | [] => None
  | (t, o) :: rest => match last_nonnull rest with
                      | Some r => Some r
                      | None => match o with Some v => Some (v, t) | None => None end
                      end
  end.

(* strictly ascending times (inductive form; the nth-based sorted_rows of Model.v is equivalent, see asc_sorted_rows) *)
Fixpoint asc (rows : list row) : Prop :=
  match rows with
  | [] => True
  | r :: rest => (forall r', In r' rest -> fst r < fst r') /\ asc rest
  end.

Lemma asc_app : forall a b, asc (a ++ b) <-> asc a /\ asc b /\ (forall x y, In x a -> In y b -> fst x < fst y).
Proof.
  induction a as [| r a IH]; intros b; cbn [app asc].
  - split; [intros H; repeat split; auto; intros x y [] | intros (_ & H & _); exact H].
  - rewrite IH. split.
    + intros (H1 & H2 & H3 & H4). repeat split; auto.
      * intros r' I. apply H1. apply in_or_app; auto.
      * intros x y [E | I] J; [subst; apply H1; apply in_or_app; auto | apply H4; auto].
    + intros ((H1 & H2) & H3 & H4). repeat split; auto.
      * intros r' I. apply in_app_or in I. destruct I as [I | I]; [apply H1; auto | apply H4; cbn; auto].
      * intros x y I J. apply H4; cbn; auto.
Qed.

Lemma asc_filter : forall p rows, asc rows -> asc (filter p rows).
Proof.
  induction rows as [| r rows IH]; cbn [filter asc]; auto. intros [H1 H2]. destruct (p r); cbn [asc]; auto.
  split; auto. intros r' I. apply filter_In in I. apply H1. tauto.
Qed.

Lemma vt_in_row : forall rows v t, In (v, t) (vt rows) -> exists r, In r rows /\ fst r = t.
Proof. intros rows v t I. apply vt_in in I. exists (t, Some v). auto. Qed.

Lemma first_nonnull_none : forall rows, first_nonnull rows = None -> vt rows = [].
Proof.
  induction rows as [| [t [v |]] rows IH]; cbn [first_nonnull]; auto; try discriminate.
Qed.
Lemma last_nonnull_none : forall rows, last_nonnull rows = None -> vt rows = [].
Proof.
  induction rows as [| [t o] rows IH]; cbn [last_nonnull]; auto.
  destruct (last_nonnull rows); [discriminate |]. destruct o; [discriminate |]. intros _. rewrite vt_cons_none. auto.
Qed.

Lemma first_nonnull_spec : forall rows, asc rows -> spec_first rows (first_nonnull rows).
Proof.
  induction rows as [| [t [v |]] rows IH]; intros A.
  - reflexivity.
  - cbn [first_nonnull spec_first]. rewrite vt_cons_some. split; [left; reflexivity |].
    intros v' t' [E | I]; [inversion E; subst; lia |]. destruct A as [A1 _].
    destruct (vt_in_row _ _ _ I) as (r & Ir & Er). specialize (A1 r Ir). cbn [fst] in A1. lia.
  - cbn [first_nonnull]. change (spec_first rows (first_nonnull rows)). apply IH. apply A.
Qed.

Lemma last_nonnull_spec : forall rows, asc rows -> spec_last rows (last_nonnull rows).
Proof.
  induction rows as [| [t o] rows IH]; intros A.
  - reflexivity.
  - destruct A as [A1 A2]. specialize (IH A2). cbn [last_nonnull].
    destruct (last_nonnull rows) as [[v0 t0] |] eqn:E.
    + cbn [spec_last] in *. destruct IH as [I0 H0].
      assert (LT : t < t0). { destruct (vt_in_row _ _ _ I0) as (r & Ir & Er). specialize (A1 r Ir). cbn [fst] in A1. lia. }
      destruct o as [v |].
      * rewrite vt_cons_some. split; [right; exact I0 |]. intros v' t' [Eq | I]; [inversion Eq; subst; lia | apply H0; auto].
      * change (vt ((t, None) :: rows)) with (vt rows). split; auto.
    + apply last_nonnull_none in E. destruct o as [v |].
      * cbn [spec_last]. rewrite vt_cons_some, E. split; [left; reflexivity |]. intros v' t' [Eq | []]. inversion Eq; subst; lia.
      * cbn [spec_last]. change (vt ((t, None) :: rows)) with (vt rows). exact E.
Qed.

(* hence, on time-ordered rows, the statistics' first / last ARE the first / last non-null row *)
Lemma sfirst_first_nonnull : forall rows, asc rows -> sfirst (build_stats rows) = first_nonnull rows.
Proof. intros rows A. eapply spec_first_unique; [apply build_stats_first_spec | apply first_nonnull_spec; exact A]. Qed.
Lemma slast_last_nonnull : forall rows, asc rows -> slast (build_stats rows) = last_nonnull rows.
Proof. intros rows A. eapply spec_last_unique; [apply build_stats_last_spec | apply last_nonnull_spec; exact A]. Qed.

Lemma first_last_time_ordered : forall rows, asc rows ->
  sfirst (build_stats rows) = first_nonnull rows /\ slast (build_stats rows) = last_nonnull rows.
Proof. intros rows A. split; [apply sfirst_first_nonnull | apply slast_last_nonnull]; exact A. Qed.

Lemma first_nonnull_app : forall a b, first_nonnull (a ++ b) = match first_nonnull a with Some r => Some r | None => first_nonnull b end.
Proof. induction a as [| [t [v |]] a IH]; intros b; cbn [app first_nonnull]; auto. Qed.
Lemma last_nonnull_app : forall a b, last_nonnull (a ++ b) = match last_nonnull b with Some r => Some r | None => last_nonnull a end.
Proof.
  induction a as [| [t o] a IH]; intros b; cbn [app last_nonnull].
  - destruct (last_nonnull b); reflexivity.
  - rewrite IH. destruct (last_nonnull b); reflexivity.
Qed.

(* the nth-based sorted_rows of Model.v and asc agree *)
Lemma sorted_rows_asc : forall rows, sorted_rows rows -> asc rows.
Proof.
  induction rows as [| r rows IH]; intros S; cbn [asc]; auto. split.
  - intros r' I. apply In_nth with (d := (0, None)) in I. destruct I as (i & Hi & E). subst r'.
    specialize (S 0%nat (Datatypes.S i)). cbn [nth length] in S. apply S. lia.
  - apply IH. intros i j H. specialize (S (Datatypes.S i) (Datatypes.S j)). cbn [nth length] in S. apply S. lia.
Qed.
Lemma asc_sorted_rows : forall rows, asc rows -> sorted_rows rows.
Proof.
  induction rows as [| r rows IH]; intros A i j H; cbn [length] in H; [lia |]. destruct A as [A1 A2].
  destruct j as [| j]; [lia |]. destruct i as [| i]; cbn [nth].
  - apply A1. apply nth_In. lia.
  - apply IH; auto. lia.
Qed.
