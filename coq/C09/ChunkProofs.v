(* C09 - proofs about chunks, the first/last reader and the memtable statistics builders (ChunkModel.v) *)
From Coq Require Import ZArith List Bool Lia Permutation.
From OG Require Import C09.Model C09.Proofs C09.ListSpec C09.ChunkModel.
Import ListNotations.
Open Scope Z_scope.

Definition wf_chunk (c : chunk) : Prop :=
  Forall (fun s : list row => s <> []) (c_segs c) /\ asc (chunk_rows c) /\ c_stats c = build_stats (chunk_rows c).

Lemma mk_chunk_wf : forall segs, Forall (fun s : list row => s <> []) segs -> asc (concat segs) -> wf_chunk (mk_chunk segs).
Proof. intros segs N A. repeat split; auto. Qed.

(* a decidable form of asc, for examples and for the correspondence evaluator *)
Fixpoint ascb (rows : list row) : bool :=
  match rows with
  | [] => true
  | r :: rest => match rest with [] => true | r' :: _ => (fst r <? fst r') && ascb rest end
  end.
Lemma ascb_asc : forall rows, ascb rows = true -> asc rows.
Proof.
  induction rows as [| r rest IH]; intros H; cbn [asc]; auto.
  destruct rest as [| r1 rest']; [split; [intros r' [] | exact I] |].
  cbn [ascb] in H. apply andb_true_iff in H. destruct H as [H1 H2]. apply Z.ltb_lt in H1. specialize (IH H2).
  split; auto. intros r' [E | In']; [subst; auto |]. destruct IH as [IH1 _]. specialize (IH1 r' In'). lia.
Qed.

(* ---- bounds of time-ordered rows ---- *)
Lemma asc_bounds : forall rows r, asc rows -> In r rows -> rows_lo rows <= fst r <= rows_hi rows.
Proof.
  induction rows as [| x rows IH]; intros r A I; [destruct I |]. destruct A as [A1 A2]. unfold rows_lo, rows_hi in *.
  destruct rows as [| y rows].
  - destruct I as [E | []]. subst. cbn. lia.
  - change (last (x :: y :: rows) (0, None)) with (last (y :: rows) (0, None)).
    destruct I as [E | I].
    + subst r. split; [lia |]. specialize (IH y A2 (or_introl eq_refl)). specialize (A1 y (or_introl eq_refl)). cbn [fst] in *. lia.
    + specialize (IH r A2 I). specialize (A1 y (or_introl eq_refl)). cbn [fst] in *. lia.
Qed.

Lemma asc_time_inj : forall rows x y, asc rows -> In x rows -> In y rows -> fst x = fst y -> x = y.
Proof.
  induction rows as [| r rows IH]; intros x y A Ix Iy E; [destruct Ix |]. destruct A as [A1 A2].
  destruct Ix as [Ex | Ix], Iy as [Ey | Iy]; subst; auto.
  - specialize (A1 y Iy). lia.
  - specialize (A1 x Ix). lia.
Qed.

Lemma filter_none : forall A (p : A -> bool) l, (forall x, In x l -> p x = false) -> filter p l = [].
Proof.
  induction l as [| x l IH]; intros H; cbn; auto. rewrite (H x (or_introl eq_refl)). apply IH. intros; apply H; right; auto.
Qed.

Lemma no_overlap_filter : forall lo hi s, asc s -> overlaps lo hi (rows_lo s) (rows_hi s) = false ->
  filter (in_range lo hi) s = [].
Proof.
  intros lo hi s A O. apply filter_none. intros r I. pose proof (asc_bounds s r A I) as B.
  unfold overlaps in O. unfold in_range. bools; destruct (lo <=? fst r) eqn:E1; destruct (fst r <=? hi) eqn:E2; auto; bools; lia.
Qed.

Lemma seg_scan_spec : forall lo hi s, asc s -> seg_scan lo hi s = build_stats (filter (in_range lo hi) s).
Proof.
  intros lo hi s A. unfold seg_scan. destruct (overlaps lo hi (rows_lo s) (rows_hi s)) eqn:O; auto.
  rewrite (no_overlap_filter lo hi s A O). reflexivity.
Qed.

Lemma asc_concat_each : forall segs, asc (concat segs) -> Forall asc segs.
Proof.
  induction segs as [| s segs IH]; intros A; constructor; cbn [concat] in A; apply asc_app in A; destruct A as (A1 & A2 & _); auto.
Qed.

Lemma chunk_scan_spec : forall lo hi c, asc (chunk_rows c) -> chunk_scan lo hi c = build_stats (filter (in_range lo hi) (chunk_rows c)).
Proof.
  intros lo hi c A. unfold chunk_scan, chunk_rows in *. apply asc_concat_each in A.
  induction A as [| s segs As Asegs IH]; cbn [fold_right concat]; auto.
  rewrite IH, (seg_scan_spec lo hi s As), filter_app, build_stats_app. reflexivity.
Qed.

Lemma all_in_range_filter : forall lo hi rows, asc rows -> (lo <=? rows_lo rows) && (rows_hi rows <=? hi) = true ->
  filter (in_range lo hi) rows = rows.
Proof.
  intros lo hi rows A C. apply filter_all. intros r I. pose proof (asc_bounds rows r A I). unfold in_range. bools.
  apply andb_true_iff; split; apply Z.leb_le; lia.
Qed.

(* count / sum / min / max: chunk statistics or segment scan, both are the statistics of the chunk's rows in range *)
Lemma chunk_agg_spec : forall lo hi c, wf_chunk c -> chunk_agg lo hi c = build_stats (filter (in_range lo hi) (chunk_rows c)).
Proof.
  intros lo hi c (N & A & S). unfold chunk_agg. destruct (all_in_range lo hi c) eqn:C.
  - unfold all_in_range, chunk_lo, chunk_hi in C. rewrite (all_in_range_filter lo hi _ A C). exact S.
  - apply chunk_scan_spec; auto.
Qed.

(* ---- the first / last reader ---- *)
Lemma scan_first_eq : forall rows, scan_first rows = first_nonnull rows.
Proof. induction rows as [| [t [v |]] rows IH]; cbn; auto. Qed.
Lemma scan_last_eq : forall rows, scan_last rows = last_nonnull rows.
Proof. induction rows as [| [t o] rows IH]; cbn; auto. Qed.

Lemma smin_in : forall rows v t, smin (build_stats rows) = Some (v, t) -> In (t, Some v) rows.
Proof. intros rows v t E. pose proof (build_stats_min_spec rows) as H. rewrite E in H. apply vt_in. apply H. Qed.
Lemma smax_in : forall rows v t, smax (build_stats rows) = Some (v, t) -> In (t, Some v) rows.
Proof. intros rows v t E. pose proof (build_stats_max_spec rows) as H. rewrite E in H. apply vt_in. apply H. Qed.

Lemma no_nulls_in : forall s r, no_nulls s = true -> In r s -> exists v, snd r = Some v.
Proof.
  intros s r N I. unfold no_nulls in N. rewrite forallb_forall in N. specialize (N r I). destruct (snd r) as [v |]; [eauto | discriminate].
Qed.

Lemma first_scan_spec : forall lo hi pre segs pre_rows,
  asc (pre_rows ++ concat segs) -> Forall (fun s : list row => s <> []) segs ->
  (pre = None \/ pre = smin (build_stats (pre_rows ++ concat segs))) ->
  first_scan rows_lo lo hi pre segs = first_nonnull (filter (in_range lo hi) (concat segs)).
Proof.
  intros lo hi pre segs. induction segs as [| s rest IH]; intros pre_rows A N P; [reflexivity |].
  cbn [first_scan concat]. rewrite filter_app, first_nonnull_app.
  inversion N as [| ? ? Ns Nrest]; subst.
  assert (As : asc s). { apply asc_app in A. destruct A as (_ & A & _). apply asc_app in A. tauto. }
  assert (IHr : first_scan rows_lo lo hi pre rest = first_nonnull (filter (in_range lo hi) (concat rest))).
  { apply (IH (pre_rows ++ s)); auto; rewrite <- app_assoc; auto. }
  destruct (overlaps lo hi (rows_lo s) (rows_hi s)) eqn:O; cbn [negb].
  2:{ rewrite (no_overlap_filter lo hi s As O). exact IHr. }
  destruct s as [| r0 s']; [congruence |]. cbn [rows_lo] in *.
  assert (Hi0 : fst r0 <= hi) by (unfold overlaps in O; bools; auto).
  (* branch (a) *)
  destruct (lo <=? fst r0) eqn:L.
  - assert (R0 : in_range lo hi r0 = true) by (unfold in_range; apply andb_true_iff; split; [auto | apply Z.leb_le; auto]).
    destruct pre as [[v t] |].
    + destruct (t =? fst r0) eqn:T.
      * destruct P as [P | P]; [discriminate |]. symmetry in P. apply smin_in in P. apply Z.eqb_eq in T.
        assert (I0 : In r0 (pre_rows ++ (r0 :: s') ++ concat rest)) by (apply in_or_app; right; left; reflexivity).
        assert (E : (t, Some v) = r0) by (apply (asc_time_inj _ _ _ A P I0); cbn; auto).
        subst r0. cbn [filter]. rewrite R0. reflexivity.
      * cbn [andb]. destruct (no_nulls (r0 :: s')) eqn:NN; cbn [andb].
        -- destruct (no_nulls_in _ r0 NN (or_introl eq_refl)) as [v0 E0]. destruct r0 as [t0 o0]. cbn [snd fst] in *. subst o0.
           cbn [first_row_val snd rows_lo fst filter]. rewrite R0. reflexivity.
        -- rewrite scan_first_eq. destruct (first_nonnull (filter (in_range lo hi) (r0 :: s'))); auto.
    + destruct (no_nulls (r0 :: s')) eqn:NN; cbn [andb].
      * destruct (no_nulls_in _ r0 NN (or_introl eq_refl)) as [v0 E0]. destruct r0 as [t0 o0]. cbn [snd fst] in *. subst o0.
        cbn [first_row_val snd rows_lo fst filter]. rewrite R0. reflexivity.
      * rewrite scan_first_eq. destruct (first_nonnull (filter (in_range lo hi) (r0 :: s'))); auto.
  - rewrite andb_false_r. rewrite scan_first_eq. destruct (first_nonnull (filter (in_range lo hi) (r0 :: s'))); auto.
Qed.

Lemma last_split : forall (s : list row), s <> [] -> exists s0, s = s0 ++ [last s (0, None)].
Proof. intros s N. exists (removelast s). apply app_removelast_last. exact N. Qed.

Lemma last_scan_spec : forall lo hi pre rsegs post_rows,
  asc (concat (rev rsegs) ++ post_rows) -> Forall (fun s : list row => s <> []) rsegs ->
  (pre = None \/ pre = smax (build_stats (concat (rev rsegs) ++ post_rows))) ->
  last_scan rows_hi lo hi pre rsegs = last_nonnull (filter (in_range lo hi) (concat (rev rsegs))).
Proof.
  intros lo hi pre rsegs. induction rsegs as [| s rest IH]; intros post_rows A N P; [reflexivity |].
  cbn [last_scan rev]. rewrite concat_app. cbn [concat]. rewrite app_nil_r, filter_app, last_nonnull_app.
  cbn [rev] in A, P. rewrite concat_app in A, P. cbn [concat] in A, P. rewrite app_nil_r, <- app_assoc in A, P.
  inversion N as [| ? ? Ns Nrest]; subst.
  assert (As : asc s). { apply asc_app in A. destruct A as (_ & A & _). apply asc_app in A. tauto. }
  assert (IHr : last_scan rows_hi lo hi pre rest = last_nonnull (filter (in_range lo hi) (concat (rev rest)))).
  { apply (IH (s ++ post_rows)); auto. }
  destruct (overlaps lo hi (rows_lo s) (rows_hi s)) eqn:O; cbn [negb].
  2:{ rewrite (no_overlap_filter lo hi s As O). exact IHr. }
  destruct (last_split s Ns) as [s0 Es]. set (rl := last s (0, None)) in *.
  assert (Lo0 : lo <= fst rl) by (unfold overlaps, rows_hi in O; fold rl in O; bools; auto).
  assert (Irl : In rl s) by (rewrite Es; apply in_or_app; right; left; reflexivity).
  assert (Fl : in_range lo hi rl = true -> last_nonnull (filter (in_range lo hi) s) =
                         match snd rl with Some v => Some (v, fst rl) | None => last_nonnull (filter (in_range lo hi) s0) end).
  { intros R. rewrite Es at 1. rewrite filter_app. cbn [filter]. rewrite R, last_nonnull_app. destruct rl as [tl [vl |]]; cbn; auto. }
  unfold rows_hi at 1 2 3. fold rl.
  destruct (fst rl <=? hi) eqn:H.
  - assert (R : in_range lo hi rl = true) by (unfold in_range; apply andb_true_iff; split; [apply Z.leb_le; auto | auto]).
    specialize (Fl R).
    destruct pre as [[v t] |].
    + destruct (t =? fst rl) eqn:T.
      * destruct P as [P | P]; [discriminate |]. symmetry in P. apply smax_in in P. apply Z.eqb_eq in T.
        assert (I0 : In rl (concat (rev rest) ++ s ++ post_rows)) by (apply in_or_app; right; apply in_or_app; left; exact Irl).
        assert (E : (t, Some v) = rl) by (apply (asc_time_inj _ _ _ A P I0); cbn; auto).
        rewrite Fl, <- E. reflexivity.
      * cbn [andb]. destruct (no_nulls s) eqn:NN; cbn [andb].
        -- destruct (no_nulls_in _ rl NN Irl) as [v0 E0]. unfold last_row_val. fold rl. rewrite Fl, E0.
           unfold rows_hi. fold rl. reflexivity.
        -- rewrite scan_last_eq. destruct (last_nonnull (filter (in_range lo hi) s)); auto.
    + destruct (no_nulls s) eqn:NN; cbn [andb].
      * destruct (no_nulls_in _ rl NN Irl) as [v0 E0]. unfold last_row_val. fold rl. rewrite Fl, E0.
        unfold rows_hi. fold rl. reflexivity.
      * rewrite scan_last_eq. destruct (last_nonnull (filter (in_range lo hi) s)); auto.
  - rewrite andb_false_r. rewrite scan_last_eq. destruct (last_nonnull (filter (in_range lo hi) s)); auto.
Qed.

(* the repaired reader returns first / last over the chunk's rows in range: every segment layout, every range position,
   columns with and without a usable stored minimum / maximum *)
Lemma first_reader_repaired_spec : forall use_pre lo hi c, wf_chunk c ->
  first_reader_repaired use_pre lo hi c = sfirst (build_stats (filter (in_range lo hi) (chunk_rows c))).
Proof.
  intros use_pre lo hi c (N & A & S). unfold first_reader_repaired.
  rewrite (first_scan_spec lo hi (pre_min use_pre c) (c_segs c) []); auto.
  - symmetry. apply sfirst_first_nonnull. apply asc_filter. exact A.
  - unfold pre_min. destruct use_pre; auto. right. rewrite S. reflexivity.
Qed.
Lemma last_reader_repaired_spec : forall use_pre lo hi c, wf_chunk c ->
  last_reader_repaired use_pre lo hi c = slast (build_stats (filter (in_range lo hi) (chunk_rows c))).
Proof.
  intros use_pre lo hi c (N & A & S). unfold last_reader_repaired.
  rewrite (last_scan_spec lo hi (pre_max use_pre c) (rev (c_segs c)) []); rewrite ?rev_involutive, ?app_nil_r; auto.
  - symmetry. apply slast_last_nonnull. apply asc_filter. exact A.
  - apply Forall_rev. exact N.
  - unfold pre_max. destruct use_pre; auto. right. rewrite S. reflexivity.
Qed.

Lemma chunk_partial_repaired_spec : forall use_pre lo hi c, wf_chunk c ->
  chunk_partial_repaired use_pre lo hi c = build_stats (filter (in_range lo hi) (chunk_rows c)).
Proof.
  intros use_pre lo hi c W. unfold chunk_partial_repaired, chunk_partial. destruct (chunk_live lo hi c) eqn:L.
  - rewrite (chunk_agg_spec lo hi c W), (first_reader_repaired_spec use_pre lo hi c W), (last_reader_repaired_spec use_pre lo hi c W).
    apply stats_eq; reflexivity.
  - destruct W as (_ & A & _). unfold chunk_live, chunk_lo, chunk_hi in L. rewrite (no_overlap_filter lo hi _ A L). reflexivity.
Qed.

(* ---- memtable statistics ---- *)
Lemma mloop_snoc : forall rows r, mloop (rows ++ [r]) = mstep (mloop rows) r.
Proof. intros. unfold mloop. rewrite fold_left_app. reflexivity. Qed.

Lemma build_stats_snoc : forall rows r, build_stats (rows ++ [r]) = combine (build_stats rows) (of_row r).
Proof. intros. rewrite build_stats_app. cbn. rewrite combine_empty_r. reflexivity. Qed.

Lemma sfirst_time_in : forall rows v t, sfirst (build_stats rows) = Some (v, t) -> exists r, In r rows /\ fst r = t.
Proof. intros rows v t E. pose proof (build_stats_first_spec rows) as H. rewrite E in H. destruct H as [I _]. eapply vt_in_row; eauto. Qed.
Lemma slast_time_in : forall rows v t, slast (build_stats rows) = Some (v, t) -> exists r, In r rows /\ fst r = t.
Proof. intros rows v t E. pose proof (build_stats_last_spec rows) as H. rewrite E in H. destruct H as [I _]. eapply vt_in_row; eauto. Qed.

Definition macc_ok (a : macc) (s : stats) : Prop :=
  m_cnt a = cnt s /\ m_sum a = sum s /\ m_min a = smin s /\ m_max a = smax s /\ m_first a = sfirst s /\
  slast s = match m_lastv a with Some v => Some (v, m_lastvt a) | None => None end.

Lemma mloop_ok : forall rows, asc rows -> macc_ok (mloop rows) (build_stats rows).
Proof.
  induction rows as [| r rows IH] using rev_ind; intros A.
  - cbn. repeat split.
  - apply asc_app in A. destruct A as (A1 & _ & A3). specialize (IH A1). destruct IH as (C & S & Mi & Ma & Fi & La).
    rewrite mloop_snoc, build_stats_snoc. destruct r as [t [v |]]; unfold mstep; cbn [snd fst of_row].
    2:{ rewrite combine_empty_r. repeat split; auto. }
    unfold macc_ok. cbn [m_cnt m_sum m_min m_max m_first m_lastv m_lastvt combine cnt sum smin smax sfirst slast].
    rewrite C, S, Mi, Ma, Fi. repeat split.
    + destruct (smin (build_stats rows)) as [[mv mt] |]; cbn [pick]; auto. unfold min_better; cbn [fst snd].
      destruct ((v <? mv) || ((v =? mv) && (t <? mt))) eqn:B1; destruct ((mv <? v) || ((mv =? v) && (mt <=? t))) eqn:B2; auto; bools; lia.
    + destruct (smax (build_stats rows)) as [[mv mt] |]; cbn [pick]; auto. unfold max_better; cbn [fst snd].
      destruct ((mv <? v) || ((v =? mv) && (t <? mt))) eqn:B1; destruct ((v <? mv) || ((mv =? v) && (mt <=? t))) eqn:B2; auto; bools; lia.
    + destruct (sfirst (build_stats rows)) as [[fv ft] |] eqn:E; cbn [pick]; auto. unfold first_better; cbn [fst snd].
      destruct (sfirst_time_in _ _ _ E) as (x & Ix & Ex). specialize (A3 x (t, Some v) Ix (or_introl eq_refl)). cbn [fst] in A3.
      destruct ((ft <? t) || ((ft =? t) && (v <=? fv))) eqn:B; auto. bools; lia.
    + destruct (slast (build_stats rows)) as [[lv lt] |] eqn:E; cbn [pick]; auto. unfold last_better; cbn [fst snd].
      destruct (slast_time_in _ _ _ E) as (x & Ix & Ex). specialize (A3 x (t, Some v) Ix (or_introl eq_refl)). cbn [fst] in A3.
      destruct ((t <? lt) || ((lt =? t) && (v <=? lv))) eqn:B; auto. bools; lia.
Qed.

(* the repaired builder computes exactly the statistics of the memtable rows (the aggregate over the rows) *)
Lemma mem_stats_repaired_spec : forall rows, asc rows -> mem_stats_repaired rows = build_stats rows.
Proof.
  intros rows A. destruct (mloop_ok rows A) as (C & S & Mi & Ma & Fi & La).
  unfold mem_stats_repaired, mem_stats. apply stats_eq; cbn [cnt sum smin smax sfirst slast]; auto.
Qed.

(* ---- the whole shortcut over chunks + memtable ---- *)
Lemma agg_chunks_repaired_spec : forall use_pre lo hi chunks mem, Forall wf_chunk chunks -> asc mem ->
  agg_chunks_repaired use_pre lo hi chunks mem = build_stats (filter (in_range lo hi) (all_chunk_rows chunks mem)).
Proof.
  intros use_pre lo hi chunks mem W A. unfold agg_chunks_repaired, agg_chunks, all_chunk_rows.
  rewrite filter_app, build_stats_app, (mem_stats_repaired_spec _ (asc_filter _ _ A)).
  induction W as [| c chunks Wc Wcs IH]; cbn [fold_right map concat].
  - rewrite combine_empty_l. reflexivity.
  - rewrite IH, (chunk_partial_repaired_spec use_pre lo hi c Wc), filter_app, build_stats_app, combine_assoc. reflexivity.
Qed.

Lemma equiv_chunks : forall use_pre lo hi chunks mem selected, Forall wf_chunk chunks -> asc mem ->
  Permutation (filter (in_range lo hi) (all_chunk_rows chunks mem)) selected ->
  agg_chunks_repaired use_pre lo hi chunks mem = agg_rows selected.
Proof. intros. rewrite agg_chunks_repaired_spec; auto. apply build_stats_perm; auto. Qed.

(* consequence with the list specifications: the shortcut's answer satisfies the independent specification of the
   selected rows *)
Lemma equiv_chunks_spec : forall use_pre lo hi chunks mem selected, Forall wf_chunk chunks -> asc mem ->
  Permutation (filter (in_range lo hi) (all_chunk_rows chunks mem)) selected ->
  spec_all selected (agg_chunks_repaired use_pre lo hi chunks mem).
Proof. intros. erewrite equiv_chunks; eauto. apply build_stats_spec_all. Qed.
