(* C10: what today's code does NOT satisfy. Witnesses are closed by vm_compute. *)
From Coq Require Import NArith List Bool.
From OG Require Import C10.Model C10.Regex C10.RegexSearch C10.Prune C10.Cache C10.Rows.
Import ListNotations.
Open Scope N_scope.

(* Regex atoms as translated by the index today (anchored unless the pattern is a pure literal) do not select what the
   language's unanchored matching selects. Strings: measurement 1, key host=1, value web=1; pattern 1 = [wd]:
   Go regexp finds it in "web", the anchored form does not match "web". *)
Theorem C10_current_refuted_regex :
  exists (is_literal : N -> bool) (unanch anch : N -> N -> bool) (L : list entry) (m : N) (e : expr) (id : N),
    In id (bruteforce unanch L m e) /\
    ~ In id (search (atom_match_current is_literal unanch anch) (postings L) m e).
Proof.
  exists (fun _ => false), (fun p v => (p =? 1) && (v =? 1)), (fun _ _ => false),
         [(mkS 1 [(1, 1)], 5)], 1, (Atom 1 Re 1), 5.
  vm_compute. split; [left; reflexivity | intros []].
Qed.
Print Assumptions C10_current_refuted_regex.

(* A cache clear between an insert and the next index flush makes the same series key get a second id: the slow lookup
   only sees flushed items. *)
Theorem C10_current_refuted_cacheclear :
  exists (os : list op) (s : series) (a b : N),
    snd (run slow_current (empty_index 0) os) = [Some a; None; Some b] /\ os = [Insert s; ClearCache; Insert s] /\ a <> b.
Proof.
  exists [Insert (mkS 1 [(1, 1)]); ClearCache; Insert (mkS 1 [(1, 1)])], (mkS 1 [(1, 1)]), 1, 2.
  vm_compute. repeat split. discriminate.
Qed.
Print Assumptions C10_current_refuted_cacheclear.

(* On the show-series / drop-series path a negated regex whose pattern matches the empty string yields "no constraint"
   under AND instead of the empty set: host = 'web' AND region !~ /.*/ selects the series although nothing satisfies it. *)
Theorem C10_current_refuted_negated_matchall :
  exists (am : N -> N -> bool) (L : list entry) (m : N) (e : expr) (id : N),
    In id (search_ids_top_current am (postings L) m e) /\ ~ In id (bruteforce am L m e).
Proof.
  exists (fun _ _ => true), [(mkS 1 [(1, 1)], 5)], 1, (And (Atom 1 Eq 1) (Atom 2 Nre 1)), 5.
  vm_compute. split; [left; reflexivity | intros []].
Qed.
Print Assumptions C10_current_refuted_negated_matchall.

(* ---- today's translation of a regex pattern into a tag filter (Regex.current_match) outside the exact shapes.
   Strings: web = [119;101;98], db = [100;98], '-' = 45, '0' = 48, '1' = 49. Each witness: (pattern tree, value, what the
   index matches today, what unanchored matching gives). *)
Definition web := [119; 101; 98]%N.
Theorem C10_current_refuted_regex_shapes :
  (* /[wd]/ on "web": a class becomes exact-value lookups *)
  (current_match (RClass [(100, 100); (119, 119)]%N) (Some web) = false /\ repaired_match (RClass [(100, 100); (119, 119)]%N) (Some web) = true) /\
  (* /web|db/ on "web-1": an alternation becomes exact-value lookups *)
  (current_match (RAlt [RLit false web; RLit false [100; 98]%N]) (Some (web ++ [45; 49]%N)) = false /\
   repaired_match (RAlt [RLit false web; RLit false [100; 98]%N]) (Some (web ++ [45; 49]%N)) = true) /\
  (* /web-[0-9]/ on "web-10": literal prefix + exact lookups of the rest *)
  (current_match (RConcat [RLit false (web ++ [45]%N); RClass [(48, 57)]%N]) (Some (web ++ [45; 49; 48]%N)) = false /\
   repaired_match (RConcat [RLit false (web ++ [45]%N); RClass [(48, 57)]%N]) (Some (web ++ [45; 49; 48]%N)) = true) /\
  (* /web.*/ on "xweb": the literal prefix is anchored at the start of the value *)
  (current_match (RConcat [RLit false web; RStar RAnyNL]) (Some (120 :: web)%N) = false /\
   repaired_match (RConcat [RLit false web; RStar RAnyNL]) (Some (120 :: web)%N) = true) /\
  (* /a.c/ on "abxc": the rewrite appends .* and the rest is matched unanchored *)
  (current_match (RConcat [RLit false [97]%N; RAnyNL; RLit false [99]%N]) (Some [97; 98; 120; 99]%N) = true /\
   repaired_match (RConcat [RLit false [97]%N; RAnyNL; RLit false [99]%N]) (Some [97; 98; 120; 99]%N) = false).
Proof. vm_compute. repeat split. Qed.
Print Assumptions C10_current_refuted_regex_shapes.

Theorem C10_current_refuted_regex_anchors :
  (* /^web$/ on "web-1": the anchors are stripped, the literal is searched with bytes.Contains *)
  (current_match (RConcat [RBeginText; RLit false web; REndText]) (Some (web ++ [45; 49]%N)) = true /\
   repaired_match (RConcat [RBeginText; RLit false web; REndText]) (Some (web ++ [45; 49]%N)) = false) /\
  (* /^$/ on "web": it matches the empty string, so isAllMatch selects every series *)
  (current_match (RConcat [RBeginText; REndText]) (Some web) = true /\ repaired_match (RConcat [RBeginText; REndText]) (Some web) = false).
Proof. vm_compute. repeat split. Qed.
Print Assumptions C10_current_refuted_regex_anchors.

Theorem C10_current_refuted_regex_escaped :
  (* /[0-9]+/ on the value "\x01": the item carries 0x00 '1' and the digit of the escape matches *)
  current_match (RPlus (RClass [(48, 57)]%N)) (Some [1]%N) = true /\ repaired_match (RPlus (RClass [(48, 57)]%N)) (Some [1]%N) = false.
Proof. vm_compute. repeat split. Qed.
Print Assumptions C10_current_refuted_regex_escaped.

(* the search with today's translation is not brute force: host =~ /[wd]/ over {host=web} (measurement 1, key 1, value 1) *)
Theorem C10_current_refuted_regex_search :
  exists pats strs L m e id,
    In id (bruteforce (am_repaired pats strs) L m e) /\ ~ In id (search (am_current pats strs) (postings L) m e).
Proof.
  exists [(1, RClass [(100, 100); (119, 119)])], [(1, web)], [(mkS 1 [(1, 1)], 5)], 1, (Atom 1 Re 1), 5.
  vm_compute. split; [left; reflexivity | intros []].
Qed.
Print Assumptions C10_current_refuted_regex_search.

(* The tag-filter result cache with today's key (the literal the pattern is reduced to): /a.c/ and /a\.c/ are filed under
   the same text "a.c", so after host =~ /a.c/ the query host =~ /a\.c/ is answered with the first one's result. Source
   texts: 1 = a.c, 2 = a\.c (any parser that maps them to these trees). *)
Theorem C10_current_refuted_tagfilter_cache :
  exists (parse : list N -> re) (q1 q2 : tfq) (v : option (list N)),
    tf_key_current parse q1 = tf_key_current parse q2 /\
    tf_answer parse current_match q1 v <> tf_answer parse current_match q2 v /\
    cached_run tfq (list N * bool) _ (tf_key_current parse) tf_keqb (tf_answer parse current_match) [] [q1; q2]
      <> map (tf_answer parse current_match) [q1; q2].
Proof.
  exists (fun s => if list_eqb s [97; 46; 99]%N then RConcat [RLit false [97]%N; RAnyNL; RLit false [99]%N]
                   else RLit false [97; 46; 99]%N),
         ([97; 46; 99]%N, false), ([97; 92; 46; 99]%N, false), (Some [97; 120; 99]%N).
  split; [vm_compute; reflexivity |]. split.
  - vm_compute. discriminate.
  - intros H. apply (f_equal (fun l => map (fun g => g (Some [97; 120; 99]%N)) l)) in H. vm_compute in H. discriminate.
Qed.
Print Assumptions C10_current_refuted_tagfilter_cache.

(* The pruning path compiles the filter's value text; for a pattern reduced to a literal that text is the literal:
   /\./ (source 92 46) is reduced to the literal "." which, compiled, is "any character" and matches the value "b". *)
Theorem C10_current_refuted_prune_reading :
  exists (parse : list N -> re) (q : tfq) (v : option (list N)),
    repaired_match (tf_prune_tree_current parse q) v <> repaired_match (tf_prune_tree_repaired parse q) v.
Proof.
  exists (fun s => if list_eqb s [92; 46]%N then RLit false [46]%N else RAnyNL), ([92; 46]%N, false), (Some [98]%N).
  vm_compute. discriminate.
Qed.
Print Assumptions C10_current_refuted_prune_reading.

(* A variant of the key evaluator that lets only k = '' hold on a series without tag k (a realistic "simplification") is not
   the predicate: b != 'y' holds on a series without b. Kept as a witness that theorem C10_prune_atom_is_eval is not vacuous
   about absent tags; it is NOT today's code. *)
Theorem C10_prune_variant_refuted :
  exists am f ts, prune_atom_absent_only_empty am f ts <> eval am (atom_of f) ts.
Proof. exists (fun _ _ => false), (2, Neq, 7), [(1, 1)]. vm_compute. discriminate. Qed.
Print Assumptions C10_prune_variant_refuted.

(* Today the callback of a background flush is deferred to a 10 s tick: the filter cached before the flush keeps its old answer
   although the new series is visible to the uncached search. host = 'a' over {host=a}, then {host=a,region=eu} is written and
   flushed in the background. *)
Theorem C10_current_refuted_result_cache :
  exists am n os, ~ Forall (fun x => match x with Some (a, u) => a = u | None => True end) (crun false am (cempty n) os).
Proof.
  exists (fun _ _ => false), 100,
    [OInsert (mkS 1 [(1, 1)]); OFlush; OSearch 1 (Atom 1 Eq 1); OInsert (mkS 1 [(1, 1); (2, 3)]); OBgFlush; OSearch 1 (Atom 1 Eq 1)].
  vm_compute. intros H. repeat match goal with H : Forall _ (_ :: _) |- _ => inversion H; clear H; subst end. discriminate.
Qed.
Print Assumptions C10_current_refuted_result_cache.

(* a row scan that lets a REJECTED full row end the scan of its value loses a value whose eligible id sits in a later row
   (not today's code: a non-vacuity witness for C10_row_scan_is_exists) *)
Theorem C10_row_scan_variant_refuted : exists elig rows, scan_rows_skip_rejected_full elig rows <> existsb elig (concat rows).
Proof. exact skip_rejected_full_refuted. Qed.
Print Assumptions C10_row_scan_variant_refuted.
