(* C10: what today's code does NOT satisfy. Witnesses are closed by vm_compute. *)
From Coq Require Import NArith List Bool.
From OG Require Import C10.Model.
Import ListNotations.
Open Scope N_scope.

(* Regex atoms as translated by the index today (anchored unless the pattern is a pure literal) do not select what the
   language's unanchored matching selects. Strings: measurement 1, key host=1, value web=1; pattern 1 = [wd]:
   Go regexp finds it in "web", the anchored form does not match "web". *)
Theorem C10_current_refuted_regex :
  exists (is_literal : N -> bool) (unanch anch : N -> N -> bool) (L : list entry) (m : N) (e : expr) (id : N),
    In id (bruteforce unanch L m e) /\
    ~ In id (search (atom_match_current is_literal unanch anch) (postings L) m e).
Proof.
  exists (fun _ => false), (fun p v => (p =? 1) && (v =? 1)), (fun _ _ => false),
         [(mkS 1 [(1, 1)], 5)], 1, (Atom 1 Re 1), 5.
  vm_compute. split; [left; reflexivity | intros []].
Qed.
Print Assumptions C10_current_refuted_regex.

(* A cache clear between an insert and the next index flush makes the same series key get a second id: the slow lookup
   only sees flushed items. *)
Theorem C10_current_refuted_cacheclear :
  exists (os : list op) (s : series) (a b : N),
    snd (run slow_current (empty_index 0) os) = [Some a; None; Some b] /\ os = [Insert s; ClearCache; Insert s] /\ a <> b.
Proof.
  exists [Insert (mkS 1 [(1, 1)]); ClearCache; Insert (mkS 1 [(1, 1)])], (mkS 1 [(1, 1)]), 1, 2.
  vm_compute. repeat split. discriminate.
Qed.
Print Assumptions C10_current_refuted_cacheclear.

(* On the show-series / drop-series path a negated regex whose pattern matches the empty string yields "no constraint"
   under AND instead of the empty set: host = 'web' AND region !~ /.*/ selects the series although nothing satisfies it. *)
Theorem C10_current_refuted_negated_matchall :
  exists (am : N -> N -> bool) (L : list entry) (m : N) (e : expr) (id : N),
    In id (search_ids_top_current am (postings L) m e) /\ ~ In id (bruteforce am L m e).
Proof.
  exists (fun _ _ => true), [(mkS 1 [(1, 1)], 5)], 1, (And (Atom 1 Eq 1) (Atom 2 Nre 1)), 5.
  vm_compute. split; [left; reflexivity | intros []].
Qed.
Print Assumptions C10_current_refuted_negated_matchall.
