(* C10 - the tag -> ids items as ROWS: the ids of one (measurement, tag key, tag value) are stored in rows of at most 64 ids
   (mergeTagToTSIDsRows). SHOW TAG VALUES ... WHERE (searchTagValuesBySingleKey) scans the rows of a value, records the value
   at the first row that holds an eligible id and may then seek past the value; a row WITHOUT an eligible id - full or not -
   never ends the scan of its value. Proved: the row scan lists exactly the values the set-level conditional listing lists. *)
From Coq Require Import NArith List Bool Lia.
From OG Require Import C10.Model C10.Proofs C10.ListingCond.
Import ListNotations.
Open Scope N_scope.

Definition row_cap : nat := 64.
Definition rentry := (N * N * N * list (list N))%type.          (* measurement, tag key, tag value, rows of ids *)
Definition full (r : list N) : bool := Nat.leb row_cap (length r).

Fixpoint scan_rows (elig : N -> bool) (rows : list (list N)) : bool :=
  match rows with
  | [] => false
  | r :: t => if existsb elig r then true        (* recorded; after a full row the scan seeks past the value, else it goes on *)
              else scan_rows elig t              (* a rejected row - full or not - is followed by the next row of the value *)
  end.
(* the seeded variant: a full row ends the scan of the value also when it was rejected *)
Fixpoint scan_rows_skip_rejected_full (elig : N -> bool) (rows : list (list N)) : bool :=
  match rows with
  | [] => false
  | r :: t => if existsb elig r then true else if full r then false else scan_rows_skip_rejected_full elig t
  end.

Lemma scan_rows_concat elig rows : scan_rows elig rows = existsb elig (concat rows).
Proof. induction rows as [| r t IH]; simpl; auto. rewrite existsb_app, IH. destruct (existsb elig r); reflexivity. Qed.

Definition flatten (rt : list rentry) : list titem :=
  flat_map (fun x => let '(m, k, v, rows) := x in map (fun id => (m, k, v, id)) (concat rows)) rt.
Definition rows_values (elig : N -> bool) (rt : list rentry) (m k : N) : list N :=
  map (fun x => snd (fst x)) (filter (fun x => let '(m', k', v, rows) := x in (m' =? m) && (k' =? k) && scan_rows elig rows) rt).

Lemma rows_values_spec elig rt m k v :
  In v (rows_values elig rt m k) <-> exists id, In (m, k, v, id) (flatten rt) /\ elig id = true.
Proof.
  unfold rows_values, flatten. rewrite in_map_iff. split.
  - intros ([[[m' k'] v'] rows] & Ev & Hf). simpl in Ev. subst v'. apply filter_In in Hf. destruct Hf as [Hin Hb].
    apply andb_true_iff in Hb. destruct Hb as [Hb Hs]. apply andb_true_iff in Hb. destruct Hb as [Hm Hk].
    apply N.eqb_eq in Hm. apply N.eqb_eq in Hk. subst. rewrite scan_rows_concat in Hs. apply existsb_exists in Hs.
    destruct Hs as (id & Hid & He). exists id. split; auto. apply in_flat_map. exists (m, k, v, rows). split; auto.
    apply in_map. exact Hid.
  - intros (id & Hin & He). apply in_flat_map in Hin. destruct Hin as ([[[m' k'] v'] rows] & Hrt & Hx).
    apply in_map_iff in Hx. destruct Hx as (id' & E & Hid). inversion E; subst.
    exists (m, k, v, rows). split; [reflexivity |]. apply filter_In. split; auto.
    rewrite !N.eqb_refl. simpl. rewrite scan_rows_concat. apply existsb_exists. exists id. auto.
Qed.

(* whatever way the items of the written series are split into rows, the row scan of SHOW TAG VALUES ... WHERE lists exactly
   the values of the series that satisfy the predicate *)
Theorem rows_listing_exact am L rt m k e v : wfL L -> expr_ok e -> k <> 0 ->
  (forall t, In t (flatten rt) <-> In t (postings L)) ->
  (In v (rows_values (fun id => mem id (search am (postings L) m e)) rt m k) <->
   exists s id, In (s, id) L /\ s_mst s = m /\ In (k, v) (s_tags s) /\ eval am e (s_tags s) = true).
Proof.
  intros Hwf Hok Hk Hrt. rewrite rows_values_spec, <- (list_tag_values_cond_exact am L m k e v Hwf Hok Hk).
  unfold list_tag_values_cond. rewrite in_map_iff. split.
  - intros (id & Hin & He). exists (m, k, v, id). split; [reflexivity |]. apply filter_In. split; [apply Hrt; exact Hin |].
    unfold t_m, t_k, t_id. simpl. rewrite !N.eqb_refl. simpl. exact He.
  - intros ([[[m' k'] v'] id] & Ev & Hf). apply filter_In in Hf. destruct Hf as [Hin Hb]. unfold t_m, t_k, t_v, t_id in *. simpl in *.
    subst v'. apply andb_true_iff in Hb. destruct Hb as [Hb He]. apply andb_true_iff in Hb. destruct Hb as [Hm Hk'].
    apply N.eqb_eq in Hm. apply N.eqb_eq in Hk'. subst. exists id. split; [apply Hrt; exact Hin | exact He].
Qed.

(* the seeded variant loses a value whose eligible id sits behind a rejected full row *)
Lemma skip_rejected_full_refuted : exists elig rows, scan_rows_skip_rejected_full elig rows <> existsb elig (concat rows).
Proof.
  exists (fun id => id =? 100), [map N.of_nat (seq 0 64); [100]]. vm_compute. discriminate.
Qed.
