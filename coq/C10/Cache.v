(* C10 - the tag-filter RESULT CACHE of the select path inside the index model. Every tag filter (atom) of a predicate is
   answered from a cache keyed by (generation, measurement, key, operator, value); a miss is computed from the flushed items
   minus the dropped ids and stored. The generation is bumped by the table's flush callback and by DROP SERIES. Ops: insert,
   forced flush, background flush (the table's own periodic flush), the 10 s callback tick, cache clear, close/reopen, drop
   series, search. Theorem: when the flush callback runs with the flush (repaired), every search of every op sequence returns
   what the uncached search returns. Today the callback of a background flush is deferred to the tick: refuted. *)
From Coq Require Import NArith List Bool Lia.
From OG Require Import C10.Model C10.Proofs C10.FlushClear.
Import ListNotations.
Open Scope N_scope.

Definition fkey := (N * N * N * cmp * N)%type.            (* generation, measurement, tag key, operator, value/pattern *)
Definition cmp_eqb (a b : cmp) : bool :=
  match a, b with Eq, Eq | Neq, Neq | Re, Re | Nre, Nre => true | _, _ => false end.
Definition fkey_eqb (a b : fkey) : bool :=
  let '(g1, m1, k1, c1, v1) := a in let '(g2, m2, k2, c2, v2) := b in
  (g1 =? g2) && (m1 =? m2) && (k1 =? k2) && cmp_eqb c1 c2 && (v1 =? v2).

Record cstate := mkC {
  ix : index;                          (* store, key cache, id generator (Model.v) *)
  dropped : list N;                    (* ids removed by DROP SERIES *)
  gen : N;                             (* tagFilterKeyGen *)
  need : bool;                         (* needFlushCallbackCall: a background flush has happened, callback pending *)
  fc : list (fkey * list N)            (* tag-filter result cache *)
}.
Definition cempty (n : N) : cstate := mkC (empty_index n) [] 0 false [].

Inductive cop :=
| OInsert (s : series) | OFlush | OBgFlush | OTick | OClear | OReopen (b : N) | ODrop (ids : list N)
| OSearch (m : N) (e : expr).

(* the uncached answer in a state: set algebra over the flushed items, dropped ids hidden *)
Definition visible_ids (am : N -> N -> bool) (c : cstate) (m : N) (e : expr) : list N :=
  diff (search am (postings (vis (ix c))) m e) (dropped c).

Definition fc_get (f : list (fkey * list N)) (k : fkey) : option (list N) :=
  match find (fun x => fkey_eqb (fst x) k) f with Some x => Some (snd x) | None => None end.

(* one filter through the cache (seriesByBinaryExpr / searchTSIDsWithTagFilter): an entry with a non-empty id list is a hit *)
Definition atom_cached (am : N -> N -> bool) (c : cstate) (f : list (fkey * list N)) (m k : N) (cm : cmp) (v : N)
  : list N * list (fkey * list N) :=
  let key := (gen c, m, k, cm, v) in
  match fc_get f key with
  | Some (x :: r) => (x :: r, f)
  | _ => let a := visible_ids am c m (Atom k cm v) in (a, (key, a) :: f)
  end.
Fixpoint search_cached (am : N -> N -> bool) (c : cstate) (f : list (fkey * list N)) (m : N) (e : expr)
  : list N * list (fkey * list N) :=
  match e with
  | And a b => let (x, f1) := search_cached am c f m a in let (y, f2) := search_cached am c f1 m b in (inter x y, f2)
  | Or a b => let (x, f1) := search_cached am c f m a in let (y, f2) := search_cached am c f1 m b in (x ++ y, f2)
  | Paren a => search_cached am c f m a
  | Atom k cm v => atom_cached am c f m k cm v
  end.
(* the uncached evaluation of the same tree (each filter from the items, dropped ids hidden per filter) *)
Fixpoint search_plain (am : N -> N -> bool) (c : cstate) (m : N) (e : expr) : list N :=
  match e with
  | And a b => inter (search_plain am c m a) (search_plain am c m b)
  | Or a b => search_plain am c m a ++ search_plain am c m b
  | Paren a => search_plain am c m a
  | Atom k cm v => visible_ids am c m (Atom k cm v)
  end.

Definition has_pending (c : cstate) : bool := match pend (ix c) with [] => false | _ => true end.
Definition flush_ix (c : cstate) : index := fst (step_fc (ix c) Flush).

(* [imm]: does the flush callback of a background flush run with the flush (repaired) or at the next tick (today)? *)
Definition cstep (imm : bool) (am : N -> N -> bool) (c : cstate) (o : cop) : cstate * option (list N * list N) :=
  match o with
  | OInsert s => (mkC (fst (step_fc (ix c) (Insert s))) (dropped c) (gen c) (need c) (fc c), None)
  (* forced (final) flush: if there were raw items, they become parts and the callback runs at once *)
  | OFlush => (mkC (flush_ix c) (dropped c) (if has_pending c then gen c + 1 else gen c) (need c) (fc c), None)
  | OBgFlush => if has_pending c
                then (mkC (flush_ix c) (dropped c) (if imm then gen c + 1 else gen c) (if imm then need c else true) (fc c), None)
                else (c, None)
  | OTick => (mkC (ix c) (dropped c) (if need c then gen c + 1 else gen c) false (fc c), None)
  (* ClearCache flushes, resets every cache, flushes *)
  | OClear => (mkC (fst (step_fc (ix c) ClearCache)) (dropped c) (if has_pending c then gen c + 1 else gen c) (need c) [], None)
  (* close runs the callback; the result cache lives in memory only *)
  | OReopen b => (mkC (fst (step_fc (ix c) (Reopen b))) (dropped c) (gen c + 1) false [], None)
  | ODrop ids => (mkC (ix c) (ids ++ dropped c) (gen c + 1) (need c) (fc c), None)
  | OSearch m e => let (a, f') := search_cached am c (fc c) m e in
                   (mkC (ix c) (dropped c) (gen c) (need c) f', Some (a, search_plain am c m e))
  end.
Fixpoint crun (imm : bool) (am : N -> N -> bool) (c : cstate) (os : list cop) : list (option (list N * list N)) :=
  match os with [] => [] | o :: r => let (c', x) := cstep imm am c o in x :: crun imm am c' r end.

(* ------------------------------------------------------------------------------------------------ invariant *)
(* every entry of the current generation holds the uncached answer of its filter; no entry is from a future generation *)
Definition cache_ok (am : N -> N -> bool) (c : cstate) (f : list (fkey * list N)) : Prop :=
  forall g m k cm v ids, In ((g, m, k, cm, v), ids) f ->
    g <= gen c /\ (g = gen c -> ids = visible_ids am c m (Atom k cm v)).

Lemma cmp_eqb_eq a b : cmp_eqb a b = true <-> a = b.
Proof. destruct a, b; simpl; split; intros H; try discriminate; auto. Qed.
Lemma fkey_eqb_eq a b : fkey_eqb a b = true <-> a = b.
Proof.
  destruct a as [[[[g1 m1] k1] c1] v1], b as [[[[g2 m2] k2] c2] v2]. unfold fkey_eqb.
  rewrite !andb_true_iff, !N.eqb_eq, cmp_eqb_eq. split.
  - intros [[[[-> ->] ->] ->] ->]. reflexivity.
  - intros E. inversion E. auto.
Qed.
Lemma fc_get_in f k ids : fc_get f k = Some ids -> In (k, ids) f.
Proof.
  unfold fc_get. destruct (find (fun x => fkey_eqb (fst x) k) f) as [[k' i'] |] eqn:E; [| discriminate].
  intros H. inversion H; subst. apply find_some in E. destruct E as [Hin Hk]. simpl in Hk. apply fkey_eqb_eq in Hk. subst. exact Hin.
Qed.

Lemma atom_cached_ok am c f m k cm v : cache_ok am c f ->
  fst (atom_cached am c f m k cm v) = visible_ids am c m (Atom k cm v) /\ cache_ok am c (snd (atom_cached am c f m k cm v)).
Proof.
  intros Hok. unfold atom_cached. destruct (fc_get f (gen c, m, k, cm, v)) as [[| x r] |] eqn:E; simpl.
  - split; auto. intros g m' k' cm' v' ids [H | H]; [inversion H; subst; split; [lia | auto] | apply (Hok _ _ _ _ _ _ H)].
  - split; auto. apply fc_get_in in E. destruct (Hok _ _ _ _ _ _ E) as [_ H]. apply H. reflexivity.
  - split; auto. intros g m' k' cm' v' ids [H | H]; [inversion H; subst; split; [lia | auto] | apply (Hok _ _ _ _ _ _ H)].
Qed.
Lemma search_cached_ok am c m e : forall f, cache_ok am c f ->
  fst (search_cached am c f m e) = search_plain am c m e /\ cache_ok am c (snd (search_cached am c f m e)).
Proof.
  induction e as [a IHa b IHb | a IHa b IHb | a IHa | k cm v]; intros f Hok; cbn [search_cached search_plain].
  - destruct (IHa f Hok) as [E1 H1]. destruct (search_cached am c f m a) as [x f1]. simpl in *.
    destruct (IHb f1 H1) as [E2 H2]. destruct (search_cached am c f1 m b) as [y f2]. simpl in *. subst. auto.
  - destruct (IHa f Hok) as [E1 H1]. destruct (search_cached am c f m a) as [x f1]. simpl in *.
    destruct (IHb f1 H1) as [E2 H2]. destruct (search_cached am c f1 m b) as [y f2]. simpl in *. subst. auto.
  - apply IHa. exact Hok.
  - apply atom_cached_ok. exact Hok.
Qed.

(* a state change keeps the cache sound when the visible items and the dropped ids stay, or when the generation moves on *)
Lemma cache_ok_same am c c' f : gen c' = gen c -> vis (ix c') = vis (ix c) -> dropped c' = dropped c ->
  cache_ok am c f -> cache_ok am c' f.
Proof.
  intros Hg Hv Hd Hok g m k cm v ids Hin. destruct (Hok _ _ _ _ _ _ Hin) as [H1 H2]. rewrite Hg. split; auto.
  intros E. unfold visible_ids. rewrite Hv, Hd. apply H2. exact E.
Qed.
Lemma cache_ok_bump am c c' f : gen c' = gen c + 1 -> cache_ok am c f -> cache_ok am c' f.
Proof.
  intros Hg Hok g m k cm v ids Hin. destruct (Hok _ _ _ _ _ _ Hin) as [H1 _]. rewrite Hg. split; [lia | intros E; lia].
Qed.
Lemma cache_ok_nil am c : cache_ok am c [].
Proof. intros g m k cm v ids []. Qed.

Lemma flush_no_pending c : has_pending c = false -> vis (flush_ix c) = vis (ix c).
Proof. unfold has_pending, flush_ix. destruct (pend (ix c)) eqn:E; [| discriminate]. intros _. simpl. rewrite E, app_nil_r. reflexivity. Qed.
Lemma insert_vis i s : vis (fst (step_fc i (Insert s))) = vis i.
Proof. cbn [step_fc step]. unfold insert. destruct (lookup slow_current i s); reflexivity. Qed.

Lemma cstep_ok am c o : cache_ok am c (fc c) -> cache_ok am (fst (cstep true am c o)) (fc (fst (cstep true am c o))).
Proof.
  intros Hok. destruct o as [s | | | | | b | ids | m e]; cbn [cstep].
  - simpl. apply (cache_ok_same am c); auto. simpl. apply insert_vis.
  - simpl. destruct (has_pending c) eqn:E.
    + apply (cache_ok_bump am c); auto.
    + apply (cache_ok_same am c); auto. simpl. apply flush_no_pending. exact E.
  - destruct (has_pending c) eqn:E; simpl; [apply (cache_ok_bump am c); auto | exact Hok].
  - simpl. destruct (need c); [apply (cache_ok_bump am c); auto | apply (cache_ok_same am c); auto].
  - simpl. apply cache_ok_nil.
  - simpl. apply cache_ok_nil.
  - simpl. apply (cache_ok_bump am c); auto.
  - destruct (search_cached_ok am c m e (fc c) Hok) as [_ H]. destruct (search_cached am c (fc c) m e) as [a f']. simpl in *.
    apply (cache_ok_same am c); auto.
Qed.

(* every search of every operation sequence returns the uncached answer *)
Theorem cache_transparent am os : forall c, cache_ok am c (fc c) ->
  Forall (fun x => match x with Some (a, u) => a = u | None => True end) (crun true am c os).
Proof.
  induction os as [| o r IH]; intros c Hok; cbn [crun]; [constructor |].
  pose proof (cstep_ok am c o Hok) as Hok'. destruct (cstep true am c o) as [c' x] eqn:E. simpl in Hok'. constructor; [| apply IH; exact Hok'].
  destruct o; cbn [cstep] in E; try (inversion E; subst; exact I).
  - destruct (has_pending c); inversion E; subst; exact I.
  - destruct (search_cached_ok am c m e (fc c) Hok) as [H _]. destruct (search_cached am c (fc c) m e) as [a f']. simpl in H.
    inversion E; subst. reflexivity.
Qed.
Theorem cache_transparent_from_empty am n os :
  Forall (fun x => match x with Some (a, u) => a = u | None => True end) (crun true am (cempty n) os).
Proof. apply cache_transparent. apply cache_ok_nil. Qed.

(* the per-filter uncached evaluation is the predicate's meaning on the live series *)
Lemma search_plain_spec am c m e id :
  In id (search_plain am c m e) <-> In id (search am (postings (vis (ix c))) m e) /\ ~ In id (dropped c).
Proof.
  induction e as [a IHa b IHb | a IHa b IHb | a IHa | k cm v]; cbn [search_plain search].
  - rewrite !in_inter, IHa, IHb. tauto.
  - rewrite !in_app_iff, IHa, IHb. tauto.
  - exact IHa.
  - unfold visible_ids. rewrite in_diff. reflexivity.
Qed.
