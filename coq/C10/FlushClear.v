(* C10 - the second repair of the unflushed-cache-clear defect: ClearCache flushes the raw items before (and after) it
   resets the caches (props/C10/fix2.patch, first hunk), the key lookup stays as it is today (cache, then flushed items
   only). Ids are functional, injective and stable for every operation sequence. The invariant that makes today's lookup
   sufficient: every pending (unflushed) entry is in the key cache. *)
From Coq Require Import NArith List Bool Lia.
From OG Require Import C10.Model C10.Proofs.
Import ListNotations.
Open Scope N_scope.

Definition clear_flushing (i : index) : index := mkI (vis i ++ pend i) [] [] (next_id i).
Definition step_fc (i : index) (o : op) : index * option N :=
  match o with
  | ClearCache => (clear_flushing i, None)
  | _ => step slow_current i o
  end.
Fixpoint run_fc (i : index) (os : list op) : index * list (option N) :=
  match os with
  | [] => (i, [])
  | o :: r => let (i1, x) := step_fc i o in let (i2, xs) := run_fc i1 r in (i2, x :: xs)
  end.

Definition pend_cached (i : index) : Prop := forall e, In e (pend i) -> In e (cache i).
Definition wf_fc (i : index) : Prop := wf i /\ pend_cached i.

Lemma assoc_app_notin (A B : list entry) s : ~ In s (map fst B) -> assoc (A ++ B) s = assoc A s.
Proof.
  intros Hn. unfold assoc. induction A as [| a A IH]; simpl.
  - destruct (find (fun e => series_eqb (fst e) s) B) as [e |] eqn:E; auto.
    exfalso. apply find_some in E. destruct E as [Hin He]. apply series_eqb_true in He. apply Hn. rewrite <- He. apply in_map. exact Hin.
  - destruct (series_eqb (fst a) s); auto.
Qed.

Lemma lookup_fc_eq i s : wf_fc i -> lookup slow_current i s = lookup slow_repaired i s.
Proof.
  intros [_ Hpc]. unfold lookup, slow_current, slow_repaired, store.
  destruct (assoc (cache i) s) eqn:E; auto. symmetry. apply assoc_app_notin.
  intros Hin. apply in_map_iff in Hin. destruct Hin as ([s' id] & Es & Hin). simpl in Es. subst s'.
  apply Hpc in Hin. apply (assoc_none _ _ E). change s with (fst (s, id)). apply in_map. exact Hin.
Qed.
Lemma insert_fc_eq i s : wf_fc i -> insert slow_current i s = insert slow_repaired i s.
Proof. intros H. unfold insert. rewrite (lookup_fc_eq i s H). reflexivity. Qed.

Lemma wf_fc_empty n : wf_fc (empty_index n).
Proof. split; [apply wf_empty | intros e []]. Qed.

Lemma step_fc_wf i o : wf_fc i -> wf_fc (fst (step_fc i o)).
Proof.
  intros Hw. pose proof Hw as [Hwf Hpc]. destruct o as [s | | | b]; cbn [step_fc step].
  - rewrite (insert_fc_eq i s Hw). pose proof (insert_repaired_wf i s Hwf) as H1. split.
    + destruct (insert slow_repaired i s). exact H1.
    + unfold insert. destruct (lookup slow_repaired i s); simpl; intros e He.
      * right. apply Hpc. exact He.
      * apply in_app_iff in He. destruct He as [He | [<- | []]]; [right; apply Hpc; exact He | left; reflexivity].
  - split; [apply (step_repaired_wf i Flush Hwf) | intros e []].
  - simpl. split; [| intros e []]. destruct Hwf as (Hk & Hi & Hb & Hc). unfold wf, store in *. simpl. rewrite app_nil_r.
    repeat split; auto. intros e [].
  - split; [apply (step_repaired_wf i (Reopen b) Hwf) | intros e []].
Qed.
Lemma run_fc_wf os : forall i, wf_fc i -> wf_fc (fst (run_fc i os)).
Proof.
  induction os as [| o r IH]; simpl; intros i Hw; auto.
  pose proof (step_fc_wf i o Hw) as H1. destruct (step_fc i o) as [i1 x]. simpl in H1.
  pose proof (IH i1 H1) as H2. destruct (run_fc i1 r) as [i2 xs]. exact H2.
Qed.

Lemma step_fc_store_mono i o e : In e (store i) -> In e (store (fst (step_fc i o))).
Proof.
  intros Hin. destruct o as [s | | | b]; try apply (step_store_mono slow_current i _ e Hin).
  simpl. unfold store in *. simpl. rewrite app_nil_r. exact Hin.
Qed.
Lemma run_fc_store_mono os : forall i e, In e (store i) -> In e (store (fst (run_fc i os))).
Proof.
  induction os as [| o r IH]; simpl; intros i e Hin; auto.
  pose proof (step_fc_store_mono i o e Hin) as H1. destruct (step_fc i o) as [i1 x]. simpl in H1.
  pose proof (IH i1 e H1) as H2. destruct (run_fc i1 r) as [i2 xs]. exact H2.
Qed.

Theorem fc_id_functional n os s id1 id2 :
  let i := fst (run_fc (empty_index n) os) in In (s, id1) (store i) -> In (s, id2) (store i) -> id1 = id2.
Proof. intros i. apply id_functional_store. apply run_fc_wf, wf_fc_empty. Qed.
Theorem fc_id_injective n os s1 s2 id :
  let i := fst (run_fc (empty_index n) os) in In (s1, id) (store i) -> In (s2, id) (store i) -> s1 = s2.
Proof. intros i. apply id_injective_store. apply run_fc_wf, wf_fc_empty. Qed.
Theorem fc_id_stable n os1 s os2 :
  let i1 := fst (run_fc (empty_index n) os1) in
  let r := insert slow_current i1 s in
  let i3 := fst (run_fc (fst r) os2) in
  snd (insert slow_current i3 s) = snd r.
Proof.
  intros i1 r i3.
  assert (W1 : wf_fc i1) by (apply run_fc_wf, wf_fc_empty).
  assert (E1 : insert slow_current i1 s = insert slow_repaired i1 s) by (apply insert_fc_eq; exact W1).
  assert (W2 : wf_fc (fst r)).
  { pose proof (step_fc_wf i1 (Insert s) W1) as H. cbn [step_fc step] in H. unfold r. destruct (insert slow_current i1 s). exact H. }
  assert (W3 : wf_fc i3) by (apply run_fc_wf; exact W2).
  rewrite (insert_fc_eq i3 s W3).
  apply insert_repaired_known; [apply W3 |]. unfold i3. apply run_fc_store_mono. unfold r. rewrite E1.
  apply insert_repaired_returns. apply W1.
Qed.
(* a cache hit or a hit in the flushed items is all there is: today's lookup finds every stored key *)
Theorem fc_lookup_complete n os s id :
  let i := fst (run_fc (empty_index n) os) in In (s, id) (store i) -> lookup slow_current i s = Some id.
Proof.
  intros i Hin. assert (W : wf_fc i) by (apply run_fc_wf, wf_fc_empty).
  rewrite (lookup_fc_eq i s W). apply lookup_repaired_iff; [apply W | exact Hin].
Qed.

(* the two repairs hand out the same ids: for every operation sequence the flush-before-clear index with today's lookup
   answers every insert like the index whose lookup consults the pending items *)
Definition sim (i j : index) : Prop := store i = store j /\ cache i = cache j /\ next_id i = next_id j.

Lemma lookup_repaired_sim i j s : sim i j -> lookup slow_repaired i s = lookup slow_repaired j s.
Proof. intros (Hs & Hc & _). unfold lookup, slow_repaired. rewrite Hs, Hc. reflexivity. Qed.

Lemma step_sim i j o : wf_fc i -> sim i j ->
  sim (fst (step_fc i o)) (fst (step slow_repaired j o)) /\ snd (step_fc i o) = snd (step slow_repaired j o).
Proof.
  intros Hw Hs. pose proof Hs as (Hst & Hc & Hn). destruct o as [s | | | b]; cbn [step_fc step].
  - rewrite (insert_fc_eq i s Hw). unfold insert. rewrite (lookup_repaired_sim i j s Hs).
    destruct (lookup slow_repaired j s); simpl.
    + split; auto. unfold sim, store in *. simpl. rewrite Hc. auto.
    + rewrite Hn. split; auto. unfold sim, store in *. simpl. rewrite !app_assoc, Hst, Hc. auto.
  - simpl. split; auto. unfold sim, store in *. simpl. rewrite !app_nil_r. auto.
  - simpl. split; auto. unfold sim, store in *. simpl. rewrite app_nil_r. auto.
  - simpl. split; auto. unfold sim, store in *. simpl. rewrite !app_nil_r, Hn. auto.
Qed.
Theorem fc_outputs_equal os : forall i j, wf_fc i -> sim i j -> snd (run_fc i os) = snd (run slow_repaired j os).
Proof.
  induction os as [| o r IH]; simpl; intros i j Hw Hs; auto.
  pose proof (step_sim i j o Hw Hs) as [H1 H2]. pose proof (step_fc_wf i o Hw) as H3.
  destruct (step_fc i o) as [i1 x]. destruct (step slow_repaired j o) as [j1 y]. simpl in *.
  pose proof (IH i1 j1 H3 H1) as H4. destruct (run_fc i1 r) as [i2 xs]. destruct (run slow_repaired j1 r) as [j2 ys].
  simpl in *. rewrite H2, H4. reflexivity.
Qed.
