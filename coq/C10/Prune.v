(* C10 - the second evaluator of a tag predicate: the select path checks the remaining filters of an AND-only predicate
   against the SERIES KEY of each candidate (doPrune / matchSeriesKeyTagFilter in search_prune.go) instead of intersecting
   id sets. It is proved equal to the meaning of the predicate (absent tag = empty string, negation, empty values), and
   every plan "id-set search of some filters, key check of the others" is proved to select what brute force selects. *)
From Coq Require Import NArith List Bool Lia.
From OG Require Import C10.Model C10.Proofs.
Import ListNotations.
Open Scope N_scope.

Definition filter_t := (N * cmp * N)%type.                 (* tag key, operator, value or pattern *)
Definition negative (c : cmp) : bool := match c with Neq | Nre => true | _ => false end.
Definition is_re (c : cmp) : bool := match c with Re | Nre => true | _ => false end.

(* matchSeriesKeyTagFilter: look the key up among the tags of the series key; if present compare its value, if absent
   compare with the empty string; a negative filter inverts the answer *)
Definition prune_atom (am : N -> N -> bool) (f : filter_t) (ts : tagset) : bool :=
  let '(k, c, v) := f in
  match find (fun kv => fst kv =? k) ts with
  | Some kv => let m := if is_re c then am v (snd kv) else (snd kv =? v) in if negative c then negb m else m
  | None => let m := if is_re c then am v 0 else (0 =? v) in if negative c then negb m else m
  end.
Definition prune_filters (am : N -> N -> bool) (fs : list filter_t) (ts : tagset) : bool :=
  forallb (fun f => prune_atom am f ts) fs.

Definition atom_of (f : filter_t) : expr := let '(k, c, v) := f in Atom k c v.
(* the AND-only predicate of a non-empty filter list *)
Fixpoint conj (f : filter_t) (fs : list filter_t) : expr :=
  match fs with [] => atom_of f | g :: r => And (atom_of f) (conj g r) end.

Lemma prune_atom_eval am f ts : prune_atom am f ts = eval am (atom_of f) ts.
Proof.
  destruct f as [[k c] v]. unfold prune_atom, atom_of. destruct c; cbn [eval is_re negative]; unfold tag_val;
    destruct (find (fun kv => fst kv =? k) ts) as [kv |]; reflexivity.
Qed.

Lemma eval_conj am f fs ts : eval am (conj f fs) ts = prune_filters am (f :: fs) ts.
Proof.
  revert f. induction fs as [| g r IH]; intros f; cbn [conj eval prune_filters forallb].
  - rewrite prune_atom_eval, andb_true_r. reflexivity.
  - rewrite IH, prune_atom_eval. reflexivity.
Qed.

Lemma expr_ok_conj f fs : Forall (fun g => fst (fst g) <> 0) (f :: fs) -> expr_ok (conj f fs).
Proof.
  revert f. induction fs as [| g r IH]; intros f H; inversion H as [| ? ? Hf Hr]; subst; cbn [conj expr_ok].
  - destruct f as [[k c] v]. exact Hf.
  - split; [destruct f as [[k c] v]; exact Hf | apply IH; exact Hr].
Qed.

(* a plan of the select path for an AND-only predicate: the filters [pre] are answered from the index (id sets), the
   filters [post] are checked against the series key of every candidate *)
Definition plan_ids (am : N -> N -> bool) (L : list entry) (m : N) (p : filter_t) (pre post : list filter_t) : list N :=
  filter (fun id => match key_of L id with s :: _ => prune_filters am post (s_tags s) | [] => false end)
         (search am (postings L) m (conj p pre)).

Lemma forallb_app' {A} (f : A -> bool) a b : forallb f (a ++ b) = forallb f a && forallb f b.
Proof. induction a; simpl; auto. rewrite IHa, andb_assoc. reflexivity. Qed.

Theorem plan_is_bruteforce am L m p pre post :
  wfL L -> Forall (fun g => fst (fst g) <> 0) (p :: pre ++ post) ->
  forall id, In id (plan_ids am L m p pre post) <-> In id (bruteforce am L m (conj p (pre ++ post))).
Proof.
  intros Hwf Hok id.
  assert (Hok1 : expr_ok (conj p pre)).
  { apply expr_ok_conj. inversion Hok as [| ? ? Hp Hr]; subst. constructor; auto.
    apply Forall_app in Hr. apply Hr. }
  assert (Hok2 : expr_ok (conj p (pre ++ post))) by (apply expr_ok_conj; exact Hok).
  unfold plan_ids. rewrite filter_In. rewrite (search_is_bruteforce am L m _ Hwf Hok1).
  unfold bruteforce. rewrite !in_map_iff. split.
  - intros [((s, i) & Ei & Hf) Hp]. simpl in Ei. subst i. apply filter_In in Hf. destruct Hf as [Hin Hb]. simpl in Hb.
    apply andb_true_iff in Hb. destruct Hb as [Hm He].
    destruct Hwf as [Hnd Htags]. rewrite (key_of_in L s id Hnd Hin) in Hp.
    exists (s, id). split; auto. apply filter_In. split; auto. simpl. rewrite Hm. simpl.
    rewrite eval_conj in *. cbn [prune_filters forallb] in *. rewrite forallb_app'.
    apply andb_true_iff in He. destruct He as [H1 H2]. rewrite H1, H2. exact Hp.
  - intros ((s, i) & Ei & Hf). simpl in Ei. subst i. apply filter_In in Hf. destruct Hf as [Hin Hb]. simpl in Hb.
    apply andb_true_iff in Hb. destruct Hb as [Hm He]. rewrite eval_conj in He. cbn [prune_filters forallb] in He.
    rewrite forallb_app' in He. apply andb_true_iff in He. destruct He as [H1 He]. apply andb_true_iff in He. destruct He as [H2 H3].
    destruct Hwf as [Hnd Htags]. split.
    + exists (s, id). split; auto. apply filter_In. split; auto. simpl. rewrite Hm. simpl. rewrite eval_conj.
      cbn [prune_filters forallb]. rewrite H1, H2. reflexivity.
    + rewrite (key_of_in L s id Hnd Hin). exact H3.
Qed.

(* a seeded change of this evaluator (literal filter on an absent tag: "only k = '' can hold") is not the predicate *)
Definition prune_atom_absent_only_empty (am : N -> N -> bool) (f : filter_t) (ts : tagset) : bool :=
  let '(k, c, v) := f in
  match find (fun kv => fst kv =? k) ts with
  | Some _ => prune_atom am f ts
  | None => if is_re c then prune_atom am f ts else (v =? 0) && negb (negative c)
  end.
