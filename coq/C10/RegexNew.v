(* C10 - the translation of an InfluxQL regular expression into a tag filter as tag_filters.go does it since /repo commit
   f7a71a4 (initInfluxRegexp, anchoredOrValues, anchoredLiteralPrefix, regexMatchesEverything, addSeriesWithoutTag,
   unmarshalTagValueNoSeparator), and the proof that for EVERY expression and every value it selects exactly what the
   language's unanchored matching selects. *)
From Coq Require Import NArith List Bool Arith Lia.
From OG Require Import C10.Regex C10.RegexProofs C10.RegexSem.
Import ListNotations.

(* unmarshalTagValueNoSeparator *)
Fixpoint unesc (b : list N) : list N :=
  match b with
  | c :: t =>
      if (c =? 0)%N then
        match t with
        | d :: u => if (d =? 48)%N then 0%N :: unesc u else if (d =? 49)%N then 1%N :: unesc u
                    else if (d =? 50)%N then 2%N :: unesc u else c :: d :: unesc u
        | [] => [c]
        end
      else c :: unesc t
  | [] => []
  end.

(* anchoredOrValues: ^X$ with X enumerable by getOrValuesExt *)
(* Go's Simplify, which the code applies before these structure checks, only rewrites counted repetitions (and degenerate
   repetitions) below the top level; it is not modelled: for ^a{2}$ the model takes the scan where the code takes the lookups,
   and both are proved / observed equal. *)
Definition anchored_or_values (r : re) : list (list N) :=
  match r with
  | RConcat (RBeginText :: rest) =>
      match rev rest with
      | REndText :: mid => match mid with [] => [] | _ => or_values (RConcat (rev mid)) end
      | _ => []
      end
  | _ => []
  end.
(* anchoredLiteralPrefix: ^lit... *)
Fixpoint lit_through (r : re) : list N := match r with RCapture a => lit_through a | RLit _ l => l | _ => [] end.
Definition anchored_literal_prefix (r : re) : list N :=
  match r with
  | RConcat (RBeginText :: a :: _) => if is_literal a then lit_through a else []
  | _ => []
  end.
(* regexMatchesEverything *)
Definition matches_everything (r : re) : bool := unanch r [] && negb (has_assert r).

(* what the index selects for pattern r on a stored value (Some v) / a series without the tag (None) *)
Definition new_match (r : re) (v : option (list N)) : bool :=
  if matches_everything r then true
  else match v with
       | None => unanch r []                                  (* addSeriesWithoutTag: isEmptyMatch *)
       | Some v =>
           match anchored_or_values r with
           | [] => let p := anchored_literal_prefix r in
                   match strip_prefix (esc p) (esc v) with
                   | None => false
                   | Some rest => unanch r (p ++ unesc rest)
                   end
           | vs => existsb (list_eqb (esc v)) (map esc vs)     (* lookups of the marshaled values *)
           end
       end.

(* ------------------------------------------------------------------------------------------------ matcher vs relation *)
Lemma unanch_iff r w : unanch r w = true <-> exists i j, i <= length w /\ sem w r i j.
Proof.
  unfold unanch. rewrite existsb_exists. split.
  - intros (i & Hi & Hn). apply in_seq in Hi. destruct (ends w r i) as [| j t] eqn:E; [discriminate |].
    exists i, j. split; [lia |]. apply (ends_sem w r i j); [lia |]. rewrite E. left. reflexivity.
  - intros (i & j & Hi & Hs). exists i. split; [apply in_seq; lia |].
    apply (ends_sem w r i j Hi) in Hs. destruct (ends w r i); [destruct Hs | reflexivity].
Qed.
Lemma unanch_false_iff r w : unanch r w = false <-> ~ exists i j, i <= length w /\ sem w r i j.
Proof. rewrite <- unanch_iff. destruct (unanch r w); split; intros H; try discriminate; auto. exfalso. apply H. reflexivity. Qed.
Lemma bool_eq_iff (a b : bool) : (a = true <-> b = true) -> a = b.
Proof. destruct a, b; intros [H1 H2]; try reflexivity; [symmetry; apply H1; reflexivity | apply H2; reflexivity]. Qed.

(* ------------------------------------------------------------------------------------------------ escaping *)
Lemma unesc_0 u : unesc (0 :: 48 :: u)%N = 0%N :: unesc u. Proof. reflexivity. Qed.
Lemma unesc_1 u : unesc (0 :: 49 :: u)%N = 1%N :: unesc u. Proof. reflexivity. Qed.
Lemma unesc_2 u : unesc (0 :: 50 :: u)%N = 2%N :: unesc u. Proof. reflexivity. Qed.
Lemma unesc_other c u : (c =? 0)%N = false -> unesc (c :: u) = c :: unesc u.
Proof. intros H. cbn [unesc]. rewrite H. reflexivity. Qed.
Lemma unesc_esc v : unesc (esc v) = v.
Proof.
  induction v as [| c t IH]; [reflexivity |]. change (esc (c :: t)) with (esc1 c ++ esc t). unfold esc1.
  destruct (c =? 0)%N eqn:E0; [apply N.eqb_eq in E0; subst; cbn [app]; rewrite unesc_0, IH; reflexivity |].
  destruct (c =? 1)%N eqn:E1; [apply N.eqb_eq in E1; subst; cbn [app]; rewrite unesc_1, IH; reflexivity |].
  destruct (c =? 2)%N eqn:E2; [apply N.eqb_eq in E2; subst; cbn [app]; rewrite unesc_2, IH; reflexivity |].
  cbn [app]. rewrite (unesc_other c _ E0), IH. reflexivity.
Qed.
Lemma esc_inj a b : esc a = esc b -> a = b.
Proof. intros H. rewrite <- (unesc_esc a), <- (unesc_esc b), H. reflexivity. Qed.
Lemma list_eqb_iff a b : list_eqb a b = true <-> a = b.
Proof.
  revert b. induction a as [| x a IH]; destruct b as [| y b]; simpl; split; intros H; try discriminate; auto.
  - apply andb_true_iff in H. destruct H as [H1 H2]. apply N.eqb_eq in H1. apply IH in H2. congruence.
  - inversion H; subst. rewrite N.eqb_refl. apply IH. reflexivity.
Qed.
Lemma existsb_esc v vs : existsb (list_eqb (esc v)) (map esc vs) = existsb (list_eqb v) vs.
Proof.
  induction vs as [| x t IH]; simpl; auto. rewrite IH. f_equal. apply bool_eq_iff.
  rewrite !list_eqb_iff. split; [apply esc_inj | intros ->; reflexivity].
Qed.

Lemma strip_prefix_app x y z : strip_prefix (x ++ y) (x ++ z) = strip_prefix y z.
Proof. induction x; simpl; auto. rewrite N.eqb_refl. exact IHx. Qed.
Lemma esc1_cases a : ((a < 3)%N /\ esc1 a = [0; 48 + a]%N) \/ ((3 <= a)%N /\ esc1 a = [a]).
Proof.
  unfold esc1. destruct (a =? 0)%N eqn:E0; [apply N.eqb_eq in E0; subst; left; split; [lia | reflexivity] |].
  destruct (a =? 1)%N eqn:E1; [apply N.eqb_eq in E1; subst; left; split; [lia | reflexivity] |].
  destruct (a =? 2)%N eqn:E2; [apply N.eqb_eq in E2; subst; left; split; [lia | reflexivity] |].
  apply N.eqb_neq in E0, E1, E2. right. split; [lia | reflexivity].
Qed.
Lemma esc1_head_ne a b y z : a <> b -> strip_prefix (esc1 a ++ y) (esc1 b ++ z) = None.
Proof.
  intros Hne. destruct (esc1_cases a) as [[Ha ->] | [Ha ->]], (esc1_cases b) as [[Hb ->] | [Hb ->]]; cbn [app strip_prefix].
  - rewrite N.eqb_refl. destruct (48 + a =? 48 + b)%N eqn:E; [apply N.eqb_eq in E; lia | reflexivity].
  - destruct (0 =? b)%N eqn:E; [apply N.eqb_eq in E; lia | reflexivity].
  - destruct (a =? 0)%N eqn:E; [apply N.eqb_eq in E; lia | reflexivity].
  - destruct (a =? b)%N eqn:E; [apply N.eqb_eq in E; contradiction | reflexivity].
Qed.
Lemma strip_prefix_esc p : forall v,
  strip_prefix (esc p) (esc v) = match strip_prefix p v with Some v' => Some (esc v') | None => None end.
Proof.
  induction p as [| a p IH]; intros v; [reflexivity |]. destruct v as [| b v].
  - unfold esc. cbn [flat_map strip_prefix]. unfold esc1. destruct (a =? 0)%N; [reflexivity |]. destruct (a =? 1)%N; [reflexivity |].
    destruct (a =? 2)%N; reflexivity.
  - cbn [strip_prefix]. destruct (a =? b)%N eqn:E.
    + apply N.eqb_eq in E. subst. unfold esc. cbn [flat_map]. rewrite strip_prefix_app. apply IH.
    + apply N.eqb_neq in E. unfold esc. cbn [flat_map]. apply esc1_head_ne. exact E.
Qed.
Lemma strip_prefix_split p v v' : strip_prefix p v = Some v' -> v = p ++ v'.
Proof.
  revert v. induction p as [| a p IH]; intros v H; simpl in *; [inversion H; reflexivity |].
  destruct v as [| b v]; [discriminate |]. destruct (a =? b)%N eqn:E; [| discriminate].
  apply N.eqb_eq in E. subst. rewrite (IH v H). reflexivity.
Qed.

(* ------------------------------------------------------------------------------------------------ matches everything *)
Lemma pow_refl_n (R : nat -> nat -> Prop) n i : R i i -> pow R n i i.
Proof. intros H. induction n; simpl; [reflexivity | exists i; auto]. Qed.

Lemma sem_empty_zero r j : sem [] r 0 j -> j = 0.
Proof. intros H. pose proof (sem_bounded [] r 0 j (Nat.le_refl 0) H) as [_ H2]. simpl in H2. lia. Qed.

Lemma sem_empty_transfers r : has_assert r = false -> sem [] r 0 0 -> forall w i, sem w r i i.
Proof.
  induction r using re_ind'; cbn [has_assert sem]; intros Ha Hs w i; try discriminate.
  - reflexivity.
  - (* literal *) destruct Hs as [Hp Hl]. destruct l; [| simpl in Hl; discriminate]. split; [reflexivity | simpl; lia].
  - destruct Hs as (c & Hc & _). discriminate.
  - destruct Hs as (c & Hc & _). discriminate.
  - destruct Hs as (c & Hc & _). discriminate.
  - (* capture *) apply IHr; auto.
  - (* star *) constructor.
  - (* plus *) destruct Hs as (k & H1 & H2). pose proof (sem_empty_zero r k H1). subst k.
    exists i. split; [apply IHr; auto | constructor].
  - (* quest *) left. reflexivity.
  - (* repeat *) destruct Hs as (n & Hn1 & Hn2 & Hp). exists n. repeat split; auto.
    destruct n as [| n]; [reflexivity |]. simpl in Hp. destruct Hp as (m & Hm & _).
    pose proof (sem_empty_zero r m Hm). subst m. apply pow_refl_n. apply IHr; auto.
  - (* concat *) revert Ha Hs. induction H as [| a t Hp Ht IH]; intros Ha Hs; [reflexivity |].
    cbn [existsb] in Ha. apply orb_false_iff in Ha. destruct Ha as [Ha1 Ha2].
    destruct Hs as (k & H1 & H2). pose proof (sem_empty_zero a k H1). subst k.
    exists i. split; [apply Hp; auto | apply IH; auto].
  - (* alt *) revert Ha Hs. induction H as [| a t Hp Ht IH]; intros Ha Hs; [contradiction |].
    cbn [existsb] in Ha. apply orb_false_iff in Ha. destruct Ha as [Ha1 Ha2].
    destruct Hs as [Hs | Hs]; [left; apply Hp; auto | right; apply IH; auto].
Qed.

Lemma matches_everything_sound r w : matches_everything r = true -> unanch r w = true.
Proof.
  unfold matches_everything. intros H. apply andb_true_iff in H. destruct H as [H1 H2]. apply negb_true_iff in H2.
  apply unanch_iff in H1. destruct H1 as (i & j & Hi & Hs). simpl in Hi. assert (i = 0) by lia. subst i.
  pose proof (sem_empty_zero r j Hs). subst j.
  apply unanch_iff. exists 0, 0. split; [lia | apply sem_empty_transfers; auto].
Qed.

(* ------------------------------------------------------------------------------------------------ or-values *)
Definition litmatch (w v : list N) (i j : nat) : Prop := lit_pre false v (skipn i w) = true /\ j = i + length v.

Lemma lit_pre_app f p s x : lit_pre f (p ++ s) x = lit_pre f p x && lit_pre f s (skipn (length p) x).
Proof.
  revert x. induction p as [| a p IH]; intros x; simpl; [reflexivity |].
  destruct x as [| b x]; [reflexivity |]. rewrite IH, andb_assoc. reflexivity.
Qed.
Lemma skipn_add {A} (l : list A) a b : skipn (a + b) l = skipn b (skipn a l).
Proof. revert l. induction a as [| a IH]; intros l; simpl; [reflexivity |]. destruct l; [destruct b; reflexivity | apply IH]. Qed.
Lemma litmatch_app w p s i j : litmatch w (p ++ s) i j <-> exists k, litmatch w p i k /\ litmatch w s k j.
Proof.
  unfold litmatch. rewrite lit_pre_app, app_length, andb_true_iff. split.
  - intros [[H1 H2] ->]. exists (i + length p). rewrite skipn_add. repeat split; auto. lia.
  - intros (k & [H1 ->] & [H2 ->]). rewrite skipn_add in H2. repeat split; auto. lia.
Qed.
Lemma litmatch_single w c i j : litmatch w [c] i j <-> nth_error w i = Some c /\ j = S i.
Proof.
  unfold litmatch. simpl. assert (E : lit_pre false [c] (skipn i w) = true <-> nth_error w i = Some c).
  { revert w. induction i as [| i IH]; intros w; destruct w as [| b w]; simpl; try (split; intros; discriminate).
    - unfold ceq. rewrite andb_true_r, N.eqb_eq. split; [intros ->; reflexivity | intros H; inversion H; reflexivity].
    - apply IH. }
  rewrite E. split; intros [H ->]; split; auto; lia.
Qed.

Lemma in_class_values rs c : class_values rs <> [] -> (In [c] (class_values rs) <-> in_ranges c rs = true).
Proof.
  unfold class_values. destruct (N.of_nat max_or_values <? _)%N; [intros H; contradiction H; reflexivity |]. intros _.
  unfold in_ranges. rewrite in_flat_map, existsb_exists. split.
  - intros ([lo hi] & Hr & Hin). exists (lo, hi). split; auto. simpl in *. apply in_map_iff in Hin.
    destruct Hin as (k & E & Hk). apply in_seq in Hk. inversion E; subst. apply andb_true_iff. split; apply N.leb_le; lia.
  - intros ([lo hi] & Hr & Hb). simpl in Hb. apply andb_true_iff in Hb. destruct Hb as [H1 H2]. apply N.leb_le in H1, H2.
    exists (lo, hi). split; auto. simpl. apply in_map_iff. exists (N.to_nat (c - lo)). split; [f_equal; lia | apply in_seq; lia].
Qed.
Lemma class_values_single rs v : In v (class_values rs) -> exists c, v = [c].
Proof.
  unfold class_values. destruct (N.of_nat max_or_values <? _)%N; [intros [] |]. rewrite in_flat_map.
  intros (r & _ & Hin). apply in_map_iff in Hin. destruct Hin as (k & <- & _). eauto.
Qed.

Local Arguments Nat.ltb : simpl never.
Local Arguments Nat.mul : simpl never.
(* the two loops of getOrValuesExt as functions of their own (they are the inner fixpoints of [or_values]) *)
Definition alt_loop (ov : re -> list (list N)) : list re -> list (list N) -> list (list N) :=
  fix go (l : list re) (acc : list (list N)) : list (list N) :=
    match l with
    | [] => acc
    | a :: t => match ov a with
                | [] => []
                | ca => let acc' := acc ++ ca in if max_or_values <? length acc' then [] else go t acc'
                end
    end.
Definition concat_loop (ov : re -> list (list N)) : list re -> list (list N) :=
  fix go (l : list re) : list (list N) :=
    match l with
    | [] => [[]]
    | a :: t => match ov a with
                | [] => []
                | ps => match go t with
                        | [] => []
                        | ss => if max_or_values <? length ps * length ss then []
                                else flat_map (fun p => map (fun s => p ++ s) ss) ps
                        end
                end
    end.
Lemma or_values_alt_eq rs : or_values (RAlt rs) = alt_loop or_values rs [].
Proof. reflexivity. Qed.
Lemma or_values_concat_eq rs : or_values (RConcat rs) = concat_loop or_values rs.
Proof. reflexivity. Qed.

(* when the alternation loop yields a list, it is the concatenation of the lists of all alternatives, each non-empty *)
Lemma alt_loop_spec ov rs : forall acc, alt_loop ov rs acc <> [] ->
  alt_loop ov rs acc = acc ++ flat_map ov rs /\ Forall (fun a => ov a <> []) rs.
Proof.
  induction rs as [| a t IH]; intros acc H.
  - simpl. rewrite app_nil_r. split; [reflexivity | constructor].
  - simpl in H |- *. destruct (ov a) as [| x ca] eqn:E; [contradiction H; reflexivity |].
    match type of H with context [if ?c then _ else _] => destruct c end; [contradiction H; reflexivity |].
    destruct (IH (acc ++ x :: ca) H) as [H1 H2]. split.
    + rewrite H1, <- app_assoc. reflexivity.
    + constructor; [rewrite E; discriminate | exact H2].
Qed.
Lemma concat_loop_cons ov a t : concat_loop ov (a :: t) <> [] ->
  ov a <> [] /\ concat_loop ov t <> [] /\
  concat_loop ov (a :: t) = flat_map (fun p => map (fun s => p ++ s) (concat_loop ov t)) (ov a).
Proof.
  simpl. intros H. destruct (ov a) as [| p ps] eqn:E; [contradiction H; reflexivity |].
  destruct (concat_loop ov t) as [| s ss] eqn:Eg; [contradiction H; reflexivity |].
  match type of H with context [if ?c then _ else _] => destruct c end; [contradiction H; reflexivity |].
  repeat split; discriminate.
Qed.

Lemma or_values_sem r : or_values r <> [] ->
  forall w i j, sem w r i j <-> exists v, In v (or_values r) /\ litmatch w v i j.
Proof.
  induction r using re_ind'; intros Hne w i j; try (contradiction Hne; reflexivity).
  - (* empty *) cbn [sem or_values]. unfold litmatch. split.
    + intros ->. exists []. split; [left; reflexivity | split; [reflexivity | simpl; lia]].
    + intros (v & [<- | []] & _ & ->). simpl. lia.
  - (* literal *) destruct f; [contradiction Hne; reflexivity |]. cbn [sem or_values]. unfold litmatch. split.
    + intros H. exists l. split; [left; reflexivity | exact H].
    + intros (v & [<- | []] & H). exact H.
  - (* class *) cbn [sem or_values] in *. split.
    + intros (c & Hc & Hr & ->). exists [c]. split; [apply in_class_values; auto | apply litmatch_single; auto].
    + intros (v & Hv & Hm). destruct (class_values_single rs v Hv) as (c & ->). apply litmatch_single in Hm.
      destruct Hm as [Hc ->]. exists c. repeat split; auto. apply in_class_values; auto.
  - (* capture *) cbn [sem or_values] in *. apply IHr. exact Hne.
  - (* concat *)
    rewrite or_values_concat_eq in Hne |- *.
    cbn [sem]. revert Hne i j. induction H as [| a t Ha Ht IH]; intros Hne i j.
    + simpl. unfold litmatch. split.
      * intros ->. exists []. split; [left; reflexivity | split; [reflexivity | simpl; lia]].
      * intros (v & [<- | []] & _ & ->). simpl. lia.
    + destruct (concat_loop_cons or_values a t Hne) as (Hna & Hnt & Eq).
      rewrite Eq. split.
      * intros (k & H1 & H2). apply (Ha Hna) in H1. destruct H1 as (p & Hp & Hm1).
        apply (IH Hnt) in H2. destruct H2 as (s & Hs & Hm2). exists (p ++ s). split.
        -- apply in_flat_map. exists p. split; auto. apply in_map. exact Hs.
        -- apply litmatch_app. exists k. auto.
      * intros (v & Hv & Hm). apply in_flat_map in Hv. destruct Hv as (p & Hp & Hv). apply in_map_iff in Hv.
        destruct Hv as (s & <- & Hs). apply litmatch_app in Hm. destruct Hm as (k & Hm1 & Hm2).
        exists k. split; [apply (Ha Hna); eauto | apply (IH Hnt); eauto].
  - (* alt *)
    rewrite or_values_alt_eq in Hne |- *.
    cbn [sem]. destruct (alt_loop_spec or_values rs [] Hne) as [Eq Hall].
    rewrite Eq. cbn [app]. clear Eq Hne. revert i j. induction H as [| a t Ha Ht IH]; intros i j.
    + simpl. split; [intros [] | intros (v & [] & _)].
    + inversion Hall as [| ? ? Hna Hnt]; subst. cbn [flat_map]. split.
      * intros [H1 | H2].
        -- apply (Ha Hna) in H1. destruct H1 as (v & Hv & Hm). exists v. split; [apply in_or_app; left; auto | auto].
        -- apply (IH Hnt) in H2. destruct H2 as (v & Hv & Hm). exists v. split; [apply in_or_app; right; auto | auto].
      * intros (v & Hv & Hm). apply in_app_or in Hv. destruct Hv as [Hv | Hv].
        -- left. apply (Ha Hna). eauto.
        -- right. apply (IH Hnt). eauto.
Qed.

(* ------------------------------------------------------------------------------------------------ ^X$ and ^lit... *)
Definition semcat (w : list N) : list re -> nat -> nat -> Prop :=
  fix go (l : list re) : nat -> nat -> Prop :=
    match l with [] => fun i j => j = i | a :: t => fun i j => exists k, sem w a i k /\ go t k j end.
Lemma sem_concat_eq w rs : sem w (RConcat rs) = semcat w rs.
Proof. reflexivity. Qed.
Lemma semcat_app w l1 l2 i j : semcat w (l1 ++ l2) i j <-> exists k, semcat w l1 i k /\ semcat w l2 k j.
Proof.
  revert i. induction l1 as [| a t IH]; intros i; simpl.
  - split; [intros H; exists i; auto | intros (k & -> & H); exact H].
  - split.
    + intros (k & H1 & H2). apply IH in H2. destruct H2 as (m & H2 & H3). exists m. split; eauto.
    + intros (m & (k & H1 & H2) & H3). exists k. split; auto. apply IH. eauto.
Qed.

Lemma lit_pre_eqb' l v : lit_pre false l v && Nat.eqb (length l) (length v) = list_eqb v l.
Proof.
  revert v. induction l as [| a l IH]; intros [| b v]; simpl; auto.
  rewrite <- IH. unfold ceq. rewrite (N.eqb_sym a b). destruct (b =? a)%N; reflexivity.
Qed.

Lemma anchored_or_values_sound r w : anchored_or_values r <> [] ->
  unanch r w = existsb (list_eqb w) (anchored_or_values r).
Proof.
  unfold anchored_or_values. destruct r as [| | | | | | | | | | | | | | | | rs |]; try (intros H; contradiction H; reflexivity).
  destruct rs as [| b rest]; [intros H; contradiction H; reflexivity |].
  destruct b; try (intros H; contradiction H; reflexivity).
  destruct (rev rest) as [| e mid] eqn:Er; [intros H; contradiction H; reflexivity |].
  destruct e; try (intros H; contradiction H; reflexivity).
  destruct mid as [| m0 mid']; [intros H; contradiction H; reflexivity |]. intros Hne.
  assert (Erest : rest = rev (m0 :: mid') ++ [REndText]).
  { rewrite <- (rev_involutive rest), Er. reflexivity. }
  set (X := RConcat (rev (m0 :: mid'))) in *.
  apply bool_eq_iff. rewrite unanch_iff, existsb_exists. split.
  - intros (i & j & Hi & Hs). rewrite sem_concat_eq in Hs. simpl in Hs. destruct Hs as (k & [Hi0 Hk] & Hs). subst i k.
    rewrite Erest in Hs. apply semcat_app in Hs. destruct Hs as (k & H1 & H2). simpl in H2.
    destruct H2 as (k' & [Hk Hk'] & ->). subst k k'.
    change (semcat w (rev (m0 :: mid')) 0 (length w)) with (sem w X 0 (length w)) in H1.
    apply (or_values_sem X Hne) in H1. destruct H1 as (v & Hv & Hp & Hl). exists v. split; auto.
    rewrite <- lit_pre_eqb'. simpl in Hp. rewrite Hp. simpl in Hl. rewrite <- Hl, Nat.eqb_refl. reflexivity.
  - intros (v & Hv & He). rewrite <- lit_pre_eqb' in He. apply andb_true_iff in He. destruct He as [Hp Hl]. apply Nat.eqb_eq in Hl.
    exists 0, (length w). split; [lia |]. rewrite sem_concat_eq. simpl. exists 0. split; [auto |].
    rewrite Erest. apply semcat_app. exists (length w). split.
    + change (semcat w (rev (m0 :: mid')) 0 (length w)) with (sem w X 0 (length w)).
      apply (or_values_sem X Hne). exists v. split; auto. split; [exact Hp | simpl; lia].
    + simpl. exists (length w). auto.
Qed.

Lemma is_literal_sem w a i k : is_literal a = true -> sem w a i k -> lit_pre false (lit_through a) (skipn i w) = true.
Proof.
  induction a using re_ind'; cbn [is_literal lit_through sem]; intros Hl Hs; try discriminate.
  - destruct f; [discriminate |]. apply Hs.
  - apply IHa; auto.
Qed.

Lemma anchored_prefix_needed r w : unanch r w = true -> has_prefix (anchored_literal_prefix r) w = true.
Proof.
  unfold anchored_literal_prefix, has_prefix.
  destruct r as [| | | | | | | | | | | | | | | | rs |]; try (intros _; reflexivity).
  destruct rs as [| b rest0]; try (intros _; reflexivity). destruct b; try (intros _; reflexivity).
  destruct rest0 as [| a rest]; try (intros _; reflexivity).
  destruct (is_literal a) eqn:El; [| intros _; reflexivity]. intros H. apply unanch_iff in H.
  destruct H as (i & j & Hi & Hs). rewrite sem_concat_eq in Hs. simpl in Hs.
  destruct Hs as (k & [Hi0 Hk] & k2 & Ha & _). subst i k.
  apply (is_literal_sem w a 0 k2 El Ha).
Qed.

(* ------------------------------------------------------------------------------------------------ the theorem *)
(* What the index selects since f7a71a4 is, for every expression, every stored value and the absent tag, exactly what
   unanchored matching on the value selects (an absent tag being the empty string). *)
Theorem new_match_exact r v : new_match r v = repaired_match r v.
Proof.
  unfold new_match, repaired_match.
  destruct (matches_everything r) eqn:Em; [symmetry; apply matches_everything_sound; exact Em |].
  destruct v as [v |]; [| reflexivity].
  destruct (anchored_or_values r) as [| x vs] eqn:Ev.
  - rewrite strip_prefix_esc. destruct (strip_prefix (anchored_literal_prefix r) v) as [v' |] eqn:Es.
    + rewrite unesc_esc. rewrite <- (strip_prefix_split _ _ _ Es). reflexivity.
    + destruct (unanch r v) eqn:Eu; [| reflexivity].
      apply anchored_prefix_needed in Eu. unfold has_prefix in Eu. rewrite <- strip_prefix_pre, Es in Eu. discriminate.
  - rewrite existsb_esc. symmetry. rewrite <- Ev. apply anchored_or_values_sound. rewrite Ev. discriminate.
Qed.
