(* C10 - the index model with concrete regex atoms: the search with today's translation of the patterns equals brute
   force with the language's matching whenever every pattern of the predicate has an exact shape and no stored string
   contains a separator byte. *)
From Coq Require Import NArith List Bool Lia.
From OG Require Import C10.Model C10.Proofs C10.Regex C10.RegexProofs C10.RegexSem C10.RegexNew C10.RegexAlt.
Import ListNotations.
Open Scope N_scope.

Fixpoint re_pats (e : expr) : list N :=
  match e with
  | And a b | Or a b => re_pats a ++ re_pats b
  | Paren a => re_pats a
  | Atom _ Re p | Atom _ Nre p => [p]
  | Atom _ _ _ => []
  end.

Lemma ids_where_ext f g T : (forall t, f t = g t) -> ids_where f T = ids_where g T.
Proof. intros H. unfold ids_where. f_equal. apply filter_ext. exact H. Qed.

Lemma re_ids_ext am1 am2 T m k p : (forall v, am1 p v = am2 p v) -> re_ids am1 T m k p = re_ids am2 T m k p.
Proof.
  intros H. unfold re_ids, scan. rewrite H. f_equal. apply ids_where_ext. intros t. rewrite H. reflexivity.
Qed.

Lemma search_am_ext am1 am2 T m e :
  (forall p v, In p (re_pats e) -> am1 p v = am2 p v) -> search am1 T m e = search am2 T m e.
Proof.
  induction e as [a IHa b IHb | a IHa b IHb | a IHa | k c v]; intros H; cbn [search].
  - rewrite IHa, IHb; auto; intros p v Hp; apply H; cbn [re_pats]; apply in_or_app; auto.
  - rewrite IHa, IHb; auto; intros p v Hp; apply H; cbn [re_pats]; apply in_or_app; auto.
  - apply IHa. exact H.
  - destruct c; auto.
    + apply re_ids_ext. intros x. apply H. left. reflexivity.
    + f_equal. apply re_ids_ext. intros x. apply H. left. reflexivity.
Qed.

Definition all_plain (strs : list (N * list N)) : Prop := Forall (fun x => plain (snd x)) strs.

Lemma str_of_plain strs v : all_plain strs -> match str_of strs v with Some x => plain x | None => True end.
Proof.
  intros H. unfold str_of. destruct (v =? 0); auto.
  destruct (find _ strs) as [x |] eqn:E; [| constructor].
  apply find_some in E. destruct E as [Hin _]. unfold all_plain in H. rewrite Forall_forall in H. apply (H x Hin).
Qed.

Theorem current_search_exact pats strs L m e :
  wfL L -> expr_ok e -> all_plain strs ->
  (forall p, In p (re_pats e) -> exact_shape (pat_of pats p) = true) ->
  forall id, In id (search (am_current pats strs) (postings L) m e) <-> In id (bruteforce (am_repaired pats strs) L m e).
Proof.
  intros Hwf Hok Hpl Hsh id.
  rewrite (search_am_ext (am_current pats strs) (am_repaired pats strs)).
  - apply search_is_bruteforce; assumption.
  - intros p v Hp. unfold am_current, am_repaired. apply current_regex_exact; [apply Hsh; exact Hp | apply str_of_plain; exact Hpl].
Qed.

(* the repaired translation (unanchored matching on the unescaped value) is exact for every pattern *)
Theorem repaired_search_exact pats strs L m e :
  wfL L -> expr_ok e ->
  forall id, In id (search (am_repaired pats strs) (postings L) m e) <-> In id (bruteforce (am_repaired pats strs) L m e).
Proof. intros. apply search_is_bruteforce; assumption. Qed.

(* today's translation (RegexNew.new_match) as the atom matcher of the index model: exact for every pattern *)
Definition am_new (pats : list (N * re)) (strs : list (N * list N)) (p v : N) : bool :=
  new_match (pat_of pats p) (str_of strs v).
Theorem new_search_exact pats strs L m e :
  wfL L -> expr_ok e ->
  forall id, In id (search (am_new pats strs) (postings L) m e) <-> In id (bruteforce (am_repaired pats strs) L m e).
Proof.
  intros Hwf Hok id. rewrite (search_am_ext (am_new pats strs) (am_repaired pats strs)).
  - apply search_is_bruteforce; assumption.
  - intros p v _. unfold am_new, am_repaired. apply new_match_exact.
Qed.

(* ------------------------------------------------------------------------------------------------ tag-filter result cache *)
(* The select path keeps the id set of a tag filter in a cache. A query is answered from the cache when an entry with the
   query's key exists, otherwise it is computed and stored. Such a cache is transparent for every sequence of queries as
   soon as equal keys imply equal answers. *)
Section result_cache.
  Variables (Q K A : Type) (key : Q -> K) (keqb : K -> K -> bool) (f : Q -> A).
  Hypothesis keqb_eq : forall a b, keqb a b = true <-> a = b.

  Definition cache_get (c : list (K * A)) (k : K) : option A :=
    match find (fun e => keqb (fst e) k) c with Some e => Some (snd e) | None => None end.
  Definition cached_query (c : list (K * A)) (q : Q) : list (K * A) * A :=
    match cache_get c (key q) with Some a => (c, a) | None => ((key q, f q) :: c, f q) end.
  Fixpoint cached_run (c : list (K * A)) (qs : list Q) : list A :=
    match qs with [] => [] | q :: r => let (c', a) := cached_query c q in a :: cached_run c' r end.

  Definition cache_inv (c : list (K * A)) : Prop := forall e q, In e c -> key q = fst e -> snd e = f q.

  Hypothesis key_sound : forall q1 q2, key q1 = key q2 -> f q1 = f q2.

  Lemma cached_query_ok c q : cache_inv c -> cache_inv (fst (cached_query c q)) /\ snd (cached_query c q) = f q.
  Proof.
    intros Hc. unfold cached_query, cache_get. destruct (find _ c) as [e |] eqn:E; simpl.
    - split; auto. apply find_some in E. destruct E as [Hin Hk]. apply keqb_eq in Hk. apply Hc; auto.
    - split; auto. intros e q' [<- | Hin] Hk; simpl in *; [apply key_sound; auto | apply Hc; auto].
  Qed.
  Lemma cached_run_transparent qs : forall c, cache_inv c -> cached_run c qs = map f qs.
  Proof.
    induction qs as [| q r IH]; intros c Hc; simpl; auto.
    destruct (cached_query_ok c q Hc) as [H1 H2]. destruct (cached_query c q) as [c' a]. simpl in *. rewrite H2, IH; auto.
  Qed.
  Theorem result_cache_transparent qs : cached_run [] qs = map f qs.
  Proof. apply cached_run_transparent. intros e q []. Qed.
End result_cache.

(* A regex filter query = (source text of the pattern, negated). [parse] is the parser (a function of the text). *)
Section tagfilter_cache.
  Variable parse : list N -> re.
  Definition tfq := (list N * bool)%type.
  (* today: the literal the translation reduces the pattern to, if any, else the source text (tagFilter.Marshal after
     InfluxRegrep has overwritten tf.value) *)
  Definition tf_key_current (q : tfq) : list N * bool :=
    (match cache_literal (parse (fst q)) with Some l => l | None => fst q end, snd q).
  Definition tf_key_repaired (q : tfq) : list N * bool := q.
  Definition tf_keqb (a b : list N * bool) : bool := list_eqb (fst a) (fst b) && Bool.eqb (snd a) (snd b).
  (* the expression the pruning path compiles for a filter: its value text after Init. Today that is the literal the pattern
     was reduced to, re-read as an expression; repaired: the pattern itself *)
  Definition tf_prune_tree_current (q : tfq) : re :=
    match cache_literal (parse (fst q)) with Some l => parse l | None => parse (fst q) end.
  Definition tf_prune_tree_repaired (q : tfq) : re := parse (fst q).
  (* the answer of a filter on a stored value, with whichever translation [mt] the index uses *)
  Definition tf_answer (mt : re -> option (list N) -> bool) (q : tfq) (v : option (list N)) : bool :=
    xorb (snd q) (mt (parse (fst q)) v).
End tagfilter_cache.

Lemma list_eqb_eq a b : list_eqb a b = true <-> a = b.
Proof.
  revert b. induction a as [| x a IH]; destruct b as [| y b]; simpl; split; intros H; try discriminate; auto.
  - apply andb_true_iff in H. destruct H as [H1 H2]. apply N.eqb_eq in H1. apply IH in H2. congruence.
  - inversion H; subst. rewrite N.eqb_refl. apply IH. reflexivity.
Qed.
Lemma tf_keqb_eq a b : tf_keqb a b = true <-> a = b.
Proof.
  unfold tf_keqb. destruct a as [a1 a2], b as [b1 b2]. simpl. rewrite andb_true_iff, list_eqb_eq, Bool.eqb_true_iff.
  split; [intros [-> ->]; reflexivity | intros E; inversion E; auto].
Qed.

(* with the source text as key the cache is transparent for every parser, translation and query sequence *)
Theorem tagfilter_cache_transparent_repaired parse mt qs :
  cached_run tfq (list N * bool) _ tf_key_repaired tf_keqb (tf_answer parse mt) [] qs = map (tf_answer parse mt) qs.
Proof.
  apply result_cache_transparent; [apply tf_keqb_eq |]. unfold tf_key_repaired. intros q1 q2 ->. reflexivity.
Qed.
