(* C10 - regular-expression atoms of tag predicates: the syntax tree Go's regexp/syntax parser produces, a matcher over
   rune lists (the meaning of a pattern; compared with Go regexp on every run), and the translation of a pattern into a
   tag filter as engine/index/tsi/tag_filters.go does it today (simplifyRegexpExt, the simplify loop, literal prefix
   extraction, getOrValues, the optimised suffix matchers, isAllMatch, matching on the escaped item bytes).
   Strings are lists of runes (N). Definitions only; lemmas are in RegexProofs.v. *)
From Coq Require Import NArith List Bool Arith.
Import ListNotations.

Inductive re :=
| REmpty                                   (* OpEmptyMatch *)
| RLit (fold : bool) (l : list N)          (* OpLiteral, FoldCase flag *)
| RClass (rs : list (N * N))               (* OpCharClass: inclusive ranges *)
| RAnyNL                                   (* OpAnyCharNotNL *)
| RAny                                     (* OpAnyChar *)
| RBeginText | REndText | RBeginLine | REndLine | RWordB | RNoWordB
| RCapture (r : re)
| RStar (r : re) | RPlus (r : re) | RQuest (r : re)
| RRepeat (mn : nat) (mx : option nat) (r : re)
| RConcat (rs : list re)
| RAlt (rs : list re).

(* ------------------------------------------------------------------------------------------------ matcher *)
Definition nmem (x : nat) (l : list nat) : bool := existsb (Nat.eqb x) l.
Fixpoint nunion (a b : list nat) : list nat :=
  match a with [] => b | x :: t => if nmem x b then nunion t b else x :: nunion t b end.
Definition step_all (f : nat -> list nat) (is : list nat) : list nat :=
  fold_right (fun i acc => nunion (f i) acc) [] is.

Fixpoint iter_n (f : nat -> list nat) (n : nat) (is : list nat) : list nat :=
  match n with O => is | S k => iter_n f k (step_all f is) end.
(* up to n further iterations, collecting. A repetition is matched with fuel = number of positions left in the subject:
   an iteration that consumes nothing adds nothing, so longer chains reach no new position (proved in RegexSem.v) *)
Fixpoint iter_upto (f : nat -> list nat) (n : nat) (is : list nat) : list nat :=
  match n with O => is | S k => nunion is (iter_upto f k (step_all f is)) end.

Definition lower (c : N) : N := if ((65 <=? c) && (c <=? 90))%N then (c + 32)%N else c.
Definition ceq (fold : bool) (a b : N) : bool := if fold then (lower a =? lower b)%N else (a =? b)%N.
Fixpoint lit_pre (fold : bool) (l s : list N) : bool :=
  match l, s with
  | [], _ => true
  | a :: l', b :: s' => ceq fold a b && lit_pre fold l' s'
  | _ :: _, [] => false
  end.
Definition in_ranges (c : N) (rs : list (N * N)) : bool := existsb (fun r => (fst r <=? c)%N && (c <=? snd r)%N) rs.
Definition is_word (c : N) : bool :=
  ((48 <=? c) && (c <=? 57) || (65 <=? c) && (c <=? 90) || (97 <=? c) && (c <=? 122) || (c =? 95))%N.
Definition word_at (w : list N) (i : nat) : bool := match nth_error w i with Some c => is_word c | None => false end.
Definition word_before (w : list N) (i : nat) : bool := match i with O => false | S j => word_at w j end.

(* [ends w r i]: the positions j such that r matches w[i..j) in the context of the whole subject w *)
Fixpoint ends (w : list N) (r : re) (i : nat) {struct r} : list nat :=
  match r with
  | REmpty => [i]
  | RLit f l => if lit_pre f l (skipn i w) then [i + length l] else []
  | RClass rs => match nth_error w i with Some c => if in_ranges c rs then [S i] else [] | None => [] end
  | RAnyNL => match nth_error w i with Some c => if (c =? 10)%N then [] else [S i] | None => [] end
  | RAny => match nth_error w i with Some _ => [S i] | None => [] end
  | RBeginText => if Nat.eqb i 0 then [i] else []
  | REndText => if Nat.eqb i (length w) then [i] else []
  | RBeginLine => match i with O => [i] | S j => match nth_error w j with Some c => if (c =? 10)%N then [i] else [] | None => [] end end
  | REndLine => match nth_error w i with Some c => if (c =? 10)%N then [i] else [] | None => [i] end
  | RWordB => if xorb (word_before w i) (word_at w i) then [i] else []
  | RNoWordB => if xorb (word_before w i) (word_at w i) then [] else [i]
  | RCapture a => ends w a i
  | RStar a => iter_upto (ends w a) (length w - i) [i]
  | RPlus a => iter_upto (ends w a) (length w - i) (ends w a i)
  | RQuest a => nunion [i] (ends w a i)
  | RRepeat mn mx a =>
      let s := iter_n (ends w a) mn [i] in
      match mx with
      | None => iter_upto (ends w a) (length w - i) s
      | Some m => iter_upto (ends w a) (m - mn) s
      end
  | RConcat rs => (fix go (l : list re) (is : list nat) : list nat :=
                     match l with [] => is | a :: t => go t (step_all (ends w a) is) end) rs [i]
  | RAlt rs => (fix go (l : list re) : list nat :=
                  match l with [] => [] | a :: t => nunion (ends w a i) (go t) end) rs
  end.

Definition nonempty {A} (l : list A) : bool := match l with [] => false | _ => true end.
(* Go regexp.Match: the pattern matches somewhere in the subject *)
Definition unanch (r : re) (w : list N) : bool := existsb (fun i => nonempty (ends w r i)) (seq 0 (S (length w))).
(* whole-subject match *)
Definition anch (r : re) (w : list N) : bool := nmem (length w) (ends w r 0).

(* ------------------------------------------------------------------------------------------------ byte helpers *)
Fixpoint contains (l s : list N) : bool :=
  lit_pre false l s || match s with [] => false | _ :: t => contains l t end.
Fixpoint strip_prefix (p s : list N) : option (list N) :=
  match p, s with
  | [], _ => Some s
  | a :: p', b :: s' => if (a =? b)%N then strip_prefix p' s' else None
  | _ :: _, [] => None
  end.
Definition has_prefix (p s : list N) : bool := lit_pre false p s.
Definition has_suffix (p s : list N) : bool := lit_pre false (rev p) (rev s).
Fixpoint list_eqb (a b : list N) : bool :=
  match a, b with [], [] => true | x :: a', y :: b' => (x =? y)%N && list_eqb a' b' | _, _ => false end.
(* bytes.Index: the rest after the first occurrence of l in s *)
Fixpoint after_first (l s : list N) : option (list N) :=
  if lit_pre false l s then Some (skipn (length l) s)
  else match s with [] => None | _ :: t => after_first l t end.

(* marshalTagValue: the separator bytes 0, 1, 2 are written as 0 followed by '0', '1', '2' *)
Definition esc1 (c : N) : list N :=
  if (c =? 0)%N then [0; 48]%N else if (c =? 1)%N then [0; 49]%N else if (c =? 2)%N then [0; 50]%N else [c].
Definition esc (v : list N) : list N := flat_map esc1 v.
Definition plain (v : list N) : Prop := Forall (fun c => (3 <= c)%N) v.
Definition plainb (v : list N) : bool := forallb (fun c => (3 <=? c)%N) v.

(* ------------------------------------------------------------------------------------------------ translation *)
Definition is_empty (r : re) : bool := match r with REmpty => true | _ => false end.
Definition is_begin (r : re) : bool := match r with RBeginText => true | _ => false end.
Definition is_end (r : re) : bool := match r with REndText => true | _ => false end.
Definition is_oplit (r : re) : bool := match r with RLit _ _ => true | _ => false end.   (* sre.Op == OpLiteral *)
Fixpoint is_literal (r : re) : bool :=                                                   (* isLiteral *)
  match r with RCapture a => is_literal a | RLit false _ => true | _ => false end.
Definition outer_runes (r : re) : list N := match r with RLit _ l => l | _ => [] end.     (* sre.Rune of that node *)
Definition dotstar : re := RStar RAnyNL.                                                  (* syntax.Parse(".*", Perl) *)

Fixpoint drop_begins (l : list re) : list re := match l with a :: t => if is_begin a then drop_begins t else l | [] => [] end.
Definition drop_ends (l : list re) : list re := rev (
  (fix go (l : list re) := match l with a :: t => if is_end a then go t else l | [] => [] end) (rev l)).
Definition last_is (p : re -> bool) (l : list re) : bool := match rev l with a :: _ => p a | [] => false end.
Definition first_is (p : re -> bool) (l : list re) : bool := match l with a :: _ => p a | [] => false end.

(* simplifyRegexpExt. The emptyRegexp sentinel is REmpty (every OpEmptyMatch node is mapped to it and no other result has
   that operator). [begin] and [tail] are the first and last child BEFORE the rewrite. *)
Fixpoint simplify_ext (r : re) (hp hs : bool) {struct r} : re :=
  match r with
  | RCapture a => let a' := simplify_ext a hp hs in if is_empty a' then REmpty else RAlt [a']
  | RStar a => let a' := simplify_ext a hp hs in if is_empty a' then REmpty else RStar a'
  | RPlus a => let a' := simplify_ext a hp hs in if is_empty a' then REmpty else RPlus a'
  | RQuest a => let a' := simplify_ext a hp hs in if is_empty a' then REmpty else RQuest a'
  | RRepeat mn mx a => let a' := simplify_ext a hp hs in if is_empty a' then REmpty else RRepeat mn mx a'
  | RAlt rs => RAlt (map (fun a => simplify_ext a hp hs) rs)
  | RConcat rs =>
      let subs0 := (fix go (l : list re) (first : bool) : list re :=
                      match l with
                      | [] => []
                      | a :: t => let a' := simplify_ext a (negb first) (nonempty t) in
                                  if is_empty a' then go t false else a' :: go t false
                      end) rs true in
      let begin_bt := first_is is_begin rs in
      let tail_et := last_is is_end rs in
      let subs1 := if hp then subs0 else drop_begins subs0 in
      let subs2 := if hs then subs1 else drop_ends subs1 in
      match subs2 with
      | [] => REmpty
      | _ =>
          if begin_bt && tail_et then RConcat subs2
          else
            let subs3 := if negb tail_et && last_is is_oplit subs2 then subs2 ++ [dotstar] else subs2 in
            let subs4 := if tail_et && first_is is_oplit subs3 then dotstar :: subs3 else subs3 in
            let subs5 := if tail_et && negb (last_is is_end subs4) then subs4 ++ [REndText] else subs4 in
            RConcat subs5
      end
  | REmpty => REmpty
  | _ => r
  end.

(* what Simplify / String / Parse do to the rewritten tree, as far as the patterns of the harness need it: singleton and
   nested concatenations and alternations are flattened, adjacent literals of a concatenation are merged. Checked against
   the real loop on every pattern of every run (stage comparison). *)
Fixpoint merge_lits (l : list re) : list re :=
  match l with
  | RLit f1 a :: t =>
      match merge_lits t with
      | RLit f2 b :: t' => if Bool.eqb f1 f2 then RLit f1 (a ++ b) :: t' else RLit f1 a :: RLit f2 b :: t'
      | t' => RLit f1 a :: t'
      end
  | x :: t => x :: merge_lits t
  | [] => []
  end.
Definition mk_concat (l : list re) : re := match l with [] => REmpty | [x] => x | _ => RConcat l end.
Definition mk_alt (l : list re) : re := match l with [] => REmpty | [x] => x | _ => RAlt l end.
Definition unconcat (r : re) : list re := match r with RConcat l => l | _ => [r] end.
Definition unalt (r : re) : list re := match r with RAlt l => l | _ => [r] end.
Definition cat (l : list re) : re := mk_concat (merge_lits (flat_map unconcat l)).
(* Simplify expands counted repetition: x{n,} = x^(n-1) x+ ; x{n,m} = x^n (x (x ...)?)? *)
Fixpoint rep_opt (k : nat) (x : re) : re :=
  match k with O => REmpty | S O => RQuest x | S k' => RQuest (cat [x; rep_opt k' x]) end.
Definition expand_repeat (mn : nat) (mx : option nat) (x : re) : re :=
  match mx with
  | None => match mn with O => RStar x | S O => RPlus x | S k => cat (repeat x k ++ [RPlus x]) end
  | Some m => if Nat.eqb m 0 then REmpty
              else if Nat.eqb m mn then cat (repeat x mn)
              else cat (repeat x mn ++ [rep_opt (m - mn) x])
  end.
Fixpoint norm (r : re) : re :=
  match r with
  | RCapture a => RCapture (norm a)
  | RStar a => RStar (norm a) | RPlus a => RPlus (norm a) | RQuest a => RQuest (norm a)
  | RRepeat mn mx a => expand_repeat mn mx (norm a)
  | RConcat rs => mk_concat (merge_lits (flat_map unconcat (map norm rs)))
  | RAlt rs => mk_alt (flat_map unalt (map norm rs))
  | _ => r
  end.

Fixpoint re_eqb (a b : re) {struct a} : bool :=
  match a, b with
  | REmpty, REmpty | RAnyNL, RAnyNL | RAny, RAny | RBeginText, RBeginText | REndText, REndText
  | RBeginLine, RBeginLine | REndLine, REndLine | RWordB, RWordB | RNoWordB, RNoWordB => true
  | RLit f1 l1, RLit f2 l2 => Bool.eqb f1 f2 && list_eqb l1 l2
  | RClass r1, RClass r2 =>
      (fix go (x y : list (N * N)) : bool :=
         match x, y with
         | [], [] => true
         | p :: x', q :: y' => (fst p =? fst q)%N && (snd p =? snd q)%N && go x' y'
         | _, _ => false
         end) r1 r2
  | RCapture x, RCapture y | RStar x, RStar y | RPlus x, RPlus y | RQuest x, RQuest y => re_eqb x y
  | RRepeat m1 x1 a1, RRepeat m2 x2 a2 =>
      Nat.eqb m1 m2 && match x1, x2 with Some p, Some q => Nat.eqb p q | None, None => true | _, _ => false end && re_eqb a1 a2
  | RConcat l1, RConcat l2 | RAlt l1, RAlt l2 =>
      (fix go (x y : list re) {struct x} : bool :=
         match x, y with
         | [], [] => true
         | p :: x', q :: y' => re_eqb p q && go x' y'
         | _, _ => false
         end) l1 l2
  | _, _ => false
  end.

(* simplifyRegexp: rewrite / normalise until nothing changes; a lone ^ or $ becomes the empty expression *)
Definition simplify_round (r : re) : re :=
  let x := norm (simplify_ext r false false) in
  if is_begin x || is_end x then REmpty else x.
Fixpoint simplify_loop (fuel : nat) (r : re) : re :=
  match fuel with
  | O => r
  | S k => let x := simplify_round r in if re_eqb x r then x else simplify_loop k x
  end.
Definition simplify (r : re) : re := simplify_loop 8 r.

(* extractRegexpPrefix on the simplified tree: (literal prefix, the rest of the expression if any) *)
Definition extract_prefix (s : re) : list N * option re :=
  match s with
  | REmpty => ([], None)
  | RConcat (a :: rest) =>
      if is_literal a then match rest with [] => ([], None) | _ => (outer_runes a, Some (norm (RConcat rest))) end
      else ([], Some s)
  | _ => if is_literal s then (outer_runes s, None) else ([], Some s)
  end.

(* getOrValuesExt; [] stands for Go's nil (no exact-value list) *)
Definition max_or_values : nat := 20.
Definition class_values (rs : list (N * N)) : list (list N) :=
  let total := fold_right (fun r acc => (acc + (N.succ (snd r) - fst r))%N) 0%N rs in
  if (N.of_nat max_or_values <? total)%N then []
  else flat_map (fun r => map (fun k => [(fst r + N.of_nat k)%N]) (seq 0 (N.to_nat (N.succ (snd r) - fst r)))) rs.
Fixpoint or_values (r : re) {struct r} : list (list N) :=
  match r with
  | RCapture a => or_values a
  | RLit false l => [l]
  | REmpty => [[]]
  | RAlt rs => (fix go (l : list re) (acc : list (list N)) : list (list N) :=
                  match l with
                  | [] => acc
                  | a :: t => match or_values a with
                              | [] => []
                              | ca => let acc' := acc ++ ca in if max_or_values <? length acc' then [] else go t acc'
                              end
                  end) rs []
  | RClass rs => class_values rs
  | RConcat rs => (fix go (l : list re) : list (list N) :=
                     match l with
                     | [] => [[]]
                     | a :: t => match or_values a with
                                 | [] => []
                                 | ps => match go t with
                                         | [] => []
                                         | ss => if max_or_values <? length ps * length ss then []
                                                 else flat_map (fun p => map (fun s => p ++ s) ss) ps
                                         end
                                 end
                     end) rs
  | _ => []
  end.

Fixpoint is_dot_star (r : re) : bool :=
  match r with
  | RCapture a => is_dot_star a
  | RAlt rs => existsb is_dot_star rs
  | RStar RAnyNL | RStar RAny => true
  | _ => false
  end.
Fixpoint is_dot_plus (r : re) : bool :=
  match r with
  | RCapture a => is_dot_plus a
  | RAlt rs => existsb is_dot_plus rs
  | RPlus RAnyNL | RPlus RAny => true
  | _ => false
  end.

Definition tl1 {A} (l : list A) : list A := match l with [] => [] | _ :: t => t end.
Definition butlast {A} (l : list A) : list A := rev (tl1 (rev l)).

(* getOptimizedReMatchFuncExt: None = no optimised matcher (the caller falls back to the compiled expression) *)
Fixpoint opt_match (fallback : list N -> bool) (r : re) {struct r} : option (list N -> bool) :=
  if is_dot_star r then Some (fun _ => true)
  else if is_dot_plus r then Some (fun b => nonempty b)
  else match r with
  | RCapture a => opt_match fallback a
  | RLit false l => Some (fun b => list_eqb b l)
  | RConcat rs =>
      let generic :=
        let lits := map outer_runes (filter is_literal rs) in
        let sfx := if last_is is_literal rs then match rev lits with x :: _ => x | [] => [] end else [] in
        let lits' := if last_is is_literal rs then butlast lits else lits in
        Some (fun b =>
          if nonempty sfx && negb (has_suffix sfx b) then false
          else match fold_left (fun cur l => match cur with Some s => after_first l s | None => None end) lits' (Some b) with
               | None => false
               | Some _ => fallback b
               end) in
      match rs with
      | [a; c] =>
          if is_literal a && is_dot_star c then Some (fun b => has_prefix (outer_runes a) b)
          else if is_literal a && is_dot_plus c then Some (fun b => (length (outer_runes a) <? length b) && has_prefix (outer_runes a) b)
          else if is_literal c && is_dot_star a then Some (fun b => has_suffix (outer_runes c) b)
          else if is_literal c && is_dot_plus a then Some (fun b => (length (outer_runes c) <? length b) && has_suffix (outer_runes c) (tl1 b))
          else generic
      | [a; m; c] =>
          if is_literal m && is_dot_star a && is_dot_star c then Some (fun b => contains (outer_runes m) b)
          else if is_literal m && is_dot_star a && is_dot_plus c then
            Some (fun b => (length (outer_runes m) <? length b) && contains (outer_runes m) (butlast b))
          else if is_literal m && is_dot_plus a && is_dot_star c then
            Some (fun b => (length (outer_runes m) <? length b) && contains (outer_runes m) (tl1 b))
          else if is_literal m && is_dot_plus a && is_dot_plus c then
            Some (fun b => (S (length (outer_runes m)) <? length b) && contains (outer_runes m) (butlast (tl1 b)))
          else generic
      | _ => generic
      end
  | _ => None
  end.

(* the suffix matcher getRegexpFromCache builds for the rest of the expression: exact-value lookups when getOrValues
   yields a list, otherwise the optimised matcher, otherwise the compiled (unanchored) expression *)
Definition suffix_match (s : re) (b : list N) : bool :=
  match or_values s with
  | [] => match opt_match (unanch s) s with Some f => f b | None => unanch s b end
  | ov => existsb (list_eqb b) ov
  end.

(* what the index matches today for pattern r on a stored tag value (Some v) or on a series without the tag (None) *)
Definition current_match (r : re) (v : option (list N)) : bool :=
  if unanch r [] then true                                   (* isAllMatch: every series of the measurement *)
  else match v with
       | None => false
       | Some v =>
           let ev := esc v in
           match extract_prefix (simplify r) with
           | (p, None) => contains p ev                      (* pure literal (or nothing left): bytes.Contains *)
           | (p, Some s) => match strip_prefix (esc p) ev with
                            | None => false
                            | Some rest => suffix_match s rest
                            end
           end
       end.

(* the text under which the select path's tag-filter result cache files a regex filter (tagFilter.Marshal uses tf.value):
   InfluxRegrep overwrites tf.value with the literal when the translation reduces the pattern to a pure literal, so
   Some l = "filed under l", None = "filed under the pattern's source text" *)
Definition cache_literal (r : re) : option (list N) :=
  match extract_prefix (simplify r) with (p, None) => Some p | _ => None end.

(* the language: unanchored matching on the value, an absent tag is the empty string *)
Definition repaired_match (r : re) (v : option (list N)) : bool :=
  unanch r (match v with Some v => v | None => [] end).

Fixpoint has_assert (r : re) : bool :=
  match r with
  | RBeginText | REndText | RBeginLine | REndLine | RWordB | RNoWordB => true
  | RCapture a | RStar a | RPlus a | RQuest a | RRepeat _ _ a => has_assert a
  | RConcat rs | RAlt rs => existsb has_assert rs
  | _ => false
  end.

(* can match the empty string (syntactically; for an expression without position assertions this is exact) *)
Fixpoint nullable (r : re) : bool :=
  match r with
  | REmpty => true
  | RLit _ l => match l with [] => true | _ => false end
  | RCapture a | RPlus a => nullable a
  | RStar _ | RQuest _ => true
  | RRepeat mn _ a => match mn with O => true | _ => nullable a end
  | RConcat rs => forallb nullable rs
  | RAlt rs => existsb nullable rs
  | _ => false
  end.

(* pattern shapes for which today's translation is proved exact (RegexProofs.v): a pure literal; an expression without
   position assertions that can match the empty string (it matches everything); ^literal; ^(lit|lit|...)$ *)
Inductive shape := ShLiteral | ShMatchAll | ShBeginLiteral | ShAnchoredAlt | ShOther.
Definition as_literal (r : re) : option (list N) :=
  match r with RLit false (c :: l) => Some (c :: l) | _ => None end.
Definition as_begin_literal (r : re) : option (list N) :=
  match r with
  | RConcat [RBeginText; b] => match as_literal b with Some l => if plainb l then Some l else None | None => None end
  | _ => None
  end.
Fixpoint lits_of (l : list re) : option (list (list N)) :=
  match l with
  | [] => Some []
  | RLit false (c :: x) :: t => match lits_of t with Some r => Some ((c :: x) :: r) | None => None end
  | _ => None
  end.
Definition alt_inner (r : re) : option (list re) :=
  match r with RCapture (RAlt l) => Some l | RAlt l => Some l | _ => None end.
(* ^(lit|lit|...)$ or ^(?:lit|lit|...)$ with 2..20 non-empty literals free of the bytes 0-2 *)
Definition as_anchored_alt (r : re) : option (list (list N)) :=
  match r with
  | RConcat [RBeginText; inner; REndText] =>
      match alt_inner inner with
      | Some l => match lits_of l with
                  | Some ls => if (2 <=? length ls) && (length ls <=? max_or_values) && forallb plainb ls then Some ls else None
                  | None => None
                  end
      | None => None
      end
  | _ => None
  end.
Definition shape_of (r : re) : shape :=
  match as_literal r with
  | Some _ => ShLiteral
  | None => match as_begin_literal r with
            | Some _ => ShBeginLiteral
            | None => match as_anchored_alt r with
                      | Some _ => ShAnchoredAlt
                      | None => if negb (has_assert r) && nullable r then ShMatchAll else ShOther
                      end
            end
  end.
Definition exact_shape (r : re) : bool := match shape_of r with ShOther => false | _ => true end.

(* ------------------------------------------------------------------------------------------------ atoms of the index model *)
(* The index model (Model.v) takes the meaning of regex atoms as a function  pattern number -> value number -> bool
   (value 0 = the empty string / the absent tag). With a table of pattern trees and a table of value strings the two
   concrete meanings are: *)
Definition pat_of (pats : list (N * re)) (n : N) : re :=
  match find (fun x => (fst x =? n)%N) pats with Some x => snd x | None => RClass [] end.
Definition str_of (strs : list (N * list N)) (v : N) : option (list N) :=
  if (v =? 0)%N then None else match find (fun x => (fst x =? v)%N) strs with Some x => Some (snd x) | None => Some [] end.
Definition am_current (pats : list (N * re)) (strs : list (N * list N)) (p v : N) : bool :=
  current_match (pat_of pats p) (str_of strs v).
Definition am_repaired (pats : list (N * re)) (strs : list (N * list N)) (p v : N) : bool :=
  repaired_match (pat_of pats p) (str_of strs v).
