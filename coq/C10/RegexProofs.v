(* C10 - lemmas about the regular-expression matcher and today's translation of a pattern into a tag filter. *)
From Coq Require Import NArith List Bool Arith Lia.
From OG Require Import C10.Regex.
Import ListNotations.
