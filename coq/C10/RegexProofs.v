(* C10 - lemmas about the regular-expression matcher and today's translation of a pattern into a tag filter:
   for which pattern shapes the translation is exact (equal to unanchored matching on the value). *)
From Coq Require Import NArith List Bool Arith Lia.
From OG Require Import C10.Regex.
Import ListNotations.

(* ------------------------------------------------------------------------------------------------ position sets *)
Lemma nmem_spec x l : nmem x l = true <-> In x l.
Proof.
  unfold nmem. rewrite existsb_exists. split.
  - intros (y & Hy & E). apply Nat.eqb_eq in E. subst. exact Hy.
  - intros H. exists x. split; auto. apply Nat.eqb_refl.
Qed.
Lemma in_nunion x a b : In x (nunion a b) <-> In x a \/ In x b.
Proof.
  induction a as [| y t IH]; simpl; [tauto |].
  destruct (nmem y b) eqn:E.
  - rewrite IH. apply nmem_spec in E. split; [tauto |]. intros [[-> | H] | H]; auto.
  - simpl. rewrite IH. tauto.
Qed.
Lemma in_step_all f is y : In y (step_all f is) <-> exists x, In x is /\ In y (f x).
Proof.
  unfold step_all. induction is as [| a t IH]; simpl.
  - split; [tauto | intros (x & [] & _)].
  - rewrite in_nunion, IH. split.
    + intros [H | (x & Hx & Hy)]; [exists a; auto | exists x; auto].
    + intros (x & [-> | Hx] & Hy); [left; auto | right; exists x; auto].
Qed.
Lemma iter_n_fix f n is x : In x is -> In x (f x) -> In x (iter_n f n is).
Proof.
  revert is. induction n as [| k IH]; simpl; intros is H1 H2; auto.
  apply IH; auto. apply in_step_all. exists x. auto.
Qed.
Lemma iter_upto_acc f n is x : In x is -> In x (iter_upto f n is).
Proof. destruct n; simpl; auto. intros H. apply in_nunion. left. exact H. Qed.

(* ------------------------------------------------------------------------------------------------ induction on re *)
Section re_induction.
  Variable P : re -> Prop.
  Hypothesis HEmpty : P REmpty.
  Hypothesis HLit : forall f l, P (RLit f l).
  Hypothesis HClass : forall rs, P (RClass rs).
  Hypothesis HAnyNL : P RAnyNL.
  Hypothesis HAny : P RAny.
  Hypothesis HBT : P RBeginText.
  Hypothesis HET : P REndText.
  Hypothesis HBL : P RBeginLine.
  Hypothesis HEL : P REndLine.
  Hypothesis HWB : P RWordB.
  Hypothesis HNWB : P RNoWordB.
  Hypothesis HCap : forall a, P a -> P (RCapture a).
  Hypothesis HStar : forall a, P a -> P (RStar a).
  Hypothesis HPlus : forall a, P a -> P (RPlus a).
  Hypothesis HQuest : forall a, P a -> P (RQuest a).
  Hypothesis HRep : forall mn mx a, P a -> P (RRepeat mn mx a).
  Hypothesis HConcat : forall rs, Forall P rs -> P (RConcat rs).
  Hypothesis HAlt : forall rs, Forall P rs -> P (RAlt rs).
  Fixpoint re_ind' (r : re) : P r :=
    match r with
    | REmpty => HEmpty | RLit f l => HLit f l | RClass rs => HClass rs | RAnyNL => HAnyNL | RAny => HAny
    | RBeginText => HBT | REndText => HET | RBeginLine => HBL | REndLine => HEL | RWordB => HWB | RNoWordB => HNWB
    | RCapture a => HCap a (re_ind' a) | RStar a => HStar a (re_ind' a) | RPlus a => HPlus a (re_ind' a)
    | RQuest a => HQuest a (re_ind' a) | RRepeat mn mx a => HRep mn mx a (re_ind' a)
    | RConcat rs => HConcat rs ((fix go (l : list re) : Forall P l :=
                                   match l with [] => Forall_nil P | a :: t => Forall_cons a (re_ind' a) (go t) end) rs)
    | RAlt rs => HAlt rs ((fix go (l : list re) : Forall P l :=
                             match l with [] => Forall_nil P | a :: t => Forall_cons a (re_ind' a) (go t) end) rs)
    end.
End re_induction.

(* ------------------------------------------------------------------------------------------------ match-all shapes *)
(* an expression without position assertions that can match the empty string matches it at every position of every
   subject *)
Lemma nullable_ends r : has_assert r = false -> nullable r = true -> forall w i, In i (ends w r i).
Proof.
  induction r using re_ind'; intros Ha Hn w i; cbn [has_assert nullable] in Ha, Hn; try discriminate; cbn [ends].
  - left. reflexivity.
  - (* literal *) destruct l; [| discriminate]. cbn [lit_pre length]. left. lia.
  - (* capture *) auto.
  - (* star *) apply iter_upto_acc. left. reflexivity.
  - (* plus *) apply iter_upto_acc. auto.
  - (* quest *) apply in_nunion. left. left. reflexivity.
  - (* repeat *)
    assert (Hs : In i (iter_n (ends w r) mn [i])).
    { destruct mn as [| k]; [left; reflexivity |]. apply iter_n_fix; [left; reflexivity | auto]. }
    destruct mx; apply iter_upto_acc; exact Hs.
  - (* concat *)
    assert (G : forall is, In i is ->
              In i ((fix go (l : list re) (is : list nat) : list nat :=
                       match l with [] => is | a :: t => go t (step_all (ends w a) is) end) rs is)).
    { induction rs as [| a t IHt]; intros is Hi; auto.
      inversion H as [| ? ? Hp Ht]; subst. cbn [existsb forallb] in Ha, Hn.
      apply orb_false_iff in Ha. destruct Ha as [Ha1 Ha2]. apply andb_true_iff in Hn. destruct Hn as [Hn1 Hn2].
      apply IHt; auto. apply in_step_all. exists i. split; auto. }
    apply G. left. reflexivity.
  - (* alt *)
    induction rs as [| a t IHt]; [discriminate |].
    inversion H as [| ? ? Hp Ht]; subst. cbn [existsb] in Ha, Hn.
    apply orb_false_iff in Ha. destruct Ha as [Ha1 Ha2]. apply in_nunion.
    apply orb_true_iff in Hn. destruct Hn as [Hn1 | Hn2]; [left; auto | right; apply IHt; auto].
Qed.

Lemma unanch_at_0 r w : ends w r 0 <> [] -> unanch r w = true.
Proof.
  intros H. unfold unanch. simpl. destruct (ends w r 0); [contradiction | reflexivity].
Qed.
Lemma nullable_unanch r w : has_assert r = false -> nullable r = true -> unanch r w = true.
Proof.
  intros Ha Hn. apply unanch_at_0. pose proof (nullable_ends r Ha Hn w 0) as H. destruct (ends w r 0); [contradiction | discriminate].
Qed.

Lemma current_exact_matchall r v : has_assert r = false -> nullable r = true -> current_match r v = repaired_match r v.
Proof.
  intros Ha Hn. unfold current_match, repaired_match. rewrite !nullable_unanch; auto.
Qed.

(* ------------------------------------------------------------------------------------------------ literals *)
Lemma list_eqb_refl l : list_eqb l l = true.
Proof. induction l; simpl; auto. rewrite N.eqb_refl. exact IHl. Qed.
Lemma esc_plain v : plain v -> esc v = v.
Proof.
  unfold plain, esc. induction 1 as [| c t Hc Ht IH]; simpl; auto. rewrite IH. unfold esc1.
  destruct (c =? 0)%N eqn:E0; [apply N.eqb_eq in E0; lia |].
  destruct (c =? 1)%N eqn:E1; [apply N.eqb_eq in E1; lia |].
  destruct (c =? 2)%N eqn:E2; [apply N.eqb_eq in E2; lia |]. reflexivity.
Qed.

Fixpoint sfx_ex (f : list N -> bool) (s : list N) : bool :=
  f s || match s with [] => false | _ :: t => sfx_ex f t end.
Lemma contains_sfx_ex l s : contains l s = sfx_ex (lit_pre false l) s.
Proof. induction s; simpl; auto. rewrite IHs. reflexivity. Qed.
Lemma existsb_map_shift (g : nat -> bool) l : existsb g (map S l) = existsb (fun i => g (S i)) l.
Proof. induction l; simpl; auto. rewrite IHl. reflexivity. Qed.
Lemma existsb_skipn (f : list N -> bool) s :
  existsb (fun i => f (skipn i s)) (seq 0 (S (length s))) = sfx_ex f s.
Proof.
  induction s as [| a t IH]; simpl.
  - rewrite orb_false_r. reflexivity.
  - f_equal. rewrite <- seq_shift. rewrite existsb_map_shift. exact IH.
Qed.

Lemma existsb_ext' {A} (f g : A -> bool) l : (forall x, f x = g x) -> existsb f l = existsb g l.
Proof. intros H. induction l; simpl; auto. rewrite H, IHl. reflexivity. Qed.
Lemma unanch_literal l w : unanch (RLit false l) w = contains l w.
Proof.
  unfold unanch. cbn [ends]. rewrite contains_sfx_ex, <- existsb_skipn.
  apply existsb_ext'. intros i. destruct (lit_pre false l (skipn i w)); reflexivity.
Qed.

Lemma simplify_loop_S k r :
  simplify_loop (S k) r = if re_eqb (simplify_round r) r then simplify_round r else simplify_loop k (simplify_round r).
Proof. reflexivity. Qed.
Lemma simplify_fix r : simplify_round r = r -> re_eqb r r = true -> simplify r = r.
Proof. intros H1 H2. unfold simplify. rewrite simplify_loop_S, H1, H2. reflexivity. Qed.
Lemma simplify_step r x :
  simplify_round r = x -> re_eqb x r = false -> simplify_round x = x -> re_eqb x x = true -> simplify r = x.
Proof. intros H1 H2 H3 H4. unfold simplify. rewrite simplify_loop_S, H1, H2, simplify_loop_S, H3, H4. reflexivity. Qed.

Lemma simplify_literal l : simplify (RLit false l) = RLit false l.
Proof. apply simplify_fix; [reflexivity | cbn [re_eqb Bool.eqb andb]; apply list_eqb_refl]. Qed.

(* a pure literal: bytes.Contains on the item bytes = the literal occurs in the value, provided the value has no
   separator byte (the item carries the escaped form) *)
Lemma current_exact_literal c l v :
  match v with Some x => plain x | None => True end ->
  current_match (RLit false (c :: l)) v = repaired_match (RLit false (c :: l)) v.
Proof.
  intros Hp. unfold current_match, repaired_match.
  assert (E : unanch (RLit false (c :: l)) [] = false) by reflexivity. rewrite E.
  destruct v as [x |]; [| rewrite E; reflexivity].
  rewrite simplify_literal. cbn [extract_prefix is_literal outer_runes].
  rewrite esc_plain by exact Hp. rewrite unanch_literal. reflexivity.
Qed.

(* ------------------------------------------------------------------------------------------------ ^literal *)
Lemma strip_prefix_pre p s : match strip_prefix p s with Some _ => true | None => false end = lit_pre false p s.
Proof.
  revert s. induction p as [| a p IH]; intros s; simpl; auto.
  destruct s as [| b s]; auto. unfold ceq. destruct (a =? b)%N; simpl; auto.
Qed.

Lemma simplify_begin_literal l : simplify (RConcat [RBeginText; RLit false l]) = RConcat [RLit false l; dotstar].
Proof.
  apply simplify_step; [reflexivity | reflexivity | reflexivity |].
  cbn [re_eqb Bool.eqb andb dotstar]. rewrite list_eqb_refl. reflexivity.
Qed.

Lemma existsb_false_in {A} (f : A -> bool) l : (forall x, In x l -> f x = false) -> existsb f l = false.
Proof.
  intros H. destruct (existsb f l) eqn:E; auto. apply existsb_exists in E. destruct E as (x & Hx & Hf).
  rewrite (H x Hx) in Hf. discriminate.
Qed.

Lemma unanch_begin_literal l w : unanch (RConcat [RBeginText; RLit false l]) w = has_prefix l w.
Proof.
  unfold unanch, has_prefix. cbn [seq existsb].
  replace (existsb _ (seq 1 (length w))) with false.
  - rewrite orb_false_r. cbn. destruct (lit_pre false l w); reflexivity.
  - symmetry. apply existsb_false_in. intros i Hi. apply in_seq in Hi. destruct i as [| j]; [lia |]. reflexivity.
Qed.

Lemma current_exact_begin_literal c l v :
  plain (c :: l) -> match v with Some x => plain x | None => True end ->
  current_match (RConcat [RBeginText; RLit false (c :: l)]) v = repaired_match (RConcat [RBeginText; RLit false (c :: l)]) v.
Proof.
  intros Hl Hp. unfold current_match, repaired_match.
  assert (E : unanch (RConcat [RBeginText; RLit false (c :: l)]) [] = false) by reflexivity. rewrite E.
  destruct v as [x |]; [| rewrite E; reflexivity].
  rewrite simplify_begin_literal. cbn [extract_prefix is_literal outer_runes].
  change (norm (RConcat [dotstar])) with dotstar.
  rewrite (esc_plain x) by exact Hp. rewrite (esc_plain (c :: l)) by exact Hl.
  rewrite unanch_begin_literal. unfold has_prefix. rewrite <- strip_prefix_pre.
  destruct (strip_prefix (c :: l) x); reflexivity.
Qed.

(* ------------------------------------------------------------------------------------------------ the characterisation *)
Lemma plainb_spec v : plainb v = true <-> plain v.
Proof.
  unfold plainb, plain. rewrite forallb_forall, Forall_forall. split; intros H x Hx; specialize (H x Hx).
  - apply N.leb_le in H. exact H.
  - apply N.leb_le. exact H.
Qed.

(* For a pattern of an exact shape and a value without the separator bytes 0, 1, 2 (or the absent tag), what the index
   matches today is what the language's unanchored matching selects. *)
Lemma as_literal_inv r x : as_literal r = Some x -> exists c l, x = c :: l /\ r = RLit false (c :: l).
Proof.
  destruct r as [| f l | cr | | | | | | | | | a | a | a | a | mn mx a | rs | rs]; try discriminate.
  destruct f; [discriminate |]. destruct l as [| c l]; [discriminate |]. cbn. intros E. inversion E. eauto.
Qed.
Lemma as_begin_literal_inv r x :
  as_begin_literal r = Some x -> exists c l, x = c :: l /\ r = RConcat [RBeginText; RLit false (c :: l)] /\ plainb (c :: l) = true.
Proof.
  destruct r as [| f l | cr | | | | | | | | | a | a | a | a | mn mx a | rs | rs]; try discriminate.
  destruct rs as [| x0 [| b [| c0 t]]]; try discriminate; cbn [as_begin_literal].
  - destruct x0; discriminate.
  - destruct x0; try discriminate. destruct (as_literal b) as [y |] eqn:E; [| discriminate].
    destruct (plainb y) eqn:Ep; [| discriminate]. intros H. inversion H. subst y.
    apply as_literal_inv in E. destruct E as (c & l & -> & ->). eauto.
  - destruct x0; discriminate.
Qed.

