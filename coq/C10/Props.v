(* C10 property theorems. Nothing but statements closed by `exact lemma` and Print Assumptions, plus Examples. *)
From Coq Require Import NArith List Bool.
From OG Require Import C10.Model C10.Proofs C10.Regex C10.RegexProofs C10.RegexSem C10.RegexNew C10.RegexAlt C10.RegexSearch C10.FlushClear C10.ListingCond C10.Prune C10.Cache C10.Rows.
Import ListNotations.
Open Scope N_scope.

(* Predicate search by set algebra over the tag->ids postings selects exactly the ids of the series whose tags satisfy the
   predicate (absent tag = empty string), for every set of well-formed series keys with distinct ids, every predicate tree
   over AND / OR / parentheses / = / != / =~ / !~ and EVERY meaning [am] of the regex atoms. *)
Theorem C10_search_is_bruteforce : forall am L m e, wfL L -> expr_ok e ->
  forall id, In id (search am (postings L) m e) <-> In id (bruteforce am L m e).
Proof. exact search_is_bruteforce. Qed.
Print Assumptions C10_search_is_bruteforce.

(* ... in particular with the language's (unanchored) matcher, in every index state reachable by inserts, flushes, cache
   clears and reopens *)
Theorem C10_reachable_search_is_bruteforce : forall unanch n os m e,
  Forall op_ok os -> expr_ok e ->
  let i := fst (run slow_repaired (empty_index n) os) in
  forall id, In id (search (atom_match_repaired unanch) (postings (vis i)) m e) <-> In id (bruteforce unanch (vis i) m e).
Proof. intros unanch. exact (reachable_search_is_bruteforce (atom_match_repaired unanch)). Qed.
Print Assumptions C10_reachable_search_is_bruteforce.

(* two different series never share an id, whatever sequence of operations (incl. cache clear and reopen) was run *)
Theorem C10_id_injective : forall n os s1 s2 id,
  let i := fst (run slow_repaired (empty_index n) os) in
  In (s1, id) (store i) -> In (s2, id) (store i) -> s1 = s2.
Proof. exact id_injective_trace. Qed.
Print Assumptions C10_id_injective.

(* the same series always gets the same id: insert it after any history os1, run any os2 (flushes, cache clears, reopens,
   other inserts), insert it again - same id *)
Theorem C10_id_stable : forall n os1 s os2,
  let i1 := fst (run slow_repaired (empty_index n) os1) in
  let r := insert slow_repaired i1 s in
  let i3 := fst (run slow_repaired (fst r) os2) in
  snd (insert slow_repaired i3 s) = snd r.
Proof. exact id_stable_trace. Qed.
Print Assumptions C10_id_stable.

(* one id per series key in every reachable state *)
Theorem C10_id_functional : forall n os s id1 id2,
  let i := fst (run slow_repaired (empty_index n) os) in
  In (s, id1) (store i) -> In (s, id2) (store i) -> id1 = id2.
Proof. intros n os s id1 id2 i. apply id_functional_store. apply run_repaired_wf, wf_empty. Qed.
Print Assumptions C10_id_functional.

(* the cache is a partial copy of the store: a cache hit returns what the item store returns *)
Theorem C10_cache_agrees : forall n os s id,
  let i := fst (run slow_repaired (empty_index n) os) in
  assoc (cache i) s = Some id -> slow_repaired i s = Some id.
Proof. intros n os s id i. apply cache_agrees. apply run_repaired_wf, wf_empty. Qed.
Print Assumptions C10_cache_agrees.

(* listings are exactly the projections of what was written *)
Theorem C10_list_series_exact : forall L m s, wfL L -> In s (list_series L m) <-> exists id, In (s, id) L /\ s_mst s = m.
Proof. exact list_series_exact. Qed.
Theorem C10_list_tag_values_exact : forall L m k v, k <> 0 ->
  In v (list_tag_values L m k) <-> exists s id, In (s, id) L /\ s_mst s = m /\ In (k, v) (s_tags s).
Proof. exact list_tag_values_exact. Qed.
Theorem C10_list_tag_keys_exact : forall L m k, wfL L ->
  In k (list_tag_keys L m) <-> exists s id v, In (s, id) L /\ s_mst s = m /\ In (k, v) (s_tags s).
Proof. exact list_tag_keys_exact. Qed.
Print Assumptions C10_list_series_exact.
Print Assumptions C10_list_tag_values_exact.
Print Assumptions C10_list_tag_keys_exact.

(* non-vacuity: a concrete history; strings: measurement 1; keys host=1 region=2; values web=1 db=2 eu=3; pattern 1 matches
   web and db. Ids are stable across flush / cache clear / reopen and the search selects what brute force selects. *)
Example C10_example :
  let s1 := mkS 1 [(1, 1); (2, 3)] in let s2 := mkS 1 [(1, 2)] in let s3 := mkS 1 [] in
  let am := fun p v => (p =? 1) && ((v =? 1) || (v =? 2)) in
  let '(i, out) := run slow_repaired (empty_index 100)
                       [Insert s1; Insert s2; ClearCache; Insert s1; Flush; Insert s3; Reopen 50; Insert s2; Insert s3; Flush] in
  out = [Some 101; Some 102; None; Some 101; None; Some 103; None; Some 102; Some 103; None] /\
  search am (postings (vis i)) 1 (And (Atom 1 Re 1) (Paren (Or (Atom 2 Eq 0) (Atom 1 Neq 2)))) = [101; 102] /\
  bruteforce am (vis i) 1 (And (Atom 1 Re 1) (Paren (Or (Atom 2 Eq 0) (Atom 1 Neq 2)))) = [101; 102] /\
  search am (postings (vis i)) 1 (Atom 1 Nre 1) = [103] /\
  list_series (vis i) 1 = [s1; s2; s3] /\ list_tag_values (vis i) 1 1 = [1; 2] /\ list_tag_keys (vis i) 1 = [1; 2; 1].
Proof. vm_compute. repeat split. Qed.

Example C10_hypotheses_satisfiable :
  wfL [(mkS 1 [(1, 1); (2, 3)], 101); (mkS 1 [(1, 2)], 102)] /\ expr_ok (And (Atom 1 Re 1) (Atom 2 Eq 0)) /\
  Forall op_ok [Insert (mkS 1 [(1, 1); (2, 3)]); Flush].
Proof.
  repeat split; simpl; repeat constructor; simpl; try (intros [H | H]; try discriminate; try contradiction);
    try discriminate; try tauto.
Qed.

(* ---- regex atoms through the model of the tag-filter translation (Regex.v) ----

   The repaired translation (unanchored matching on the unescaped value, an absent tag is the empty string) makes the
   predicate search exact for every table of pattern trees, every table of strings, every well-formed key set and every
   predicate tree: = / != / =~ / !~ under AND / OR / parentheses, incl. != and !~ on series without the tag. *)
Theorem C10_repaired_regex_search_is_bruteforce : forall pats strs L m e, wfL L -> expr_ok e ->
  forall id, In id (search (am_repaired pats strs) (postings L) m e) <-> In id (bruteforce (am_repaired pats strs) L m e).
Proof. exact repaired_search_exact. Qed.
Print Assumptions C10_repaired_regex_search_is_bruteforce.

(* Characterisation of today's translation (simplify loop, literal prefix, or-values, optimised suffix matchers, isAllMatch,
   matching on escaped item bytes): on a pattern of an exact shape - a pure literal, an expression without position
   assertions that can match the empty string, ^literal, ^(lit|..|lit)$ with 2..20 literals - and a value without the separator bytes 0, 1, 2 (or the absent
   tag) it selects exactly what unanchored matching selects. The signatures of the regex findings are the complement. *)
Theorem C10_current_regex_exact : forall r v,
  exact_shape r = true -> match v with Some x => plain x | None => True end ->
  current_match r v = repaired_match r v.
Proof. exact current_regex_exact. Qed.
Print Assumptions C10_current_regex_exact.

(* ... hence today's search equals brute force with the language's matching whenever every pattern of the predicate has an
   exact shape and no stored string contains a separator byte *)
Theorem C10_current_search_exact_on_exact_shapes : forall pats strs L m e,
  wfL L -> expr_ok e -> all_plain strs ->
  (forall p, In p (re_pats e) -> exact_shape (pat_of pats p) = true) ->
  forall id, In id (search (am_current pats strs) (postings L) m e) <-> In id (bruteforce (am_repaired pats strs) L m e).
Proof. exact current_search_exact. Qed.
Print Assumptions C10_current_search_exact_on_exact_shapes.

(* an assertion-free expression that can match the empty string matches every value (isAllMatch is right for it) *)
Theorem C10_nullable_matches_everything : forall r w, has_assert r = false -> nullable r = true -> unanch r w = true.
Proof. exact nullable_unanch. Qed.
Print Assumptions C10_nullable_matches_everything.

(* The select path's tag-filter result cache is transparent - every sequence of regex filter queries gets the answers it
   would get without the cache - when a filter is filed under its pattern's source text and negation flag (the repaired key),
   for every parser and every translation. *)
Theorem C10_tagfilter_cache_transparent : forall parse mt qs,
  cached_run tfq (list N * bool) _ tf_key_repaired tf_keqb (tf_answer parse mt) [] qs = map (tf_answer parse mt) qs.
Proof. exact tagfilter_cache_transparent_repaired. Qed.
Print Assumptions C10_tagfilter_cache_transparent.

(* non-vacuity: /web/, /.*/, /a*|b/ and /^web/ have exact shapes; "web-1" is plain; the characterisation applies *)
Example C10_exact_shapes_exist :
  exact_shape (RLit false [119; 101; 98]) = true /\ exact_shape (RStar RAnyNL) = true /\
  exact_shape (RAlt [RStar (RLit false [97]); RLit false [98]]) = true /\
  exact_shape (RConcat [RBeginText; RLit false [119; 101; 98]]) = true /\
  exact_shape (RConcat [RBeginText; RCapture (RAlt [RLit false [119; 101; 98]; RLit false [100; 98]]); REndText]) = true /\
  exact_shape (RClass [(100, 100); (119, 119)]) = false /\
  plain [119; 101; 98; 45; 49] /\
  current_match (RConcat [RBeginText; RLit false [119; 101; 98]]) (Some [119; 101; 98; 45; 49]) = true /\
  all_plain [(1, [119; 101; 98]); (2, [100; 98])].
Proof. repeat split; try reflexivity; repeat constructor; discriminate. Qed.

(* ---- the mergeset "visible after flush" contract and the key cache, second repair: ClearCache flushes the raw items
   before it resets the caches (fix2.patch, first hunk) and the lookup stays as today (cache, then FLUSHED items only).
   For every sequence of insert / flush / cache clear / close-reopen: ---- *)
Theorem C10_flushclear_id_functional : forall n os s id1 id2,
  let i := fst (run_fc (empty_index n) os) in In (s, id1) (store i) -> In (s, id2) (store i) -> id1 = id2.
Proof. exact fc_id_functional. Qed.
Theorem C10_flushclear_id_injective : forall n os s1 s2 id,
  let i := fst (run_fc (empty_index n) os) in In (s1, id) (store i) -> In (s2, id) (store i) -> s1 = s2.
Proof. exact fc_id_injective. Qed.
Theorem C10_flushclear_id_stable : forall n os1 s os2,
  let i1 := fst (run_fc (empty_index n) os1) in
  let r := insert slow_current i1 s in
  let i3 := fst (run_fc (fst r) os2) in
  snd (insert slow_current i3 s) = snd r.
Proof. exact fc_id_stable. Qed.
(* today's lookup is complete under that repair: every stored key is found through the cache or the flushed items *)
Theorem C10_flushclear_lookup_complete : forall n os s id,
  let i := fst (run_fc (empty_index n) os) in In (s, id) (store i) -> lookup slow_current i s = Some id.
Proof. exact fc_lookup_complete. Qed.
(* both repairs hand out the same ids on every operation sequence *)
Theorem C10_flushclear_same_ids_as_pending_lookup : forall n os,
  snd (run_fc (empty_index n) os) = snd (run slow_repaired (empty_index n) os).
Proof. intros n os. apply fc_outputs_equal; [apply wf_fc_empty | repeat split]. Qed.
Print Assumptions C10_flushclear_id_functional.
Print Assumptions C10_flushclear_id_injective.
Print Assumptions C10_flushclear_id_stable.
Print Assumptions C10_flushclear_lookup_complete.
Print Assumptions C10_flushclear_same_ids_as_pending_lookup.

Example C10_flushclear_example :
  let s := mkS 1 [(1, 1)] in
  snd (run_fc (empty_index 0) [Insert s; ClearCache; Insert s; Reopen 5; ClearCache; Insert s]) =
    [Some 1; None; Some 1; None; None; Some 1] /\
  snd (run slow_current (empty_index 0) [Insert s; ClearCache; Insert s]) = [Some 1; None; Some 2].
Proof. vm_compute. split; reflexivity. Qed.

(* ---- listings with a condition and cardinalities (SHOW SERIES ... WHERE, SHOW TAG VALUES ... WHERE, SHOW SERIES CARDINALITY):
   exactly the series keys / tag values / number of the series whose tags satisfy the predicate, for every matcher ---- *)
Theorem C10_list_series_cond_exact : forall am L m e s, wfL L -> expr_ok e ->
  In s (list_series_cond am L m e) <-> exists id, In (s, id) L /\ s_mst s = m /\ eval am e (s_tags s) = true.
Proof. exact list_series_cond_exact. Qed.
Theorem C10_list_tag_values_cond_exact : forall am L m k e v, wfL L -> expr_ok e -> k <> 0 ->
  In v (list_tag_values_cond am L m k e) <->
  exists s id, In (s, id) L /\ s_mst s = m /\ In (k, v) (s_tags s) /\ eval am e (s_tags s) = true.
Proof. exact list_tag_values_cond_exact. Qed.
Theorem C10_cardinality_exact : forall am L m e, wfL L -> expr_ok e ->
  cardinality am L m e = length (bruteforce am L m e).
Proof. exact cardinality_exact. Qed.
Print Assumptions C10_list_series_cond_exact.
Print Assumptions C10_list_tag_values_cond_exact.
Print Assumptions C10_cardinality_exact.

Example C10_cond_listing_example :
  let L := [(mkS 1 [(1, 1); (2, 3)], 101); (mkS 1 [(1, 2)], 102); (mkS 1 [], 103)] in
  let am := fun p v => (p =? 1) && ((v =? 1) || (v =? 2)) in
  list_series_cond am L 1 (Atom 2 Eq 0) = [mkS 1 [(1, 2)]; mkS 1 []] /\
  list_tag_values_cond am L 1 1 (Atom 1 Re 1) = [1; 2] /\ cardinality am L 1 (Atom 1 Nre 1) = 1%nat.
Proof. vm_compute. repeat split. Qed.

(* ---- the second evaluator of the select path: filters of an AND-only predicate checked against the SERIES KEY of a
   candidate (doPrune / matchSeriesKeyTagFilter). One filter on one tag set means what the predicate means - absent tag =
   empty string, negation, empty values, any regex matcher ---- *)
Theorem C10_prune_atom_is_eval : forall am f ts, prune_atom am f ts = eval am (atom_of f) ts.
Proof. exact prune_atom_eval. Qed.
(* ... and every plan "answer the filters p :: pre from the index, check the filters post on the series keys of the
   candidates" selects exactly what brute force selects for the whole conjunction, whichever way the cost order splits it *)
Theorem C10_prune_plan_is_bruteforce : forall am L m p pre post,
  wfL L -> Forall (fun g => fst (fst g) <> 0) (p :: pre ++ post) ->
  forall id, In id (plan_ids am L m p pre post) <-> In id (bruteforce am L m (conj p (pre ++ post))).
Proof. exact plan_is_bruteforce. Qed.
Print Assumptions C10_prune_atom_is_eval.
Print Assumptions C10_prune_plan_is_bruteforce.

Example C10_prune_example :
  let L := [(mkS 1 [(1, 1)], 101); (mkS 1 [(1, 2); (2, 5)], 102)] in
  let am := fun _ _ => false in
  (* a = 'x' AND b != 'y' on {a=x} (no tag b) and {a=2, b=5}: plans "a from the index, b on the key" and "both from the index" *)
  plan_ids am L 1 (1, Eq, 1) [] [(2, Neq, 7)] = [101] /\ plan_ids am L 1 (1, Eq, 1) [(2, Neq, 7)] [] = [101] /\
  bruteforce am L 1 (conj (1, Eq, 1) [(2, Neq, 7)]) = [101].
Proof. vm_compute. repeat split. Qed.

(* ---- the matcher is a match relation. [sem w r i j] is the relational semantics of regular expressions (r matches the
   piece w[i..j) of the subject w), defined by recursion on the syntax tree with the usual closure for repetition; the
   executable matcher computes exactly it. What is compared with Go regexp on every run is therefore a proved matcher. ---- *)
Theorem C10_matcher_is_the_match_relation : forall w r i j, (i <= length w)%nat -> (In j (ends w r i) <-> sem w r i j).
Proof. exact ends_sem. Qed.
Theorem C10_unanchored_is_match_somewhere : forall r w, unanch r w = true <-> exists i j, (i <= length w)%nat /\ sem w r i j.
Proof. exact unanch_iff. Qed.
Print Assumptions C10_matcher_is_the_match_relation.
Print Assumptions C10_unanchored_is_match_somewhere.

(* getOrValuesExt: whenever it yields a list (alternations, classes, literals, captures, concatenations, up to 20 values)
   the list is exactly the language of the expression *)
Theorem C10_or_values_exact : forall r, or_values r <> [] ->
  forall w i j, sem w r i j <-> exists v, In v (or_values r) /\ litmatch w v i j.
Proof. exact or_values_sem. Qed.
Print Assumptions C10_or_values_exact.

(* TODAY's translation of a regex tag filter (since /repo f7a71a4: exact-value lookups of the marshaled values for ^X$, literal
   prefix for ^lit.., scan with the compiled expression on the unescaped value, match-everything, series without the tag when
   the expression matches the empty string) selects, for EVERY expression, stored value and the absent tag, exactly what the
   language's unanchored matching selects ... *)
Theorem C10_translation_exact : forall r v, new_match r v = repaired_match r v.
Proof. exact new_match_exact. Qed.
(* ... hence the predicate search with it is brute force for every predicate tree *)
Theorem C10_search_with_translation_is_bruteforce : forall pats strs L m e, wfL L -> expr_ok e ->
  forall id, In id (search (am_new pats strs) (postings L) m e) <-> In id (bruteforce (am_repaired pats strs) L m e).
Proof. exact new_search_exact. Qed.
Print Assumptions C10_translation_exact.
Print Assumptions C10_search_with_translation_is_bruteforce.

Example C10_translation_example :
  (* ^(web|db)$ takes the lookups, ^web-.* the prefix, [wd] the scan; "\x01" is matched unescaped *)
  anchored_or_values (RConcat [RBeginText; RCapture (RAlt [RLit false [119; 101; 98]; RLit false [100; 98]]); REndText]) = [[119; 101; 98]; [100; 98]] /\
  anchored_literal_prefix (RConcat [RBeginText; RLit false [119; 101; 98; 45]; RStar RAnyNL]) = [119; 101; 98; 45]%N /\
  new_match (RClass [(100, 100); (119, 119)]%N) (Some [119; 101; 98]%N) = true /\
  new_match (RPlus (RClass [(48, 57)]%N)) (Some [1]%N) = false /\
  sem [119; 101; 98]%N (RStar RAnyNL) 0%nat 3%nat.
Proof.
  repeat split; try reflexivity.
  apply (star_step _ 0 1 3)%nat; [exists 119%N; auto |]. apply (star_step _ 1 2 3)%nat; [exists 101%N; auto |].
  apply (star_step _ 2 3 3)%nat; [exists 98%N; auto | constructor].
Qed.

(* ---- the tag-filter result cache inside the index model (Cache.v): filters answered from a cache keyed by (generation,
   measurement, key, operator, value), the generation bumped by the flush callback and by DROP SERIES. When the callback
   runs with every flush that made items visible (repaired), EVERY search of EVERY sequence of insert / forced flush /
   background flush / tick / cache clear / reopen / drop series / search returns the uncached answer ... ---- *)
Theorem C10_result_cache_transparent : forall am n os,
  Forall (fun x => match x with Some (a, u) => a = u | None => True end) (crun true am (cempty n) os).
Proof. exact cache_transparent_from_empty. Qed.
(* ... which is the set-algebra search over the flushed items without the dropped ids (and so, by C10_search_is_bruteforce,
   the predicate's meaning on the live series) *)
Theorem C10_uncached_answer_is_search_minus_dropped : forall am c m e id,
  In id (search_plain am c m e) <-> In id (search am (postings (vis (ix c))) m e) /\ ~ In id (dropped c).
Proof. exact search_plain_spec. Qed.
Print Assumptions C10_result_cache_transparent.
Print Assumptions C10_uncached_answer_is_search_minus_dropped.

Example C10_cache_example :
  let s1 := mkS 1 [(1, 1)] in let s2 := mkS 1 [(1, 1); (2, 3)] in
  crun true (fun _ _ => false) (cempty 100)
       [OInsert s1; OFlush; OSearch 1 (Atom 1 Eq 1); OInsert s2; OBgFlush; OSearch 1 (Atom 1 Eq 1); ODrop [101]; OSearch 1 (Atom 1 Eq 1)] =
    [None; None; Some ([101], [101]); None; None; Some ([101; 102], [101; 102]); None; Some ([102], [102])].
Proof. vm_compute. reflexivity. Qed.

(* ---- the tag -> ids items as rows of at most 64 ids: however the items of the written series are split into rows, the row
   scan of SHOW TAG VALUES ... WHERE (record the value at the first row with an eligible id; a rejected row, full or not, never
   ends the scan of its value) lists exactly the values of the series that satisfy the predicate ---- *)
Theorem C10_rows_listing_exact : forall am L rt m k e v, wfL L -> expr_ok e -> k <> 0 ->
  (forall t, In t (flatten rt) <-> In t (postings L)) ->
  (In v (rows_values (fun id => mem id (search am (postings L) m e)) rt m k) <->
   exists s id, In (s, id) L /\ s_mst s = m /\ In (k, v) (s_tags s) /\ eval am e (s_tags s) = true).
Proof. exact rows_listing_exact. Qed.
Theorem C10_row_scan_is_exists : forall elig rows, scan_rows elig rows = existsb elig (concat rows).
Proof. exact scan_rows_concat. Qed.
Print Assumptions C10_rows_listing_exact.
Print Assumptions C10_row_scan_is_exists.
