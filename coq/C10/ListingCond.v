(* C10 - listings with a condition (SHOW SERIES ... WHERE, SHOW TAG VALUES ... WHERE) and series cardinality: the series
   keys / tag values / count of exactly the series whose tags satisfy the predicate. *)
From Coq Require Import NArith List Bool Lia Permutation.
From OG Require Import C10.Model C10.Proofs.
Import ListNotations.
Open Scope N_scope.

Definition list_series_cond (am : N -> N -> bool) (L : list entry) (m : N) (e : expr) : list series :=
  flat_map (key_of L) (dedup (search am (postings L) m e)).
Definition list_tag_values_cond (am : N -> N -> bool) (L : list entry) (m k : N) (e : expr) : list N :=
  map t_v (filter (fun t => (t_m t =? m) && (t_k t =? k) && mem (t_id t) (search am (postings L) m e)) (postings L)).
Definition cardinality (am : N -> N -> bool) (L : list entry) (m : N) (e : expr) : nat :=
  length (dedup (search am (postings L) m e)).
Definition tag_value_cardinality (L : list entry) (m k : N) : nat := length (dedup (list_tag_values L m k)).

Lemma in_bruteforce am L m e id :
  In id (bruteforce am L m e) <-> exists s, In (s, id) L /\ s_mst s = m /\ eval am e (s_tags s) = true.
Proof.
  unfold bruteforce. rewrite in_map_iff. split.
  - intros ([s i] & Ei & Hf). simpl in Ei. subst i. apply filter_In in Hf. destruct Hf as [Hin Hb]. simpl in Hb.
    apply andb_true_iff in Hb. destruct Hb as [Hm He]. apply N.eqb_eq in Hm. eauto.
  - intros (s & Hin & Hm & He). exists (s, id). split; auto. apply filter_In. split; auto. simpl. rewrite He.
    subst m. rewrite N.eqb_refl. reflexivity.
Qed.

Theorem list_series_cond_exact am L m e s : wfL L -> expr_ok e ->
  In s (list_series_cond am L m e) <-> exists id, In (s, id) L /\ s_mst s = m /\ eval am e (s_tags s) = true.
Proof.
  intros Hwf Hok. unfold list_series_cond. rewrite in_flat_map. split.
  - intros (id & Hid & Hk). apply (proj1 (in_dedup _ _)) in Hid. apply (search_is_bruteforce am L m e Hwf Hok) in Hid.
    apply in_bruteforce in Hid. destruct Hid as (s' & Hin' & Hm & He). apply key_of_sound in Hk.
    destruct Hwf as [Hnd _]. rewrite (uniq_id _ _ _ _ Hnd Hk Hin'). eauto.
  - intros (id & Hin & Hm & He). exists id. split.
    + apply (proj2 (in_dedup _ _)). apply (search_is_bruteforce am L m e Hwf Hok). apply in_bruteforce. eauto.
    + destruct Hwf as [Hnd _]. rewrite (key_of_in L s id Hnd Hin). left. reflexivity.
Qed.

Theorem list_tag_values_cond_exact am L m k e v : wfL L -> expr_ok e -> k <> 0 ->
  In v (list_tag_values_cond am L m k e) <->
  exists s id, In (s, id) L /\ s_mst s = m /\ In (k, v) (s_tags s) /\ eval am e (s_tags s) = true.
Proof.
  intros Hwf Hok Hk. unfold list_tag_values_cond. rewrite in_map_iff. split.
  - intros (t & Ev & Ht). apply filter_In in Ht. destruct Ht as [Ht Hf].
    apply andb_true_iff in Hf. destruct Hf as [Hf Hs]. apply andb_true_iff in Hf. destruct Hf as [Hm Hkk].
    apply N.eqb_eq in Hm. apply N.eqb_eq in Hkk. apply mem_spec in Hs.
    apply (search_is_bruteforce am L m e Hwf Hok) in Hs. apply in_bruteforce in Hs. destruct Hs as (s' & Hin' & _ & He).
    apply in_tagitems in Ht. destruct Ht as (s & id & Hin & [-> | (k' & v' & Hkv & ->)]).
    + exfalso. apply Hk. symmetry. exact Hkk.
    + unfold t_m, t_k, t_v, t_id in *. simpl in *. subst.
      destruct Hwf as [Hnd _]. rewrite <- (uniq_id _ _ _ _ Hnd Hin Hin') in He. exists s, id. auto.
  - intros (s & id & Hin & Hm & Hkv & He). exists (s_mst s, k, v, id). split; [reflexivity |]. apply filter_In. split.
    + apply in_tagitems. exists s, id. split; auto. right. eauto.
    + unfold t_m, t_k, t_id. simpl. subst m. rewrite !N.eqb_refl. simpl. apply mem_spec.
      apply (search_is_bruteforce am L (s_mst s) e Hwf Hok). apply in_bruteforce. eauto.
Qed.

Lemma nodup_dedup l : NoDup (dedup l).
Proof.
  induction l as [| x r IH]; simpl; [constructor |]. destruct (mem x r) eqn:E; auto.
  constructor; auto. intros H. apply (proj1 (in_dedup _ _)) in H. apply mem_spec in H. congruence.
Qed.
Lemma nodup_bruteforce am L m e : NoDup (map snd L) -> NoDup (bruteforce am L m e).
Proof.
  unfold bruteforce. induction L as [| x r IH]; simpl; intros Hnd; [constructor |].
  inversion Hnd as [| ? ? Hni Hnd']; subst. destruct ((s_mst (fst x) =? m) && eval am e (s_tags (fst x))); simpl; auto.
  constructor; auto. intros Hin. apply Hni. apply in_map_iff in Hin. destruct Hin as (y & Ey & Hy).
  apply filter_In in Hy. destruct Hy as [Hy _]. rewrite <- Ey. apply in_map. exact Hy.
Qed.

(* the count of a conditional SHOW SERIES CARDINALITY is the number of series that satisfy the predicate *)
Theorem cardinality_exact am L m e : wfL L -> expr_ok e ->
  cardinality am L m e = length (bruteforce am L m e).
Proof.
  intros Hwf Hok. unfold cardinality. apply Permutation_length. apply NoDup_Permutation.
  - apply nodup_dedup.
  - apply nodup_bruteforce. apply Hwf.
  - intros id. rewrite in_dedup. apply search_is_bruteforce; assumption.
Qed.
