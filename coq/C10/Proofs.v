(* C10 - lemmas: predicate search over postings = brute force over the series; listings; id invariants. *)
From Coq Require Import NArith List Bool Lia.
From OG Require Import C10.Model.
Import ListNotations.
Open Scope N_scope.

(* ------------------------------------------------------------------------------------------------ basics *)
Lemma series_eqb_true a b : series_eqb a b = true <-> a = b.
Proof. unfold series_eqb. destruct (series_eq_dec a b); split; intros; auto; discriminate. Qed.

Lemma mem_spec x l : mem x l = true <-> In x l.
Proof.
  unfold mem. rewrite existsb_exists. split.
  - intros (y & Hy & E). apply N.eqb_eq in E. subst. auto.
  - intros H. exists x. split; auto. apply N.eqb_refl.
Qed.
Lemma in_diff x a b : In x (diff a b) <-> In x a /\ ~ In x b.
Proof.
  unfold diff. rewrite filter_In. rewrite negb_true_iff. split; intros [H1 H2]; split; auto.
  - intro H. apply mem_spec in H. congruence.
  - destruct (mem x b) eqn:E; auto. apply mem_spec in E. contradiction.
Qed.
Lemma in_inter x a b : In x (inter a b) <-> In x a /\ In x b.
Proof. unfold inter. rewrite filter_In. rewrite mem_spec. tauto. Qed.

Lemma in_ids_where f T id : In id (ids_where f T) <-> exists t, In t T /\ f t = true /\ t_id t = id.
Proof.
  unfold ids_where. rewrite in_map_iff. split.
  - intros (t & E & H). apply filter_In in H. destruct H. eauto.
  - intros (t & H1 & H2 & E). exists t. split; auto. apply filter_In; auto.
Qed.

Lemma in_items_of e t : In t (items_of e) <->
  t = (s_mst (fst e), 0, 0, snd e) \/ exists kv, In kv (s_tags (fst e)) /\ t = (s_mst (fst e), fst kv, snd kv, snd e).
Proof.
  unfold items_of. simpl. rewrite in_map_iff. split.
  - intros [H | (kv & E & H)]; [left; auto | right; exists kv; auto].
  - intros [H | (kv & H & E)]; [left; auto | right; exists kv; auto].
Qed.
Lemma items_id e t : In t (items_of e) -> t_id t = snd e.
Proof. rewrite in_items_of. intros [-> | (kv & _ & ->)]; reflexivity. Qed.

Lemma in_ids_where_postings f L id :
  In id (ids_where f (postings L)) <-> exists s, In (s, id) L /\ exists t, In t (items_of (s, id)) /\ f t = true.
Proof.
  rewrite in_ids_where. unfold postings. split.
  - intros (t & Ht & Hf & E). apply in_flat_map in Ht. destruct Ht as (e & He & Hte).
    pose proof (items_id _ _ Hte) as Hid. destruct e as [s i]. simpl in Hid. subst id. rewrite Hid.
    exists s. split; auto. exists t. auto.
  - intros (s & Hs & t & Ht & Hf). exists t. split; [| split; auto].
    + apply in_flat_map. exists (s, id). auto.
    + apply (items_id _ _ Ht).
Qed.

(* ------------------------------------------------------------------------------------------------ tag sets *)
Lemma tag_val_in ts k v : wf_tags ts -> In (k, v) ts -> tag_val ts k = v.
Proof.
  intros [Hnd _]. unfold tag_val. induction ts as [| [k0 v0] r IH]; simpl; intros Hin; [contradiction |].
  inversion Hnd as [| ? ? Hni Hnd']; subst. destruct Hin as [E | Hin].
  - inversion E; subst. rewrite N.eqb_refl. reflexivity.
  - destruct (k0 =? k) eqn:Ek.
    + apply N.eqb_eq in Ek. subst. exfalso. apply Hni. change k with (fst (k, v)). apply in_map. exact Hin.
    + apply IH; auto.
Qed.
Lemma tag_val_nz ts k : tag_val ts k <> 0 -> In (k, tag_val ts k) ts.
Proof.
  unfold tag_val. destruct (find (fun kv => fst kv =? k) ts) as [kv |] eqn:E; [| intros H; contradiction H; reflexivity].
  intros _. apply find_some in E. destruct E as [Hin Hk]. apply N.eqb_eq in Hk. destruct kv as [a b]. simpl in *. subst. exact Hin.
Qed.
Lemma wf_tags_val ts k v : wf_tags ts -> In (k, v) ts -> k <> 0 /\ v <> 0.
Proof. intros [_ Hf] Hin. rewrite Forall_forall in Hf. apply (Hf (k, v) Hin). Qed.

Lemma tag_exists_iff ts k (g : N -> bool) : wf_tags ts ->
  (exists v, In (k, v) ts /\ g v = true) <-> tag_val ts k <> 0 /\ g (tag_val ts k) = true.
Proof.
  intros Hwf. split.
  - intros (v & Hin & Hg). pose proof (tag_val_in _ _ _ Hwf Hin) as E. rewrite E. split; auto.
    apply (wf_tags_val _ _ _ Hwf Hin).
  - intros [Hnz Hg]. exists (tag_val ts k). split; auto. apply tag_val_nz; auto.
Qed.

(* ------------------------------------------------------------------------------------------------ selection *)
Definition wfL (L : list entry) : Prop := NoDup (map snd L) /\ Forall (fun e => wf_tags (s_tags (fst e))) L.
Definition sel (L : list entry) (m : N) (P : tagset -> Prop) (id : N) : Prop :=
  exists s, In (s, id) L /\ s_mst s = m /\ P (s_tags s).

Lemma uniq_id (L : list entry) s s' id : NoDup (map snd L) -> In (s, id) L -> In (s', id) L -> s = s'.
Proof.
  induction L as [| [s0 i0] r IH]; simpl; intros Hnd H1 H2; [contradiction |].
  inversion Hnd as [| ? ? Hni Hnd']; subst.
  destruct H1 as [E1 | H1], H2 as [E2 | H2].
  - congruence.
  - inversion E1; subst. exfalso. apply Hni. change id with (snd (s', id)). apply in_map. exact H2.
  - inversion E2; subst. exfalso. apply Hni. change id with (snd (s, id)). apply in_map. exact H1.
  - eauto.
Qed.
Lemma wfL_tags L s id : wfL L -> In (s, id) L -> wf_tags (s_tags s).
Proof. intros [_ Hf] Hin. rewrite Forall_forall in Hf. apply (Hf (s, id) Hin). Qed.

Lemma sel_diff L m A B PA PB : wfL L ->
  (forall id, In id A <-> sel L m PA id) -> (forall id, In id B <-> sel L m PB id) ->
  forall id, In id (diff A B) <-> sel L m (fun ts => PA ts /\ ~ PB ts) id.
Proof.
  intros [Hnd _] HA HB id. rewrite in_diff, HA, HB. split.
  - intros [(s & Hin & Hm & Hp) Hn]. exists s. repeat split; auto. intro Hb. apply Hn. exists s. auto.
  - intros (s & Hin & Hm & Hp & Hn). split; [exists s; auto |].
    intros (s' & Hin' & _ & Hb). rewrite (uniq_id _ _ _ _ Hnd Hin Hin') in Hn. contradiction.
Qed.
Lemma sel_inter L m A B PA PB : wfL L ->
  (forall id, In id A <-> sel L m PA id) -> (forall id, In id B <-> sel L m PB id) ->
  forall id, In id (inter A B) <-> sel L m (fun ts => PA ts /\ PB ts) id.
Proof.
  intros [Hnd _] HA HB id. rewrite in_inter, HA, HB. split.
  - intros [(s & Hin & Hm & Hp) (s' & Hin' & _ & Hb)]. rewrite <- (uniq_id _ _ _ _ Hnd Hin Hin') in Hb. exists s. auto.
  - intros (s & Hin & Hm & Hp & Hb). split; exists s; auto.
Qed.
Lemma sel_union L m A B PA PB :
  (forall id, In id A <-> sel L m PA id) -> (forall id, In id B <-> sel L m PB id) ->
  forall id, In id (A ++ B) <-> sel L m (fun ts => PA ts \/ PB ts) id.
Proof.
  intros HA HB id. rewrite in_app_iff, HA, HB. split.
  - intros [(s & ? & ? & ?) | (s & ? & ? & ?)]; exists s; auto.
  - intros (s & ? & ? & [? | ?]); [left | right]; exists s; auto.
Qed.
Lemma sel_ext L m P Q id : (forall ts, wf_tags ts -> (P ts <-> Q ts)) -> wfL L -> sel L m P id <-> sel L m Q id.
Proof.
  intros H Hwf. split; intros (s & Hin & Hm & Hp); exists s; repeat split; auto;
    apply (H _ (wfL_tags _ _ _ Hwf Hin)); auto.
Qed.

(* ------------------------------------------------------------------------------------------------ postings *)
Lemma sel_all L m id : In id (all_ids (postings L) m) <-> sel L m (fun _ => True) id.
Proof.
  unfold all_ids. rewrite in_ids_where_postings. split.
  - intros (s & Hin & t & Ht & Hf). exists s. repeat split; auto.
    apply N.eqb_eq in Hf. apply in_items_of in Ht. simpl in Ht.
    destruct Ht as [-> | (kv & _ & ->)]; exact Hf.
  - intros (s & Hin & Hm & _). exists s. split; auto. exists (s_mst s, 0, 0, id). split.
    + apply in_items_of. left. reflexivity.
    + apply N.eqb_eq. exact Hm.
Qed.

Lemma items_sel s id m k (g : N -> bool) : k <> 0 ->
  (exists t, In t (items_of (s, id)) /\ ((t_m t =? m) && (t_k t =? k) && g (t_v t)) = true)
  <-> s_mst s = m /\ exists v, In (k, v) (s_tags s) /\ g v = true.
Proof.
  intros Hk. split.
  - intros (t & Ht & Hf). apply andb_true_iff in Hf. destruct Hf as [Hf Hg]. apply andb_true_iff in Hf.
    destruct Hf as [Hm Hkk]. apply N.eqb_eq in Hm. apply N.eqb_eq in Hkk.
    apply in_items_of in Ht. simpl in Ht. destruct Ht as [-> | ([k' v'] & Hin & ->)].
    + exfalso. apply Hk. symmetry. exact Hkk.
    + unfold t_m, t_k, t_v in *. simpl in *. subst. split; auto. exists v'. auto.
  - intros (Hm & v & Hin & Hg). exists (s_mst s, k, v, id). split.
    + apply in_items_of. right. exists (k, v). auto.
    + unfold t_m, t_k, t_v. simpl. rewrite Hg. subst m. rewrite !N.eqb_refl. reflexivity.
Qed.

Lemma sel_kv L m k (g : N -> bool) id : wfL L -> k <> 0 ->
  In id (ids_where (fun t => (t_m t =? m) && (t_k t =? k) && g (t_v t)) (postings L))
  <-> sel L m (fun ts => tag_val ts k <> 0 /\ g (tag_val ts k) = true) id.
Proof.
  intros Hwf Hk. rewrite in_ids_where_postings. split.
  - intros (s & Hin & Ht). apply items_sel in Ht; auto. destruct Ht as [Hm He]. exists s. repeat split; auto;
      apply (tag_exists_iff _ _ g (wfL_tags _ _ _ Hwf Hin)) in He; tauto.
  - intros (s & Hin & Hm & Hp). exists s. split; auto. apply items_sel; auto. split; auto.
    apply (tag_exists_iff _ _ g (wfL_tags _ _ _ Hwf Hin)). exact Hp.
Qed.

Lemma haskey_as L m k : haskey (postings L) m k =
  ids_where (fun t => (t_m t =? m) && (t_k t =? k) && (fun _ => true) (t_v t)) (postings L).
Proof. unfold haskey, ids_where. f_equal. apply filter_ext. intros t. rewrite andb_true_r. reflexivity. Qed.

Lemma sel_haskey L m k id : wfL L -> k <> 0 ->
  In id (haskey (postings L) m k) <-> sel L m (fun ts => tag_val ts k <> 0) id.
Proof.
  intros Hwf Hk. rewrite haskey_as.
  etransitivity; [apply (sel_kv L m k (fun _ => true) id Hwf Hk) |]. apply sel_ext; auto. intros ts _. tauto.
Qed.
Lemma sel_post L m k v id : wfL L -> k <> 0 -> v <> 0 ->
  In id (post (postings L) m k v) <-> sel L m (fun ts => tag_val ts k = v) id.
Proof.
  intros Hwf Hk Hv. unfold post.
  etransitivity; [apply (sel_kv L m k (fun x => x =? v) id Hwf Hk) |]. apply sel_ext; auto.
  intros ts _. rewrite N.eqb_eq. split; [tauto |]. intros E. split; auto. congruence.
Qed.
Lemma sel_scan am L m k p id : wfL L -> k <> 0 ->
  In id (scan am (postings L) m k p) <-> sel L m (fun ts => tag_val ts k <> 0 /\ am p (tag_val ts k) = true) id.
Proof. intros Hwf Hk. unfold scan. apply (sel_kv L m k (am p)); auto. Qed.
Lemma sel_nokey L m k id : wfL L -> k <> 0 ->
  In id (nokey (postings L) m k) <-> sel L m (fun ts => tag_val ts k = 0) id.
Proof.
  intros Hwf Hk. unfold nokey.
  rewrite (sel_diff L m _ _ (fun _ => True) (fun ts => tag_val ts k <> 0) Hwf (sel_all L m) (fun i => sel_haskey L m k i Hwf Hk)).
  apply sel_ext; auto. intros ts _. destruct (N.eq_dec (tag_val ts k) 0); tauto.
Qed.
Lemma sel_re am L m k p id : wfL L -> k <> 0 ->
  In id (re_ids am (postings L) m k p) <-> sel L m (fun ts => am p (tag_val ts k) = true) id.
Proof.
  intros Hwf Hk. unfold re_ids. destruct (am p 0) eqn:E0.
  - rewrite (sel_union L m _ _ (fun ts => tag_val ts k = 0) (fun ts => tag_val ts k <> 0 /\ am p (tag_val ts k) = true)
              (fun i => sel_nokey L m k i Hwf Hk) (fun i => sel_scan am L m k p i Hwf Hk)).
    apply sel_ext; auto. intros ts _. destruct (N.eq_dec (tag_val ts k) 0) as [Ez | Ez].
    + rewrite Ez. tauto.
    + tauto.
  - simpl. rewrite sel_scan; auto. apply sel_ext; auto. intros ts _. split; [tauto |]. intros H. split; auto.
    intros Ez. rewrite Ez in H. congruence.
Qed.

(* ------------------------------------------------------------------------------------------------ main theorem *)
Theorem search_sel am L m : wfL L -> forall e, expr_ok e ->
  forall id, In id (search am (postings L) m e) <-> sel L m (fun ts => eval am e ts = true) id.
Proof.
  intros Hwf. induction e as [a IHa b IHb | a IHa b IHb | a IHa | k c v]; simpl; intros Hok id.
  - destruct Hok as [Ha Hb].
    rewrite (sel_inter L m _ _ _ _ Hwf (IHa Ha) (IHb Hb)). apply sel_ext; auto. intros ts _. rewrite andb_true_iff. tauto.
  - destruct Hok as [Ha Hb].
    rewrite (sel_union L m _ _ _ _ (IHa Ha) (IHb Hb)). apply sel_ext; auto. intros ts _. rewrite orb_true_iff. tauto.
  - apply IHa; auto.
  - destruct c.
    + destruct (v =? 0) eqn:Ev.
      * apply N.eqb_eq in Ev. subst v. rewrite sel_nokey; auto. apply sel_ext; auto. intros ts _. rewrite N.eqb_eq. tauto.
      * apply N.eqb_neq in Ev. rewrite sel_post; auto. apply sel_ext; auto. intros ts _. rewrite N.eqb_eq. tauto.
    + destruct (v =? 0) eqn:Ev.
      * apply N.eqb_eq in Ev. subst v. rewrite sel_haskey; auto. apply sel_ext; auto. intros ts _.
        rewrite negb_true_iff, N.eqb_neq. tauto.
      * apply N.eqb_neq in Ev.
        rewrite (sel_diff L m _ _ (fun _ => True) (fun ts => tag_val ts k = v) Hwf (sel_all L m) (fun i => sel_post L m k v i Hwf Hok Ev)).
        apply sel_ext; auto. intros ts _. rewrite negb_true_iff, N.eqb_neq. tauto.
    + apply sel_re; auto.
    + rewrite (sel_diff L m _ _ (fun _ => True) (fun ts => am v (tag_val ts k) = true) Hwf (sel_all L m) (fun i => sel_re am L m k v i Hwf Hok)).
      apply sel_ext; auto. intros ts _. rewrite negb_true_iff.
      destruct (am v (tag_val ts k)); split; intros H;
        [ destruct H as [_ H]; exfalso; apply H; reflexivity | discriminate | reflexivity | split; [exact I | discriminate] ].
Qed.

Lemma bruteforce_sel am L m e id : In id (bruteforce am L m e) <-> sel L m (fun ts => eval am e ts = true) id.
Proof.
  unfold bruteforce. rewrite in_map_iff. split.
  - intros ([s i] & E & H). simpl in E. subst i. apply filter_In in H. destruct H as [Hin Hf]. simpl in Hf.
    apply andb_true_iff in Hf. destruct Hf as [Hm He]. apply N.eqb_eq in Hm. exists s. auto.
  - intros (s & Hin & Hm & He). exists (s, id). split; auto. apply filter_In. split; auto. simpl.
    rewrite He. subst m. rewrite N.eqb_refl. reflexivity.
Qed.

Theorem search_is_bruteforce am L m e : wfL L -> expr_ok e ->
  forall id, In id (search am (postings L) m e) <-> In id (bruteforce am L m e).
Proof. intros Hwf Hok id. rewrite search_sel, bruteforce_sel; auto. tauto. Qed.

(* ------------------------------------------------------------------------------------------------ listings *)
Lemma key_of_in L s id : NoDup (map snd L) -> In (s, id) L -> key_of L id = [s].
Proof.
  intros Hnd Hin. unfold key_of. destruct (find (fun e => snd e =? id) L) as [[s' i'] |] eqn:E.
  - apply find_some in E. destruct E as [Hin' Hi]. simpl in Hi. apply N.eqb_eq in Hi. subst i'.
    rewrite (uniq_id _ _ _ _ Hnd Hin Hin'). reflexivity.
  - exfalso. apply (find_none _ _ E) in Hin. simpl in Hin. rewrite N.eqb_refl in Hin. discriminate.
Qed.
Lemma key_of_sound L s id : In s (key_of L id) -> In (s, id) L.
Proof.
  unfold key_of. destruct (find (fun e => snd e =? id) L) as [[s' i'] |] eqn:E; simpl; [| tauto].
  intros [<- | []]. apply find_some in E. destruct E as [Hin Hi]. simpl in Hi. apply N.eqb_eq in Hi. subst. exact Hin.
Qed.

Lemma in_dedup x l : In x (dedup l) <-> In x l.
Proof.
  induction l as [| y r IH]; simpl; [tauto |]. destruct (mem y r) eqn:E.
  - rewrite IH. apply mem_spec in E. split; [auto |]. intros [<- | H]; auto.
  - simpl. rewrite IH. tauto.
Qed.

Theorem list_series_exact L m s : wfL L -> In s (list_series L m) <-> exists id, In (s, id) L /\ s_mst s = m.
Proof.
  intros Hwf. unfold list_series. rewrite in_flat_map. split.
  - intros (id & Hall & Hk). apply (proj1 (in_dedup _ _)) in Hall. apply sel_all in Hall. destruct Hall as (s' & Hin' & Hm & _).
    apply key_of_sound in Hk. destruct Hwf as [Hnd _]. rewrite (uniq_id _ _ _ _ Hnd Hk Hin'). eauto.
  - intros (id & Hin & Hm). exists id. split.
    + apply in_dedup. apply sel_all. exists s. auto.
    + destruct Hwf as [Hnd _]. rewrite (key_of_in _ _ _ Hnd Hin). left. reflexivity.
Qed.

Lemma in_tagitems L t : In t (postings L) <->
  exists s id, In (s, id) L /\ (t = (s_mst s, 0, 0, id) \/ exists k v, In (k, v) (s_tags s) /\ t = (s_mst s, k, v, id)).
Proof.
  unfold postings. rewrite in_flat_map. split.
  - intros ([s id] & Hin & Ht). apply in_items_of in Ht. simpl in Ht. exists s, id. split; auto.
    destruct Ht as [-> | ([k v] & Hkv & ->)]; [left; auto | right; exists k, v; auto].
  - intros (s & id & Hin & Ht). exists (s, id). split; auto. apply in_items_of. simpl.
    destruct Ht as [-> | (k & v & Hkv & ->)]; [left; auto | right; exists (k, v); auto].
Qed.

Theorem list_tag_values_exact L m k v : k <> 0 ->
  In v (list_tag_values L m k) <-> exists s id, In (s, id) L /\ s_mst s = m /\ In (k, v) (s_tags s).
Proof.
  intros Hk. unfold list_tag_values. rewrite in_map_iff. split.
  - intros (t & Ev & Ht). apply filter_In in Ht. destruct Ht as [Ht Hf]. apply andb_true_iff in Hf. destruct Hf as [Hm Hkk].
    apply N.eqb_eq in Hm. apply N.eqb_eq in Hkk. apply in_tagitems in Ht. destruct Ht as (s & id & Hin & [-> | (k' & v' & Hkv & ->)]).
    + exfalso. apply Hk. symmetry. exact Hkk.
    + unfold t_m, t_k, t_v in *. simpl in *. subst. eauto.
  - intros (s & id & Hin & Hm & Hkv). exists (s_mst s, k, v, id). split; [reflexivity |]. apply filter_In. split.
    + apply in_tagitems. exists s, id. split; auto. right. eauto.
    + unfold t_m, t_k. simpl. subst m. rewrite !N.eqb_refl. reflexivity.
Qed.

Theorem list_tag_keys_exact L m k : wfL L ->
  In k (list_tag_keys L m) <-> exists s id v, In (s, id) L /\ s_mst s = m /\ In (k, v) (s_tags s).
Proof.
  intros Hwf. unfold list_tag_keys. rewrite in_map_iff. split.
  - intros (t & Ek & Ht). apply filter_In in Ht. destruct Ht as [Ht Hf]. apply andb_true_iff in Hf. destruct Hf as [Hm Hnz].
    apply N.eqb_eq in Hm. apply negb_true_iff in Hnz. apply N.eqb_neq in Hnz.
    apply in_tagitems in Ht. destruct Ht as (s & id & Hin & [-> | (k' & v' & Hkv & ->)]).
    + exfalso. apply Hnz. reflexivity.
    + unfold t_m, t_k in *. simpl in *. exists s, id, v'. subst. auto.
  - intros (s & id & v & Hin & Hm & Hkv). exists (s_mst s, k, v, id). split; [reflexivity |]. apply filter_In. split.
    + apply in_tagitems. exists s, id. split; auto. right. eauto.
    + unfold t_m, t_k. simpl. subst m. rewrite N.eqb_refl. simpl. apply negb_true_iff. apply N.eqb_neq.
      apply (wf_tags_val _ _ _ (wfL_tags _ _ _ Hwf Hin) Hkv).
Qed.

(* ------------------------------------------------------------------------------------------------ ids *)
Definition wf (i : index) : Prop :=
  NoDup (map fst (store i)) /\ NoDup (map snd (store i)) /\
  (forall e, In e (store i) -> snd e <= next_id i) /\
  (forall e, In e (cache i) -> In e (store i)).

Lemma assoc_in L s id : assoc L s = Some id -> In (s, id) L.
Proof.
  unfold assoc. destruct (find (fun e => series_eqb (fst e) s) L) as [[s' i'] |] eqn:E; [| discriminate].
  intros H. inversion H; subst. apply find_some in E. destruct E as [Hin Heq]. simpl in Heq.
  apply series_eqb_true in Heq. subst. exact Hin.
Qed.
Lemma assoc_none L s : assoc L s = None -> ~ In s (map fst L).
Proof.
  unfold assoc. destruct (find (fun e => series_eqb (fst e) s) L) eqn:E; [discriminate |].
  intros _ Hin. apply in_map_iff in Hin. destruct Hin as (e & Ef & Hin). apply (find_none _ _ E) in Hin.
  rewrite Ef in Hin. assert (series_eqb s s = true) by (apply series_eqb_true; reflexivity). congruence.
Qed.
Lemma uniq_key (L : list entry) s id id' : NoDup (map fst L) -> In (s, id) L -> In (s, id') L -> id = id'.
Proof.
  induction L as [| [s0 i0] r IH]; simpl; intros Hnd H1 H2; [contradiction |].
  inversion Hnd as [| ? ? Hni Hnd']; subst.
  destruct H1 as [E1 | H1], H2 as [E2 | H2].
  - congruence.
  - inversion E1; subst. exfalso. apply Hni. change s with (fst (s, id')). apply in_map. exact H2.
  - inversion E2; subst. exfalso. apply Hni. change s with (fst (s, id)). apply in_map. exact H1.
  - eauto.
Qed.
Lemma assoc_of_in L s id : NoDup (map fst L) -> In (s, id) L -> assoc L s = Some id.
Proof.
  intros Hnd Hin. destruct (assoc L s) as [id' |] eqn:E.
  - apply assoc_in in E. f_equal. apply (uniq_key L s id' id Hnd E Hin).
  - exfalso. apply (assoc_none _ _ E). change s with (fst (s, id)). apply in_map. exact Hin.
Qed.

Lemma lookup_repaired_iff i s id : wf i -> lookup slow_repaired i s = Some id <-> In (s, id) (store i).
Proof.
  intros (Hk & _ & _ & Hc). unfold lookup, slow_repaired. split.
  - destruct (assoc (cache i) s) as [c |] eqn:E.
    + intros H. inversion H; subst. apply Hc. apply assoc_in. exact E.
    + apply assoc_in.
  - intros Hin. destruct (assoc (cache i) s) as [c |] eqn:E.
    + apply assoc_in in E. apply Hc in E. f_equal. apply (uniq_key _ _ _ _ Hk E Hin).
    + apply assoc_of_in; auto.
Qed.

Lemma wf_empty n : wf (empty_index n).
Proof. unfold wf, store. simpl. repeat split; try constructor; intros e []. Qed.

Lemma nodup_snoc {A} (l : list A) x : NoDup l -> ~ In x l -> NoDup (l ++ [x]).
Proof.
  induction l as [| y r IH]; simpl; intros Hnd Hni.
  - constructor; [intros [] | constructor].
  - inversion Hnd; subst. constructor.
    + rewrite in_app_iff. simpl. intros [H | [H | []]]; [contradiction | apply Hni; left; symmetry; exact H].
    + apply IH; auto.
Qed.

Lemma insert_repaired_wf i s : wf i -> wf (fst (insert slow_repaired i s)).
Proof.
  intros Hwf. pose proof Hwf as (Hk & Hi & Hb & Hc). unfold insert.
  destruct (lookup slow_repaired i s) as [id |] eqn:E; simpl.
  - apply lookup_repaired_iff in E; auto. unfold wf, store in *. simpl. repeat split; auto.
    intros e [<- | He]; auto.
  - assert (Hns : ~ In s (map fst (store i))).
    { unfold lookup, slow_repaired in E. destruct (assoc (cache i) s); [discriminate |]. apply assoc_none. exact E. }
    unfold wf, store in *. simpl. rewrite app_assoc. repeat split.
    + rewrite map_app. simpl. apply nodup_snoc; auto.
    + rewrite map_app. simpl. apply nodup_snoc; auto. intros Hin. apply in_map_iff in Hin.
      destruct Hin as (e & Ee & Hin). apply Hb in Hin. rewrite Ee in Hin. lia.
    + intros e Hin. apply in_app_iff in Hin. destruct Hin as [Hin | [<- | []]]; simpl; [apply Hb in Hin; lia | lia].
    + intros e [<- | He]; apply in_app_iff; [right; left; reflexivity | left; auto].
Qed.

Lemma step_repaired_wf i o : wf i -> wf (fst (step slow_repaired i o)).
Proof.
  intros Hwf. destruct o as [s | | | b]; simpl.
  - pose proof (insert_repaired_wf i s Hwf) as H. destruct (insert slow_repaired i s). exact H.
  - destruct Hwf as (Hk & Hi & Hb & Hc). unfold wf, store in *. simpl. rewrite app_nil_r. auto.
  - destruct Hwf as (Hk & Hi & Hb & Hc). unfold wf, store in *. simpl. repeat split; auto. intros e [].
  - destruct Hwf as (Hk & Hi & Hb & Hc). unfold wf, store in *. simpl. rewrite app_nil_r. repeat split; auto.
    intros e He. apply Hb in He. lia.
Qed.
Lemma run_repaired_wf os : forall i, wf i -> wf (fst (run slow_repaired i os)).
Proof.
  induction os as [| o r IH]; simpl; intros i Hwf; auto.
  pose proof (step_repaired_wf i o Hwf) as H1. destruct (step slow_repaired i o) as [i1 x]. simpl in H1.
  pose proof (IH i1 H1) as H2. destruct (run slow_repaired i1 r) as [i2 xs]. exact H2.
Qed.

(* the store only grows *)
Lemma step_store_mono slow i o e : In e (store i) -> In e (store (fst (step slow i o))).
Proof.
  intros Hin. destruct o as [s | | | b]; simpl; unfold store in *; simpl.
  - unfold insert. destruct (lookup slow i s); simpl; auto. rewrite app_assoc. apply in_app_iff. left. exact Hin.
  - rewrite app_nil_r. exact Hin.
  - exact Hin.
  - rewrite app_nil_r. exact Hin.
Qed.
Lemma run_store_mono slow os : forall i e, In e (store i) -> In e (store (fst (run slow i os))).
Proof.
  induction os as [| o r IH]; simpl; intros i e Hin; auto.
  pose proof (step_store_mono slow i o e Hin) as H1. destruct (step slow i o) as [i1 x]. simpl in H1.
  pose proof (IH i1 e H1) as H2. destruct (run slow i1 r) as [i2 xs]. exact H2.
Qed.

Lemma insert_repaired_returns i s : wf i ->
  In (s, snd (insert slow_repaired i s)) (store (fst (insert slow_repaired i s))).
Proof.
  intros Hwf. unfold insert. destruct (lookup slow_repaired i s) as [id |] eqn:E; simpl.
  - apply lookup_repaired_iff in E; auto.
  - unfold store. simpl. rewrite app_assoc. apply in_app_iff. right. left. reflexivity.
Qed.
Lemma insert_repaired_known i s id : wf i -> In (s, id) (store i) -> snd (insert slow_repaired i s) = id.
Proof.
  intros Hwf Hin. apply lookup_repaired_iff in Hin; auto. unfold insert. rewrite Hin. reflexivity.
Qed.

Theorem id_injective_store i s1 s2 id : wf i -> In (s1, id) (store i) -> In (s2, id) (store i) -> s1 = s2.
Proof. intros (_ & Hi & _) H1 H2. apply (uniq_id _ _ _ _ Hi H1 H2). Qed.
Theorem id_functional_store i s id1 id2 : wf i -> In (s, id1) (store i) -> In (s, id2) (store i) -> id1 = id2.
Proof. intros (Hk & _) H1 H2. apply (uniq_key _ _ _ _ Hk H1 H2). Qed.

(* once a series has been given an id, any later insert of it - after any operations - returns that id *)
Theorem id_stable_trace n os1 s os2 :
  let i1 := fst (run slow_repaired (empty_index n) os1) in
  let r := insert slow_repaired i1 s in
  let i3 := fst (run slow_repaired (fst r) os2) in
  snd (insert slow_repaired i3 s) = snd r.
Proof.
  intros i1 r i3.
  assert (W1 : wf i1) by (apply run_repaired_wf, wf_empty).
  assert (W2 : wf (fst r)) by (apply insert_repaired_wf; exact W1).
  assert (W3 : wf i3) by (apply run_repaired_wf; exact W2).
  apply insert_repaired_known; auto. apply run_store_mono. apply insert_repaired_returns. exact W1.
Qed.

(* two different series never share an id, whatever was done in between *)
Theorem id_injective_trace n os s1 s2 id :
  let i := fst (run slow_repaired (empty_index n) os) in
  In (s1, id) (store i) -> In (s2, id) (store i) -> s1 = s2.
Proof. intros i. apply id_injective_store. apply run_repaired_wf, wf_empty. Qed.

Theorem cache_agrees i s id : wf i -> assoc (cache i) s = Some id -> slow_repaired i s = Some id.
Proof.
  intros (Hk & _ & _ & Hc) E. apply assoc_in in E. apply Hc in E. unfold slow_repaired. apply assoc_of_in; auto.
Qed.

(* the searchable part of a reachable index satisfies the hypotheses of the search theorem provided every inserted key
   is a well-formed series key *)
Definition op_ok (o : op) : Prop := match o with Insert s => wf_tags (s_tags s) | _ => True end.
Definition tags_ok (i : index) : Prop := Forall (fun e => wf_tags (s_tags (fst e))) (store i).

Lemma step_tags_ok slow i o : op_ok o -> tags_ok i -> tags_ok (fst (step slow i o)).
Proof.
  unfold tags_ok. intros Hop Ht. destruct o as [s | | | b]; simpl; unfold store in *; simpl.
  - unfold insert. destruct (lookup slow i s); simpl; auto. rewrite app_assoc. apply Forall_app. split; auto.
  - rewrite app_nil_r. exact Ht.
  - exact Ht.
  - rewrite app_nil_r. exact Ht.
Qed.
Lemma run_tags_ok slow os : forall i, Forall op_ok os -> tags_ok i -> tags_ok (fst (run slow i os)).
Proof.
  induction os as [| o r IH]; simpl; intros i Hos Ht; auto. inversion Hos; subst.
  pose proof (step_tags_ok slow i o H1 Ht) as T1. destruct (step slow i o) as [i1 x]. simpl in T1.
  pose proof (IH i1 H2 T1) as T2. destruct (run slow i1 r) as [i2 xs]. exact T2.
Qed.

Lemma nodup_app_l {A} (a b : list A) : NoDup (a ++ b) -> NoDup a.
Proof. induction a as [| x r IH]; simpl; intros H; [constructor |]. inversion H; subst. constructor; [rewrite in_app_iff in *; tauto | auto]. Qed.

Theorem reachable_search_is_bruteforce am n os m e :
  Forall op_ok os -> expr_ok e ->
  let i := fst (run slow_repaired (empty_index n) os) in
  forall id, In id (search am (postings (vis i)) m e) <-> In id (bruteforce am (vis i) m e).
Proof.
  intros Hos Hok i id. apply search_is_bruteforce; auto. split.
  - assert (W : wf i) by (apply run_repaired_wf, wf_empty). destruct W as (_ & Hi & _). unfold store in Hi.
    rewrite map_app in Hi. apply nodup_app_l in Hi. exact Hi.
  - assert (T : tags_ok i) by (apply run_tags_ok; [exact Hos | unfold tags_ok, store; simpl; constructor]).
    unfold tags_ok, store in T. apply Forall_app in T. tauto.
Qed.
