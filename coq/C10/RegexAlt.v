(* C10 - a fourth exact shape: ^(lit|lit|...)$ (with or without the capture): the translation turns it into exact-value
   lookups, which is what the fully anchored alternation means. *)
From Coq Require Import NArith List Bool Arith Lia.
From OG Require Import C10.Regex C10.RegexProofs.
Import ListNotations.

Definition lits (ls : list (list N)) : list re := map (RLit false) ls.

Lemma map_simplify_lits hp hs ls : map (fun a => simplify_ext a hp hs) (lits ls) = lits ls.
Proof. unfold lits. induction ls; simpl; auto. rewrite IHls. reflexivity. Qed.
Lemma norm_lits ls : map norm (lits ls) = lits ls.
Proof. unfold lits. induction ls; simpl; auto. rewrite IHls. reflexivity. Qed.
Lemma unalt_lits ls : flat_map unalt (lits ls) = lits ls.
Proof. unfold lits. induction ls; simpl; auto. rewrite IHls. reflexivity. Qed.

Lemma re_eqb_lits ls :
  (fix go (x y : list re) {struct x} : bool :=
     match x, y with [], [] => true | p :: x', q :: y' => re_eqb p q && go x' y' | _, _ => false end) (lits ls) (lits ls) = true.
Proof. unfold lits. induction ls; simpl; auto. rewrite list_eqb_refl, IHls. reflexivity. Qed.

Lemma mk_alt_lits a b ls : mk_alt (lits (a :: b :: ls)) = RAlt (lits (a :: b :: ls)).
Proof. reflexivity. Qed.

Lemma simplify_round_alt ls : simplify_round (RAlt (lits ls)) = mk_alt (lits ls).
Proof.
  unfold simplify_round. cbn [simplify_ext]. rewrite map_simplify_lits. cbn [norm]. rewrite norm_lits, unalt_lits.
  destruct ls as [| a [| b t]]; reflexivity.
Qed.

Lemma simplify_alt a b ls : simplify (RAlt (lits (a :: b :: ls))) = RAlt (lits (a :: b :: ls)).
Proof.
  apply simplify_fix.
  - rewrite simplify_round_alt. reflexivity.
  - cbn [re_eqb]. apply re_eqb_lits.
Qed.

(* both spellings of the anchored alternation are rewritten to the bare alternation in one round *)
Lemma simplify_round_anchored_cap a b ls :
  simplify_round (RConcat [RBeginText; RCapture (RAlt (lits (a :: b :: ls))); REndText]) = RAlt (lits (a :: b :: ls)).
Proof.
  unfold simplify_round. cbn [simplify_ext nonempty negb]. rewrite map_simplify_lits.
  cbn [is_empty first_is last_is rev app is_begin is_end drop_begins drop_ends andb].
  cbn [norm map flat_map]. rewrite norm_lits, unalt_lits.
  change (mk_alt (lits (a :: b :: ls))) with (RAlt (lits (a :: b :: ls))).
  cbn [unalt app]. rewrite !app_nil_r.
  change (mk_alt (lits (a :: b :: ls))) with (RAlt (lits (a :: b :: ls))). reflexivity.
Qed.
Lemma simplify_round_anchored_nocap a b ls :
  simplify_round (RConcat [RBeginText; RAlt (lits (a :: b :: ls)); REndText]) = RAlt (lits (a :: b :: ls)).
Proof.
  unfold simplify_round. cbn [simplify_ext nonempty negb]. rewrite map_simplify_lits.
  cbn [is_empty first_is last_is rev app is_begin is_end drop_begins drop_ends andb].
  cbn [norm map flat_map]. rewrite norm_lits, unalt_lits. rewrite ?app_nil_r.
  change (mk_alt (lits (a :: b :: ls))) with (RAlt (lits (a :: b :: ls))). reflexivity.
Qed.

Lemma simplify_anchored_cap a b ls :
  simplify (RConcat [RBeginText; RCapture (RAlt (lits (a :: b :: ls))); REndText]) = RAlt (lits (a :: b :: ls)).
Proof.
  apply simplify_step; [apply simplify_round_anchored_cap | reflexivity | rewrite simplify_round_alt; reflexivity |].
  cbn [re_eqb]. apply re_eqb_lits.
Qed.
Lemma simplify_anchored_nocap a b ls :
  simplify (RConcat [RBeginText; RAlt (lits (a :: b :: ls)); REndText]) = RAlt (lits (a :: b :: ls)).
Proof.
  apply simplify_step; [apply simplify_round_anchored_nocap | reflexivity | rewrite simplify_round_alt; reflexivity |].
  cbn [re_eqb]. apply re_eqb_lits.
Qed.

(* getOrValues of an alternation of at most 20 literals is the list of the literals *)
Lemma or_values_alt_go ls : forall acc, length acc + length ls <= max_or_values ->
  (fix go (l : list re) (acc : list (list N)) : list (list N) :=
     match l with
     | [] => acc
     | a :: t => match or_values a with
                 | [] => []
                 | ca => let acc' := acc ++ ca in if max_or_values <? length acc' then [] else go t acc'
                 end
     end) (lits ls) acc = acc ++ ls.
Proof.
  induction ls as [| x t IH]; intros acc Hlen; cbn [lits map].
  - rewrite app_nil_r. reflexivity.
  - cbn [or_values]. cbn [length] in Hlen.
    assert (E : (max_or_values <? length (acc ++ [x])) = false).
    { apply Nat.ltb_ge. rewrite app_length. simpl. lia. }
    cbv zeta. rewrite E. fold (lits t). rewrite IH.
    + rewrite <- app_assoc. reflexivity.
    + rewrite app_length. simpl. lia.
Qed.
Lemma or_values_alt ls : length ls <= max_or_values -> or_values (RAlt (lits ls)) = ls.
Proof. intros H. cbn [or_values]. rewrite or_values_alt_go; auto. Qed.

Lemma lit_pre_eqb l v : lit_pre false l v && Nat.eqb (length l) (length v) = list_eqb v l.
Proof.
  revert v. induction l as [| a l IH]; intros [| b v]; simpl; auto.
  rewrite <- IH. unfold ceq. rewrite (N.eqb_sym a b). destruct (b =? a)%N; reflexivity.
Qed.

(* positions reached from an empty set stay empty *)
Lemma concat_go_nil w rs :
  (fix go (l : list re) (is : list nat) : list nat :=
     match l with [] => is | a :: t => go t (step_all (ends w a) is) end) rs [] = [].
Proof. induction rs; simpl; auto. Qed.

Lemma in_alt_lits w ls j :
  In j ((fix go (l : list re) : list nat := match l with [] => [] | a :: t => nunion (ends w a 0) (go t) end) (lits ls))
  <-> exists l, In l ls /\ lit_pre false l w = true /\ j = length l.
Proof.
  induction ls as [| x t IH]; cbn [lits map].
  - split; [intros [] | intros (l & [] & _)].
  - rewrite in_nunion. fold (lits t). rewrite IH. cbn [ends skipn]. split.
    + intros [H | (l & Hl & Hp & Hj)].
      * destruct (lit_pre false x w) eqn:E; [| destruct H]. destruct H as [<- | []]. exists x. simpl. auto.
      * exists l. simpl. auto.
    + intros (l & [<- | Hl] & Hp & Hj).
      * left. rewrite Hp. left. simpl. auto.
      * right. exists l. auto.
Qed.

Lemma nonempty_in {A} (l : list A) : nonempty l = true <-> exists x, In x l.
Proof. destruct l; simpl; split; try discriminate; auto. - intros (x & []). - intros _. exists a. auto. Qed.

(* the anchored alternation matches exactly the values that are one of the literals *)
Lemma unanch_anchored_alt (inner : re) ls w :
  (forall i, ends w inner i = (fix go (l : list re) : list nat := match l with [] => [] | a :: t => nunion (ends w a i) (go t) end) (lits ls)) ->
  unanch (RConcat [RBeginText; inner; REndText]) w = existsb (list_eqb w) ls.
Proof.
  intros Hin. unfold unanch. cbn [seq existsb].
  replace (existsb _ (seq 1 (length w))) with false.
  - rewrite orb_false_r. cbn [ends Nat.eqb step_all fold_right nunion nmem existsb].
    apply eq_true_iff_eq. rewrite nonempty_in, existsb_exists. split.
    + intros (j & Hj). apply in_step_all in Hj. destruct Hj as (k & Hk & Hj).
      rewrite app_nil_r in Hk || idtac.
      assert (Hk' : In k (ends w inner 0)).
      { apply in_nunion in Hk. destruct Hk as [Hk | []]. exact Hk. }
      rewrite Hin in Hk'. apply in_alt_lits in Hk'. destruct Hk' as (l & Hl & Hp & ->).
      cbn [ends] in Hj. destruct (Nat.eqb (length l) (length w)) eqn:E; [| destruct Hj].
      exists l. split; auto. rewrite <- lit_pre_eqb, Hp, E. reflexivity.
    + intros (l & Hl & He). rewrite <- lit_pre_eqb in He. apply andb_true_iff in He. destruct He as [Hp E].
      exists (length l). apply in_step_all. exists (length l). split.
      * apply in_nunion. left. rewrite Hin. apply in_alt_lits. exists l. auto.
      * cbn [ends]. rewrite E. left. reflexivity.
  - symmetry. apply existsb_false_in. intros i Hi. apply in_seq in Hi. destruct i as [| j]; [lia |].
    cbn [ends Nat.eqb step_all fold_right]. apply (f_equal nonempty (concat_go_nil w [inner; REndText])).
Qed.

Lemma lits_of_inv l ls : lits_of l = Some ls -> l = lits ls /\ Forall (fun x => x <> []) ls.
Proof.
  revert ls. induction l as [| a t IH]; intros ls H; cbn [lits_of] in H.
  - inversion H. split; [reflexivity | constructor].
  - destruct a as [| f x | | | | | | | | | | | | | | | |]; try discriminate.
    destruct f; [discriminate |]. destruct x as [| c x]; [discriminate |].
    destruct (lits_of t) as [r |] eqn:E; [| discriminate]. inversion H; subst.
    destruct (IH r eq_refl) as [-> Hf]. split; [reflexivity | constructor; [discriminate | exact Hf]].
Qed.

Lemma existsb_eqb_nil ls : Forall (fun x : list N => x <> []) ls -> existsb (list_eqb []) ls = false.
Proof. induction 1 as [| x t Hx Ht IH]; simpl; auto. destruct x; [contradiction | exact IH]. Qed.

Lemma current_exact_anchored_alt inner ls v :
  (inner = RCapture (RAlt (lits ls)) \/ inner = RAlt (lits ls)) ->
  2 <= length ls -> length ls <= max_or_values -> Forall (fun x => x <> []) ls ->
  match v with Some x => plain x | None => True end ->
  current_match (RConcat [RBeginText; inner; REndText]) v = repaired_match (RConcat [RBeginText; inner; REndText]) v.
Proof.
  intros Hi H2 H20 Hne Hp.
  assert (Hends : forall w i, ends w inner i =
            (fix go (l : list re) : list nat := match l with [] => [] | a :: t => nunion (ends w a i) (go t) end) (lits ls)).
  { intros w i. destruct Hi as [-> | ->]; reflexivity. }
  assert (Hun : forall w, unanch (RConcat [RBeginText; inner; REndText]) w = existsb (list_eqb w) ls).
  { intros w. apply unanch_anchored_alt. intros i. apply Hends. }
  assert (Hsimp : simplify (RConcat [RBeginText; inner; REndText]) = RAlt (lits ls)).
  { destruct ls as [| a [| b t]]; try (simpl in H2; lia).
    destruct Hi as [-> | ->]; [apply simplify_anchored_cap | apply simplify_anchored_nocap]. }
  unfold current_match, repaired_match. rewrite Hun, (existsb_eqb_nil ls Hne).
  destruct v as [x |]; [| rewrite Hun, (existsb_eqb_nil ls Hne); reflexivity].
  rewrite Hsimp, Hun. cbn [extract_prefix is_literal]. cbn [esc flat_map strip_prefix].
  unfold suffix_match. rewrite (or_values_alt ls H20). rewrite (esc_plain x Hp).
  destruct ls as [| a t]; [simpl in H2; lia | reflexivity].
Qed.

Lemma as_anchored_alt_inv r ls : as_anchored_alt r = Some ls ->
  exists inner, r = RConcat [RBeginText; inner; REndText] /\ (inner = RCapture (RAlt (lits ls)) \/ inner = RAlt (lits ls)) /\
                2 <= length ls /\ length ls <= max_or_values /\ Forall (fun x => x <> []) ls.
Proof.
  destruct r as [| f l | cr | | | | | | | | | a | a | a | a | mn mx a | rs | rs]; try discriminate.
  destruct rs as [| x0 [| inner [| x2 [| x3 t]]]]; try discriminate; cbn [as_anchored_alt].
  - destruct x0; discriminate.
  - destruct x0; discriminate.
  - destruct x0; try discriminate. destruct x2; try discriminate.
    destruct (alt_inner inner) as [l |] eqn:Ei; [| discriminate].
    destruct (lits_of l) as [ls' |] eqn:El; [| discriminate].
    destruct ((2 <=? length ls') && (length ls' <=? max_or_values) && forallb plainb ls') eqn:Ec; [| discriminate].
    intros H. inversion H; subst ls'. apply andb_true_iff in Ec. destruct Ec as [Ec _]. apply andb_true_iff in Ec.
    destruct Ec as [E2 E20]. apply Nat.leb_le in E2. apply Nat.leb_le in E20.
    destruct (lits_of_inv l ls El) as [-> Hne]. exists inner. repeat split; auto.
    destruct inner as [| | | | | | | | | | | a | | | | | | rs']; try discriminate.
    + destruct a; try discriminate. cbn in Ei. inversion Ei. left. reflexivity.
    + cbn in Ei. inversion Ei. right. reflexivity.
  - destruct x0; try discriminate. destruct x2; discriminate.
Qed.

(* For a pattern of an exact shape and a value without the separator bytes 0, 1, 2 (or the absent tag), what the index
   matches today is what the language's unanchored matching selects. *)
Theorem current_regex_exact r v :
  exact_shape r = true -> match v with Some x => plain x | None => True end ->
  current_match r v = repaired_match r v.
Proof.
  unfold exact_shape, shape_of. intros Hs Hp.
  destruct (as_literal r) as [x |] eqn:E1.
  - apply as_literal_inv in E1. destruct E1 as (c & l & _ & ->). apply current_exact_literal. exact Hp.
  - destruct (as_begin_literal r) as [x |] eqn:E2.
    + apply as_begin_literal_inv in E2. destruct E2 as (c & l & _ & -> & Ep).
      apply current_exact_begin_literal; [apply plainb_spec; exact Ep | exact Hp].
    + destruct (as_anchored_alt r) as [ls |] eqn:E3.
      * apply as_anchored_alt_inv in E3. destruct E3 as (inner & -> & Hi & H2 & H20 & Hne).
        apply current_exact_anchored_alt with (ls := ls); auto.
      * destruct (negb (has_assert r) && nullable r) eqn:E; [| discriminate].
        apply andb_true_iff in E. destruct E as [Ea En]. apply negb_true_iff in Ea.
        apply current_exact_matchall; assumption.
Qed.
