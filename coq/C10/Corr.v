(* C10 correspondence evaluator: replays a harness case on the model and reports where the model's observables differ from
   what the implementation produced. Strings are interned by the driver (0 = empty string). The meaning of regex atoms is
   given as a finite table measured by the harness (pattern id, value id) - the model never interprets patterns. *)
From Coq Require Import NArith List Bool.
From OG Require Import C10.Model.
Import ListNotations.
Open Scope N_scope.

Inductive cop :=
| CInsert (s : series) (id : N)
| CFlush
| CClear
| CReopen (b : N)
(* predicate e (regex atoms read through the index's own translation table), alternative readings of e in which some regex
   atoms are read through Go regexp (the pruning path evaluates them that way), ids by the show-series path, ids by the
   select path *)
| CQuery (m : N) (e : expr) (alts : list expr) (ids1 ids2 : list N)
| CList (m : N) (ss : list series) (keys : list N) (vals : list (N * list N)).

Definition am_tab (tab : list (N * N)) (p v : N) : bool :=
  existsb (fun x => (fst x =? p) && (snd x =? v)) tab.

Definition subset (a b : list N) : bool := forallb (fun x => mem x b) a.
Definition set_eqb (a b : list N) : bool := subset a b && subset b a.
Definition smem (s : series) (l : list series) : bool := existsb (series_eqb s) l.
Definition sset_eqb (a b : list series) : bool :=
  (N.of_nat (length a) =? N.of_nat (length b)) && forallb (fun x => smem x b) a && forallb (fun x => smem x a) b.

(* codes: 1 insert id, 3 ids by the show-series path, 5 ids by the select path (no reading matches), 6 series listing,
   7 tag-key listing, 8 tag-value listing *)
Definition check_op (cl cn : bool) (tab : list (N * N)) (i : index) (o : cop) : index * list N :=
  let slow := if cl then slow_current else slow_repaired in
  let am := am_tab tab in
  match o with
  | CInsert s id => let (i', id') := insert slow i s in (i', if id' =? id then [] else [1])
  | CFlush => (fst (step slow i Flush), [])
  | CClear => (fst (step slow i ClearCache), [])
  | CReopen b => (fst (step slow i (Reopen b)), [])
  | CQuery m e alts ids1 ids2 =>
      let T := postings (vis i) in
      let p1 := if cn then search_ids_top_current am T m e else search_ids_repaired am T m e in
      (i, (if set_eqb p1 ids1 then [] else [3]) ++
          (if existsb (fun e' => set_eqb (search am T m e') ids2) (e :: alts) then [] else [5]))
  | CList m ss keys vals =>
      (i, (if sset_eqb (list_series (vis i) m) ss then [] else [6]) ++
          (if set_eqb (list_tag_keys (vis i) m) keys then [] else [7]) ++
          (if forallb (fun kv => set_eqb (list_tag_values (vis i) m (fst kv)) (snd kv)) vals then [] else [8]))
  end.

(* cl: key lookup as today (flushed items only); cn: show-series path as today (nil = no constraint) *)
Fixpoint check_ops (cl cn : bool) (tab : list (N * N)) (k : nat) (i : index) (os : list cop) : list (nat * N) :=
  match os with
  | [] => []
  | o :: r => let (i', bad) := check_op cl cn tab i o in map (fun c => (k, c)) bad ++ check_ops cl cn tab (S k) i' r
  end.

Definition ccase := (N * list (N * N) * list cop)%type.   (* initial generator value, atom table, ops *)
Definition check_case (cl cn : bool) (c : ccase) : list (nat * N) :=
  check_ops cl cn (snd (fst c)) 0 (empty_index (fst (fst c))) (snd c).

Fixpoint mismatches_from (cl cn : bool) (k : nat) (cs : list ccase) : list (nat * nat * N) :=
  match cs with
  | [] => []
  | c :: r => map (fun x => (k, fst x, snd x)) (check_case cl cn c) ++ mismatches_from cl cn (S k) r
  end.
Definition mismatches (cl cn : bool) := mismatches_from cl cn 0.
