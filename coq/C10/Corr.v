(* C10 correspondence evaluator: replays a harness case on the model and reports where the model's observables differ from
   what the implementation produced. Strings are interned by the driver (0 = empty string). The meaning of regex atoms is
   given as a finite table measured by the harness (pattern id, value id) - the model never interprets patterns. *)
From Coq Require Import NArith List Bool.
From OG Require Import C10.Model C10.Regex C10.RegexNew C10.ListingCond.
Import ListNotations.
Open Scope N_scope.

Inductive cop :=
| CInsert (s : series) (id : N)
| CFlush
| CNop            (* an observation the model does not cover (a predicate with a tag = tag comparison): judged by the oracle only *)
| CBgFlush        (* the table's own periodic flush: the raw items become visible like with a forced flush *)
| CClear
| CReopen (b : N)
(* predicate e (regex atoms read through the index's own translation table), alternative readings of e in which some regex
   atoms are read through Go regexp (the pruning path evaluates them that way), ids by the show-series path, ids by the
   select path *)
| CQuery (m : N) (e : expr) (alts : list expr) (ids1 ids2 : list N)
(* the same with alternative readings of the predicate for the show-series path (alts1): code 30 (information, not a
   mismatch) when the show-series path equals one of them and not the predicate itself *)
| CQueryA (m : N) (e : expr) (alts1 alts : list expr) (ids1 ids2 : list N)
| CCondA (m : N) (e : expr) (alts1 : list expr) (card : N) (ss : list series) (vals : list (N * list N)) (vcards : list (N * N))
| CList (m : N) (ss : list series) (keys : list N) (vals : list (N * list N))
(* a predicate with IN / NOT IN atoms (rendered as OR of = / AND of !=): only the select path implements them *)
| CQuery2 (m : N) (e : expr) (alts : list expr) (ids2 : list N)
(* listings with a condition and cardinalities: series cardinality, series keys, tag values per key under the condition,
   number of distinct values per key (unconditional) *)
| CCond (m : N) (e : expr) (card : N) (ss : list series) (vals : list (N * list N)) (vcards : list (N * N)).

Definition am_tab (tab : list (N * N)) (p v : N) : bool :=
  existsb (fun x => (fst x =? p) && (snd x =? v)) tab.

Definition subset (a b : list N) : bool := forallb (fun x => mem x b) a.
Definition set_eqb (a b : list N) : bool := subset a b && subset b a.
Definition smem (s : series) (l : list series) : bool := existsb (series_eqb s) l.
Definition sset_eqb (a b : list series) : bool :=
  (N.of_nat (length a) =? N.of_nat (length b)) && forallb (fun x => smem x b) a && forallb (fun x => smem x a) b.

(* codes: 1 insert id, 3 ids by the show-series path, 5 ids by the select path (no reading matches), 6 series listing,
   7 tag-key listing, 8 tag-value listing, 11 series cardinality with condition, 12 series keys with condition, 13 tag values
   with condition, 14 tag value cardinality *)
Definition cond_codes (cn : bool) (am : N -> N -> bool) (i : index) (m : N) (e : expr) (card : N) (ss : list series)
    (vals : list (N * list N)) (vcards : list (N * N)) : list N :=
  let T := postings (vis i) in
  let p1 := dedup (if cn then search_ids_top_current am T m e else search_ids_repaired am T m e) in
  (if N.of_nat (length p1) =? card then [] else [11]) ++
  (if sset_eqb (flat_map (key_of (vis i)) p1) ss then [] else [12]) ++
  (if forallb (fun kv => set_eqb (map t_v (filter (fun t => (t_m t =? m) && (t_k t =? fst kv) && mem (t_id t) p1) T)) (snd kv)) vals
   then [] else [13]) ++
  (if forallb (fun kc => N.of_nat (tag_value_cardinality (vis i) m (fst kc)) =? snd kc) vcards then [] else [14]).
Definition check_op (cl cn : bool) (tab : list (N * N)) (i : index) (o : cop) : index * list N :=
  let slow := if cl then slow_current else slow_repaired in
  let am := am_tab tab in
  match o with
  | CInsert s id => let (i', id') := insert slow i s in (i', if id' =? id then [] else [1])
  | CFlush => (fst (step slow i Flush), [])
  | CBgFlush => (fst (step slow i Flush), [])
  | CNop => (i, [])
  | CClear => (fst (step slow i ClearCache), [])
  | CReopen b => (fst (step slow i (Reopen b)), [])
  | CQuery m e alts ids1 ids2 =>
      let T := postings (vis i) in
      let p1 := if cn then search_ids_top_current am T m e else search_ids_repaired am T m e in
      (i, (if set_eqb p1 ids1 then [] else [3]) ++
          (if existsb (fun e' => set_eqb (search am T m e') ids2) (e :: alts) then [] else [5]))
  | CQuery2 m e alts ids2 =>
      let T := postings (vis i) in
      (i, if existsb (fun e' => set_eqb (search am T m e') ids2) (e :: alts) then [] else [5])
  | CCond m e card ss vals vcards => (i, cond_codes cn am i m e card ss vals vcards)
  | CCondA m e alts1 card ss vals vcards =>
      let c0 := cond_codes cn am i m e card ss vals vcards in
      (i, match c0 with
          | [] => []
          | _ => if existsb (fun e' => match cond_codes cn am i m e' card ss vals vcards with [] => true | _ => false end) alts1
                 then [30] else c0
          end)
  | CQueryA m e alts1 alts ids1 ids2 =>
      let T := postings (vis i) in
      let p1 := fun x => if cn then search_ids_top_current am T m x else search_ids_repaired am T m x in
      (i, (if set_eqb (p1 e) ids1 then [] else if existsb (fun e' => set_eqb (p1 e') ids1) alts1 then [30] else [3]) ++
          (if existsb (fun e' => set_eqb (search am T m e') ids2) (e :: alts) then [] else [5]))
  | CList m ss keys vals =>
      (i, (if sset_eqb (list_series (vis i) m) ss then [] else [6]) ++
          (if set_eqb (list_tag_keys (vis i) m) keys then [] else [7]) ++
          (if forallb (fun kv => set_eqb (list_tag_values (vis i) m (fst kv)) (snd kv)) vals then [] else [8]))
  end.

(* cl: key lookup as today (flushed items only); cn: show-series path as today (nil = no constraint) *)
Fixpoint check_ops (cl cn : bool) (tab : list (N * N)) (k : nat) (i : index) (os : list cop) : list (nat * N) :=
  match os with
  | [] => []
  | o :: r => let (i', bad) := check_op cl cn tab i o in map (fun c => (k, c)) bad ++ check_ops cl cn tab (S k) i' r
  end.

(* ---- regex atoms through the model of the translation (Regex.v). A case carries the syntax tree of every pattern it
   uses (pattern number -> tree), the runes of every interned string, and the rows measured on the implementation:
   (pattern number, string id (0 = the absent tag), Go regexp's answer, the index's answer). Pattern reading 2n is the
   index's translation of pattern n (today's or the repaired one, switch cr), reading 2n+1 is the language (Go regexp,
   as the pruning path evaluates a regex atom). *)
(* cr = true: the translation before /repo commit f7a71a4 (Regex.current_match); cr = false: the translation since then
   (RegexNew.new_match: or-value lookups for ^X$, literal prefix for ^lit.., scan with the compiled expression on the unescaped
   value, match-everything and empty-match handling), proved equal to unanchored matching *)
Definition index_match (cr : bool) (r : re) (v : option (list N)) : bool :=
  if cr then current_match r v else new_match r v.
(* a pattern of a case: number, its tree, and the tree of the filter's value text after Init (what doPrune compiles; today
   the literal text re-read as an expression when the pattern was reduced to a literal, else the pattern itself) *)
Definition cpat := (N * re * re)%type.
Definition model_tab (cr : bool) (pats : list cpat) (strs : list (N * list N)) : list (N * N) :=
  flat_map (fun p =>
    flat_map (fun v =>
      (if index_match cr (snd (fst p)) (str_of strs v) then [(2 * fst (fst p), v)] else []) ++
      (if repaired_match (snd p) (str_of strs v) then [(2 * fst (fst p) + 1, v)] else []))
      (0 :: map fst strs)) pats.

Definition arow := (N * N * bool * bool)%type.     (* pattern number, string id, Go regexp, index *)
(* codes: 9 the model's matcher differs from Go regexp; 10 the index's answer differs from the model of the translation *)
Fixpoint check_rows (cr : bool) (pats : list (N * re)) (strs : list (N * list N)) (k : nat) (rows : list arow) : list (nat * N) :=
  match rows with
  | [] => []
  | (p, v, u, i) :: r =>
      let t := pat_of pats p in let sv := str_of strs v in
      (if Bool.eqb (repaired_match t sv) u then [] else [(k, 9)]) ++
      (if Bool.eqb (index_match cr t sv) i then [] else [(k, 10)]) ++
      check_rows cr pats strs (S k) r
  end.

(* initial generator value, pattern trees, strings, measured rows, ops *)
Definition ccase := (N * list cpat * list (N * list N) * list arow * list cop)%type.
Definition check_case (cl cn cr : bool) (c : ccase) : list (nat * N) :=
  let '(base, pats, strs, rows, ops) := c in
  check_ops cl cn (model_tab cr pats strs) 0 (empty_index base) ops ++ check_rows cr (map fst pats) strs 1000 rows.

Fixpoint mismatches_from (cl cn cr : bool) (k : nat) (cs : list ccase) : list (nat * nat * N) :=
  match cs with
  | [] => []
  | c :: r => map (fun x => (k, fst x, snd x)) (check_case cl cn cr c) ++ mismatches_from cl cn cr (S k) r
  end.
Definition mismatches (cl cn cr : bool) := mismatches_from cl cn cr 0.

(* ---- the pattern x value matrix (deterministic part of the tie): every pattern of the alphabet with the results of the
   stages of the real translation and the rows measured on the real index *)
Definition mrow := (option (list N) * bool * bool)%type.     (* value (None = absent tag), Go regexp, index *)
Record mpat := mkMP { mp_src : list N; mp_vtext : list N; mp_ast : re; mp_final : re; mp_prefix : list N; mp_has_sfx : bool;
                      mp_sfx : re; mp_orv : list (list N); mp_aov : list (list N); mp_alp : list N; mp_all : bool;
                      mp_rows : list mrow }.
Definition lsubset (a b : list (list N)) : bool := forallb (fun x => existsb (list_eqb x) b) a.
(* stage codes (diagnostics): 20 simplify loop, 21 literal prefix / presence of a rest, 22 the rest's tree, 23 or-values,
   24 the filter's value text after Init (cache_literal).
   row codes: 9 the model's matcher differs from Go regexp, 10 the index differs from the model of the translation *)
Definition check_stages (p : mpat) : list N :=
  let s := simplify (mp_ast p) in
  let '(pre, sfx) := extract_prefix s in
  (if re_eqb s (mp_final p) then [] else [20]) ++
  (if list_eqb (match cache_literal (mp_ast p) with Some l => l | None => mp_src p end) (mp_vtext p) then [] else [24]) ++
  (if list_eqb pre (mp_prefix p) && Bool.eqb (match sfx with Some _ => true | None => false end) (mp_has_sfx p) then [] else [21]) ++
  match sfx with
  | Some x => (if negb (mp_has_sfx p) || re_eqb x (mp_sfx p) then [] else [22]) ++
              (if negb (mp_has_sfx p) || (lsubset (or_values x) (mp_orv p) && lsubset (mp_orv p) (or_values x)) then [] else [23])
  | None => []
  end.
(* stages of today's translation: 25 anchoredOrValues, 26 anchoredLiteralPrefix, 27 regexMatchesEverything *)
Definition check_stages_new (p : mpat) : list N :=
  let ov := anchored_or_values (mp_ast p) in
  (if lsubset ov (mp_aov p) && lsubset (mp_aov p) ov then [] else [25]) ++
  (if list_eqb (match ov with [] => anchored_literal_prefix (mp_ast p) | _ => mp_alp p end) (mp_alp p) then [] else [26]) ++
  (if Bool.eqb (matches_everything (mp_ast p)) (mp_all p) then [] else [27]).
(* the constants the model copies from the source: maxOrValues and the escaped bytes *)
Definition check_consts (mo e0 e1 e2 : N) : bool :=
  (N.of_nat max_or_values =? mo) && list_eqb (esc [e0; e1; e2]) [0; 48; 0; 49; 0; 50] && list_eqb (unesc [0; 48; 0; 49; 0; 50]) [e0; e1; e2].
Fixpoint check_mrows (cr : bool) (t : re) (k : nat) (rows : list mrow) : list (nat * N) :=
  match rows with
  | [] => []
  | (v, u, i) :: r =>
      (if Bool.eqb (repaired_match t v) u then [] else [(k, 9)]) ++
      (if Bool.eqb (index_match cr t v) i then [] else [(k, 10)]) ++ check_mrows cr t (S k) r
  end.
Fixpoint check_matrix (cr : bool) (k : nat) (ps : list mpat) : list (nat * nat * N) :=
  match ps with
  | [] => []
  | p :: r => map (fun c => (k, 0%nat, c)) (if cr then check_stages p else check_stages_new p) ++
              map (fun x => (k, S (fst x), snd x)) (check_mrows cr (mp_ast p) 0 (mp_rows p)) ++ check_matrix cr (S k) r
  end.
(* per pattern: shape class (0 literal, 1 match-all, 2 ^literal, 3 other, 4 ^(lit|..|lit)$) and whether it has position assertions *)
Definition shape_code (r : re) : N :=
  match shape_of r with ShLiteral => 0 | ShMatchAll => 1 | ShBeginLiteral => 2 | ShOther => 3 | ShAnchoredAlt => 4 end.
Definition pattern_classes (ps : list re) : list (N * bool) := map (fun r => (shape_code r, has_assert r)) ps.
