(* C10 - a relational semantics of the regular expressions (the match relation, by recursion on the syntax tree) and the
   proof that the executable matcher [ends] computes exactly it: j is among [ends w r i] iff r matches w[i..j). *)
From Coq Require Import NArith List Bool Arith Lia.
From OG Require Import C10.Regex C10.RegexProofs.
Import ListNotations.

(* reflexive-transitive closure: zero or more iterations *)
Inductive star (R : nat -> nat -> Prop) : nat -> nat -> Prop :=
| star_refl i : star R i i
| star_step i k j : R i k -> star R k j -> star R i j.
(* exactly n iterations *)
Fixpoint pow (R : nat -> nat -> Prop) (n : nat) (i j : nat) : Prop :=
  match n with O => j = i | S k => exists m, R i m /\ pow R k m j end.

(* [sem w r i j]: r matches the piece w[i..j) of the subject w (position assertions look at the whole subject) *)
Fixpoint sem (w : list N) (r : re) {struct r} : nat -> nat -> Prop :=
  match r with
  | REmpty => fun i j => j = i
  | RLit f l => fun i j => lit_pre f l (skipn i w) = true /\ j = i + length l
  | RClass rs => fun i j => exists c, nth_error w i = Some c /\ in_ranges c rs = true /\ j = S i
  | RAnyNL => fun i j => exists c, nth_error w i = Some c /\ (c =? 10)%N = false /\ j = S i
  | RAny => fun i j => exists c, nth_error w i = Some c /\ j = S i
  | RBeginText => fun i j => i = 0 /\ j = i
  | REndText => fun i j => i = length w /\ j = i
  | RBeginLine => fun i j => j = i /\ (i = 0 \/ exists k, i = S k /\ nth_error w k = Some 10%N)
  | REndLine => fun i j => j = i /\ (nth_error w i = None \/ nth_error w i = Some 10%N)
  | RWordB => fun i j => j = i /\ xorb (word_before w i) (word_at w i) = true
  | RNoWordB => fun i j => j = i /\ xorb (word_before w i) (word_at w i) = false
  | RCapture a => sem w a
  | RStar a => star (sem w a)
  | RPlus a => fun i j => exists k, sem w a i k /\ star (sem w a) k j
  | RQuest a => fun i j => j = i \/ sem w a i j
  | RRepeat mn mx a => fun i j => exists n, mn <= n /\ match mx with Some m => n <= mn + (m - mn) | None => True end /\
                                            pow (sem w a) n i j
  | RConcat rs => (fix go (l : list re) : nat -> nat -> Prop :=
                     match l with [] => fun i j => j = i | a :: t => fun i j => exists k, sem w a i k /\ go t k j end) rs
  | RAlt rs => (fix go (l : list re) : nat -> nat -> Prop :=
                  match l with [] => fun _ _ => False | a :: t => fun i j => sem w a i j \/ go t i j end) rs
  end.

(* ------------------------------------------------------------------------------------------------ closure facts *)
Lemma pow_star (R : nat -> nat -> Prop) n i j : pow R n i j -> star R i j.
Proof.
  revert i. induction n as [| k IH]; simpl; intros i H.
  - subst. constructor.
  - destruct H as (m & H1 & H2). econstructor; eauto.
Qed.
Lemma star_pow (R : nat -> nat -> Prop) i j : star R i j -> exists n, pow R n i j.
Proof.
  induction 1 as [i | i k j H1 H2 [n IH]]; [exists 0; reflexivity | exists (S n); simpl; eauto].
Qed.
Lemma pow_app (R : nat -> nat -> Prop) n m i k j : pow R n i k -> pow R m k j -> pow R (n + m) i j.
Proof.
  revert i. induction n as [| n IH]; simpl; intros i H1 H2; [subst; exact H2 |].
  destruct H1 as (x & Hx & H1). exists x. split; auto.
Qed.

(* iterations that consume nothing can be dropped: with a bound B on the positions a chain of at most B - i iterations
   reaches the same position *)
Lemma star_short (R : nat -> nat -> Prop) B : (forall i k, i <= B -> R i k -> i <= k <= B) ->
  forall i j, star R i j -> i <= B -> exists n, n <= B - i /\ pow R n i j.
Proof.
  intros Hb i j H. induction H as [i | i k j H1 H2 IH]; intros Hi.
  - exists 0. split; [lia | reflexivity].
  - destruct (Hb i k Hi H1) as [Hik HkB]. destruct (IH HkB) as (n & Hn & Hp).
    destruct (Nat.eq_dec k i) as [-> | Hne].
    + exists n. split; auto.
    + exists (S n). split; [lia |]. simpl. eauto.
Qed.

(* paths of the executable step function *)
Fixpoint fpow (f : nat -> list nat) (n : nat) (i j : nat) : Prop :=
  match n with O => j = i | S k => exists x, In x (f i) /\ fpow f k x j end.

Lemma in_iter_n f n : forall is j, In j (iter_n f n is) <-> exists i, In i is /\ fpow f n i j.
Proof.
  induction n as [| k IH]; intros is j; simpl.
  - split; [intros H; exists j; auto | intros (i & Hi & ->); exact Hi].
  - rewrite IH. split.
    + intros (x & Hx & Hp). apply in_step_all in Hx. destruct Hx as (i & Hi & Hx). exists i. split; auto. exists x. auto.
    + intros (i & Hi & x & Hx & Hp). exists x. split; auto. apply in_step_all. exists i. auto.
Qed.
Lemma in_iter_upto f n : forall is j, In j (iter_upto f n is) <-> exists m i, m <= n /\ In i is /\ fpow f m i j.
Proof.
  induction n as [| k IH]; intros is j; simpl.
  - split.
    + intros H. exists 0, j. repeat split; auto.
    + intros (m & i & Hm & Hi & Hp). assert (m = 0) by lia. subst. simpl in Hp. subst. exact Hi.
  - rewrite in_nunion, IH. split.
    + intros [H | (m & x & Hm & Hx & Hp)].
      * exists 0, j. repeat split; auto. lia.
      * apply in_step_all in Hx. destruct Hx as (i & Hi & Hx). exists (S m), i. repeat split; auto; [lia |]. exists x. auto.
    + intros (m & i & Hm & Hi & Hp). destruct m as [| m]; simpl in Hp.
      * subst. left. exact Hi.
      * destruct Hp as (x & Hx & Hp). right. exists m, x. repeat split; auto; [lia |]. apply in_step_all. exists i. auto.
Qed.

(* ------------------------------------------------------------------------------------------------ bounds *)
Lemma lit_pre_length f l s : lit_pre f l s = true -> length l <= length s.
Proof.
  revert s. induction l as [| a l IH]; intros [| b s]; simpl; intros H; try lia; try discriminate.
  apply andb_true_iff in H. destruct H as [_ H]. apply IH in H. lia.
Qed.
Lemma nth_error_lt {A} (l : list A) i c : nth_error l i = Some c -> i < length l.
Proof. intros H. apply nth_error_Some. congruence. Qed.

Definition bounded (w : list N) (R : nat -> nat -> Prop) : Prop := forall i j, i <= length w -> R i j -> i <= j <= length w.

Lemma star_bounded w (R : nat -> nat -> Prop) : bounded w R -> bounded w (star R).
Proof.
  intros Hb i j Hi H. induction H as [i | i k j H1 H2 IH]; [lia |].
  destruct (Hb i k Hi H1) as [H3 H4]. specialize (IH H4). lia.
Qed.
Lemma pow_bounded w (R : nat -> nat -> Prop) n : bounded w R -> bounded w (pow R n).
Proof. intros Hb i j Hi H. apply (star_bounded w R Hb i j Hi). apply (pow_star R n). exact H. Qed.

Lemma sem_bounded w r : bounded w (sem w r).
Proof.
  induction r using re_ind'; cbn [sem]; try (intros i j Hi H; lia).
  - (* literal *) intros i j Hi [H ->]. apply lit_pre_length in H. rewrite skipn_length in H. lia.
  - intros i j Hi (c & Hc & _ & ->). apply nth_error_lt in Hc. lia.
  - intros i j Hi (c & Hc & _ & ->). apply nth_error_lt in Hc. lia.
  - intros i j Hi (c & Hc & ->). apply nth_error_lt in Hc. lia.
  - exact IHr.
  - apply star_bounded. exact IHr.
  - intros i j Hi (k & H1 & H2). destruct (IHr i k Hi H1) as [H3 H4]. pose proof (star_bounded w _ IHr k j H4 H2). lia.
  - intros i j Hi [-> | H]; [lia | apply IHr; auto].
  - intros i j Hi (n & _ & _ & H). apply (pow_bounded w _ n IHr i j Hi H).
  - (* concat *) induction H as [| a t Ha Ht IH]; intros i j Hi Hs.
    + lia.
    + destruct Hs as (k & H1 & H2). destruct (Ha i k Hi H1) as [H3 H4]. specialize (IH k j H4 H2). lia.
  - (* alt *) induction H as [| a t Ha Ht IH]; intros i j Hi Hs; [contradiction |].
    destruct Hs as [Hs | Hs]; [apply Ha; auto | apply IH; auto].
Qed.

(* ------------------------------------------------------------------------------------------------ the matcher is the relation *)
Definition agrees (w : list N) (r : re) : Prop := forall i j, i <= length w -> (In j (ends w r i) <-> sem w r i j).

Lemma fpow_pow w a : agrees w a -> forall n i j, i <= length w -> (fpow (ends w a) n i j <-> pow (sem w a) n i j).
Proof.
  intros Ha n. induction n as [| k IH]; intros i j Hi; simpl; [tauto |]. split.
  - intros (x & Hx & Hp). apply (Ha i x Hi) in Hx. exists x. split; auto.
    apply IH; auto. apply (sem_bounded w a i x Hi Hx).
  - intros (x & Hx & Hp). exists x. split; [apply (Ha i x Hi); exact Hx |].
    apply IH; auto. apply (sem_bounded w a i x Hi Hx).
Qed.

(* zero or more iterations from a start set whose positions lie in [i, length w] *)
Lemma in_iter_upto_star w a i is j : agrees w a -> i <= length w ->
  (forall x, In x is -> i <= x <= length w) ->
  (In j (iter_upto (ends w a) (length w - i) is) <-> exists x, In x is /\ star (sem w a) x j).
Proof.
  intros Ha Hi His. rewrite in_iter_upto. split.
  - intros (m & x & _ & Hx & Hp). exists x. split; auto. apply (pow_star _ m). apply (fpow_pow w a Ha); auto. apply His; auto.
  - intros (x & Hx & Hs). destruct (His x Hx) as [Hix HxB].
    destruct (star_short (sem w a) (length w) (sem_bounded w a) x j Hs HxB) as (n & Hn & Hp).
    exists n, x. repeat split; auto; [lia |]. apply (fpow_pow w a Ha); auto.
Qed.

Theorem ends_sem w r : agrees w r.
Proof.
  induction r using re_ind'; intros i j Hi; cbn [ends sem].
  - (* empty *) simpl. split; [intros [<- | []]; reflexivity | intros ->; left; reflexivity].
  - (* literal *) destruct (lit_pre f l (skipn i w)); simpl; split; try tauto.
    + intros [<- | []]. auto.
    + intros [_ ->]. left. reflexivity.
    + intros [H _]. discriminate.
  - (* class *) destruct (nth_error w i) as [c |]; [destruct (in_ranges c rs) eqn:E |]; simpl; split; try tauto.
    + intros [<- | []]. exists c. auto.
    + intros (c' & Hc & _ & ->). left. reflexivity.
    + intros (c' & Hc & Hr & _). inversion Hc; subst. congruence.
    + intros (c' & Hc & _). discriminate.
  - (* any but newline *) destruct (nth_error w i) as [c |]; [destruct (c =? 10)%N eqn:E |]; simpl; split; try tauto.
    + intros (c' & Hc & Hn & _). inversion Hc; subst. congruence.
    + intros [<- | []]. exists c. auto.
    + intros (c' & _ & _ & ->). left. reflexivity.
    + intros (c' & Hc & _). discriminate.
  - (* any *) destruct (nth_error w i) as [c |]; simpl; split; try tauto.
    + intros [<- | []]. exists c. auto.
    + intros (c' & _ & ->). left. reflexivity.
    + intros (c' & Hc & _). discriminate.
  - (* begin text *) destruct (Nat.eqb i 0) eqn:E; simpl; split; try tauto.
    + intros [<- | []]. apply Nat.eqb_eq in E. auto.
    + intros [_ ->]. left. reflexivity.
    + intros [-> _]. discriminate.
  - (* end text *) destruct (Nat.eqb i (length w)) eqn:E; simpl; split; try tauto.
    + intros [<- | []]. apply Nat.eqb_eq in E. auto.
    + intros [_ ->]. left. reflexivity.
    + intros [H _]. apply Nat.eqb_neq in E. contradiction.
  - (* begin line *) destruct i as [| k].
    + simpl. split; [intros [<- | []]; auto | intros [-> _]; left; reflexivity].
    + destruct (nth_error w k) as [c |] eqn:Ec; [destruct (c =? 10)%N eqn:E |]; simpl; split; try tauto.
      * intros [<- | []]. split; auto. right. exists k. apply N.eqb_eq in E. subst. auto.
      * intros [-> _]. left. reflexivity.
      * intros [_ [H | (k' & Hk & Hc)]]; [discriminate |]. inversion Hk; subst. rewrite Ec in Hc. inversion Hc; subst. discriminate.
      * intros [_ [H | (k' & Hk & Hc)]]; [discriminate |]. inversion Hk; subst. congruence.
  - (* end line *) destruct (nth_error w i) as [c |] eqn:Ec; [destruct (c =? 10)%N eqn:E |]; simpl; split; try tauto.
    + intros [<- | []]. split; auto. right. apply N.eqb_eq in E. subst. reflexivity.
    + intros [-> _]. left. reflexivity.
    + intros [_ [H | H]]; [discriminate |]. inversion H; subst. discriminate.
    + intros [<- | []]. auto.
    + intros [-> _]. left. reflexivity.
  - (* word boundary *) destruct (xorb (word_before w i) (word_at w i)); simpl; split; try tauto.
    + intros [<- | []]. auto.
    + intros [-> _]. left. reflexivity.
    + intros [_ H]. discriminate.
  - (* no word boundary *) destruct (xorb (word_before w i) (word_at w i)); simpl; split; try tauto.
    + intros [_ H]. discriminate.
    + intros [<- | []]. auto.
    + intros [-> _]. left. reflexivity.
  - (* capture *) apply IHr. exact Hi.
  - (* star *) rewrite (in_iter_upto_star w r i [i] j IHr Hi).
    + split; [intros (x & [<- | []] & H); exact H | intros H; exists i; split; [left; reflexivity | exact H]].
    + intros x [<- | []]. lia.
  - (* plus *) rewrite (in_iter_upto_star w r i (ends w r i) j IHr Hi).
    + split; intros (x & Hx & H); exists x; split; auto; apply (IHr i x Hi); exact Hx.
    + intros x Hx. apply (IHr i x Hi) in Hx. apply (sem_bounded w r i x Hi Hx).
  - (* quest *) rewrite in_nunion. simpl. rewrite (IHr i j Hi). split; [intros [[<- | []] | H]; auto | intros [-> | H]; auto].
  - (* repeat *)
    assert (Hstart : forall x, In x (iter_n (ends w r) mn [i]) <-> pow (sem w r) mn i x).
    { intros x. rewrite in_iter_n. split.
      - intros (y & [<- | []] & Hp). apply (fpow_pow w r IHr); auto.
      - intros Hp. exists i. split; [left; reflexivity | apply (fpow_pow w r IHr); auto]. }
    assert (Hsb : forall x, In x (iter_n (ends w r) mn [i]) -> i <= x <= length w).
    { intros x Hx. apply Hstart in Hx. apply (pow_bounded w _ mn (sem_bounded w r) i x Hi Hx). }
    destruct mx as [m |].
    + rewrite in_iter_upto. split.
      * intros (k & x & Hk & Hx & Hp). exists (mn + k). repeat split; [lia | lia |].
        apply pow_app with (k := x); [apply Hstart; exact Hx |]. apply (fpow_pow w r IHr); auto. apply Hsb; auto.
      * intros (n & Hn1 & Hn2 & Hp). replace n with (mn + (n - mn)) in Hp by lia.
        assert (Hsplit : forall a b x y, pow (sem w r) (a + b) x y -> exists z, pow (sem w r) a x z /\ pow (sem w r) b z y).
        { induction a as [| a IHa]; intros b x y H; simpl in *; [exists x; auto |].
          destruct H as (z & Hz & H). destruct (IHa b z y H) as (u & Hu1 & Hu2). exists u. split; eauto. }
        destruct (Hsplit mn (n - mn) i j Hp) as (z & Hz1 & Hz2).
        exists (n - mn), z. repeat split; [lia | apply Hstart; exact Hz1 |].
        apply (fpow_pow w r IHr); auto. apply (pow_bounded w _ mn (sem_bounded w r) i z Hi Hz1).
    + rewrite (in_iter_upto_star w r i _ j IHr Hi Hsb). split.
      * intros (x & Hx & Hs). apply Hstart in Hx. destruct (star_pow _ _ _ Hs) as (k & Hk).
        exists (mn + k). repeat split; [lia |]. apply pow_app with (k := x); auto.
      * intros (n & Hn & _ & Hp). replace n with (mn + (n - mn)) in Hp by lia.
        assert (Hsplit : forall a b x y, pow (sem w r) (a + b) x y -> exists z, pow (sem w r) a x z /\ pow (sem w r) b z y).
        { induction a as [| a IHa]; intros b x y H0; simpl in *; [exists x; auto |].
          destruct H0 as (z & Hz & H0). destruct (IHa b z y H0) as (u & Hu1 & Hu2). exists u. split; eauto. }
        destruct (Hsplit mn (n - mn) i j Hp) as (z & Hz1 & Hz2).
        exists z. split; [apply Hstart; exact Hz1 | apply (pow_star _ (n - mn)); exact Hz2].
  - (* concat *)
    assert (G : forall is j, (forall x, In x is -> x <= length w) ->
              (In j ((fix go (l : list re) (is : list nat) : list nat :=
                        match l with [] => is | a :: t => go t (step_all (ends w a) is) end) rs is) <->
               exists x, In x is /\
                 (fix go (l : list re) : nat -> nat -> Prop :=
                    match l with [] => fun i j => j = i | a :: t => fun i j => exists k, sem w a i k /\ go t k j end) rs x j)).
    { clear i j Hi. induction H as [| a t Ha Ht IH]; intros is j His.
      - split; [intros Hj; exists j; auto | intros (x & Hx & ->); exact Hx].
      - rewrite IH.
        + split.
          * intros (k & Hk & Hg). apply in_step_all in Hk. destruct Hk as (x & Hx & Hk).
            exists x. split; auto. exists k. split; auto. apply (Ha x k (His x Hx)). exact Hk.
          * intros (x & Hx & k & Hk & Hg). exists k. split; auto. apply in_step_all. exists x. split; auto.
            apply (Ha x k (His x Hx)). exact Hk.
        + intros k Hk. apply in_step_all in Hk. destruct Hk as (x & Hx & Hk). apply (Ha x k (His x Hx)) in Hk.
          apply (sem_bounded w a x k (His x Hx) Hk). }
    rewrite G; [| intros x [<- | []]; exact Hi].
    split; [intros (x & [<- | []] & Hg); exact Hg | intros Hg; exists i; split; [left; reflexivity | exact Hg]].
  - (* alt *)
    induction H as [| a t Ha Ht IH]; [simpl; tauto |].
    rewrite in_nunion, (Ha i j Hi), IH. tauto.
Qed.
