(* C10 - executable model of the series index (engine/index/tsi): one list of (series key, id) entries that is
   either flushed (visible to searches and to the slow key lookup) or pending (written with AddItems, not yet
   flushed into a part), the key->id cache (a partial copy of the store), the id generator, and predicate search
   by set algebra over the tag->ids postings. Strings (measurement names, tag keys, tag values, regex patterns)
   are interned as N by the harness; 0 is the empty string. What a regular-expression atom matches is NOT
   modelled: it is the parameter [am : pattern -> value -> bool] (Go regexp is the oracle). *)
From Coq Require Import NArith List Bool.
Import ListNotations.
Open Scope N_scope.

Definition tagset := list (N * N).                       (* (tag key, tag value), as written: sorted, no empty value *)
Record series := mkS { s_mst : N; s_tags : tagset }.
Definition entry := (series * N)%type.                   (* series key -> id *)

Definition tagset_eq_dec : forall a b : tagset, {a = b} + {a <> b}.
Proof. decide equality. decide equality; apply N.eq_dec. Defined.
Definition series_eq_dec : forall a b : series, {a = b} + {a <> b}.
Proof. decide equality. apply tagset_eq_dec. apply N.eq_dec. Defined.
Definition series_eqb (a b : series) : bool := if series_eq_dec a b then true else false.

Definition assoc (L : list entry) (s : series) : option N :=
  match find (fun e => series_eqb (fst e) s) L with Some e => Some (snd e) | None => None end.

Record index := mkI {
  vis : list entry;        (* flushed items *)
  pend : list entry;       (* raw items of the mergeset table, invisible to TableSearch until the next flush *)
  cache : list entry;      (* series key -> id cache *)
  next_id : N              (* high-water mark of GenerateUUID: (logical clock << 40) | sequence *)
}.
Definition empty_index (n : N) : index := mkI [] [] [] n.
Definition store (i : index) : list entry := vis i ++ pend i.

(* ---- key lookup. getSeriesIdBySeriesKey: cache, then the item store through a TableSearch.
   _current: the TableSearch sees flushed parts only.  _repaired: pending items are consulted as well
   (equivalently: a cache clear flushes first). *)
Definition slow_current (i : index) (s : series) : option N := assoc (vis i) s.
Definition slow_repaired (i : index) (s : series) : option N := assoc (store i) s.

Definition lookup (slow : index -> series -> option N) (i : index) (s : series) : option N :=
  match assoc (cache i) s with Some id => Some id | None => slow i s end.

Inductive op := Insert (s : series) | Flush | ClearCache | Reopen (bump : N).

(* createIndexesIfNotExists: lookup before create under the index mutex; a fresh id is next_id+1 (AddUint64
   returns the incremented value); the new key goes to the cache; a slow-path hit is put in the cache too. *)
Definition insert (slow : index -> series -> option N) (i : index) (s : series) : index * N :=
  match lookup slow i s with
  | Some id => (mkI (vis i) (pend i) ((s, id) :: cache i) (next_id i), id)
  | None => let id := next_id i + 1 in (mkI (vis i) (pend i ++ [(s, id)]) ((s, id) :: cache i) id, id)
  end.

Definition step (slow : index -> series -> option N) (i : index) (o : op) : index * option N :=
  match o with
  | Insert s => let (i', id) := insert slow i s in (i', Some id)
  | Flush => (mkI (vis i ++ pend i) [] (cache i) (next_id i), None)
  | ClearCache => (mkI (vis i) (pend i) [] (next_id i), None)
  (* Close flushes the raw items and saves the caches; a restart moves the logical clock on, so the generator
     restarts strictly above every id handed out before (bump >= 0 on top of the old high-water mark) *)
  | Reopen b => (mkI (vis i ++ pend i) [] (cache i) (next_id i + b), None)
  end.

Fixpoint run (slow : index -> series -> option N) (i : index) (os : list op) : index * list (option N) :=
  match os with
  | [] => (i, [])
  | o :: r => let (i1, x) := step slow i o in let (i2, xs) := run slow i1 r in (i2, x :: xs)
  end.

(* ---- postings: the tag->ids items written by decode for one (key,id): one per tag plus the measurement marker
   (empty key, empty value) *)
Definition titem := (N * N * N * N)%type.                 (* measurement, tag key, tag value, id *)
Definition t_m (t : titem) := fst (fst (fst t)).
Definition t_k (t : titem) := snd (fst (fst t)).
Definition t_v (t : titem) := snd (fst t).
Definition t_id (t : titem) := snd t.

Definition items_of (e : entry) : list titem :=
  (s_mst (fst e), 0, 0, snd e) :: map (fun kv => (s_mst (fst e), fst kv, snd kv, snd e)) (s_tags (fst e)).
Definition postings (L : list entry) : list titem := flat_map items_of L.

Definition ids_where (f : titem -> bool) (T : list titem) : list N := map t_id (filter f T).
Definition all_ids (T : list titem) (m : N) := ids_where (fun t => t_m t =? m) T.
Definition haskey (T : list titem) (m k : N) := ids_where (fun t => (t_m t =? m) && (t_k t =? k)) T.
Definition post (T : list titem) (m k v : N) := ids_where (fun t => (t_m t =? m) && (t_k t =? k) && (t_v t =? v)) T.
Definition scan (am : N -> N -> bool) (T : list titem) (m k p : N) :=
  ids_where (fun t => (t_m t =? m) && (t_k t =? k) && am p (t_v t)) T.

Definition mem (x : N) (l : list N) : bool := existsb (N.eqb x) l.
Definition diff (a b : list N) := filter (fun x => negb (mem x b)) a.
Definition inter (a b : list N) := filter (fun x => mem x b) a.

Inductive cmp := Eq | Neq | Re | Nre.
Inductive expr := And (a b : expr) | Or (a b : expr) | Paren (a : expr) | Atom (k : N) (c : cmp) (v : N).

(* series of measurement m without tag k (they behave as k = "") *)
Definition nokey (T : list titem) (m k : N) := diff (all_ids T m) (haskey T m k).
Definition re_ids (am : N -> N -> bool) (T : list titem) (m k p : N) :=
  (if am p 0 then nokey T m k else []) ++ scan am T m k p.

(* predicate search by set algebra over the postings (seriesByExprIterator / searchTSIDsInternal) *)
Fixpoint search (am : N -> N -> bool) (T : list titem) (m : N) (e : expr) : list N :=
  match e with
  | And a b => inter (search am T m a) (search am T m b)
  | Or a b => search am T m a ++ search am T m b
  | Paren a => search am T m a
  | Atom k Eq v => if v =? 0 then nokey T m k else post T m k v
  | Atom k Neq v => if v =? 0 then haskey T m k else diff (all_ids T m) (post T m k v)
  | Atom k Re p => re_ids am T m k p
  | Atom k Nre p => diff (all_ids T m) (re_ids am T m k p)
  end.

(* the show-series / drop-series path (searchTSIDsInternal) as it is today: a negated regex whose pattern matches the
   empty string yields a nil set, and nil means "no constraint" to the enclosing AND/OR *)
Fixpoint search_ids_current (am : N -> N -> bool) (T : list titem) (m : N) (e : expr) : option (list N) :=
  match e with
  | And a b => match search_ids_current am T m a, search_ids_current am T m b with
               | None, r => r | l, None => l | Some x, Some y => Some (inter x y) end
  | Or a b => match search_ids_current am T m a, search_ids_current am T m b with
              | None, r => r | l, None => l | Some x, Some y => Some (x ++ y) end
  | Paren a => search_ids_current am T m a
  | Atom k Nre p => if am p 0 then None else Some (search am T m e)
  | _ => Some (search am T m e)
  end.
Definition search_ids_top_current am T m e := match search_ids_current am T m e with Some x => x | None => [] end.
Definition search_ids_repaired := search.

(* the meaning of a predicate on one tag set; an absent tag is the empty string *)
Definition tag_val (ts : tagset) (k : N) : N :=
  match find (fun kv => fst kv =? k) ts with Some kv => snd kv | None => 0 end.
Fixpoint eval (am : N -> N -> bool) (e : expr) (ts : tagset) : bool :=
  match e with
  | And a b => eval am a ts && eval am b ts
  | Or a b => eval am a ts || eval am b ts
  | Paren a => eval am a ts
  | Atom k Eq v => tag_val ts k =? v
  | Atom k Neq v => negb (tag_val ts k =? v)
  | Atom k Re p => am p (tag_val ts k)
  | Atom k Nre p => negb (am p (tag_val ts k))
  end.
Definition bruteforce (am : N -> N -> bool) (L : list entry) (m : N) (e : expr) : list N :=
  map snd (filter (fun x => (s_mst (fst x) =? m) && eval am e (s_tags (fst x))) L).

(* ---- regex atoms: today's index translation versus the language. Both matchers are parameters (Go regexp is
   the oracle for both: MatchString(p) and MatchString("^(?:"+p+")$")); only their use is modelled. *)
Definition atom_match_repaired (unanch : N -> N -> bool) : N -> N -> bool := unanch.
Definition atom_match_current (is_literal : N -> bool) (unanch anch : N -> N -> bool) (p v : N) : bool :=
  if is_literal p then unanch p v else anch p v.

(* ---- listings *)
Definition key_of (L : list entry) (id : N) : list series :=
  match find (fun e => snd e =? id) L with Some e => [fst e] | None => [] end.
Fixpoint dedup (l : list N) : list N :=
  match l with [] => [] | x :: r => if mem x r then dedup r else x :: dedup r end.
Definition list_series (L : list entry) (m : N) : list series := flat_map (key_of L) (dedup (all_ids (postings L) m)).
Definition list_tag_values (L : list entry) (m k : N) : list N :=
  map t_v (filter (fun t => (t_m t =? m) && (t_k t =? k)) (postings L)).
Definition list_tag_keys (L : list entry) (m : N) : list N :=
  map t_k (filter (fun t => (t_m t =? m) && negb (t_k t =? 0)) (postings L)).

(* well-formed series key as the write path produces it: distinct non-empty tag keys, no empty value *)
Definition wf_tags (ts : tagset) : Prop := NoDup (map fst ts) /\ Forall (fun kv => fst kv <> 0 /\ snd kv <> 0) ts.
Fixpoint expr_ok (e : expr) : Prop :=
  match e with
  | And a b | Or a b => expr_ok a /\ expr_ok b
  | Paren a => expr_ok a
  | Atom k _ _ => k <> 0
  end.
