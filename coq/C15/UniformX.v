(* C15 - uniform sharding is an invariant of the whole hand model (Cmds.x_apply over the oracle step of the core), so the
   convergence theorem needs it only for the initial catalogue. *)
From Coq Require Import ZArith List Bool Lia.
From OG Require Import C16.Model C16.Wf C16.Lists C16.Proofs C16.Order C16.Expand C15.Cmds C15.CmdsProofs C15.Uniform.
Import ListNotations.
Open Scope Z_scope.

(* C16.Expand.expand_groups leaves every policy the measurements it had (the instance of [expand_keeps] below) *)
Lemma expand_shards_msts : forall parts c p g, rp_msts (snd (fst (expand_shards c p g parts))) = rp_msts p.
Proof.
  induction parts as [|i r IH]; intros c p g; cbn [expand_shards]; [reflexivity|].
  destruct (ensure_ig c p (sg_start g) (sg_end g) (sg_eng g)) as [ig isnew]. rewrite IH. destruct isnew; reflexivity.
Qed.

Lemma expand_sgs_msts : forall l c p, rp_msts (snd (fst (expand_sgs c p l))) = rp_msts p.
Proof.
  induction l as [|g r IH]; intros c p; cbn [expand_sgs]; [reflexivity|].
  pose proof (expand_shards_msts (zseq (Z.of_nat (length (sg_shards g))) (Z.to_nat (ptnum c - Z.of_nat (length (sg_shards g))))) c p g) as E1.
  destruct (expand_shards c p g _) as [[c1 p1] g1]. cbn in E1.
  pose proof (IH c1 p1) as E2. destruct (expand_sgs c1 p1 r) as [[c2 p2] r1]. cbn in *. rewrite E2. exact E1.
Qed.

Lemma expand_pol_msts : forall c p, rp_msts (snd (expand_pol c p)) = rp_msts p.
Proof.
  intros c p. unfold expand_pol. destruct (expand_igs (ptnum c) (max_ix c) (rp_igs p)) as [mx igs1].
  pose proof (expand_sgs_msts (rp_sgs p) (set_sg_counters c (max_sg c) (max_sh c) (max_ig c) mx) (pol_set_igs p igs1)) as E.
  destruct (expand_sgs _ _ _) as [[c1 p1] sgs1]. cbn in *. exact E.
Qed.

Lemma expand_pols_msts : forall l c p', In p' (snd (expand_pols c l)) -> exists p, In p l /\ rp_msts p' = rp_msts p.
Proof.
  induction l as [|q r IH]; intros c p'; cbn [expand_pols]; [intros []|].
  pose proof (expand_pol_msts c q) as E. destruct (expand_pol c q) as [c1 q1]. cbn in E.
  specialize (IH c1). destruct (expand_pols c1 r) as [c2 r1]. cbn in *. intros [<-|H].
  - exists q. split; [left; reflexivity | exact E].
  - destruct (IH p' H) as (p & Hp & Ep). exists p. split; [right; exact Hp | exact Ep].
Qed.

Lemma in_insert_pol : forall x l y, In y (insert_pol x l) -> y = x \/ In y l.
Proof.
  intros x l y. induction l as [|a r IH]; cbn; [intros [H|[]]; left; symmetry; exact H|].
  destruct (Expand.pol_le x a); cbn; intros [H|H]; auto. destruct (IH H); auto.
Qed.
Lemma in_sort_pols : forall l y, In y (sort_pols l) -> In y l.
Proof.
  induction l as [|a r IH]; cbn; [tauto|]. intros y H. apply in_insert_pol in H. destruct H as [->|H]; [left; reflexivity | right; apply IH; exact H].
Qed.

Lemma expand_groups_keeps : forall c p', In p' (pols (expand_groups c)) -> exists p, In p (pols c) /\ rp_msts p' = rp_msts p.
Proof.
  intros c p'. unfold expand_groups. pose proof (expand_pols_msts (sort_pols (pols c)) c p') as E.
  destruct (expand_pols c (sort_pols (pols c))) as [c1 l]. cbn in *. intros H. destruct (E H) as (p & Hp & Ep).
  exists p. split; [apply in_sort_pols; exact Hp | exact Ep].
Qed.

Section UniformX.
  Variable st : mst -> Z.
  Variable range_create : cat -> policy -> Z -> Z -> cat * bool.
  Variables clip cleardef : bool.
  Variable v : variant.
  Variable cfg : config.
  (* the sharding type of a measurement does not depend on its deletion mark *)
  Hypothesis st_mark : forall x, st (mark_one x) = st x.
  Hypothesis st_unmark : forall x, st (ms_unmark x) = st x.
  Hypothesis range_keeps : forall c p t e, map rp_msts (pols (fst (range_create c p t e))) = map rp_msts (pols c).
  (* Data.ExpandGroups adds shards and indexes: every policy it leaves has the measurements of a policy it found *)
  Hypothesis expand_keeps : forall c p', In p' (pols (cfg_expandf cfg c)) -> exists p, In p (pols c) /\ rp_msts p' = rp_msts p.

  Notation UU := (U st).
  Notation DD := (derived st).
  Definition stepo (o : oracle) := stepO st range_create clip cleardef o.

  Lemma derived_trans : forall l1 l2 l3, DD l3 l2 -> DD l2 l1 -> DD l3 l1.
  Proof.
    unfold derived. intros l1 l2 l3 H32 H21. rewrite Forall_forall in *. intros p3 H3. destruct (H32 p3 H3) as (p2 & H2 & L32).
    destruct (H21 p2 H2) as (p1 & H1 & L21). exists p1. split; [exact H1|]. intros t Ht. apply L21, L32, Ht.
  Qed.

  Lemma derived_expand : forall c, DD (pols (cfg_expandf cfg c)) (pols c).
  Proof.
    intros c. apply Forall_forall. intros p' Hp'. destruct (expand_keeps c p' Hp') as (p & Hp & E).
    exists p. split; [exact Hp | apply pol_le_same; exact E].
  Qed.

  Lemma derived_protect : forall p c_old c_new, DD (pols (protect_msts p c_old c_new)) (pols c_new).
  Proof.
    intros p c_old c_new. unfold protect_msts. cbn. apply derived_map. intros q.
    destruct (find _ (pols c_old)); [|apply pol_le_refl].
    intros t Ht. unfold tl in *. cbn in Ht. rewrite map_map in Ht. apply in_map_iff in Ht. destruct Ht as (x & <- & Hx).
    apply in_map_iff. exists x. split; [|exact Hx]. destruct (_ && _ && _); [symmetry; apply st_unmark | reflexivity].
  Qed.

  (* the environment's guarantee about an entry: C15.Uniform.env_ok for a catalogue command *)
  Definition entry_env (s : xstate) (e : entry) : Prop :=
    match snd e with Core x => env_ok st (core (pp s)) x | _ => True end.

  Lemma dnode_U : forall s h t, UU (pols (core (pp s))) -> UU (pols (core (pp (fst (x_create_dnode v cfg s h t))))).
  Proof.
    intros s h t H. unfold x_create_dnode, rewrite_expand.
    assert (K : forall c, UU (pols c) -> UU (pols (fst (create_node c h t)))).
    { intros c Hc. eapply U_derived; [exact Hc|]. apply (keep_derived st clip cleardef st_mark c (CreateNode h t)). exact I. }
    destruct (v_rewrite v); cbn [pp tt witht withp]; destruct (existsb _ _ || existsb _ _); cbn [fst xok pp withp core];
      try (apply K; exact H);
      destruct (find _ (metas (pp s))); destruct (t_expand _) + idtac; cbn;
      try (eapply U_derived; [|apply derived_expand]); try (apply K; exact H); try exact H.
  Qed.

  Lemma x_apply_uniform : forall o pk s e, valid o -> uniform_sharding st (core (pp s)) -> entry_env s e ->
    uniform_sharding st (core (pp (fst (x_apply (stepo o) pk v cfg s e)))).
  Proof.
    intros o pk s [[tm ix] x] V HU E. apply U_iff. apply U_iff in HU. unfold entry_env in E. cbn [snd] in E.
    unfold x_apply.
    assert (G : UU (pols (core (pp (fst (exec (stepo o) pk v cfg s x)))))).
    { destruct x; cbn [exec]; try exact HU.
      - (* Core *)
        assert (S1 : forall y, env_ok st (core (pp s)) y -> UU (pols (fst (stepo o (core (pp s)) y)))).
        { intros y Ey. apply U_iff. apply applyO_uniform; [exact st_mark | exact range_keeps | exact V | apply U_iff; exact HU | exact Ey]. }
        unfold x_core. cbn zeta.
        destruct x; try (specialize (S1 _ E); destruct (stepo o (core (pp s)) _) as [c1 r]; cbn in *; exact S1).
        + (* MarkDb *) destruct (stream_on _ _); [exact HU|]. specialize (S1 _ E). destruct (stepo o _ _) as [c1 r]; cbn in *; exact S1.
        + (* DropDb *) destruct (find_db _ _); [|exact HU]. specialize (S1 _ E). destruct (stepo o _ _) as [c1 r]; cbn in *; exact S1.
        + (* MarkRp *) destruct (stream_on _ _); [exact HU|]. specialize (S1 _ E). destruct (stepo o _ _) as [c1 r]; cbn in *; exact S1.
        + (* MarkMst *) destruct (stream_on _ _); [exact HU|]. specialize (S1 _ E). destruct (stepo o _ _) as [c1 r]; cbn in *; exact S1.
        + (* PruneSg *) specialize (S1 _ E). destruct (stepo o _ _) as [c1 r]. cbn in *.
          eapply U_derived; [exact S1 | apply derived_protect].
        + (* CreateNode *) pose proof (dnode_U s http tcp HU) as D.
          destruct (x_create_dnode v cfg s http tcp) as [s1 r]. cbn in *. exact D.
        + (* UpdatePt *)
          destruct ((status =? 0) && node_alive (pp s) owner).
          * set (ch := set_nodes (core (pp s)) [] (max_node (core (pp s))) (max_conn (core (pp s))) (ptnum (core (pp s))) (ptview (core (pp s)))).
            assert (D : DD (pols (fst (stepo o ch (UpdatePt db pt cowner cstat owner status)))) (pols ch)).
            { apply (keep_derived st clip cleardef st_mark ch (UpdatePt db pt cowner cstat owner status)). exact I. }
            destruct (stepo o ch _) as [c1 r]. cbn in *. eapply U_derived; [exact HU | exact D].
          * specialize (S1 _ E). destruct (stepo o _ _) as [c1 r]; cbn in *; exact S1.
      - unfold x_create_user. split_matches; cbn; exact HU.
      - unfold x_drop_user. split_matches; cbn; exact HU.
      - unfold x_update_user. split_matches; cbn; exact HU.
      - unfold x_set_privilege. split_matches; cbn; exact HU.
      - unfold x_create_sub. split_matches; cbn; exact HU.
      - unfold x_drop_sub. split_matches; cbn; exact HU.
      - unfold x_create_cq. split_matches; cbn; exact HU.
      - unfold x_drop_cq. split_matches; cbn; exact HU.
      - unfold x_create_meta, create_meta. split_matches; cbn; exact HU.
      - unfold x_set_meta, create_meta. split_matches; cbn; exact HU.
      - unfold x_delete_meta. split_matches; cbn; exact HU.
      - unfold x_create_sql, rewrite_expand. split_matches; cbn; exact HU.
      - unfold x_tmp_index. split_matches; cbn; exact HU.
      - unfold x_register_qid. split_matches; cbn; exact HU.
      - (* ExpandGroups *) cbn. eapply U_derived; [exact HU | apply derived_expand].
      - unfold x_pt_version, xok. split_matches; cbn; exact HU.
      - unfold x_node_status. split_matches; cbn; exact HU.
      - unfold x_sql_status. split_matches; cbn; exact HU.
      - unfold x_meta_status. split_matches; cbn; exact HU.
      - unfold x_shard_tier. split_matches; cbn; exact HU.
      - unfold x_index_tier. split_matches; cbn; exact HU.
      - unfold x_create_stream. split_matches; cbn; exact HU.
      - unfold x_drop_stream. split_matches; cbn; exact HU. }
    destruct (exec (stepo o) pk v cfg s x) as [s1 r]. cbn [fst] in G.
    destruct (r && negb (is_tmpindex x)); cbn; exact G.
  Qed.

  (* the environment's guarantee along the run of the first replica *)
  Fixpoint env_along (os : list (oracle * (list Z -> option Z))) (s : xstate) (l : list entry) : Prop :=
    match l, os with
    | e :: r, (o, pk) :: os' => entry_env s e /\ env_along os' (fst (x_apply (stepo o) pk v cfg s e)) r
    | _, _ => True
    end.

  Lemma uniform_along_from_start : forall l os s, length os = length l -> Forall (fun o => valid (fst o)) os ->
    uniform_sharding st (core (pp s)) -> env_along os s l ->
    uniform_alongX st range_create clip cleardef v cfg os s l.
  Proof.
    induction l as [|e r IH]; intros os s L V HU E; destruct os as [|[o pk] os']; try discriminate; cbn; [exact I|].
    cbn in E. destruct E as [E0 E1]. inversion V; subst. cbn [fst] in *.
    split; [exact HU|]. apply IH; [cbn in L; lia | assumption | apply x_apply_uniform; assumption | exact E1].
  Qed.
End UniformX.
