(* C15 - proofs about the hand model of coq/C15/Cmds.v: the transient part of the state never influences the persistent
   part or a result (non-interference), the persisted image of a state is the state (round trip), hence a snapshot/restore
   at any position of a log is invisible; independence from the map-iteration oracles; the derived admin cache. *)
From Coq Require Import ZArith List Bool Lia ZifyBool.
From OG Require Import C16.Model C16.Wf C16.Lists C16.Proofs C16.ProofsRun C16.Order C15.Cmds.
Import ListNotations.
Open Scope Z_scope.

(* ---------------------------------------------------------------------------------------------- non-interference *)
Ltac split_matches :=
  repeat match goal with
         | |- context [match ?e with _ => _ end] => destruct e eqn:?
         end.

Lemma exec_pp : forall cstep pick v cfg p t1 t2 x, v_rewrite v = true ->
  pp (fst (exec cstep pick v cfg {| pp := p; tt := t1 |} x)) = pp (fst (exec cstep pick v cfg {| pp := p; tt := t2 |} x)) /\
  snd (exec cstep pick v cfg {| pp := p; tt := t1 |} x) = snd (exec cstep pick v cfg {| pp := p; tt := t2 |} x).
Proof.
  intros cstep pick v cfg p t1 t2 x Hv. destruct x; cbn [exec].
  - (* Core *)
    unfold x_core. cbn [pp tt].
    destruct x; try (destruct (cstep (core p) _) as [c1 r]; cbn; split; reflexivity).
    + (* MarkDb *) destruct (stream_on _ p); [cbn; split; reflexivity|]. destruct (cstep (core p) _) as [c1 r]; cbn; split; reflexivity.
    + (* DropDb *) destruct (find_db (core p) db); [|cbn; split; reflexivity].
      destruct (cstep (core p) (DropDb db)) as [c1 r]. cbn. split; reflexivity.
    + (* MarkRp *) destruct (stream_on _ p); [cbn; split; reflexivity|]. destruct (cstep (core p) _) as [c1 r]; cbn; split; reflexivity.
    + (* MarkMst *) destruct (stream_on _ p); [cbn; split; reflexivity|]. destruct (cstep (core p) _) as [c1 r]; cbn; split; reflexivity.
    + (* CreateNode *)
      unfold x_create_dnode, rewrite_expand. rewrite Hv. cbn [pp tt witht withp set_t_expand t_expand].
      destruct (existsb _ (nodes (core p)) || existsb _ (nodes (core p))); cbn; split; reflexivity.
    + (* UpdatePt *)
      destruct ((status =? 0) && node_alive p owner); destruct (cstep _ _) as [c1 r]; cbn; split; reflexivity.
  - unfold x_create_user. cbn [pp tt]. split_matches; cbn; split; reflexivity.
  - unfold x_drop_user. cbn [pp tt]. split_matches; cbn; split; reflexivity.
  - unfold x_update_user. cbn [pp tt]. split_matches; cbn; split; reflexivity.
  - unfold x_set_privilege. cbn [pp tt]. split_matches; cbn; split; reflexivity.
  - cbn. split; reflexivity.
  - unfold x_create_sub. cbn [pp tt]. split_matches; cbn; split; reflexivity.
  - unfold x_drop_sub. cbn [pp tt]. split_matches; cbn; split; reflexivity.
  - unfold x_create_cq. cbn [pp tt]. split_matches; cbn; split; reflexivity.
  - cbn. split; reflexivity.
  - unfold x_drop_cq. cbn [pp tt]. split_matches; cbn; split; reflexivity.
  - cbn. split; reflexivity.
  - cbn. split; reflexivity.
  - unfold x_set_meta. cbn [pp tt]. split_matches; cbn; split; reflexivity.
  - unfold x_delete_meta. cbn [pp tt]. split_matches; cbn; split; reflexivity.
  - unfold x_create_sql, rewrite_expand. rewrite Hv. cbn [pp tt witht withp]. split_matches; cbn; split; reflexivity.
  - unfold x_tmp_index. cbn [pp tt]. split_matches; cbn; split; reflexivity.
  - cbn. split; reflexivity.
  - cbn. split; reflexivity.
  - cbn. split; reflexivity.
  - unfold x_register_qid. cbn [pp tt]. split_matches; cbn; split; reflexivity.
  - cbn. split; reflexivity.
  - unfold x_pt_version, xok. cbn [pp tt]. split_matches; cbn; split; reflexivity.
  - unfold x_node_status. cbn [pp tt]. split_matches; cbn; split; reflexivity.
  - unfold x_sql_status. cbn [pp tt]. split_matches; cbn; split; reflexivity.
  - unfold x_meta_status. cbn [pp tt]. split_matches; cbn; split; reflexivity.
  - unfold x_shard_tier. cbn [pp tt]. split_matches; cbn; split; reflexivity.
  - unfold x_index_tier. cbn [pp tt]. split_matches; cbn; split; reflexivity.
  - unfold x_create_stream. cbn [pp tt]. split_matches; cbn; split; reflexivity.
  - unfold x_drop_stream. cbn [pp tt]. split_matches; cbn; split; reflexivity.
Qed.

Lemma apply_pp : forall cstep pick v cfg s1 s2 e, v_rewrite v = true -> pp s1 = pp s2 ->
  pp (fst (x_apply cstep pick v cfg s1 e)) = pp (fst (x_apply cstep pick v cfg s2 e)) /\
  snd (x_apply cstep pick v cfg s1 e) = snd (x_apply cstep pick v cfg s2 e).
Proof.
  intros cstep pick v cfg [p t1] [p2 t2] [[tm ix] x] Hv H. cbn [pp] in H. subst p2.
  unfold x_apply. destruct (exec_pp cstep pick v cfg p t1 t2 x Hv) as [A B].
  destruct (exec cstep pick v cfg {| pp := p; tt := t1 |} x) as [a ra], (exec cstep pick v cfg {| pp := p; tt := t2 |} x) as [b rb].
  cbn [fst snd] in A, B. subst rb.
  destruct (ra && negb (is_tmpindex x)); cbn [fst snd pp withp witht]; rewrite A; split; reflexivity.
Qed.

Lemma run_pp : forall cstep pick v cfg l s1 s2, v_rewrite v = true -> pp s1 = pp s2 ->
  pp (fst (x_run cstep pick v cfg s1 l)) = pp (fst (x_run cstep pick v cfg s2 l)) /\
  snd (x_run cstep pick v cfg s1 l) = snd (x_run cstep pick v cfg s2 l).
Proof.
  intros cstep pick v cfg l. induction l as [|e r IH]; intros s1 s2 Hv H; cbn [x_run]; [split; [exact H | reflexivity]|].
  destruct (apply_pp cstep pick v cfg s1 s2 e Hv H) as [A B].
  destruct (x_apply cstep pick v cfg s1 e) as [a ra], (x_apply cstep pick v cfg s2 e) as [b rb]. cbn [fst snd] in A, B. subst rb.
  destruct (IH a b Hv A) as [C D].
  destruct (x_run cstep pick v cfg a r) as [a2 ras], (x_run cstep pick v cfg b r) as [b2 rbs]. cbn [fst snd] in *.
  split; [exact C | rewrite D; reflexivity].
Qed.


(* what the housekeeping after a catalogue command leaves alone *)
Lemma gc_cqs : forall cfg p, cqs (gc cfg p) = cqs p.
Proof. reflexivity. Qed.
Lemma gc_users : forall cfg p, users (gc cfg p) = users p.
Proof. reflexivity. Qed.
Lemma dnode_cqs : forall v cfg s h t, cqs (pp (fst (x_create_dnode v cfg s h t))) = cqs (pp s).
Proof.
  intros. unfold x_create_dnode, rewrite_expand. destruct (v_rewrite v); cbn [pp tt witht withp];
    destruct (existsb _ _ || existsb _ _); reflexivity.
Qed.
Lemma dnode_users : forall v cfg s h t, users (pp (fst (x_create_dnode v cfg s h t))) = users (pp s).
Proof.
  intros. unfold x_create_dnode, rewrite_expand. destruct (v_rewrite v); cbn [pp tt witht withp];
    destruct (existsb _ _ || existsb _ _); reflexivity.
Qed.
Lemma dnode_admin : forall v cfg s h t, t_admin (tt (fst (x_create_dnode v cfg s h t))) = t_admin (tt s).
Proof.
  intros. unfold x_create_dnode, rewrite_expand. destruct (v_rewrite v); cbn [pp tt witht withp];
    destruct (existsb _ _ || existsb _ _); reflexivity.
Qed.

Ltac core_cases cstep s :=
  unfold x_core; cbn zeta;
  repeat match goal with
         | |- context [if ?e then _ else _] => destruct e
         | |- context [match find_db ?a ?b with _ => _ end] => destruct (find_db a b)
         | |- context [cstep ?a ?b] => destruct (cstep a b)
         end.

(* ---------------------------------------------------------------------------------------------- round trip *)
Definition time_ok (o : option Z) : Prop := match o with None => True | Some n => n <> 0 /\ MININT <= n <= MAXNANO1 end.
Definition cq_wf (p : pstate) : Prop := Forall (fun c => time_ok (cq_last c)) (cqs p).
Definition reps (p : pstate) : Prop := representable (core p) /\ cq_wf p.

Lemma time_roundtrip : forall v o, v_cqfix v = true -> time_ok o -> dec_time v (enc_time v o) = o.
Proof.
  intros v o Hv H. unfold dec_time, enc_time. rewrite Hv. destruct o as [n|]; [|reflexivity].
  cbn in H. destruct H as [H0 Hr]. rewrite wrap64_id by exact Hr.
  destruct (n =? 0) eqn:E; [apply Z.eqb_eq in E; contradiction | reflexivity].
Qed.

Lemma persisted_id : forall v p, v_cqfix v = true -> v_idxfix v = true -> reps p -> persisted v p = p.
Proof.
  intros v p H1 H2 [Hc Hq]. unfold persisted. rewrite H2. rewrite (restore_state_id _ Hc).
  assert (E : map (fun c => cq_set_last (dec_time v (enc_time v (cq_last c))) c) (cqs p) = cqs p).
  { rewrite <- (map_id (cqs p)) at 2. apply map_ext_in. intros c Hin. unfold cq_wf in Hq. rewrite Forall_forall in Hq.
    rewrite (time_roundtrip v _ H1 (Hq c Hin)). destruct c. reflexivity. }
  rewrite E. destruct p. reflexivity.
Qed.


(* a decidable form of C16's representability, for examples *)
Lemma representable_b_sound : forall c, representable_b c = true -> representable c.
Proof.
  unfold representable_b, representable. intros c Hb. rewrite forallb_forall in Hb. apply Forall_forall. intros p Hp.
  specialize (Hb p Hp). apply andb_true_iff in Hb. destruct Hb as [B1 B2]. rewrite forallb_forall in B1, B2.
  split; apply Forall_forall; intros g Hg; [specialize (B1 g Hg) | specialize (B2 g Hg)]; unfold span_ok_b, span_ok in *; lia.
Qed.

(* the environment's guarantee about a log entry: a reported last-run instant is an int64 (it travels in an int64 field) *)
Definition entry_ok (e : entry) : Prop :=
  match snd e with ReportCq _ ts => MININT <= ts <= MAXNANO1 | _ => True end.

Lemma cq_wf_exec : forall cstep pick v cfg s x, v_cqfix v = true ->
  match x with ReportCq _ ts => MININT <= ts <= MAXNANO1 | _ => True end ->
  cq_wf (pp s) -> cq_wf (pp (fst (exec cstep pick v cfg s x))).
Proof.
  intros cstep pick v cfg s x Hv He H. unfold cq_wf in *. destruct x; cbn [exec]; try exact H.
  - destruct x; try (core_cases cstep s; cbn; exact H).
    + (* DropDb *) core_cases cstep s; cbn; try exact H;
        (apply Forall_forall; intros c0 Hin; apply filter_In in Hin; rewrite Forall_forall in H; apply H; tauto).
    + (* CreateNode *) unfold x_core. cbn zeta. pose proof (dnode_cqs v cfg s http tcp) as E.
      destruct (x_create_dnode v cfg s http tcp) as [s1 r]. cbn [fst] in *. cbn. rewrite E. exact H.
  - unfold x_create_user. split_matches; cbn; exact H.
  - unfold x_drop_user. split_matches; cbn; exact H.
  - unfold x_update_user. split_matches; cbn; exact H.
  - unfold x_set_privilege. split_matches; cbn; exact H.
  - unfold x_create_sub. split_matches; cbn; exact H.
  - unfold x_drop_sub. split_matches; cbn; exact H.
  - unfold x_create_cq. split_matches; cbn; try exact H.
    apply Forall_app. split; [exact H | constructor; [exact I | constructor]].
  - unfold x_report_cq. cbn. apply Forall_forall. intros c Hin. apply in_map_iff in Hin. destruct Hin as (c0 & Ec & Hin0).
    rewrite Forall_forall in H. specialize (H c0 Hin0). destruct (cq_name c0 =? name); subst c; [|exact H].
    cbn. unfold stat_time. rewrite Hv. destruct (ts =? 0) eqn:E; cbn; [exact I|]. split; [intro Z0; subst ts; discriminate | exact He].
  - unfold x_drop_cq. split_matches; cbn; try exact H.
    apply Forall_forall. intros c Hin. apply filter_In in Hin. rewrite Forall_forall in H. apply H. tauto.
  - unfold x_create_meta, create_meta. split_matches; cbn; exact H.
  - unfold x_set_meta, create_meta. split_matches; cbn; exact H.
  - unfold x_delete_meta. split_matches; cbn; exact H.
  - unfold x_create_sql, rewrite_expand. split_matches; cbn; exact H.
  - unfold x_tmp_index. split_matches; cbn; exact H.
  - unfold x_register_qid. split_matches; cbn; exact H.
  - unfold x_pt_version, xok. split_matches; cbn; exact H.
  - unfold x_node_status. split_matches; cbn; exact H.
  - unfold x_sql_status. split_matches; cbn; exact H.
  - unfold x_meta_status. split_matches; cbn; exact H.
  - unfold x_shard_tier. split_matches; cbn; exact H.
  - unfold x_index_tier. split_matches; cbn; exact H.
  - unfold x_create_stream. split_matches; cbn; exact H.
  - unfold x_drop_stream. split_matches; cbn; exact H.
Qed.

Lemma cq_wf_apply : forall cstep pick v cfg s e, v_cqfix v = true -> entry_ok e -> cq_wf (pp s) ->
  cq_wf (pp (fst (x_apply cstep pick v cfg s e))).
Proof.
  intros cstep pick v cfg s [[tm ix] x] Hv He H. unfold x_apply. unfold entry_ok in He. cbn [snd] in He.
  pose proof (cq_wf_exec cstep pick v cfg s x Hv He H) as W.
  destruct (exec cstep pick v cfg s x) as [s1 r]. cbn [fst] in W.
  destruct (r && negb (is_tmpindex x)); cbn; exact W.
Qed.

Lemma cq_wf_run : forall cstep pick v cfg l s, v_cqfix v = true -> Forall entry_ok l -> cq_wf (pp s) ->
  cq_wf (pp (fst (x_run cstep pick v cfg s l))).
Proof.
  intros cstep pick v cfg l. induction l as [|e r IH]; intros s Hv He H; cbn [x_run]; [exact H|].
  inversion He; subst. pose proof (cq_wf_apply cstep pick v cfg s e Hv H2 H) as W.
  destruct (x_apply cstep pick v cfg s e) as [s1 b]. cbn [fst] in W. specialize (IH s1 Hv H3 W).
  destruct (x_run cstep pick v cfg s1 r) as [s2 bs]. exact IH.
Qed.

(* ---------------------------------------------------------------------------------------------- snapshot / restore *)
Lemma restore_pp : forall v s, v_cqfix v = true -> v_idxfix v = true -> reps (pp s) -> pp (x_restore v s) = pp s.
Proof. intros v s H1 H2 R. unfold x_restore. cbn [pp]. apply persisted_id; assumption. Qed.

Lemma run_app : forall cstep pick v cfg l1 l2 s,
  x_run cstep pick v cfg s (l1 ++ l2) =
  (fst (x_run cstep pick v cfg (fst (x_run cstep pick v cfg s l1)) l2),
   snd (x_run cstep pick v cfg s l1) ++ snd (x_run cstep pick v cfg (fst (x_run cstep pick v cfg s l1)) l2)).
Proof.
  intros cstep pick v cfg l1. induction l1 as [|e r IH]; intros l2 s; cbn [app x_run fst snd].
  - destruct (x_run cstep pick v cfg s l2); reflexivity.
  - destruct (x_apply cstep pick v cfg s e) as [s1 b]. rewrite IH.
    destruct (x_run cstep pick v cfg s1 r) as [s2 bs]. cbn [fst snd app]. reflexivity.
Qed.

(* a replica that restores the snapshot taken after l1 and applies l2 ends, on the persistent part, where the replica that
   applied l1 ++ l2 ends, and returns the same result for every command of l2 *)
Lemma snapshot_transparent : forall cstep pick v cfg l1 l2 s0,
  v_cqfix v = true -> v_idxfix v = true -> v_rewrite v = true ->
  cq_wf (pp s0) -> Forall entry_ok l1 ->
  representable (core (pp (fst (x_run cstep pick v cfg s0 l1)))) ->
  let s1 := fst (x_run cstep pick v cfg s0 l1) in
  pp (fst (x_run cstep pick v cfg (x_restore v s1) l2)) = pp (fst (x_run cstep pick v cfg s0 (l1 ++ l2))) /\
  snd (x_run cstep pick v cfg s0 (l1 ++ l2)) = snd (x_run cstep pick v cfg s0 l1) ++ snd (x_run cstep pick v cfg (x_restore v s1) l2).
Proof.
  intros cstep pick v cfg l1 l2 s0 H1 H2 H3 W E R s1. rewrite run_app. cbn [fst snd]. fold s1.
  assert (P : pp (x_restore v s1) = pp s1).
  { apply restore_pp; try assumption. split; [exact R | apply cq_wf_run; assumption]. }
  destruct (run_pp cstep pick v cfg l2 (x_restore v s1) s1 H3 P) as [A B]. rewrite A, B. split; reflexivity.
Qed.

(* ---------------------------------------------------------------------------------------------- the admin cache *)
Definition admin_inv (s : xstate) : Prop := t_admin (tt s) = existsb u_admin (users (pp s)).

Lemma existsb_remove_first_nonadmin : forall n l, (forall u, find_user l n = Some u -> u_admin u = false) ->
  existsb u_admin (remove_first (is_user n) l) = existsb u_admin l.
Proof.
  intros n l. induction l as [|x r IH]; intros H; cbn; [reflexivity|].
  unfold find_user in H. cbn in H. destruct (is_user n x) eqn:E.
  - rewrite (H x eq_refl). reflexivity.
  - cbn. rewrite IH; [reflexivity | exact H].
Qed.

Lemma existsb_upd_first_admin : forall (f : user -> bool) (g : user -> user) l, (forall u, u_admin (g u) = u_admin u) ->
  existsb u_admin (upd_first f g l) = existsb u_admin l.
Proof.
  intros f g l Hg. induction l as [|x r IH]; cbn; [reflexivity|]. destruct (f x); cbn; [rewrite Hg; reflexivity | rewrite IH; reflexivity].
Qed.

Lemma existsb_map_admin : forall (g : user -> user) l, (forall u, u_admin (g u) = u_admin u) -> existsb u_admin (map g l) = existsb u_admin l.
Proof. intros g l Hg. induction l as [|x r IH]; cbn; [reflexivity|]. rewrite Hg, IH. reflexivity. Qed.

Lemma admin_inv_exec : forall cstep pick v cfg s x, admin_inv s -> admin_inv (fst (exec cstep pick v cfg s x)).
Proof.
  intros cstep pick v cfg s x H. unfold admin_inv in *. destruct x; cbn [exec]; try exact H.
  - destruct x; try (core_cases cstep s; cbn; exact H).
    + (* DropDb *) core_cases cstep s; cbn; try exact H;
        (rewrite existsb_map_admin by (intros; reflexivity); exact H).
    + (* CreateNode *) unfold x_core. cbn zeta. pose proof (dnode_users v cfg s http tcp) as E. pose proof (dnode_admin v cfg s http tcp) as Ea.
      destruct (x_create_dnode v cfg s http tcp) as [s1 r]. cbn [fst] in *. cbn. rewrite E, Ea. exact H.
  - unfold x_create_user. destruct (name =? 0); [exact H|]. destruct (find_user _ _); [exact H|].
    destruct (admin && existsb u_admin (users (pp s))) eqn:E; [exact H|]. cbn. rewrite existsb_app. cbn.
    destruct admin; cbn in *; [rewrite E; reflexivity | rewrite orb_false_r; exact H].
  - unfold x_drop_user. destruct (find_user (users (pp s)) name) as [u|] eqn:E; [|exact H].
    destruct (u_admin u) eqn:Ea; [exact H|]. cbn. rewrite existsb_remove_first_nonadmin; [exact H|].
    intros u0 Hu. rewrite E in Hu. injection Hu as <-. exact Ea.
  - unfold x_update_user. split_matches; cbn; try exact H. rewrite existsb_upd_first_admin by (intros; reflexivity). exact H.
  - unfold x_set_privilege. split_matches; cbn; try exact H. rewrite existsb_upd_first_admin by (intros; reflexivity). exact H.
  - unfold x_create_sub. split_matches; cbn; exact H.
  - unfold x_drop_sub. split_matches; cbn; exact H.
  - unfold x_create_cq. split_matches; cbn; exact H.
  - unfold x_drop_cq. split_matches; cbn; exact H.
  - unfold x_create_meta, create_meta. split_matches; cbn; exact H.
  - unfold x_set_meta, create_meta. split_matches; cbn; exact H.
  - unfold x_delete_meta. split_matches; cbn; exact H.
  - unfold x_create_sql, rewrite_expand. split_matches; cbn; exact H.
  - unfold x_tmp_index. split_matches; cbn; exact H.
  - unfold x_register_qid. split_matches; cbn; exact H.
  - unfold x_pt_version, xok. split_matches; cbn; exact H.
  - unfold x_node_status. split_matches; cbn; exact H.
  - unfold x_sql_status. split_matches; cbn; exact H.
  - unfold x_meta_status. split_matches; cbn; exact H.
  - unfold x_shard_tier. split_matches; cbn; exact H.
  - unfold x_index_tier. split_matches; cbn; exact H.
  - unfold x_create_stream. split_matches; cbn; exact H.
  - unfold x_drop_stream. split_matches; cbn; exact H.
Qed.

Lemma admin_inv_apply : forall cstep pick v cfg s e, admin_inv s -> admin_inv (fst (x_apply cstep pick v cfg s e)).
Proof.
  intros cstep pick v cfg s [[tm ix] x] H. unfold x_apply. pose proof (admin_inv_exec cstep pick v cfg s x H) as W.
  destruct (exec cstep pick v cfg s x) as [s1 r]. cbn [fst] in W. destruct (r && negb (is_tmpindex x)); cbn; exact W.
Qed.

Lemma admin_inv_restore : forall v s, admin_inv (x_restore v s).
Proof. intros. reflexivity. Qed.

(* ---------------------------------------------------------------------------------------------- iteration order *)
Definition pick_valid (pick : list Z -> option Z) : Prop :=
  forall l, match pick l with Some k => In k l | None => l = [] end.

(* two step functions of the core that agree on the current catalogue, and (repaired DropSubscription) any two choice
   functions: same state, same result *)
Lemma exec_order : forall cs1 cs2 pk1 pk2 v cfg s x, v_dsubfix v = true ->
  (forall c, cs1 (core (pp s)) c = cs2 (core (pp s)) c) ->
  (forall c db pt co cs o st, cs1 c (UpdatePt db pt co cs o st) = cs2 c (UpdatePt db pt co cs o st)) ->
  exec cs1 pk1 v cfg s x = exec cs2 pk2 v cfg s x.
Proof.
  intros cs1 cs2 pk1 pk2 v cfg s x Hv Hc Hu. destruct x; cbn [exec]; try reflexivity.
  - unfold x_core. destruct x; rewrite ?Hc, ?Hu; reflexivity.
  - unfold x_drop_sub. rewrite Hv. reflexivity.
Qed.

(* today's DropSubscription: the choice is immaterial when at most one policy carries a subscription of that name *)
Lemma pick_unique : forall pk1 pk2 (l : list Z), pick_valid pk1 -> pick_valid pk2 -> (length l <= 1)%nat -> pk1 l = pk2 l.
Proof.
  intros pk1 pk2 l V1 V2 L. specialize (V1 l). specialize (V2 l).
  destruct l as [|a [|b r]]; cbn in L; try lia.
  - destruct (pk1 []), (pk2 []); try reflexivity; try contradiction.
  - destruct (pk1 [a]) as [x|], (pk2 [a]) as [y|]; try discriminate; try reflexivity.
    destruct V1 as [<-|[]], V2 as [<-|[]]. reflexivity.
Qed.

Lemma exec_order_current : forall cs pk1 pk2 v cfg s x, pick_valid pk1 -> pick_valid pk2 ->
  match x with DropSub db 0 n => (length (sub_candidates (pp s) db n) <= 1)%nat | _ => True end ->
  exec cs pk1 v cfg s x = exec cs pk2 v cfg s x.
Proof.
  intros cs pk1 pk2 v cfg s x V1 V2 H. destruct x; cbn [exec]; try reflexivity.
  unfold x_drop_sub. destruct (db =? 0); [reflexivity|]. destruct (name =? 0); [reflexivity|].
  destruct (rp =? 0) eqn:E; [|reflexivity]. apply Z.eqb_eq in E. subst rp.
  destruct (find_db _ _); [|reflexivity]. destruct (v_dsubfix v); [reflexivity|].
  rewrite (pick_unique pk1 pk2 _ V1 V2 H). reflexivity.
Qed.

(* runs under per-step oracles: the core's (C16.Order.applyO) and DropSubscription's *)
Section Oracles.
  Variable shard_type : mst -> Z.
  Variable range_create : cat -> policy -> Z -> Z -> cat * bool.
  Variables clip cleardef : bool.
  Variable v : variant.
  Variable cfg : config.

  Definition stepO (o : oracle) := applyO shard_type range_create clip cleardef o.

  Fixpoint x_runO (os : list (oracle * (list Z -> option Z))) (s : xstate) (l : list entry) : xstate * list bool :=
    match l, os with
    | e :: r, (o, pk) :: os' =>
        let '(s1, b) := x_apply (stepO o) pk v cfg s e in let '(s2, bs) := x_runO os' s1 r in (s2, b :: bs)
    | _, _ => (s, [])
    end.

  (* uniform sharding (C16.Order) holds in every catalogue the first replica goes through *)
  Fixpoint uniform_alongX (os : list (oracle * (list Z -> option Z))) (s : xstate) (l : list entry) : Prop :=
    match l, os with
    | e :: r, (o, pk) :: os' => uniform_sharding shard_type (core (pp s)) /\ uniform_alongX os' (fst (x_apply (stepO o) pk v cfg s e)) r
    | _, _ => True
    end.

  Lemma apply_order : forall o1 o2 pk1 pk2 s e, v_dsubfix v = true -> valid o1 -> valid o2 ->
    uniform_sharding shard_type (core (pp s)) ->
    x_apply (stepO o1) pk1 v cfg s e = x_apply (stepO o2) pk2 v cfg s e.
  Proof.
    intros o1 o2 pk1 pk2 s [[tm ix] x] Hv V1 V2 U. unfold x_apply.
    rewrite (exec_order (stepO o1) (stepO o2) pk1 pk2 v cfg s x Hv); [reflexivity | | reflexivity].
    intros c. apply apply_order_independent_lemma; assumption.
  Qed.

  Lemma convergence : forall l os1 os2 s, v_dsubfix v = true ->
    length os1 = length l -> length os2 = length l ->
    Forall (fun o => valid (fst o)) os1 -> Forall (fun o => valid (fst o)) os2 ->
    uniform_alongX os1 s l -> x_runO os1 s l = x_runO os2 s l.
  Proof.
    induction l as [|e r IH]; intros os1 os2 s Hv L1 L2 V1 V2 U; destruct os1 as [|[o1 pk1] t1], os2 as [|[o2 pk2] t2]; try discriminate; [reflexivity|].
    cbn [x_runO]. cbn [uniform_alongX] in U. destruct U as [U0 U1]. inversion V1; subst. inversion V2; subst. cbn [fst] in *.
    rewrite (apply_order o1 o2 pk1 pk2 s e Hv) in * by assumption.
    destruct (x_apply (stepO o2) pk2 v cfg s e) as [s1 b]. cbn [fst] in U1. cbn in L1, L2.
    rewrite (IH t1 t2 s1) by (assumption || lia). reflexivity.
  Qed.
End Oracles.
