(* C15 correspondence evaluator for the hand model (Cmds.v): runs the model on a harness case (log entries + result and
   canonical rows of the REAL meta.Data after every step) in the 16 variants (cleardef of the C16 core, cqfix, idxfix,
   dsubfix) and reports per variant the first step at which model and implementation differ. Where today's
   DropSubscription consults the map order, every candidate position is tried (the implementation's choice is accepted). *)
From Coq Require Import ZArith List Bool.
From OG Require Import C16.Model C16.Expand C15.Cmds.
Import ListNotations.
Open Scope Z_scope.

Definition row := list Z.
Fixpoint row_leb (a b : row) : bool :=
  match a, b with
  | [], _ => true
  | _ :: _, [] => false
  | x :: a', y :: b' => (x <? y) || ((x =? y) && row_leb a' b')
  end.
Fixpoint row_eqb (a b : row) : bool :=
  match a, b with [], [] => true | x :: a', y :: b' => (x =? y) && row_eqb a' b' | _, _ => false end.
Fixpoint insert_row (x : row) (l : list row) : list row :=
  match l with [] => [x] | y :: r => if row_leb x y then x :: l else y :: insert_row x r end.
Definition sort_rows (l : list row) : list row := fold_right insert_row [] l.
Fixpoint rows_eqb (a b : list row) : bool :=
  match a, b with [], [] => true | x :: a', y :: b' => row_eqb x y && rows_eqb a' b' | _, _ => false end.

Definition bz (b : bool) : Z := if b then 1 else 0.
Fixpoint indexed {A} (i : Z) (l : list A) : list (Z * A) := match l with [] => [] | x :: r => (i, x) :: indexed (i + 1) r end.
Definition zlen {A} (l : list A) : Z := Z.of_nat (length l).

(* the rows of harness/cmd/c15/model.go modelRows *)
Definition observe (sgtier : Z) (s : xstate) : list row :=
  let p := pp s in
  let c := core p in
  map (fun d => [1; db_name d; db_default d; bz (db_mark d)]) (dbs c) ++
  map (fun q => [2; rp_db q; rp_name q; bz (rp_mark q); rp_dur q; rp_sgdur q; zlen (rp_msts q); zlen (rp_sgs q); zlen (rp_igs q)]) (pols c) ++
  map (fun e => [3; fst e; nd_id (snd e); nd_http (snd e); nd_tcp (snd e); nd_conn (snd e)]) (indexed 0 (nodes c)) ++
  map (fun n => [12; nd_id n; idx_of (dn_index p) (nd_tcp n)]) (nodes c) ++
  map (fun e => let st := stat_of (dn_stat p) (nd_tcp (snd e)) in [17; fst e; ns_status st; ns_ltime st; ns_alive st; ns_gossip st]) (indexed 0 (nodes c)) ++
  flat_map (fun v => map (fun e => [18; fst v; fst e; pt_owner (snd e); pt_status (snd e); pt_ver (snd e)]) (indexed 0 (snd v))) (ptview c) ++
  flat_map (fun q => flat_map (fun g => map (fun x => [15; sh_id x; match assoc (sh_id x) (sh_tier p) with Some t => t | None => sgtier end]) (sg_shards g)) (rp_sgs q)) (pols c) ++
  flat_map (fun q => flat_map (fun g => map (fun x => [16; ix_id x; match assoc (ix_id x) (ix_tier p) with Some t => t | None => 0 end]) (ig_indexes g)) (rp_igs q)) (pols c) ++
  map (fun x => [19; st_name x; st_id x; fst (fst (st_src x)); snd (fst (st_src x)); snd (st_src x); snd (st_dst x); st_interval x]) (streams p) ++
  [[4; ptnum c; max_node c; max_sg c; max_sh c; max_mst c; max_ig c; max_ix c; max_conn c]] ++
  map (fun e => [5; fst e; u_name (snd e); u_hash (snd e); bz (u_admin (snd e)); bz (u_rw (snd e))]) (indexed 0 (users p)) ++
  flat_map (fun u => map (fun e => [6; u_name u; fst e; snd e]) (u_privs u)) (users p) ++
  flat_map (fun e => map (fun x => [7; fst (fst e); snd (fst e); fst x; sb_name (snd x); sb_mode (snd x); sb_dest (snd x)]) (indexed 0 (snd e))) (subs p) ++
  [[8; max_sub p; max_cqchg p; cluster_id p; bz (takeover p); bz (balancer p); p_term p; p_index p; max_stream p]] ++
  map (fun q => match cq_last q with
                | None => [9; cq_db q; cq_name q; cq_query q; 0; 0]
                | Some n => [9; cq_db q; cq_name q; cq_query q; 1; n]
                end) (cqs p) ++
  map (fun e => [10; fst e; mn_id (snd e); mn_http (snd e); mn_tcp (snd e); mn_status (snd e); mn_ltime (snd e)]) (indexed 0 (metas p)) ++
  map (fun e => [11; fst e; sq_id (snd e); sq_host (snd e); sq_conn (snd e); sq_index (snd e); sq_status (snd e); sq_ltime (snd e); sq_alive (snd e)]) (indexed 0 (sqls p)) ++
  map (fun e => [13; fst e; snd e]) (qids p) ++
  [[14; bz (t_expand (tt s)); bz (t_admin (tt s)); t_tmpstart (tt s)]].

Inductive op := OCmd (tm ix : Z) (x : xcmd) | ORestore.
Definition step_obs := (op * bool * list row)%type.

(* ExpandGroups is C16.Expand.expand_groups; every CreateShardGroup command of the harness carries tier 1 *)
Definition SGTIER : Z := 1.
Definition cfg_of (expand : bool) : config := {| cfg_expand := expand; cfg_expandf := expand_groups; cfg_sgtier := SGTIER |}.
Definition picks : list (list Z -> option Z) :=
  [(fun l => nth_error l 0); (fun l => nth_error l 1); (fun l => nth_error l 2); (fun l => nth_error l 3)].

Definition step_with (cfg0 : config) (cleardef : bool) (v : variant) (s : xstate) (o : op) (pk : list Z -> option Z) : xstate * bool :=
  match o with
  | OCmd tm ix x => x_apply (apply false cleardef) pk v cfg0 s (tm, ix, x)
  | ORestore => (x_restore v s, true)
  end.

Definition matches (cfg0 : config) (cleardef : bool) (v : variant) (s : xstate) (o : op) (r : bool) (rows : list row) (pk : list Z -> option Z) : bool :=
  let '(s', r') := step_with cfg0 cleardef v s o pk in Bool.eqb r r' && rows_eqb (sort_rows (observe SGTIER s')) (sort_rows rows).

Fixpoint check_from (cfg0 : config) (cleardef : bool) (v : variant) (i : nat) (s : xstate) (tr : list step_obs) : option nat :=
  match tr with
  | [] => None
  | (o, r, rows) :: rest =>
      match find (matches cfg0 cleardef v s o r rows) picks with
      | Some pk => check_from cfg0 cleardef v (S i) (fst (step_with cfg0 cleardef v s o pk)) rest
      | None => Some i
      end
  end.

(* NewStore: Index 1, UpdateNodeTmpIndexCommandStart 1, takeover and balancer enabled *)
Definition init_corr (per : Z) (sc : bool) : xstate :=
  let p := init_p (init_cat per sc) in
  {| pp := set_p_index (set_balancer (set_takeover p true) true) 1; tt := {| t_expand := false; t_admin := false; t_tmpstart := 1 |} |}.

Definition mk_variant (cq idx dsub : bool) : variant := {| v_cqfix := cq; v_idxfix := idx; v_dsubfix := dsub; v_rewrite := true |}.
(* (cleardef, cqfix, idxfix, dsubfix) *)
Definition variants : list (bool * bool * bool * bool) :=
  flat_map (fun cd => flat_map (fun a => flat_map (fun b => map (fun c => (cd, a, b, c)) [false; true]) [false; true]) [false; true]) [false; true].

Definition opt_nat_z (o : option nat) : Z := match o with None => -1 | Some n => Z.of_nat n end.

Definition check_case (per : Z) (sc expand : bool) (tr : list step_obs) : list Z :=
  map (fun x => match x with (cd, a, b, c) => opt_nat_z (check_from (cfg_of expand) cd (mk_variant a b c) 0 (init_corr per sc) tr) end) variants.

Definition check_cases (l : list (Z * bool * bool * list step_obs)) : list (list Z) :=
  map (fun x => match x with (per, sc, ex, tr) => check_case per sc ex tr end) l.

(* debugging aid: the model's rows after the first n steps (first candidate that matches, else the first) *)
Fixpoint rows_after (cfg0 : config) (cleardef : bool) (v : variant) (n : nat) (s : xstate) (tr : list step_obs) : list row :=
  match n, tr with
  | S n', (o, r, rows) :: rest =>
      let pk := match find (matches cfg0 cleardef v s o r rows) picks with Some pk => pk | None => (fun l => nth_error l 0) end in
      rows_after cfg0 cleardef v n' (fst (step_with cfg0 cleardef v s o pk)) rest
  | _, _ => sort_rows (observe SGTIER s)
  end.
