(* C15 - snapshot/restore of the meta catalogue: executable definitions.
   (a) The tables regenerated from the repository on every run (Gen_Fields.v) say, for every struct type reachable from
       meta.Data, which fields its marshal method reads, its unmarshal method assigns and its clone method copies.
   (b) Catalogue values are modelled as trees of records-as-finite-maps; clone, marshal and unmarshal are projections along
       those tables (a field that a step does not carry comes out as the zero value).
   snapshot = marshal o clone (storeFSM.Snapshot + storeFSMSnapshot.Persist), restore = unmarshal (storeFSM.Restore). *)
From Coq Require Import ZArith List Bool String.
Import ListNotations.
Open Scope string_scope.

Record tyinfo := {
  ty_name : string;
  ty_fields : list string;
  ty_codec : bool;                 (* the type has its own marshal/unmarshal methods (otherwise its container writes it inline) *)
  ty_clone : bool;                 (* the type has its own clone method (otherwise it is copied as a value by its container) *)
  ty_marshalled : list string;     (* fields read by marshal *)
  ty_unmarshalled : list string;   (* fields assigned by unmarshal *)
  ty_cloned : list string;         (* fields carried over by clone (deep or shallow) *)
  ty_shallow : list string         (* reference-typed fields (slice/map/pointer) that clone shares with the original *)
}.

Fixpoint mem (x : string) (l : list string) : bool :=
  match l with [] => false | y :: r => String.eqb x y || mem x r end.

Fixpoint lookup (tbl : list tyinfo) (n : string) : option tyinfo :=
  match tbl with [] => None | t :: r => if String.eqb (ty_name t) n then Some t else lookup r n end.

Definition pair_mem (ty f : string) (l : list (string * string)) : bool :=
  existsb (fun p => String.eqb (fst p) ty && String.eqb (snd p) f) l.

(* which fields each step carries *)
Definition cloned (tbl : list tyinfo) (ty f : string) : bool :=
  match lookup tbl ty with Some t => if ty_clone t then mem f (ty_cloned t) else true | None => true end.
Definition marshalled (tbl : list tyinfo) (ty f : string) : bool :=
  match lookup tbl ty with Some t => if ty_codec t then mem f (ty_marshalled t) else true | None => true end.
Definition unmarshalled (tbl : list tyinfo) (ty f : string) : bool :=
  match lookup tbl ty with Some t => if ty_codec t then mem f (ty_unmarshalled t) else true | None => true end.

(* a field is covered if it is declared transient, is a recorded gap, or is carried by all three steps *)
Definition covered (tbl : list tyinfo) (transient gaps : list (string * string)) (t : tyinfo) (f : string) : bool :=
  pair_mem (ty_name t) f transient || pair_mem (ty_name t) f gaps ||
  (cloned tbl (ty_name t) f && marshalled tbl (ty_name t) f && unmarshalled tbl (ty_name t) f).

Definition coverage_ok (tbl : list tyinfo) (transient gaps : list (string * string)) : bool :=
  forallb (fun t => forallb (covered tbl transient gaps t) (ty_fields t)) tbl.

Definition uncovered (tbl : list tyinfo) (transient : list (string * string)) : list (string * string) :=
  flat_map (fun t => map (fun f => (ty_name t, f)) (filter (fun f => negb (covered tbl transient [] t f)) (ty_fields t))) tbl.

(* the persistent part of the catalogue: fields of known types that are neither transient nor recorded gaps *)
Definition persistent (tbl : list tyinfo) (transient gaps : list (string * string)) (ty f : string) : bool :=
  match lookup tbl ty with
  | Some t => mem f (ty_fields t) && negb (pair_mem ty f transient) && negb (pair_mem ty f gaps)
  | None => false
  end.

(* ---- values ---- *)
Inductive val :=
| VZero                                        (* the zero value of any type *)
| VLeaf (z : Z)                                (* numbers, strings, booleans, instants *)
| VRec (ty : string) (fs : list (string * val))
| VSeq (l : list val).                         (* slices and maps (as sorted entry lists) *)

Fixpoint project (keep : string -> string -> bool) (v : val) : val :=
  match v with
  | VZero => VZero
  | VLeaf z => VLeaf z
  | VRec ty fs =>
      VRec ty ((fix go (l : list (string * val)) : list (string * val) :=
                  match l with
                  | [] => []
                  | (f, x) :: r => (f, if keep ty f then project keep x else VZero) :: go r
                  end) fs)
  | VSeq l => VSeq ((fix go (l : list val) : list val := match l with [] => [] | x :: r => project keep x :: go r end) l)
  end.

Definition clone (tbl : list tyinfo) := project (cloned tbl).
Definition marshal (tbl : list tyinfo) := project (marshalled tbl).
Definition unmarshal (tbl : list tyinfo) := project (unmarshalled tbl).
Definition snapshot (tbl : list tyinfo) (v : val) : val := marshal tbl (clone tbl v).
Definition restore (tbl : list tyinfo) (v : val) : val := unmarshal tbl v.

(* ---- map-range sites of the apply path ---- *)
Record site := { s_func : string; s_expr : string; s_ord : nat; s_choice : bool }.
Definition site_eqb (a b : site) : bool :=
  String.eqb (s_func a) (s_func b) && String.eqb (s_expr a) (s_expr b) && Nat.eqb (s_ord a) (s_ord b).
Definition sites_classified (sites justified : list site) : bool :=
  forallb (fun s => negb (s_choice s) || existsb (site_eqb s) justified) sites.

(* ---- accesses of the apply path to the declared-transient fields: (field, function, read|write) ---- *)
Definition access := (string * string * string)%type.
Definition access_eqb (a b : access) : bool :=
  String.eqb (fst (fst a)) (fst (fst b)) && String.eqb (snd (fst a)) (snd (fst b)) && String.eqb (snd a) (snd b).
(* the generated accesses are exactly the reviewed ones: nothing new reads a transient field, and no reviewed
   (re-)establishing write has gone away *)
Definition access_reviewed (generated reviewed : list access) : bool :=
  forallb (fun a => existsb (access_eqb a) reviewed) generated && forallb (fun a => existsb (access_eqb a) generated) reviewed.
