(* C15 property theorems over the tables regenerated from the repository (Gen_Fields.v, Gen_MapRanges.v). *)
From Coq Require Import ZArith List Bool String.
From Coq Require Import Lia.
From OG Require Import C15.Model C15.Proofs C15.Tables C15.Gen_Fields C15.Gen_MapRanges C15.Gen_Transient C15.Gen_Commands C15.Gen_Values.
From OG Require Import C16.Model C16.ProofsRun C16.Order C16.Expand C15.Cmds C15.CmdsProofs C15.Uniform C15.UniformX.
Import ListNotations.
Open Scope string_scope.

(* every field of every catalogue type is transient (justified list), a recorded gap (finding), or carried by clone, marshal
   and unmarshal: a finite check over what the code says now *)
Theorem C15_coverage_modulo_known : coverage_ok (in_scope types) transient known_gaps = true.
Proof. vm_compute. reflexivity. Qed.
Print Assumptions C15_coverage_modulo_known.

(* hence a snapshot taken at any point and restored gives back the catalogue on everything but those fields *)
Theorem C15_snapshot_restore_id : forall v,
  project (persistent (in_scope types) transient known_gaps) (restore (in_scope types) (snapshot (in_scope types) v)) =
  project (persistent (in_scope types) transient known_gaps) v.
Proof. exact (snapshot_restore_id (in_scope types) transient known_gaps C15_coverage_modulo_known). Qed.
Print Assumptions C15_snapshot_restore_id.

(* the generic statement, for any table *)
Theorem C15_coverage_implies_roundtrip : forall tbl tr gaps, coverage_ok tbl tr gaps = true ->
  forall v, project (persistent tbl tr gaps) (restore tbl (snapshot tbl v)) = project (persistent tbl tr gaps) v.
Proof. exact snapshot_restore_id. Qed.
Print Assumptions C15_coverage_implies_roundtrip.

(* every map range reachable from the apply handlers is order-insensitive by a syntactic pattern or listed with its reason *)
Theorem C15_sites_classified : sites_classified sites justified_choices = true.
Proof. vm_compute. reflexivity. Qed.
Print Assumptions C15_sites_classified.

(* the reference-typed fields Clone shares with the live catalogue are exactly the known ones *)
Theorem C15_shallow_known : forallb (fun p => pair_mem (fst p) (snd p) known_shallow) (shallow_of (in_scope types)) = true.
Proof. vm_compute. reflexivity. Qed.
Print Assumptions C15_shallow_known.

(* the transient list is justified by checked facts. First: the fields whose stale value is harmless by their nature
   (Tables.exposable_fields: caches, locks, handles) are read in the apply path only by the reviewed functions *)
Theorem C15_transient_access_reviewed : reads_reviewed transient_access reviewed_access = true.
Proof. vm_compute. reflexivity. Qed.
Print Assumptions C15_transient_access_reviewed.

(* every configuration switch the apply path reads is one the differential varies, or one fixed and named *)
Theorem C15_switches_known : forallb (fun p => mem (fst p) (varied_switches ++ fixed_switches)) config_reads = true.
Proof. vm_compute. reflexivity. Qed.
Print Assumptions C15_switches_known.

(* non-vacuity: the persistent part is not empty and the transient list only names existing fields *)
Example C15_persistent_nonempty :
  persistent (in_scope types) transient known_gaps "Data" "MaxShardID" = true /\
  persistent (in_scope types) transient known_gaps "MeasurementInfo" "Schema" = true /\
  forallb (fun p => match lookup types (fst p) with Some t => mem (snd p) (ty_fields t) | None => false end) (transient ++ known_gaps ++ known_shallow) = true.
Proof. vm_compute. repeat split. Qed.

(* second, a GENERATED fact: apart from the fields whose stale value is harmless by their
   nature (Tables.exposable_fields), no root of the apply path reaches a read of a transient field that is not preceded by
   an assignment to it - so what such a reader sees never depends on whether the replica restored a snapshot *)
Theorem C15_transient_reads_dominated : forallb (fun e => mem (fst e) exposable_fields) exposed_reads = true.
Proof. vm_compute. reflexivity. Qed.
Print Assumptions C15_transient_reads_dominated.

(* every command kind storeFSM.executeCmd dispatches is either inside the Coq model or named as covered by the tables and
   the differential only; the lists name nothing that is not dispatched and do not overlap *)
Theorem C15_command_kinds_classified :
  forallb (fun k => mem (fst k) (modelled_kinds ++ unmodelled_kinds)) command_kinds = true /\
  forallb (fun k => existsb (fun c => String.eqb (fst c) k) command_kinds) (modelled_kinds ++ unmodelled_kinds) = true /\
  forallb (fun k => negb (mem k unmodelled_kinds)) modelled_kinds = true.
Proof. vm_compute. repeat split. Qed.
Print Assumptions C15_command_kinds_classified.

(* value-level coverage of the snapshot encoding: every leaf of a populated catalogue set to every boundary value of its
   type either comes back from Clone -> MarshalBinary -> UnmarshalBinary, or the loss is an explained gap (Tables.value_gaps) *)
Theorem C15_value_gaps_classified : forallb (fun m => existsb (gap_matches m) value_gaps) value_mismatches = true.
Proof. vm_compute. reflexivity. Qed.
Print Assumptions C15_value_gaps_classified.

Open Scope Z_scope.

(* ---- the hand model of the command semantics (Cmds.v): 39 command kinds ----
   In all statements below [cstep] is ANY step function of the catalogue core (C16.Model.apply in either variant, or the
   order-oracle step C16.Order.applyO under any oracle) and [pick] any choice function of DropSubscription. *)

(* (b1) the transient part of a replica's state (ExpandShardsEnable, AdminUserExists, UpdateNodeTmpIndexCommandStart) never
   influences the persistent part or the result of a command: two replicas that agree on what a snapshot carries stay in
   agreement, command by command, whatever their transient fields hold *)
Theorem C15_transient_noninterference : forall cstep pick v cfg l s1 s2, v_rewrite v = true -> pp s1 = pp s2 ->
  pp (fst (x_run cstep pick v cfg s1 l)) = pp (fst (x_run cstep pick v cfg s2 l)) /\
  snd (x_run cstep pick v cfg s1 l) = snd (x_run cstep pick v cfg s2 l).
Proof. exact run_pp. Qed.
Print Assumptions C15_transient_noninterference.

(* (b2) what comes back from unmarshal (marshal (clone p)) is p, for the repaired encodings, when every instant of the
   catalogue is an int64 of nanoseconds (C16's representability) and last-run instants are well formed *)
Theorem C15_persisted_roundtrip : forall v p, v_cqfix v = true -> v_idxfix v = true -> reps p -> persisted v p = p.
Proof. exact persisted_id. Qed.
Print Assumptions C15_persisted_roundtrip.

(* (b) snapshot/restore transparency at ANY position of a log, results included: a replica that restores the snapshot
   taken after l1 and then applies l2 holds the persistent state of the replica that applied l1 ++ l2, and returned the
   same results. Hypotheses: repaired encodings; the node-join handlers rewrite ExpandShardsEnable (today's code);
   reported instants are int64; the catalogue at the snapshot position is representable. *)
Theorem C15_snapshot_transparent : forall cstep pick v cfg l1 l2 s0,
  v_cqfix v = true -> v_idxfix v = true -> v_rewrite v = true ->
  cq_wf (pp s0) -> Forall entry_ok l1 ->
  representable (core (pp (fst (x_run cstep pick v cfg s0 l1)))) ->
  let s1 := fst (x_run cstep pick v cfg s0 l1) in
  pp (fst (x_run cstep pick v cfg (x_restore v s1) l2)) = pp (fst (x_run cstep pick v cfg s0 (l1 ++ l2))) /\
  snd (x_run cstep pick v cfg s0 (l1 ++ l2)) = (snd (x_run cstep pick v cfg s0 l1) ++ snd (x_run cstep pick v cfg (x_restore v s1) l2))%list.
Proof. exact snapshot_transparent. Qed.
Print Assumptions C15_snapshot_transparent.

(* the derived cache AdminUserExists agrees with the users on every replica, restored or not *)
Theorem C15_admin_cache_consistent :
  (forall cstep pick v cfg s e, admin_inv s -> admin_inv (fst (x_apply cstep pick v cfg s e))) /\
  (forall v s, admin_inv (x_restore v s)) /\ (forall c, admin_inv (init_x c)).
Proof. split; [exact admin_inv_apply | split; [exact admin_inv_restore | reflexivity]]. Qed.
Print Assumptions C15_admin_cache_consistent.

(* (a) independence from the map iteration order, one step: with the repaired DropSubscription (policies walked in name
   order) and under uniform sharding of the core (C16.Order), any two valid oracles of the core and any two choice
   functions give the same state and the same result, for every command of the model *)
Theorem C15_step_order_independent : forall shard_type range_create clip cleardef v cfg o1 o2 pk1 pk2 s e,
  v_dsubfix v = true -> valid o1 -> valid o2 -> uniform_sharding shard_type (core (pp s)) ->
  x_apply (stepO shard_type range_create clip cleardef o1) pk1 v cfg s e =
  x_apply (stepO shard_type range_create clip cleardef o2) pk2 v cfg s e.
Proof. intros. apply apply_order; assumption. Qed.
Print Assumptions C15_step_order_independent.

(* (a) convergence: two replicas that apply the same log, each under its own oracles at every step, end in the same state
   and return the same results, provided uniform sharding holds in the catalogues one of them goes through *)
Theorem C15_replicas_converge : forall shard_type range_create clip cleardef v cfg l os1 os2 s, v_dsubfix v = true ->
  List.length os1 = List.length l -> List.length os2 = List.length l ->
  Forall (fun o => valid (fst o)) os1 -> Forall (fun o => valid (fst o)) os2 ->
  uniform_alongX shard_type range_create clip cleardef v cfg os1 s l ->
  x_runO shard_type range_create clip cleardef v cfg os1 s l = x_runO shard_type range_create clip cleardef v cfg os2 s l.
Proof. intros. apply convergence; assumption. Qed.
Print Assumptions C15_replicas_converge.


(* ---- uniform sharding, the premise of the order-independence theorems, is an INVARIANT ----
   st: the sharding type of a measurement (independent of its deletion mark); range_create: the unmodelled RANGE branch of
   CreateShardGroup (touches no measurement). C15.Uniform.env_ok is what the environment must guarantee: a measurement created
   in a policy that holds no measurement of another name has the type of the measurements it succeeds - the one case
   validMeasurementShardType does not examine (finding C15-recreated-measurement-sharding-map-order is its negation). *)
Theorem C15_uniform_sharding_invariant_core : forall st range_create clip cleardef,
  (forall x, st (mark_one x) = st x) ->
  (forall c p t e, map rp_msts (pols (fst (range_create c p t e))) = map rp_msts (pols c)) ->
  forall o c x, valid o -> uniform_sharding st c -> env_ok st c x ->
  uniform_sharding st (fst (applyO st range_create clip cleardef o c x)).
Proof. exact applyO_uniform. Qed.
Print Assumptions C15_uniform_sharding_invariant_core.

(* ... of every step of the hand model (48 command kinds), whatever oracles the step consults *)
Theorem C15_uniform_sharding_invariant : forall st range_create clip cleardef v cfg,
  (forall x, st (mark_one x) = st x) -> (forall x, st (ms_unmark x) = st x) ->
  (forall c p t e, map rp_msts (pols (fst (range_create c p t e))) = map rp_msts (pols c)) ->
  (forall c p', In p' (pols (cfg_expandf cfg c)) -> exists p, In p (pols c) /\ rp_msts p' = rp_msts p) ->
  forall o pk s e, valid o -> uniform_sharding st (core (pp s)) -> entry_env st s e ->
  uniform_sharding st (core (pp (fst (x_apply (stepO st range_create clip cleardef o) pk v cfg s e)))).
Proof. exact x_apply_uniform. Qed.
Print Assumptions C15_uniform_sharding_invariant.

(* convergence with the premise discharged: uniform sharding of the INITIAL catalogue and the environment's guarantee along
   the log suffice for two replicas under arbitrary valid oracles to end in the same state with the same results *)
Theorem C15_replicas_converge_from_start : forall st range_create clip cleardef v cfg,
  (forall x, st (mark_one x) = st x) -> (forall x, st (ms_unmark x) = st x) ->
  (forall c p t e, map rp_msts (pols (fst (range_create c p t e))) = map rp_msts (pols c)) ->
  (forall c p', In p' (pols (cfg_expandf cfg c)) -> exists p, In p (pols c) /\ rp_msts p' = rp_msts p) ->
  forall l os1 os2 s, v_dsubfix v = true ->
  List.length os1 = List.length l -> List.length os2 = List.length l ->
  Forall (fun o => valid (fst o)) os1 -> Forall (fun o => valid (fst o)) os2 ->
  uniform_sharding st (core (pp s)) -> env_along st range_create clip cleardef v cfg os1 s l ->
  x_runO st range_create clip cleardef v cfg os1 s l = x_runO st range_create clip cleardef v cfg os2 s l.
Proof.
  intros st rc clip cd v cfg H1 H2 H3 H4 l os1 os2 s Hv L1 L2 V1 V2 HU HE.
  apply convergence; try assumption. apply uniform_along_from_start; assumption.
Qed.
Print Assumptions C15_replicas_converge_from_start.

(* the hypothesis about ExpandGroups holds for the model of it that the correspondence runs (C16.Expand.expand_groups) *)
Theorem C15_expand_groups_keeps_measurements : forall c p', In p' (pols (expand_groups c)) -> exists p, In p (pols c) /\ rp_msts p' = rp_msts p.
Proof. exact expand_groups_keeps. Qed.
Print Assumptions C15_expand_groups_keeps_measurements.

(* non-vacuity: with HASH-only catalogues (st constant) every hypothesis above holds, the environment's guarantee included *)
Example C15_uniform_example : forall c x, env_ok (fun _ => 0) c x.
Proof. intros c x. destruct x; cbn; auto. Qed.

(* today's DropSubscription (first policy REACHED in map order): the choice is immaterial unless two or more policies of
   the database carry a subscription of that name - exactly the signature of finding C15-dropsubscription-map-order *)
Theorem C15_dropsub_order_matters_only_with_duplicates : forall cs pk1 pk2 v cfg s x, pick_valid pk1 -> pick_valid pk2 ->
  match x with DropSub db 0 n => (List.length (sub_candidates (pp s) db n) <= 1)%nat | _ => True end ->
  exec cs pk1 v cfg s x = exec cs pk2 v cfg s x.
Proof. exact exec_order_current. Qed.
Print Assumptions C15_dropsub_order_matters_only_with_duplicates.

(* non-vacuity: the hypotheses of C15_snapshot_transparent hold on a log that touches every part of the state, under a
   configuration with expand-shards-enable on *)
Definition ex_cfg : config := {| cfg_expand := true; cfg_expandf := fun c => set_max_mst c (C16.Model.max_mst c + 100); cfg_sgtier := 1 |}.
Definition ex_pick : list Z -> option Z := fun l => nth_error l 0.
Definition E (i : Z) (x : xcmd) : entry := (1, i, x).
Definition ex_l1 : list entry := [
  E 2 (Core (CreateNode 1 1)); E 3 (Core (CreateDb 1 1 0 HOUR)); E 4 (Core (CreateMst 1 1 1)); E 5 (Core (CreateSg 1 1 1700042400000000005 0));
  E 6 (CreateUser 3 1 true false); E 7 (CreateUser 1 1 false false); E 8 (SetPrivilege 1 1 2); E 9 (CreateSub 1 1 1 1 1); E 10 (CreateCq 1 1 1);
  E 11 (ReportCq 1 0); E 12 (CreateMeta 1 5 7); E 13 (CreateSql 101); E 14 (UpdateTmpIndex 1 30 1); E 15 (MarkTakeover true); E 16 (RegisterQid 1)].
Definition ex_l2 : list entry := [
  E 17 (Core (CreateNode 5 5)); E 18 (UpdateTmpIndex 1 20 1); E 19 (DropSub 1 0 1); E 20 (ReportCq 1 5); E 21 (Core (DropDb 1)); E 22 (DropUser 1)].
Definition ex_s0 : xstate := init_x (init_cat 1 true).

Example C15_example_hypotheses :
  cq_wf (pp ex_s0) /\ Forall entry_ok ex_l1 /\
  representable (core (pp (fst (x_run (apply false true) ex_pick v_repaired ex_cfg ex_s0 ex_l1)))).
Proof.
  split; [constructor|]. split; [repeat constructor; cbn; unfold MININT, MAXNANO1; lia|].
  apply representable_b_sound. vm_compute. reflexivity.
Qed.

(* and on it the restored replica returns, for l2, what the others return (the second command fails everywhere: the
   applied index 20 is not larger than 30, which the snapshot now carries) *)
Example C15_example_results :
  snd (x_run (apply false true) ex_pick v_repaired ex_cfg
         (x_restore v_repaired (fst (x_run (apply false true) ex_pick v_repaired ex_cfg ex_s0 ex_l1))) ex_l2) =
  [true; false; true; true; true; true].
Proof. vm_compute. reflexivity. Qed.
