(* C15 property theorems over the tables regenerated from the repository (Gen_Fields.v, Gen_MapRanges.v). *)
From Coq Require Import ZArith List Bool String.
From OG Require Import C15.Model C15.Proofs C15.Tables C15.Gen_Fields C15.Gen_MapRanges C15.Gen_Transient.
Import ListNotations.
Open Scope string_scope.

(* every field of every catalogue type is transient (justified list), a recorded gap (finding), or carried by clone, marshal
   and unmarshal: a finite check over what the code says now *)
Theorem C15_coverage_modulo_known : coverage_ok (in_scope types) transient known_gaps = true.
Proof. vm_compute. reflexivity. Qed.
Print Assumptions C15_coverage_modulo_known.

(* hence a snapshot taken at any point and restored gives back the catalogue on everything but those fields *)
Theorem C15_snapshot_restore_id : forall v,
  project (persistent (in_scope types) transient known_gaps) (restore (in_scope types) (snapshot (in_scope types) v)) =
  project (persistent (in_scope types) transient known_gaps) v.
Proof. exact (snapshot_restore_id (in_scope types) transient known_gaps C15_coverage_modulo_known). Qed.
Print Assumptions C15_snapshot_restore_id.

(* the generic statement, for any table *)
Theorem C15_coverage_implies_roundtrip : forall tbl tr gaps, coverage_ok tbl tr gaps = true ->
  forall v, project (persistent tbl tr gaps) (restore tbl (snapshot tbl v)) = project (persistent tbl tr gaps) v.
Proof. exact snapshot_restore_id. Qed.
Print Assumptions C15_coverage_implies_roundtrip.

(* every map range reachable from the apply handlers is order-insensitive by a syntactic pattern or listed with its reason *)
Theorem C15_sites_classified : sites_classified sites justified_choices = true.
Proof. vm_compute. reflexivity. Qed.
Print Assumptions C15_sites_classified.

(* the reference-typed fields Clone shares with the live catalogue are exactly the known ones *)
Theorem C15_shallow_known : forallb (fun p => pair_mem (fst p) (snd p) known_shallow) (shallow_of (in_scope types)) = true.
Proof. vm_compute. reflexivity. Qed.
Print Assumptions C15_shallow_known.

(* the transient list is justified by a checked fact: the apply path touches those fields exactly at the reviewed places
   (every read is preceded by a write that re-establishes the value on every replica, restored or not) *)
Theorem C15_transient_access_reviewed : access_reviewed transient_access reviewed_access = true.
Proof. vm_compute. reflexivity. Qed.
Print Assumptions C15_transient_access_reviewed.

(* every configuration switch the apply path reads is one the differential varies, or one fixed and named *)
Theorem C15_switches_known : forallb (fun p => mem (fst p) (varied_switches ++ fixed_switches)) config_reads = true.
Proof. vm_compute. reflexivity. Qed.
Print Assumptions C15_switches_known.

(* non-vacuity: the persistent part is not empty and the transient list only names existing fields *)
Example C15_persistent_nonempty :
  persistent (in_scope types) transient known_gaps "Data" "MaxShardID" = true /\
  persistent (in_scope types) transient known_gaps "MeasurementInfo" "Schema" = true /\
  forallb (fun p => match lookup types (fst p) with Some t => mem (snd p) (ty_fields t) | None => false end) (transient ++ known_gaps ++ known_shallow) = true.
Proof. vm_compute. repeat split. Qed.
