(* C15: the hand-kept, justified lists the generated tables are checked against. *)
From Coq Require Import List String Bool.
From OG Require Import C15.Model.
Import ListNotations.
Open Scope string_scope.

(* fields that are not part of the replicated catalogue *)
Definition transient : list (string * string) := [
  ("Data", "ExpandShardsEnable");             (* copied from the node's configuration before every CreateDataNode/CreateSqlNode *)
  ("Data", "opsMapMu");                       (* lock *)
  ("Data", "OpsMap"); ("Data", "OpsMapMinIndex"); ("Data", "OpsMapMaxIndex"); ("Data", "OpsToMarshalIndex");
                                              (* incremental-sync cache of applied commands; Restore keeps the node's own (SetOps) *)
  ("Data", "UpdateNodeTmpIndexCommandStart"); (* written by Apply only, rebuilt as Index by Unmarshal; no apply function reads it *)
  ("Data", "AdminUserExists");                (* derived: recomputed from Users by Unmarshal *)
  ("Data", "SQLite");                         (* handle on an external store; only its presence is persisted *)
  ("MeasurementInfo", "originName");          (* cache: derived from Name by unmarshal *)
  ("MeasurementInfo", "tagKeysTotal");        (* cache: recounted from the schema by unmarshal *)
  ("MeasurementInfo", "SchemaLock")           (* lock *)
].

(* gaps of today's code, each a recorded finding (props/C15/findings.json); the repaired tree has fewer *)
Definition known_gaps : list (string * string) := [
  ("MeasurementInfo", "ID");   (* C15-clone-mstid: clone builds the copy field by field and omits ID *)
  ("DataNode", "Index")        (* C15-datanode-index-not-persisted: marshal/unmarshal omit Index *)
].

(* types outside the property's catalogue: reachable only through transient fields (Op, SQLiteWrapper) or through
   Data.MigrateEvents (balancer events, not in the statement's list and not produced by the harness) *)
Definition skip_types : list string :=
  ["Op"; "SQLiteWrapper"; "MigrateEventInfo"; "DbPtInfo"; "DatabaseBriefInfo"; "ShardDurationInfo"; "ShardIdentifier"; "DurationDescriptor"].

Definition in_scope (tbl : list tyinfo) : list tyinfo := filter (fun t => negb (mem (ty_name t) skip_types)) tbl.

(* reference-typed fields that Clone shares with the live catalogue (finding C15-clone-aliasing): harmless only if the
   snapshot is marshalled before the next command is applied *)
Definition known_shallow : list (string * string) := [
  ("Data", "SqlNodes"); ("Data", "ReplicaGroups"); ("Data", "OpsMap"); ("Data", "SQLite");
  ("RetentionPolicyInfo", "Subscriptions"); ("RetentionPolicyInfo", "DownSamplePolicyInfo"); ("IndexGroupInfo", "ClearInfo")
].

Definition shallow_of (tbl : list tyinfo) : list (string * string) :=
  flat_map (fun t => map (fun f => (ty_name t, f)) (ty_shallow t)) tbl.

(* map ranges of the apply path whose outcome syntactically depends on the iteration order, with the reason each is harmless
   (or the finding that records it). A site is named by its function, the map FIELD it ranges over and its position among the
   order-dependent ranges over that field in the function (renaming a variable or touching another loop does not move it). *)
Definition S (f e : string) (n : nat) : site := {| s_func := f; s_expr := e; s_ord := n; s_choice := true |}.
Definition justified_choices : list site := [
  S "Data.CheckStreamExistInDatabase" "Streams" 1;       (* existence test: a disjunction over the elements *)
  S "Data.CheckStreamExistInMst" "Streams" 1;            (* existence test *)
  S "Data.CheckStreamExistInRetention" "Streams" 1;      (* existence test *)
  S "Data.CreateContinuousQueryBase" "Databases" 1;      (* existence test (name already used) *)
  S "Data.checkDDLConflict" "RetentionPolicies" 1;        (* existence test *)
  S "Data.checkDDLConflict" "Measurements" 1;             (* existence test *)
  S "Data.CreateShardGroup" "Measurements" 1;             (* any measurement: only its sharding type is used, uniform per policy *)
  S "RetentionPolicyInfo.validMeasurementShardType" "Measurements" 1; (* any other measurement: sharding type uniform per policy *)
  S "RetentionPolicyInfo.shardingType" "Measurements" 1;  (* last one wins: sharding type uniform per policy *)
  S "Data.DropMeasurement" "Measurements" 1;              (* search for a key: at most one element matches *)
  S "Data.mapShardsToMst" "Measurements" 1;               (* scratch variable declared outside the loop, written and read within one iteration *)
  S "Data.RecoverData" "PtView" 1;                   (* returns on a missing key of the map it ranges over: cannot happen *)
  S "storeFSM.applyDropDatabaseCommand" "ContinuousQueries" 1; (* removes names from the sorted scheduling list: set semantics, not catalogue *)
  S "Data.DropSubscription" "RetentionPolicies" 1          (* NOT harmless: finding C15-dropsubscription-map-order *)
].

(* Every access of the apply path (storeFSM.Apply/ApplyBatch/Restore/Snapshot/executeCmd and everything they reach) to a
   transient field, reviewed: a READ is harmless only because the value is re-established before it on every replica,
   whatever the replica restored from. The generated list must equal this one, so a new reader, or the removal of a
   re-establishing write (e.g. setting Data.ExpandShardsEnable once at start-up instead of before each node join), breaks
   C15_transient_access_reviewed. *)
Definition R (f fn : string) : access := (f, fn, "read").
Definition W (f fn : string) : access := (f, fn, "write").
Definition reviewed_access : list access := [
  (* derived from Users: recomputed by Unmarshal, maintained by CreateUser *)
  W "AdminUserExists" "Data.CreateUser";
  (* copied from the node's configuration immediately before the only reader (Data.CreateDataNode) runs: both apply
     handlers assign it first, so a restored replica (whose fresh Data has false) still behaves like the others *)
  R "ExpandShardsEnable" "Data.CreateDataNode";
  R "ExpandShardsEnable" "storeFSM.applyCreateDataNodeCommand"; W "ExpandShardsEnable" "storeFSM.applyCreateDataNodeCommand";
  R "ExpandShardsEnable" "storeFSM.applyCreateSqlNodeCommand"; W "ExpandShardsEnable" "storeFSM.applyCreateSqlNodeCommand";
  (* incremental-sync cache of applied commands: written after a command was applied, never consulted by an apply function
     to decide anything about the catalogue; Restore keeps the node's own cache (SetOps) *)
  R "OpsMap" "Data.AddCmdAsOpToOpMap"; R "OpsMap" "Data.SetOps"; W "OpsMap" "Data.SetOps";
  R "OpsMapMaxIndex" "Data.AddCmdAsOpToOpMap"; W "OpsMapMaxIndex" "Data.AddCmdAsOpToOpMap"; R "OpsMapMaxIndex" "Data.SetOps"; W "OpsMapMaxIndex" "Data.SetOps";
  R "OpsMapMinIndex" "Data.AddCmdAsOpToOpMap"; W "OpsMapMinIndex" "Data.AddCmdAsOpToOpMap"; R "OpsMapMinIndex" "Data.SetOps"; W "OpsMapMinIndex" "Data.SetOps";
  R "OpsToMarshalIndex" "Data.AddCmdAsOpToOpMap"; W "OpsToMarshalIndex" "Data.AddCmdAsOpToOpMap"; R "OpsToMarshalIndex" "Data.SetOps"; W "OpsToMarshalIndex" "Data.SetOps";
  R "opsMapMu" "Data.AddCmdAsOpToOpMap";
  (* external store handle: InsertFiles fails identically everywhere when it is absent; Store.close is not an apply function
     (reached by name only) *)
  R "SQLite" "Store.close"; R "SQLite" "storeFSM.applyInsertFilesCommand";
  (* lock *)
  R "SchemaLock" "Data.UpdateSchema"; R "SchemaLock" "MeasurementInfo.SchemaClean";
  (* written by Apply/ApplyBatch only *)
  W "UpdateNodeTmpIndexCommandStart" "storeFSM.ApplyBatch"; W "UpdateNodeTmpIndexCommandStart" "storeFSM.Apply";
  (* cache of the measurement's name without version: set by every constructor and by unmarshal, read by SchemaClean *)
  W "originName" "Data.RecoverDataBase"; W "originName" "Data.RecoverData"; R "originName" "Data.SchemaClean"; W "originName" "NewMeasurementInfo"
].

(* configuration switches read by the apply path. The differential draws the first six per case (all replicas of a case
   share one configuration, as the nodes of one cluster do: expand-shards-enable, retention-autocreate, use-inc-sync-data,
   schema-clean-en, ha-policy in its three values, replica distribution policy node-hard / az-hard); the others are fixed:
   JoinPeers and SQLiteEnabled are read by Store methods that are reached by name only and are not apply functions;
   IsLogKeeper at its default. A new switch read by the apply path breaks C15_switches_known. *)
Definition varied_switches : list string := ["ExpandShardsEnable"; "RetentionAutoCreate"; "UseIncSyncData"; "SchemaCleanEn"; "GetHaPolicy"; "repDisPolicy"].
Definition fixed_switches : list string := ["JoinPeers"; "SQLiteEnabled"; "IsLogKeeper"].

(* fields whose value may reach a reader of the apply path from BEFORE a restore (or as the zero value of a fresh Data)
   without harm. The translator computes the exposures (Gen_Transient.exposed_reads: a root of the apply path from which a
   chain of calls reaches a read of the field with no assignment to it earlier in the reading function or in a caller on
   the chain); every transient field NOT listed here must have none - its readers are dominated by a write on every path.
     OpsMap*, opsMapMu  incremental-sync cache of applied commands: AddCmdAsOpToOpMap and SetOps maintain the cache itself and
                        decide nothing about the catalogue; Restore deliberately keeps the node's own cache (SetOps)
     SQLite             handle on an external store (presence is persisted); InsertFiles is outside the modelled commands
     SchemaLock         a lock
     originName         derived from Name by every constructor and by unmarshal
   Not listed, hence required to be write-dominated or unread: ExpandShardsEnable, AdminUserExists,
   UpdateNodeTmpIndexCommandStart, tagKeysTotal. *)
Definition exposable_fields : list string :=
  ["OpsMap"; "OpsMapMinIndex"; "OpsMapMaxIndex"; "OpsToMarshalIndex"; "opsMapMu"; "SQLite"; "SchemaLock"; "originName"].

(* the command kinds of storeFSM.executeCmd's dispatch table (Gen_Commands.command_kinds, regenerated from the source):
   modelled in Coq (C16.Model.cmd through Cmds.Core, or a constructor of Cmds.xcmd; argument shapes as in NOTES.md) ... *)
Definition modelled_kinds : list string := [
  (* C16 catalogue core *)
  "CreateDatabaseCommand"; "MarkDatabaseDeleteCommand"; "DropDatabaseCommand"; "CreateRetentionPolicyCommand";
  "UpdateRetentionPolicyCommand"; "MarkRetentionPolicyDeleteCommand"; "DropRetentionPolicyCommand";
  "SetDefaultRetentionPolicyCommand"; "CreateMeasurementCommand"; "MarkMeasurementDeleteCommand"; "DropMeasurementCommand";
  "CreateShardGroupCommand"; "DeleteShardGroupCommand"; "PruneGroupsCommand"; "DeleteIndexGroupCommand";
  "CreateDataNodeCommand"; "CreateDbPtViewCommand"; "UpdatePtInfoCommand";
  (* coq/C15/Cmds.v *)
  "CreateUserCommand"; "DropUserCommand"; "UpdateUserCommand"; "SetPrivilegeCommand"; "SetAdminPrivilegeCommand";
  "CreateSubscriptionCommand"; "DropSubscriptionCommand"; "CreateContinuousQueryCommand"; "ContinuousQueryReportCommand";
  "DropContinuousQueryCommand"; "NotifyCQLeaseChangedCommand"; "CreateMetaNodeCommand"; "SetMetaNodeCommand";
  "DeleteMetaNodeCommand"; "CreateSqlNodeCommand"; "UpdateNodeTmpIndexCommand"; "MarkTakeoverCommand"; "MarkBalancerCommand";
  "VerifyDataNodeCommand"; "RegisterQueryIDOffsetCommand";
  "ExpandGroupsCommand";  (* any function of the catalogue in the theorems (config.cfg_expandf); C16.Expand.expand_groups in the correspondence *)
  "UpdatePtVersionCommand"; "UpdateNodeStatusCommand"; "UpdateSqlNodeStatusCommand"; "UpdateMetaNodeStatusCommand";
  "UpdateShardInfoTierCommand"; "UpdateIndexInfoTierCommand"; "CreateStreamCommand"; "DropStreamCommand";
  "RemoveNodeCommand"     (* C16.Model.RemoveNode; the per-node tables of Cmds.v follow the node list *)
].
(* ... or covered by the coverage tables and the three-replica differential only *)
Definition unmodelled_kinds : list string := [
  "SetDataCommand"; "DeleteDataNodeCommand"; "ReShardingCommand"; "UpdateSchemaCommand"; "AlterShardKeyCmd"; "CreateEventCommand"; "UpdateEventCommand"; "RemoveEventCommand";
  "CreateDownSamplePolicyCommand"; "DropDownSamplePolicyCommand"; "UpdateShardDownSampleInfoCommand"; "SetNodeSegregateStatusCommand";
  "UpdateReplicationCommand"; "UpdateMeasurementCommand"; "InsertFilesCommand"; "ReplaceMergeShardsCommand"; "RecoverMetaData"
].

(* ---- value-level gaps of the snapshot encoding ----
   `c15 values` (harness/cmd/c15/values.go) sets every leaf of a populated catalogue, one at a time, to the boundary values
   of its Go type and sends the catalogue through Clone -> MarshalBinary -> UnmarshalBinary. Gen_Values.value_mismatches
   lists (context path, value class, outcome) of every leaf that does not come back. Each must be explained here:
     identity     the field is the key under which unmarshal files the object (the object is found under its new name)
     finding:ID   a recorded finding (open: reported as KNOWN-FINDING; fixed and back: a violation)
     see:ID       an instance of a finding recorded under another property
     unreachable  no registered command can store that value (the reason follows)
     derived      recomputed by Unmarshal
     outside      outside the catalogue parts the statement lists
   "*" stands for every value class of the type. Outcomes other than differs / lost (errors, panics) are never accepted. *)
Definition G (ctx cls outc why : string) : string * string * string * string := (ctx, cls, outc, why).
Definition value_gaps : list (string * string * string * string) := [
  G "/Databases/[*]/Name" "*" "lost" "identity";
  G "/Databases/[*]/RetentionPolicies/[*]/Name" "*" "lost" "identity";
  G "/Databases/[*]/RetentionPolicies/[*]/Measurements/[*]/Name" "*" "lost" "identity";
  G "/Databases/[*]/ContinuousQueries/[*]/Name" "*" "lost" "identity";
  G "/Streams/[*]/Name" "*" "lost" "identity";
  G "/MigrateEvents/[*]/eventId" "*" "lost" "identity";
  G "/AdminUserExists" "false" "differs" "derived";
  G "/DataNodes/[*]/Index" "*" "differs" "finding:C15-datanode-index-not-persisted";
  G "/SqlNodes/[*]/Index" "*" "differs" "finding:C15-datanode-index-not-persisted";
  G "/Databases/[*]/ContinuousQueries/[*]/LastRunTime" "zero-time" "differs" "finding:C15-cq-lastruntime-zero";
  G "/Databases/[*]/ContinuousQueries/[*]/LastRunTime" "epoch" "differs" "unreachable: only with the repaired encoding (0 = never ran), where a reported instant 0 is stored as the zero time; the differential reports instant 0";
  G "/Databases/[*]/ContinuousQueries/[*]/LastRunTime" "after-int64-ns" "differs" "unreachable: set from an int64 of nanoseconds";
  G "/Databases/[*]/ContinuousQueries/[*]/LastRunTime" "before-int64-ns" "differs" "unreachable: set from an int64 of nanoseconds";
  G "/Databases/[*]/ShardKey/Type" "*" "differs" "finding:C15-database-shardkey-type-dropped";
  G "/Databases/[*]/ShardKey/ShardGroup" "*" "differs" "finding:C15-database-shardkey-type-dropped";
  G "/Databases/[*]/ReplicaN" "0" "differs" "unreachable: the handler passes at least 1";
  G "/Databases/[*]/RetentionPolicies/[*]/ReplicaN" "-1" "differs" "unreachable: the command carries a uint32";
  G "/Databases/[*]/RetentionPolicies/[*]/ReplicaN" "max-int64" "differs" "unreachable: the command carries a uint32";
  G "/Databases/[*]/RetentionPolicies/[*]/ReplicaN" "max-uint32+1" "differs" "unreachable: the command carries a uint32";
  G "/Databases/[*]/RetentionPolicies/[*]/ReplicaN" "min-int32-1" "differs" "unreachable: the command carries a uint32";
  G "/Databases/[*]/RetentionPolicies/[*]/ShardGroups/[*]/StartTime" "zero-time" "differs" "unreachable: no group starts in year 1 (0 on the wire is the epoch)";
  G "/Databases/[*]/RetentionPolicies/[*]/ShardGroups/[*]/StartTime" "before-int64-ns" "differs" "see:C16-restore-wraps-early-group-start";
  G "/Databases/[*]/RetentionPolicies/[*]/ShardGroups/[*]/StartTime" "after-int64-ns" "differs" "unreachable: instants of commands are int64 nanoseconds";
  G "/Databases/[*]/RetentionPolicies/[*]/ShardGroups/[*]/EndTime" "zero-time" "differs" "unreachable: no group ends in year 1";
  G "/Databases/[*]/RetentionPolicies/[*]/ShardGroups/[*]/EndTime" "before-int64-ns" "differs" "see:C16-restore-wraps-early-group-start";
  G "/Databases/[*]/RetentionPolicies/[*]/ShardGroups/[*]/EndTime" "after-int64-ns" "differs" "unreachable: ends are capped at MaxNanoTime + 1";
  G "/Databases/[*]/RetentionPolicies/[*]/ShardGroups/[*]/DeletedAt" "epoch" "differs" "unreachable: a wall-clock stamp";
  G "/Databases/[*]/RetentionPolicies/[*]/ShardGroups/[*]/TruncatedAt" "epoch" "differs" "unreachable: no registered command sets TruncatedAt";
  G "/Databases/[*]/RetentionPolicies/[*]/ShardGroups/[*]/TruncatedAt" "before-int64-ns" "differs" "unreachable: no registered command sets TruncatedAt";
  G "/Databases/[*]/RetentionPolicies/[*]/ShardGroups/[*]/TruncatedAt" "after-int64-ns" "differs" "unreachable: no registered command sets TruncatedAt";
  G "/Databases/[*]/RetentionPolicies/[*]/IndexGroups/[*]/StartTime" "zero-time" "differs" "unreachable: no group starts in year 1 (0 on the wire is the epoch)";
  G "/Databases/[*]/RetentionPolicies/[*]/IndexGroups/[*]/StartTime" "before-int64-ns" "differs" "see:C16-restore-wraps-early-group-start";
  G "/Databases/[*]/RetentionPolicies/[*]/IndexGroups/[*]/StartTime" "after-int64-ns" "differs" "unreachable: instants of commands are int64 nanoseconds";
  G "/Databases/[*]/RetentionPolicies/[*]/IndexGroups/[*]/EndTime" "zero-time" "differs" "unreachable: no group ends in year 1";
  G "/Databases/[*]/RetentionPolicies/[*]/IndexGroups/[*]/EndTime" "before-int64-ns" "differs" "see:C16-restore-wraps-early-group-start";
  G "/Databases/[*]/RetentionPolicies/[*]/IndexGroups/[*]/EndTime" "after-int64-ns" "differs" "unreachable: ends are capped at MaxNanoTime + 1";
  G "/Databases/[*]/RetentionPolicies/[*]/IndexGroups/[*]/DeletedAt" "epoch" "differs" "unreachable: a wall-clock stamp";
  G "/Databases/[*]/RetentionPolicies/[*]/Measurements/[*]/Options/ReadThreshold" "max-int32+1" "differs" "unreachable: the command carries an int32";
  G "/Databases/[*]/RetentionPolicies/[*]/Measurements/[*]/Options/ReadThreshold" "max-int64" "differs" "unreachable: the command carries an int32";
  G "/Databases/[*]/RetentionPolicies/[*]/Measurements/[*]/Options/ReadThreshold" "max-uint32+1" "differs" "unreachable: the command carries an int32";
  G "/Databases/[*]/RetentionPolicies/[*]/Measurements/[*]/Options/ReadThreshold" "min-int32-1" "differs" "unreachable: the command carries an int32";
  G "/Databases/[*]/RetentionPolicies/[*]/Measurements/[*]/Options/WriteThreshold" "max-int32+1" "differs" "unreachable: the command carries an int32";
  G "/Databases/[*]/RetentionPolicies/[*]/Measurements/[*]/Options/WriteThreshold" "max-int64" "differs" "unreachable: the command carries an int32";
  G "/Databases/[*]/RetentionPolicies/[*]/Measurements/[*]/Options/WriteThreshold" "max-uint32+1" "differs" "unreachable: the command carries an int32";
  G "/Databases/[*]/RetentionPolicies/[*]/Measurements/[*]/Options/WriteThreshold" "min-int32-1" "differs" "unreachable: the command carries an int32";
  G "/Databases/[*]/RetentionPolicies/[*]/Measurements/[*]/Options/StorageCapacity" "max-int32+1" "differs" "unreachable: the command carries an int32";
  G "/Databases/[*]/RetentionPolicies/[*]/Measurements/[*]/Options/StorageCapacity" "max-int64" "differs" "unreachable: the command carries an int32";
  G "/Databases/[*]/RetentionPolicies/[*]/Measurements/[*]/Options/StorageCapacity" "max-uint32+1" "differs" "unreachable: the command carries an int32";
  G "/Databases/[*]/RetentionPolicies/[*]/Measurements/[*]/Options/StorageCapacity" "min-int32-1" "differs" "unreachable: the command carries an int32";
  G "/MigrateEvents/[*]/preState" "0" "differs" "finding:C15-migrate-event-prestate-on-restore";
  G "/MigrateEvents/[*]/preState" "-1" "differs" "finding:C15-migrate-event-prestate-on-restore";
  G "/MigrateEvents/[*]/preState" "max-int32" "differs" "finding:C15-migrate-event-prestate-on-restore";
  G "/MigrateEvents/[*]/preState" "max-int32+1" "differs" "unreachable: the command carries an int32";
  G "/MigrateEvents/[*]/preState" "max-int64" "differs" "unreachable: the command carries an int32";
  G "/MigrateEvents/[*]/preState" "max-uint32+1" "differs" "unreachable: the command carries an int32";
  G "/MigrateEvents/[*]/preState" "min-int32-1" "differs" "unreachable: the command carries an int32";
  G "/MigrateEvents/[*]/currState" "max-int32+1" "differs" "unreachable: the command carries an int32";
  G "/MigrateEvents/[*]/currState" "max-int64" "differs" "unreachable: the command carries an int32";
  G "/MigrateEvents/[*]/currState" "max-uint32+1" "differs" "unreachable: the command carries an int32";
  G "/MigrateEvents/[*]/currState" "min-int32-1" "differs" "unreachable: the command carries an int32";
  G "/MigrateEvents/[*]/eventType" "max-int32+1" "differs" "unreachable: the command carries an int32";
  G "/MigrateEvents/[*]/eventType" "max-int64" "differs" "unreachable: the command carries an int32";
  G "/MigrateEvents/[*]/eventType" "max-uint32+1" "differs" "unreachable: the command carries an int32";
  G "/MigrateEvents/[*]/eventType" "min-int32-1" "differs" "unreachable: the command carries an int32";
  G "/Databases/[*]/RetentionPolicies/[*]/Measurements/[*]/ShardIdexes/[*]/[*]" "max-int32+1" "differs" "unreachable: positions in a shard list, written as int32";
  G "/Databases/[*]/RetentionPolicies/[*]/Measurements/[*]/ShardIdexes/[*]/[*]" "max-int64" "differs" "unreachable: positions in a shard list, written as int32";
  G "/Databases/[*]/RetentionPolicies/[*]/Measurements/[*]/ShardIdexes/[*]/[*]" "max-uint32+1" "differs" "unreachable: positions in a shard list, written as int32";
  G "/Databases/[*]/RetentionPolicies/[*]/Measurements/[*]/ShardIdexes/[*]/[*]" "min-int32-1" "differs" "unreachable: positions in a shard list, written as int32";
  G "/MigrateEvents/[*]/pt/Shards/[*]/Ident/StartTime" "epoch" "differs" "outside: balancer events; the shard durations a store attaches to an event go through MarshalTime/UnmarshalTime, where 0 is the zero time";
  G "/MigrateEvents/[*]/pt/Shards/[*]/Ident/StartTime" "before-int64-ns" "differs" "outside: balancer events; see:C16-restore-wraps-early-group-start";
  G "/MigrateEvents/[*]/pt/Shards/[*]/Ident/StartTime" "after-int64-ns" "differs" "unreachable: group ends are capped at MaxNanoTime + 1";
  G "/MigrateEvents/[*]/pt/Shards/[*]/Ident/EndTime" "epoch" "differs" "outside: balancer events; the shard durations a store attaches to an event go through MarshalTime/UnmarshalTime, where 0 is the zero time";
  G "/MigrateEvents/[*]/pt/Shards/[*]/Ident/EndTime" "before-int64-ns" "differs" "outside: balancer events; see:C16-restore-wraps-early-group-start";
  G "/MigrateEvents/[*]/pt/Shards/[*]/Ident/EndTime" "after-int64-ns" "differs" "unreachable: group ends are capped at MaxNanoTime + 1";
  G "/MigrateEvents/[*]/pt/DBBriefInfo/Name" "*" "differs" "outside: balancer events; marshal writes the partition's own database name, which is what the stores send";
  G "/MigrateEvents/[*]/pt/DBBriefInfo/Replicas" "max-int32+1" "differs" "unreachable: the command carries an int32";
  G "/MigrateEvents/[*]/pt/DBBriefInfo/Replicas" "max-int64" "differs" "unreachable: the command carries an int32";
  G "/MigrateEvents/[*]/pt/DBBriefInfo/Replicas" "max-uint32+1" "differs" "unreachable: the command carries an int32";
  G "/MigrateEvents/[*]/pt/DBBriefInfo/Replicas" "min-int32-1" "differs" "unreachable: the command carries an int32"
].
Definition gap_matches (m : string * string * string) (g : string * string * string * string) : bool :=
  match m, g with
  | (ctx, cls, outc), (gctx, gcls, goutc, _) => String.eqb ctx gctx && (String.eqb gcls "*" || String.eqb cls gcls) && String.eqb outc goutc
  end.

(* the readers of the exposable fields are reviewed by name: a NEW function of the apply path that reads one of them breaks
   C15_transient_access_reviewed (the other transient fields need no such list: their reads must be write-dominated,
   C15_transient_reads_dominated, whatever the functions are called) *)
Definition reads_reviewed (generated reviewed : list access) : bool :=
  forallb (fun a => negb (String.eqb (snd a) "read" && mem (fst (fst a)) exposable_fields) || existsb (access_eqb a) reviewed) generated.
