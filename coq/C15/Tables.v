(* C15: the hand-kept, justified lists the generated tables are checked against. *)
From Coq Require Import List String.
From OG Require Import C15.Model.
Import ListNotations.
Open Scope string_scope.

(* fields that are not part of the replicated catalogue *)
Definition transient : list (string * string) := [
  ("Data", "ExpandShardsEnable");             (* copied from the node's configuration before every CreateDataNode/CreateSqlNode *)
  ("Data", "opsMapMu");                       (* lock *)
  ("Data", "OpsMap"); ("Data", "OpsMapMinIndex"); ("Data", "OpsMapMaxIndex"); ("Data", "OpsToMarshalIndex");
                                              (* incremental-sync cache of applied commands; Restore keeps the node's own (SetOps) *)
  ("Data", "UpdateNodeTmpIndexCommandStart"); (* written by Apply only, rebuilt as Index by Unmarshal; no apply function reads it *)
  ("Data", "AdminUserExists");                (* derived: recomputed from Users by Unmarshal *)
  ("Data", "SQLite");                         (* handle on an external store; only its presence is persisted *)
  ("MeasurementInfo", "originName");          (* cache: derived from Name by unmarshal *)
  ("MeasurementInfo", "tagKeysTotal");        (* cache: recounted from the schema by unmarshal *)
  ("MeasurementInfo", "SchemaLock")           (* lock *)
].

(* gaps of today's code, each a recorded finding (props/C15/findings.json); the repaired tree has fewer *)
Definition known_gaps : list (string * string) := [
  ("MeasurementInfo", "ID");   (* C15-clone-mstid: clone builds the copy field by field and omits ID *)
  ("DataNode", "Index")        (* C15-datanode-index-not-persisted: marshal/unmarshal omit Index *)
].

(* types outside the property's catalogue: reachable only through transient fields (Op, SQLiteWrapper) or through
   Data.MigrateEvents (balancer events, not in the statement's list and not produced by the harness) *)
Definition skip_types : list string :=
  ["Op"; "SQLiteWrapper"; "MigrateEventInfo"; "DbPtInfo"; "DatabaseBriefInfo"; "ShardDurationInfo"; "ShardIdentifier"; "DurationDescriptor"].

Definition in_scope (tbl : list tyinfo) : list tyinfo := filter (fun t => negb (mem (ty_name t) skip_types)) tbl.

(* reference-typed fields that Clone shares with the live catalogue (finding C15-clone-aliasing): harmless only if the
   snapshot is marshalled before the next command is applied *)
Definition known_shallow : list (string * string) := [
  ("Data", "SqlNodes"); ("Data", "ReplicaGroups"); ("Data", "OpsMap"); ("Data", "SQLite");
  ("RetentionPolicyInfo", "Subscriptions"); ("RetentionPolicyInfo", "DownSamplePolicyInfo"); ("IndexGroupInfo", "ClearInfo")
].

Definition shallow_of (tbl : list tyinfo) : list (string * string) :=
  flat_map (fun t => map (fun f => (ty_name t, f)) (ty_shallow t)) tbl.

(* map ranges of the apply path whose outcome syntactically depends on the iteration order, with the reason each is harmless
   (or the finding that records it) *)
Definition S (f e : string) (n : nat) : site := {| s_func := f; s_expr := e; s_ord := n; s_choice := true |}.
Definition justified_choices : list site := [
  S "Data.CheckStreamExistInDatabase" "data.Streams" 1;       (* existence test: a disjunction over the elements *)
  S "Data.CheckStreamExistInMst" "data.Streams" 1;            (* existence test *)
  S "Data.CheckStreamExistInRetention" "data.Streams" 1;      (* existence test *)
  S "Data.CreateContinuousQueryBase" "data.Databases" 1;      (* existence test (name already used) *)
  S "Data.checkDDLConflict" "dbi.RetentionPolicies" 1;        (* existence test *)
  S "Data.checkDDLConflict" "rpi.Measurements" 1;             (* existence test *)
  S "Data.CreateShardGroup" "rpi.Measurements" 1;             (* any measurement: only its sharding type is used, uniform per policy *)
  S "RetentionPolicyInfo.validMeasurementShardType" "rpi.Measurements" 1; (* any other measurement: sharding type uniform per policy *)
  S "RetentionPolicyInfo.shardingType" "rpi.Measurements" 1;  (* last one wins: sharding type uniform per policy *)
  S "Data.DropMeasurement" "rpi.Measurements" 1;              (* search for a key: at most one element matches *)
  S "Data.mapShardsToMst" "rpi.Measurements" 1;               (* scratch variable declared outside the loop, written and read within one iteration *)
  S "Data.RecoverData" "metaData.PtView" 1;                   (* RecoverMetaData: outside the exercised command set *)
  S "storeFSM.applyDropDatabaseCommand" "dbi.ContinuousQueries" 1; (* removes names from the sorted scheduling list: set semantics, not catalogue *)
  S "Data.DropSubscription" "db.RetentionPolicies" 3          (* NOT harmless: finding C15-dropsubscription-map-order *)
].
