(* C15: the clone step of today's MeasurementInfo loses the identifier. The row below is today's code as read
   (MeasurementInfo.clone copies Name, originName, InitNumOfShards, IndexRelation, MarkDeleted, EngineType, tagKeysTotal,
   Schema, ShardIdexes, ShardKeys, ColStoreInfo, Options, ObsOptions - not ID); props/C15/run.py checks on every run that
   the regenerated row equals this one (today's code) or the repaired one. *)
From Coq Require Import ZArith List Bool String.
From OG Require Import C15.Model.
Import ListNotations.
Open Scope string_scope.

Definition mst_fields := ["Name"; "originName"; "ShardKeys"; "ShardIdexes"; "InitNumOfShards"; "Schema"; "IndexRelation"; "ColStoreInfo";
  "MarkDeleted"; "EngineType"; "Options"; "ObsOptions"; "tagKeysTotal"; "ID"; "SchemaLock"].
Definition mst_cloned_current := ["ColStoreInfo"; "EngineType"; "IndexRelation"; "InitNumOfShards"; "MarkDeleted"; "Name"; "ObsOptions"; "Options";
  "Schema"; "ShardIdexes"; "ShardKeys"; "originName"; "tagKeysTotal"].
Definition mst_codec := ["ColStoreInfo"; "EngineType"; "ID"; "IndexRelation"; "InitNumOfShards"; "MarkDeleted"; "Name"; "ObsOptions"; "Options";
  "Schema"; "ShardIdexes"; "ShardKeys"].

Definition mst_row (cl : list string) : tyinfo :=
  {| ty_name := "MeasurementInfo"; ty_fields := mst_fields; ty_codec := true; ty_clone := true;
     ty_marshalled := mst_codec; ty_unmarshalled := mst_codec ++ ["originName"; "tagKeysTotal"]; ty_cloned := cl; ty_shallow := [] |}.
Definition tbl_current := [mst_row mst_cloned_current].
Definition tbl_repaired := [mst_row ("ID" :: mst_cloned_current)].

(* the second measurement of a policy: ID 1 *)
Definition witness : val := VRec "MeasurementInfo" [("Name", VLeaf 7); ("ID", VLeaf 1)].

Theorem C15_clone_mstid_refuted :
  exists v, restore tbl_current (snapshot tbl_current v) <> v /\ restore tbl_repaired (snapshot tbl_repaired v) = v.
Proof. exists witness. split; [vm_compute; discriminate | vm_compute; reflexivity]. Qed.
Print Assumptions C15_clone_mstid_refuted.

(* marshal -> unmarshal alone keeps the identifier: the loss is in the deep copy *)
Example C15_codec_keeps_id : unmarshal tbl_current (marshal tbl_current witness) = witness.
Proof. vm_compute. reflexivity. Qed.
