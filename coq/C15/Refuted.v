(* C15: the clone step of today's MeasurementInfo loses the identifier. The row below is today's code as read
   (MeasurementInfo.clone copies Name, originName, InitNumOfShards, IndexRelation, MarkDeleted, EngineType, tagKeysTotal,
   Schema, ShardIdexes, ShardKeys, ColStoreInfo, Options, ObsOptions - not ID); props/C15/run.py checks on every run that
   the regenerated row equals this one (today's code) or the repaired one. *)
From Coq Require Import ZArith List Bool String.
From OG Require Import C15.Model.
From OG Require Import C16.Model C15.Cmds C15.CmdsProofs.
Import ListNotations.
Open Scope string_scope.

Definition mst_fields := ["Name"; "originName"; "ShardKeys"; "ShardIdexes"; "InitNumOfShards"; "Schema"; "IndexRelation"; "ColStoreInfo";
  "MarkDeleted"; "EngineType"; "Options"; "ObsOptions"; "tagKeysTotal"; "ID"; "SchemaLock"].
Definition mst_cloned_current := ["ColStoreInfo"; "EngineType"; "IndexRelation"; "InitNumOfShards"; "MarkDeleted"; "Name"; "ObsOptions"; "Options";
  "Schema"; "ShardIdexes"; "ShardKeys"; "originName"; "tagKeysTotal"].
Definition mst_codec := ["ColStoreInfo"; "EngineType"; "ID"; "IndexRelation"; "InitNumOfShards"; "MarkDeleted"; "Name"; "ObsOptions"; "Options";
  "Schema"; "ShardIdexes"; "ShardKeys"].

Definition mst_row (cl : list string) : tyinfo :=
  {| ty_name := "MeasurementInfo"; ty_fields := mst_fields; ty_codec := true; ty_clone := true;
     ty_marshalled := mst_codec; ty_unmarshalled := mst_codec ++ ["originName"; "tagKeysTotal"]; ty_cloned := cl; ty_shallow := [] |}.
Definition tbl_current := [mst_row mst_cloned_current].
Definition tbl_repaired := [mst_row ("ID" :: mst_cloned_current)].

(* the second measurement of a policy: ID 1 *)
Definition witness : val := VRec "MeasurementInfo" [("Name", VLeaf 7); ("ID", VLeaf 1)].

Theorem C15_clone_mstid_refuted :
  exists v, restore tbl_current (snapshot tbl_current v) <> v /\ restore tbl_repaired (snapshot tbl_repaired v) = v.
Proof. exists witness. split; [vm_compute; discriminate | vm_compute; reflexivity]. Qed.
Print Assumptions C15_clone_mstid_refuted.

(* marshal -> unmarshal alone keeps the identifier: the loss is in the deep copy *)
Example C15_codec_keeps_id : unmarshal tbl_current (marshal tbl_current witness) = witness.
Proof. vm_compute. reflexivity. Qed.

(* ---- the hand model (Cmds.v): today's variants of the recorded findings fail the statement, the repairs do not ---- *)
Open Scope Z_scope.
Definition cfgF : config := {| cfg_expand := false; cfg_expandf := fun c => c; cfg_sgtier := 1 |}.
Definition cfgT : config := {| cfg_expand := true; cfg_expandf := fun c => set_max_mst c (C16.Model.max_mst c + 100); cfg_sgtier := 1 |}.
Definition first_pick : list Z -> option Z := fun l => nth_error l 0.
Definition last_pick : list Z -> option Z := fun l => nth_error (rev l) 0.
Definition cstep0 := apply false true.
Definition s0 := init_x (init_cat 1 true).
Definition E (i : Z) (x : xcmd) : entry := (1, i, x).

(* C15-cq-lastruntime-zero: a continuous query that never ran comes back from a snapshot with a last-run instant *)
Definition log_cq : list entry := [E 2 (Core (CreateNode 1 1)); E 3 (Core (CreateDb 1 1 0 HOUR)); E 4 (CreateCq 1 1 1)].
Definition s_cq v := fst (x_run cstep0 first_pick v cfgF s0 log_cq).
Theorem C15_cq_lastruntime_zero_refuted :
  pp (x_restore v_current (s_cq v_current)) <> pp (s_cq v_current) /\ pp (x_restore v_repaired (s_cq v_repaired)) = pp (s_cq v_repaired).
Proof. split; [vm_compute; discriminate | vm_compute; reflexivity]. Qed.
Print Assumptions C15_cq_lastruntime_zero_refuted.

(* C15-datanode-index-not-persisted: the restored replica accepts an applied index the others refuse *)
Definition log_ix1 : list entry := [E 2 (Core (CreateNode 1 1)); E 3 (UpdateTmpIndex 1 30 1)].
Definition log_ix2 : list entry := [E 4 (UpdateTmpIndex 1 20 1)].
Definition s_ix v := fst (x_run cstep0 first_pick v cfgF s0 log_ix1).
Theorem C15_datanode_index_refuted :
  snd (x_run cstep0 first_pick v_current cfgF (x_restore v_current (s_ix v_current)) log_ix2) <>
  snd (x_run cstep0 first_pick v_current cfgF (s_ix v_current) log_ix2) /\
  snd (x_run cstep0 first_pick v_repaired cfgF (x_restore v_repaired (s_ix v_repaired)) log_ix2) =
  snd (x_run cstep0 first_pick v_repaired cfgF (s_ix v_repaired) log_ix2).
Proof. split; [vm_compute; discriminate | vm_compute; reflexivity]. Qed.
Print Assumptions C15_datanode_index_refuted.

(* C15-dropsubscription-map-order: two policies carry subscription 1; two valid iteration orders drop different ones *)
Definition log_ds : list entry := [E 2 (Core (CreateNode 1 1)); E 3 (Core (CreateDb 1 1 0 HOUR)); E 4 (Core (CreateRp 1 2 0 HOUR false));
  E 5 (CreateSub 1 1 1 1 1); E 6 (CreateSub 1 2 1 1 1)].
Definition s_ds v := fst (x_run cstep0 first_pick v cfgF s0 log_ds).
Lemma first_valid : pick_valid first_pick.
Proof. intros l. unfold first_pick. destruct l; cbn; [reflexivity | left; reflexivity]. Qed.
Lemma last_valid : pick_valid last_pick.
Proof.
  intros l. unfold last_pick. destruct (rev l) eqn:Er; cbn.
  - apply (f_equal (@rev Z)) in Er. rewrite rev_involutive in Er. exact Er.
  - apply in_rev. rewrite Er. left. reflexivity.
Qed.
Theorem C15_dropsubscription_order_refuted :
  pick_valid first_pick /\ pick_valid last_pick /\
  exec cstep0 first_pick v_current cfgF (s_ds v_current) (DropSub 1 0 1) <> exec cstep0 last_pick v_current cfgF (s_ds v_current) (DropSub 1 0 1) /\
  exec cstep0 first_pick v_repaired cfgF (s_ds v_repaired) (DropSub 1 0 1) = exec cstep0 last_pick v_repaired cfgF (s_ds v_repaired) (DropSub 1 0 1).
Proof. split; [exact first_valid|]. split; [exact last_valid|]. split; [vm_compute; discriminate | vm_compute; reflexivity]. Qed.
Print Assumptions C15_dropsubscription_order_refuted.

(* what the generated obligation C15_transient_reads_dominated protects (not a defect of today's code; seeded C15-m3): if the
   join handlers did NOT rewrite ExpandShardsEnable - the switch copied once at start-up - a restored replica would join a
   store without expanding the groups while the others expand them *)
Definition v_once : variant := {| v_cqfix := true; v_idxfix := true; v_dsubfix := true; v_rewrite := false |}.
Definition s_started : xstate := witht s0 (set_t_expand (tt s0) true).
Definition s_j := fst (x_run cstep0 first_pick v_once cfgT s_started [E 2 (Core (CreateNode 1 1))]).
Theorem C15_flag_set_once_would_diverge :
  pp (fst (x_run cstep0 first_pick v_once cfgT (x_restore v_once s_j) [E 3 (Core (CreateNode 2 2))])) <>
  pp (fst (x_run cstep0 first_pick v_once cfgT s_j [E 3 (Core (CreateNode 2 2))])).
Proof. vm_compute. discriminate. Qed.
Print Assumptions C15_flag_set_once_would_diverge.

(* C15-database-shardkey-type-dropped: DatabaseInfo.marshal writes the shard key only when the key list is non-nil *)
Record dbski := { k_keys : list Z; k_type : Z }.
Definition ski_persisted (fixed : bool) (s : dbski) : dbski :=
  if fixed then s else match k_keys s with [] => {| k_keys := []; k_type := 0 |} | _ => s end.
Theorem C15_database_shardkey_type_refuted :
  (exists s, ski_persisted false s <> s) /\ (forall s, ski_persisted true s = s).
Proof. split; [exists {| k_keys := []; k_type := 1 |}; vm_compute; discriminate | intros; reflexivity]. Qed.
Print Assumptions C15_database_shardkey_type_refuted.
