(* C15 - hand model of the meta state machine beyond the C16 catalogue core: executable definitions only.
   (round 5: partition versions, data / sql / meta node status, shard and index tiers, streams and their veto on the Mark
   commands, RemoveNode housekeeping; ExpandGroups = C16.Expand.expand_groups in the correspondence.)
   State = persistent part (what Data.Marshal writes: the C16 catalogue core, users and privileges, subscriptions,
   continuous queries, meta and sql nodes, per-node applied indexes, switches, id counters, term/index) + transient part
   (fields of meta.Data that are NOT marshalled: ExpandShardsEnable, AdminUserExists, UpdateNodeTmpIndexCommandStart).
   The step function mirrors app/ts-meta/meta storeFSM.Apply -> executeCmd -> the apply handlers -> meta.Data methods
   (lib/util/lifted/influx/meta/data.go, continuous_query.go, apply_func_base.go), including every place where a handler
   reads or writes a transient field. Names and addresses are integer codes (0 = the empty string); instants are Z.
   The catalogue core's step function is a parameter [cstep] (C16.Model.apply, or the order-oracle step C16.Order.applyO);
   the map-order choice of Data.DropSubscription is a parameter [pick].
   Variants (today's code / minimal repair of the recorded findings):
     v_cqfix   ContinuousQueryInfo times go through MarshalTime/UnmarshalTime (zero time <-> 0)   (false = today's code)
     v_idxfix  DataNode.Index is marshalled                                                        (false = today's code)
     v_dsubfix DropSubscription with an empty policy name walks the policies in name order          (false = today's code)
     v_rewrite the node-join handlers copy ExpandShardsEnable from the configuration before use     (true  = today's code) *)
From Coq Require Import ZArith List Bool.
From OG Require Import C16.Model.
Import ListNotations.
Open Scope Z_scope.

Record user := { u_name : Z; u_hash : Z; u_admin : bool; u_rw : bool; u_privs : list (Z * Z) }.
Record sub := { sb_name : Z; sb_mode : Z; sb_dest : Z }.
(* cq_last: None = the zero time.Time (never ran), Some n = time.Unix(0, n) *)
Record cq := { cq_db : Z; cq_name : Z; cq_query : Z; cq_last : option Z }.
Record mnode := { mn_id : Z; mn_http : Z; mn_tcp : Z; mn_status : Z; mn_ltime : Z }.
Record sqlnode := { sq_id : Z; sq_host : Z; sq_conn : Z; sq_index : Z; sq_status : Z; sq_ltime : Z; sq_alive : Z }.
(* NodeInfo.Status / LTime / GossipAddr (0 = empty) and DataNode.AliveConnID of a data node *)
Record nstat := { ns_status : Z; ns_ltime : Z; ns_alive : Z; ns_gossip : Z }.
Record stream := { st_name : Z; st_id : Z; st_src : Z * Z * Z; st_dst : Z * Z * Z; st_interval : Z }.

(* what Data.Marshal / Unmarshal carry *)
Record pstate := {
  core : cat;                          (* databases, policies, measurements, groups, data nodes, partition view, counters (C16) *)
  users : list user;                   (* Data.Users, slice order *)
  subs : list (Z * Z * list sub);      (* RetentionPolicyInfo.Subscriptions per (database, policy), slice order *)
  max_sub : Z;                         (* MaxSubscriptionID *)
  cqs : list cq;                       (* DatabaseInfo.ContinuousQueries of all databases *)
  max_cqchg : Z;                       (* MaxCQChangeID *)
  metas : list mnode;                  (* Data.MetaNodes, slice order (sorted by id) *)
  cluster_id : Z;
  sqls : list sqlnode;                 (* Data.SqlNodes, slice order *)
  dn_index : list (Z * Z);             (* DataNode.Index by the data node's TCP address (0 when absent) *)
  dn_stat : list (Z * nstat);          (* status, logical time, alive connection id, gossip address by the data node's TCP address *)
  sh_tier : list (Z * Z);              (* ShardInfo.Tier by shard id, when it differs from the tier the group was created with *)
  ix_tier : list (Z * Z);              (* IndexInfo.Tier by index id (0 when absent) *)
  streams : list stream;               (* Data.Streams *)
  max_stream : Z;                      (* MaxStreamID *)
  takeover : bool; balancer : bool;
  qids : list (Z * Z);                 (* QueryIDInit: sql host -> offset *)
  p_term : Z; p_index : Z              (* Data.Term / Data.Index: position of the last applied log entry *)
}.
(* fields of meta.Data that are not marshalled *)
Record tstate := {
  t_expand : bool;                     (* Data.ExpandShardsEnable *)
  t_admin : bool;                      (* Data.AdminUserExists (cache, recomputed by Unmarshal) *)
  t_tmpstart : Z                       (* Data.UpdateNodeTmpIndexCommandStart *)
}.
Record xstate := { pp : pstate; tt : tstate }.

Definition set_core (p : pstate) (v : cat) : pstate :=
  {| core := v; users := users p; subs := subs p; max_sub := max_sub p; cqs := cqs p; max_cqchg := max_cqchg p; metas := metas p; cluster_id := cluster_id p; sqls := sqls p; dn_index := dn_index p; dn_stat := dn_stat p; sh_tier := sh_tier p; ix_tier := ix_tier p; streams := streams p; max_stream := max_stream p; takeover := takeover p; balancer := balancer p; qids := qids p; p_term := p_term p; p_index := p_index p |}.
Definition set_users (p : pstate) (v : list user) : pstate :=
  {| core := core p; users := v; subs := subs p; max_sub := max_sub p; cqs := cqs p; max_cqchg := max_cqchg p; metas := metas p; cluster_id := cluster_id p; sqls := sqls p; dn_index := dn_index p; dn_stat := dn_stat p; sh_tier := sh_tier p; ix_tier := ix_tier p; streams := streams p; max_stream := max_stream p; takeover := takeover p; balancer := balancer p; qids := qids p; p_term := p_term p; p_index := p_index p |}.
Definition set_subs (p : pstate) (v : list (Z * Z * list sub)) : pstate :=
  {| core := core p; users := users p; subs := v; max_sub := max_sub p; cqs := cqs p; max_cqchg := max_cqchg p; metas := metas p; cluster_id := cluster_id p; sqls := sqls p; dn_index := dn_index p; dn_stat := dn_stat p; sh_tier := sh_tier p; ix_tier := ix_tier p; streams := streams p; max_stream := max_stream p; takeover := takeover p; balancer := balancer p; qids := qids p; p_term := p_term p; p_index := p_index p |}.
Definition set_max_sub (p : pstate) (v : Z) : pstate :=
  {| core := core p; users := users p; subs := subs p; max_sub := v; cqs := cqs p; max_cqchg := max_cqchg p; metas := metas p; cluster_id := cluster_id p; sqls := sqls p; dn_index := dn_index p; dn_stat := dn_stat p; sh_tier := sh_tier p; ix_tier := ix_tier p; streams := streams p; max_stream := max_stream p; takeover := takeover p; balancer := balancer p; qids := qids p; p_term := p_term p; p_index := p_index p |}.
Definition set_cqs (p : pstate) (v : list cq) : pstate :=
  {| core := core p; users := users p; subs := subs p; max_sub := max_sub p; cqs := v; max_cqchg := max_cqchg p; metas := metas p; cluster_id := cluster_id p; sqls := sqls p; dn_index := dn_index p; dn_stat := dn_stat p; sh_tier := sh_tier p; ix_tier := ix_tier p; streams := streams p; max_stream := max_stream p; takeover := takeover p; balancer := balancer p; qids := qids p; p_term := p_term p; p_index := p_index p |}.
Definition set_max_cqchg (p : pstate) (v : Z) : pstate :=
  {| core := core p; users := users p; subs := subs p; max_sub := max_sub p; cqs := cqs p; max_cqchg := v; metas := metas p; cluster_id := cluster_id p; sqls := sqls p; dn_index := dn_index p; dn_stat := dn_stat p; sh_tier := sh_tier p; ix_tier := ix_tier p; streams := streams p; max_stream := max_stream p; takeover := takeover p; balancer := balancer p; qids := qids p; p_term := p_term p; p_index := p_index p |}.
Definition set_metas (p : pstate) (v : list mnode) : pstate :=
  {| core := core p; users := users p; subs := subs p; max_sub := max_sub p; cqs := cqs p; max_cqchg := max_cqchg p; metas := v; cluster_id := cluster_id p; sqls := sqls p; dn_index := dn_index p; dn_stat := dn_stat p; sh_tier := sh_tier p; ix_tier := ix_tier p; streams := streams p; max_stream := max_stream p; takeover := takeover p; balancer := balancer p; qids := qids p; p_term := p_term p; p_index := p_index p |}.
Definition set_cluster_id (p : pstate) (v : Z) : pstate :=
  {| core := core p; users := users p; subs := subs p; max_sub := max_sub p; cqs := cqs p; max_cqchg := max_cqchg p; metas := metas p; cluster_id := v; sqls := sqls p; dn_index := dn_index p; dn_stat := dn_stat p; sh_tier := sh_tier p; ix_tier := ix_tier p; streams := streams p; max_stream := max_stream p; takeover := takeover p; balancer := balancer p; qids := qids p; p_term := p_term p; p_index := p_index p |}.
Definition set_sqls (p : pstate) (v : list sqlnode) : pstate :=
  {| core := core p; users := users p; subs := subs p; max_sub := max_sub p; cqs := cqs p; max_cqchg := max_cqchg p; metas := metas p; cluster_id := cluster_id p; sqls := v; dn_index := dn_index p; dn_stat := dn_stat p; sh_tier := sh_tier p; ix_tier := ix_tier p; streams := streams p; max_stream := max_stream p; takeover := takeover p; balancer := balancer p; qids := qids p; p_term := p_term p; p_index := p_index p |}.
Definition set_dn_index_tbl (p : pstate) (v : list (Z * Z)) : pstate :=
  {| core := core p; users := users p; subs := subs p; max_sub := max_sub p; cqs := cqs p; max_cqchg := max_cqchg p; metas := metas p; cluster_id := cluster_id p; sqls := sqls p; dn_index := v; dn_stat := dn_stat p; sh_tier := sh_tier p; ix_tier := ix_tier p; streams := streams p; max_stream := max_stream p; takeover := takeover p; balancer := balancer p; qids := qids p; p_term := p_term p; p_index := p_index p |}.
Definition set_dn_stat (p : pstate) (v : list (Z * nstat)) : pstate :=
  {| core := core p; users := users p; subs := subs p; max_sub := max_sub p; cqs := cqs p; max_cqchg := max_cqchg p; metas := metas p; cluster_id := cluster_id p; sqls := sqls p; dn_index := dn_index p; dn_stat := v; sh_tier := sh_tier p; ix_tier := ix_tier p; streams := streams p; max_stream := max_stream p; takeover := takeover p; balancer := balancer p; qids := qids p; p_term := p_term p; p_index := p_index p |}.
Definition set_sh_tier (p : pstate) (v : list (Z * Z)) : pstate :=
  {| core := core p; users := users p; subs := subs p; max_sub := max_sub p; cqs := cqs p; max_cqchg := max_cqchg p; metas := metas p; cluster_id := cluster_id p; sqls := sqls p; dn_index := dn_index p; dn_stat := dn_stat p; sh_tier := v; ix_tier := ix_tier p; streams := streams p; max_stream := max_stream p; takeover := takeover p; balancer := balancer p; qids := qids p; p_term := p_term p; p_index := p_index p |}.
Definition set_ix_tier (p : pstate) (v : list (Z * Z)) : pstate :=
  {| core := core p; users := users p; subs := subs p; max_sub := max_sub p; cqs := cqs p; max_cqchg := max_cqchg p; metas := metas p; cluster_id := cluster_id p; sqls := sqls p; dn_index := dn_index p; dn_stat := dn_stat p; sh_tier := sh_tier p; ix_tier := v; streams := streams p; max_stream := max_stream p; takeover := takeover p; balancer := balancer p; qids := qids p; p_term := p_term p; p_index := p_index p |}.
Definition set_streams (p : pstate) (v : list stream) : pstate :=
  {| core := core p; users := users p; subs := subs p; max_sub := max_sub p; cqs := cqs p; max_cqchg := max_cqchg p; metas := metas p; cluster_id := cluster_id p; sqls := sqls p; dn_index := dn_index p; dn_stat := dn_stat p; sh_tier := sh_tier p; ix_tier := ix_tier p; streams := v; max_stream := max_stream p; takeover := takeover p; balancer := balancer p; qids := qids p; p_term := p_term p; p_index := p_index p |}.
Definition set_max_stream (p : pstate) (v : Z) : pstate :=
  {| core := core p; users := users p; subs := subs p; max_sub := max_sub p; cqs := cqs p; max_cqchg := max_cqchg p; metas := metas p; cluster_id := cluster_id p; sqls := sqls p; dn_index := dn_index p; dn_stat := dn_stat p; sh_tier := sh_tier p; ix_tier := ix_tier p; streams := streams p; max_stream := v; takeover := takeover p; balancer := balancer p; qids := qids p; p_term := p_term p; p_index := p_index p |}.
Definition set_takeover (p : pstate) (v : bool) : pstate :=
  {| core := core p; users := users p; subs := subs p; max_sub := max_sub p; cqs := cqs p; max_cqchg := max_cqchg p; metas := metas p; cluster_id := cluster_id p; sqls := sqls p; dn_index := dn_index p; dn_stat := dn_stat p; sh_tier := sh_tier p; ix_tier := ix_tier p; streams := streams p; max_stream := max_stream p; takeover := v; balancer := balancer p; qids := qids p; p_term := p_term p; p_index := p_index p |}.
Definition set_balancer (p : pstate) (v : bool) : pstate :=
  {| core := core p; users := users p; subs := subs p; max_sub := max_sub p; cqs := cqs p; max_cqchg := max_cqchg p; metas := metas p; cluster_id := cluster_id p; sqls := sqls p; dn_index := dn_index p; dn_stat := dn_stat p; sh_tier := sh_tier p; ix_tier := ix_tier p; streams := streams p; max_stream := max_stream p; takeover := takeover p; balancer := v; qids := qids p; p_term := p_term p; p_index := p_index p |}.
Definition set_qids (p : pstate) (v : list (Z * Z)) : pstate :=
  {| core := core p; users := users p; subs := subs p; max_sub := max_sub p; cqs := cqs p; max_cqchg := max_cqchg p; metas := metas p; cluster_id := cluster_id p; sqls := sqls p; dn_index := dn_index p; dn_stat := dn_stat p; sh_tier := sh_tier p; ix_tier := ix_tier p; streams := streams p; max_stream := max_stream p; takeover := takeover p; balancer := balancer p; qids := v; p_term := p_term p; p_index := p_index p |}.
Definition set_p_term (p : pstate) (v : Z) : pstate :=
  {| core := core p; users := users p; subs := subs p; max_sub := max_sub p; cqs := cqs p; max_cqchg := max_cqchg p; metas := metas p; cluster_id := cluster_id p; sqls := sqls p; dn_index := dn_index p; dn_stat := dn_stat p; sh_tier := sh_tier p; ix_tier := ix_tier p; streams := streams p; max_stream := max_stream p; takeover := takeover p; balancer := balancer p; qids := qids p; p_term := v; p_index := p_index p |}.
Definition set_p_index (p : pstate) (v : Z) : pstate :=
  {| core := core p; users := users p; subs := subs p; max_sub := max_sub p; cqs := cqs p; max_cqchg := max_cqchg p; metas := metas p; cluster_id := cluster_id p; sqls := sqls p; dn_index := dn_index p; dn_stat := dn_stat p; sh_tier := sh_tier p; ix_tier := ix_tier p; streams := streams p; max_stream := max_stream p; takeover := takeover p; balancer := balancer p; qids := qids p; p_term := p_term p; p_index := v |}.
Definition set_t_expand (t : tstate) (v : bool) : tstate :=
  {| t_expand := v; t_admin := t_admin t; t_tmpstart := t_tmpstart t |}.
Definition set_t_admin (t : tstate) (v : bool) : tstate :=
  {| t_expand := t_expand t; t_admin := v; t_tmpstart := t_tmpstart t |}.
Definition set_t_tmpstart (t : tstate) (v : Z) : tstate :=
  {| t_expand := t_expand t; t_admin := t_admin t; t_tmpstart := v |}.

Definition withp (s : xstate) (p : pstate) : xstate := {| pp := p; tt := tt s |}.
Definition witht (s : xstate) (t : tstate) : xstate := {| pp := pp s; tt := t |}.

Record variant := { v_cqfix : bool; v_idxfix : bool; v_dsubfix : bool; v_rewrite : bool }.
Definition v_current : variant := {| v_cqfix := false; v_idxfix := false; v_dsubfix := false; v_rewrite := true |}.
Definition v_repaired : variant := {| v_cqfix := true; v_idxfix := true; v_dsubfix := true; v_rewrite := true |}.

(* the node's configuration: expand-shards-enable, and what Data.ExpandGroups does to the catalogue (not modelled: abstract) *)
(* cfg_sgtier: the tier every CreateShardGroup command of the log carries (the command's ShardTier field is not an argument
   of the C16 command) *)
Record config := { cfg_expand : bool; cfg_expandf : cat -> cat; cfg_sgtier : Z }.

Definition init_p (c : cat) : pstate :=
  {| core := c; users := []; subs := []; max_sub := 0; cqs := []; max_cqchg := 0; metas := []; cluster_id := 0; sqls := [];
     dn_index := []; dn_stat := []; sh_tier := []; ix_tier := []; streams := []; max_stream := 0; takeover := false; balancer := false; qids := []; p_term := 0; p_index := 0 |}.
Definition init_t : tstate := {| t_expand := false; t_admin := false; t_tmpstart := 0 |}.
Definition init_x (c : cat) : xstate := {| pp := init_p c; tt := init_t |}.

Inductive xcmd :=
| Core (x : cmd)                                   (* the 19 catalogue commands of the C16 model *)
| CreateUser (name hash : Z) (admin rw : bool)
| DropUser (name : Z)
| UpdateUser (name hash : Z)
| SetPrivilege (name db p : Z)
| SetAdminPrivilege (name : Z) (admin : bool)
| CreateSub (db rp name mode dest : Z)
| DropSub (db rp name : Z)
| CreateCq (db name query : Z)
| ReportCq (name ts : Z)
| DropCq (name db : Z)
| NotifyCqLease
| CreateMeta (http tcp rand : Z)
| SetMeta (http tcp rand : Z)
| DeleteMeta (id : Z)
| CreateSql (host : Z)
| UpdateTmpIndex (role idx node : Z)
| MarkTakeover (b : bool)
| MarkBalancer (b : bool)
| VerifyNode
| RegisterQid (host : Z)
| ExpandGroups
| UpdatePtVersion (db pt : Z)
| NodeStatus (id status ltime port : Z)            (* UpdateNodeStatusCommand (data nodes) *)
| SqlStatus (id status ltime : Z)
| MetaStatus (id status ltime : Z)
| ShardTier (db rp id tier : Z)
| IndexTier (db rp id tier : Z)
| CreateStream (name db rp src dst interval : Z)    (* source and destination measurement in one database and policy *)
| DropStream (name : Z).

Definition xok (s : xstate) : xstate * bool := (s, true).
Definition xerr (s : xstate) : xstate * bool := (s, false).

Fixpoint remove_first {A} (f : A -> bool) (l : list A) : list A :=
  match l with [] => [] | x :: r => if f x then r else x :: remove_first f r end.

(* ---- users (Data.CreateUser / DropUser / UpdateUser / SetPrivilege / SetAdminPrivilege) ---- *)
Definition is_user (n : Z) (u : user) : bool := u_name u =? n.
Definition find_user (l : list user) (n : Z) : option user := find (is_user n) l.
Definition u_set_hash (h : Z) (u : user) : user :=
  {| u_name := u_name u; u_hash := h; u_admin := u_admin u; u_rw := u_rw u; u_privs := u_privs u |}.
Definition u_set_privs (l : list (Z * Z)) (u : user) : user :=
  {| u_name := u_name u; u_hash := u_hash u; u_admin := u_admin u; u_rw := u_rw u; u_privs := l |}.

Definition x_create_user (s : xstate) (n h : Z) (a rw : bool) : xstate * bool :=
  let p := pp s in
  if n =? 0 then xerr s else
  match find_user (users p) n with
  | Some _ => xerr s
  | None =>
      if a && existsb u_admin (users p) then xerr s else        (* HasAdminUser: exhaustive, not the cached flag *)
      let p1 := set_users p (users p ++ [{| u_name := n; u_hash := h; u_admin := a; u_rw := rw; u_privs := [] |}]) in
      xok {| pp := p1; tt := if a then set_t_admin (tt s) true else tt s |}
  end.

Definition x_drop_user (s : xstate) (n : Z) : xstate * bool :=
  let p := pp s in
  match find_user (users p) n with
  | Some u => if u_admin u then xerr s else xok (withp s (set_users p (remove_first (is_user n) (users p))))
  | None => xerr s
  end.

Definition x_update_user (s : xstate) (n h : Z) : xstate * bool :=
  let p := pp s in
  match find_user (users p) n with
  | Some u => if u_hash u =? h then xerr s else xok (withp s (set_users p (upd_first (is_user n) (u_set_hash h) (users p))))
  | None => xerr s
  end.

Definition x_set_privilege (s : xstate) (n db pv : Z) : xstate * bool :=
  let p := pp s in
  match find_user (users p) n with
  | None => xerr s
  | Some _ =>
      match get_db (core p) db with
      | None => xerr s
      | Some _ => xok (withp s (set_users p (upd_first (is_user n) (fun u => u_set_privs (assoc_set db pv (u_privs u)) u) (users p))))
      end
  end.

(* ---- subscriptions (Data.CreateSubscription / DropSubscription) ---- *)
Definition sub_key (db rp : Z) (e : Z * Z * list sub) : bool := (fst (fst e) =? db) && (snd (fst e) =? rp).
Definition subs_of (l : list (Z * Z * list sub)) (db rp : Z) : list sub :=
  match find (sub_key db rp) l with Some e => snd e | None => [] end.
Definition set_subs_of (l : list (Z * Z * list sub)) (db rp : Z) (v : list sub) : list (Z * Z * list sub) :=
  if existsb (sub_key db rp) l then upd_first (sub_key db rp) (fun e => (fst e, v)) l else l ++ [((db, rp), v)].
Definition is_sub (n : Z) (x : sub) : bool := sb_name x =? n.

Definition x_create_sub (s : xstate) (db rp n mode dest : Z) : xstate * bool :=
  let p := pp s in
  match get_pol (core p) db rp with
  | None => xerr s
  | Some q =>
      let l := subs_of (subs p) db (rp_name q) in
      if existsb (is_sub n) l then xerr s else
      xok (withp s (set_max_sub (set_subs p (set_subs_of (subs p) db (rp_name q) (l ++ [{| sb_name := n; sb_mode := mode; sb_dest := dest |}])))
                                (max_sub p + 1)))
  end.

(* the policy names of the database, in the order of the harness's name coding (rp1 < rp2 < rp3; "autogen" = 4 sorts first) *)
Definition name_key (n : Z) : Z := if n =? 4 then 0 else n.
Fixpoint min_by_key (l : list Z) : option Z :=
  match l with
  | [] => None
  | x :: r => match min_by_key r with
              | None => Some x
              | Some y => if name_key x <=? name_key y then Some x else Some y
              end
  end.

Definition drop_sub_in (p : pstate) (db k n : Z) : pstate :=
  set_max_sub (set_subs p (set_subs_of (subs p) db k (remove_first (is_sub n) (subs_of (subs p) db k)))) (max_sub p + 1).

(* policies of the database (marked or not) that carry a subscription of that name *)
Definition sub_candidates (p : pstate) (db n : Z) : list Z :=
  map rp_name (filter (fun q => (rp_db q =? db) && existsb (is_sub n) (subs_of (subs p) db (rp_name q))) (pols (core p))).

Definition x_drop_sub (pick : list Z -> option Z) (v : variant) (s : xstate) (db rp n : Z) : xstate * bool :=
  let p := pp s in
  let direct :=
    match get_pol (core p) db rp with
    | None => xerr s
    | Some q => if existsb (is_sub n) (subs_of (subs p) db (rp_name q)) then xok (withp s (drop_sub_in p db (rp_name q) n)) else xerr s
    end in
  if db =? 0 then xok (withp s (set_max_sub (set_subs p (map (fun e => (fst e, [])) (subs p))) (max_sub p + 1))) else
  if n =? 0 then
    match find_db (core p) db with
    | None => xerr s
    | Some _ => xok (withp s (set_max_sub (set_subs p (map (fun e => if fst (fst e) =? db then (fst e, []) else e) (subs p))) (max_sub p + 1)))
    end
  else if rp =? 0 then
    match find_db (core p) db with
    | None => xerr s
    | Some _ =>
        (* `for _, rpi := range db.RetentionPolicies`: the first policy REACHED that has the subscription *)
        match (if v_dsubfix v then min_by_key (sub_candidates p db n) else pick (sub_candidates p db n)) with
        | Some k => xok (withp s (drop_sub_in p db k n))
        | None => direct
        end
    end
  else direct.

(* ---- continuous queries ---- *)
Definition is_cq (db n : Z) (c : cq) : bool := (cq_db c =? db) && (cq_name c =? n).
(* ContinuousQueryInfo.UpdateContinuousQueryStat *)
Definition stat_time (v : variant) (ts : Z) : option Z := if v_cqfix v then (if ts =? 0 then None else Some ts) else Some ts.
Definition cq_set_last (o : option Z) (c : cq) : cq := {| cq_db := cq_db c; cq_name := cq_name c; cq_query := cq_query c; cq_last := o |}.

Definition x_create_cq (s : xstate) (db n qy : Z) : xstate * bool :=
  let p := pp s in
  match get_db (core p) db with
  | None => xerr s
  | Some _ =>
      match find (is_cq db n) (cqs p) with
      | Some c => if cq_query c =? qy then xok s else xerr s
      | None =>
          if existsb (fun c => cq_name c =? n) (cqs p) then xerr s else
          xok (withp s (set_max_cqchg (set_cqs p (cqs p ++ [{| cq_db := db; cq_name := n; cq_query := qy; cq_last := None |}])) (max_cqchg p + 1)))
      end
  end.

Definition x_report_cq (v : variant) (s : xstate) (n ts : Z) : xstate * bool :=
  let p := pp s in
  xok (withp s (set_cqs p (map (fun c => if cq_name c =? n then cq_set_last (stat_time v ts) c else c) (cqs p)))).

Definition x_drop_cq (s : xstate) (n db : Z) : xstate * bool :=
  let p := pp s in
  match get_db (core p) db with
  | None => xerr s
  | Some _ =>
      if existsb (is_cq db n) (cqs p)
      then xok (withp s (set_max_cqchg (set_cqs p (filter (fun c => negb (is_cq db n c)) (cqs p))) (max_cqchg p + 1)))
      else xok s
  end.

(* ---- node identifiers and connection ids are shared with the data nodes of the core ---- *)
Definition set_counters (c : cat) (mn mc : Z) : cat := set_nodes c (nodes c) mn mc (ptnum c) (ptview c).

(* sort.Sort by id after an append: the new element ends behind the elements with a smaller or equal id *)
Fixpoint insert_meta (m : mnode) (l : list mnode) : list mnode :=
  match l with [] => [m] | x :: r => if mn_id m <? mn_id x then m :: l else x :: insert_meta m r end.
Fixpoint insert_node (n : node) (l : list node) : list node :=
  match l with [] => [n] | x :: r => if nd_id n <? nd_id x then n :: l else x :: insert_node n r end.

(* Data.CreateMetaNode *)
Definition create_meta (p : pstate) (http tcp : Z) : pstate :=
  if existsb (fun m => mn_http m =? http) (metas p) then p else
  let c := core p in
  match find (fun n => nd_tcp n =? tcp) (nodes c) with
  | Some n => set_metas p (insert_meta {| mn_id := nd_id n; mn_http := http; mn_tcp := tcp; mn_status := 0; mn_ltime := 0 |} (metas p))
  | None =>
      let id := max_node c + 1 in
      set_metas (set_core p (set_counters c id (max_conn c))) (insert_meta {| mn_id := id; mn_http := http; mn_tcp := tcp; mn_status := 0; mn_ltime := 0 |} (metas p))
  end.

Definition x_create_meta (s : xstate) (http tcp rand : Z) : xstate * bool :=
  xok (withp s (set_cluster_id (create_meta (pp s) http tcp) rand)).

Definition x_set_meta (s : xstate) (http tcp rand : Z) : xstate * bool :=
  let p := pp s in
  match metas p with
  | _ :: _ :: _ => xerr s
  | [] => let p1 := create_meta p http tcp in xok (withp s (if cluster_id p1 =? 0 then set_cluster_id p1 rand else p1))
  | [m] => let p1 := set_metas p [{| mn_id := mn_id m; mn_http := http; mn_tcp := tcp; mn_status := mn_status m; mn_ltime := mn_ltime m |}] in
           xok (withp s (if cluster_id p1 =? 0 then set_cluster_id p1 rand else p1))
  end.

Definition x_delete_meta (s : xstate) (id : Z) : xstate * bool :=
  let p := pp s in
  if id =? 0 then xerr s else
  let l := filter (fun m => negb (mn_id m =? id)) (metas p) in
  if (length l =? length (metas p))%nat then xerr s else xok (withp s (set_metas p l)).

(* the handlers of CreateDataNode and CreateSqlNode copy the switch from the node's configuration before Data reads it *)
Definition rewrite_expand (v : variant) (cfg : config) (s : xstate) : xstate :=
  if v_rewrite v then witht s (set_t_expand (tt s) (cfg_expand cfg)) else s.

(* storeFSM.applyCreateSqlNodeCommand + Data.CreateSqlNode *)
Definition sq_set_conn (v : Z) (x : sqlnode) : sqlnode :=
  {| sq_id := sq_id x; sq_host := sq_host x; sq_conn := v; sq_index := sq_index x; sq_status := sq_status x; sq_ltime := sq_ltime x; sq_alive := sq_alive x |}.
Definition x_create_sql (v : variant) (cfg : config) (s : xstate) (host : Z) : xstate * bool :=
  let p := pp s in
  let c := core p in
  let mc := max_conn c + 1 in
  if existsb (fun x => sq_host x =? host) (sqls p) then
    xok (withp s (set_sqls (set_core p (set_counters c (max_node c) mc)) (upd_first (fun x => sq_host x =? host) (sq_set_conn mc) (sqls p))))
  else
    let s1 := rewrite_expand v cfg s in
    match find (fun m => mn_tcp m =? host) (metas p) with
    | Some m => xok (withp s1 (set_sqls (set_core p (set_counters c (max_node c) mc))
                                        (sqls p ++ [{| sq_id := mn_id m; sq_host := host; sq_conn := mc; sq_index := 0; sq_status := 0; sq_ltime := 0; sq_alive := 0 |}])))
    | None => let id := max_node c + 1 in
              xok (withp s1 (set_sqls (set_core p (set_counters c id mc))
                                      (sqls p ++ [{| sq_id := id; sq_host := host; sq_conn := mc; sq_index := 0; sq_status := 0; sq_ltime := 0; sq_alive := 0 |}])))
    end.

(* storeFSM.applyCreateDataNodeCommand + ApplyCreateDataNode + Data.CreateDataNode (writer nodes) *)
Definition join_with_id (c : cat) (id h t : Z) : cat :=
  let mc := max_conn c + 1 in
  let l := insert_node {| nd_id := id; nd_http := h; nd_tcp := t; nd_conn := mc |} (nodes c) in
  let want := ptper c * Z.of_nat (length l) in
  let pn := if ptnum c <? want then want else ptnum c in
  set_nodes c l (max_node c) mc pn
    (map (fun e => (fst e, snd e ++ repeat (fresh_pt id) (Z.to_nat pn - length (snd e)))) (ptview c)).

Definition x_create_dnode (v : variant) (cfg : config) (s : xstate) (h t : Z) : xstate * bool :=
  let s1 := rewrite_expand v cfg s in
  let p := pp s1 in
  let c := core p in
  if existsb (fun n => nd_http n =? h) (nodes c) || existsb (fun n => nd_tcp n =? t) (nodes c) then
    xok (withp s1 (set_core p (fst (create_node c h t))))            (* a known node reconnects: new connection id only *)
  else
    let c1 := match find (fun m => mn_tcp m =? t) (metas p) with
              | Some m => join_with_id c (mn_id m) h t               (* the meta node on that address lends its id *)
              | None => fst (create_node c h t)
              end in
    xok (withp s1 (set_core p (if t_expand (tt s1) then cfg_expandf cfg c1 else c1))).

(* ---- Data.UpdateNodeTmpIndex (SetSqlNodeIndex / SetDataNodeIndex: only a strictly larger index is accepted) ---- *)
Definition sq_set_index (v : Z) (x : sqlnode) : sqlnode :=
  {| sq_id := sq_id x; sq_host := sq_host x; sq_conn := sq_conn x; sq_index := v; sq_status := sq_status x; sq_ltime := sq_ltime x; sq_alive := sq_alive x |}.
Fixpoint set_sql_index (l : list sqlnode) (id idx : Z) : option (list sqlnode) :=
  match l with
  | [] => None
  | x :: r =>
      if sq_id x =? id then
        if idx >? sq_index x then Some (sq_set_index idx x :: r)
        else if idx <? sq_index x then None
        else option_map (cons x) (set_sql_index r id idx)
      else option_map (cons x) (set_sql_index r id idx)
  end.
Definition idx_of (tbl : list (Z * Z)) (id : Z) : Z := match assoc id tbl with Some v => v | None => 0 end.
(* data node ids are not unique (a node joining on the address of a meta node takes that node's id): the table is keyed by the
   node's TCP address, which Data.CreateDataNode keeps unique *)
Fixpoint set_dn_index (ns : list node) (tbl : list (Z * Z)) (id idx : Z) : option (list (Z * Z)) :=
  match ns with
  | [] => None
  | n :: r =>
      if nd_id n =? id then
        if idx >? idx_of tbl (nd_tcp n) then Some (assoc_set (nd_tcp n) idx tbl)
        else if idx <? idx_of tbl (nd_tcp n) then None
        else set_dn_index r tbl id idx
      else set_dn_index r tbl id idx
  end.

Definition x_tmp_index (s : xstate) (role idx node : Z) : xstate * bool :=
  let p := pp s in
  if role =? 0 then
    match set_sql_index (sqls p) node idx with Some l => xok (withp s (set_sqls p l)) | None => xerr s end
  else if role =? 1 then
    match set_dn_index (nodes (core p)) (dn_index p) node idx with Some l => xok (withp s (set_dn_index_tbl p l)) | None => xerr s end
  else xerr s.


(* ---- partition versions, node status (Data.UpdatePtVersion / UpdateNodeStatus / UpdateSqlNodeStatus / UpdateMetaNodeStatus) ---- *)
Definition pt_bump (x : ptinfo) : ptinfo := {| pt_owner := pt_owner x; pt_status := pt_status x; pt_ver := pt_ver x + 1 |}.
Definition x_pt_version (s : xstate) (db pt : Z) : xstate * bool :=
  let p := pp s in
  let c := core p in
  match find (fun e => fst e =? db) (ptview c) with
  | None => xerr s
  | Some e =>
      if (pt <? 0) || (pt >=? Z.of_nat (length (snd e))) then xerr s else
      xok (withp s (set_core p (set_ptview c (upd_first (fun e => fst e =? db) (fun e => (fst e, upd_nth (Z.to_nat pt) pt_bump (snd e))) (ptview c)))))
  end.

Definition ALIVE : Z := 1.    (* serf.StatusAlive *)
Definition stat0 : nstat := {| ns_status := 0; ns_ltime := 0; ns_alive := 0; ns_gossip := 0 |}.
Fixpoint stat_of (tbl : list (Z * nstat)) (k : Z) : nstat :=
  match tbl with [] => stat0 | (a, b) :: r => if a =? k then b else stat_of r k end.
Fixpoint stat_set (k : Z) (v : nstat) (tbl : list (Z * nstat)) : list (Z * nstat) :=
  match tbl with [] => [(k, v)] | (a, b) :: r => if a =? k then (k, v) :: r else (a, b) :: stat_set k v r end.

(* updatePtViewStatus(id, Offline): every partition owned by the node goes offline and gets a new version *)
Definition pt_offline (id : Z) (x : ptinfo) : ptinfo :=
  if pt_owner x =? id then {| pt_owner := pt_owner x; pt_status := OFFLINE; pt_ver := pt_ver x + 1 |} else x.

(* write-available-first ha policy (the split-brain refusal of shared-storage is not modelled) *)
Definition x_node_status (s : xstate) (id status ltime port : Z) : xstate * bool :=
  let p := pp s in
  let c := core p in
  if negb (takeover p) then xok s else           (* "do not take over" *)
  match find (fun n => nd_id n =? id) (nodes c) with
  | None => xerr s
  | Some n =>
      let st := stat_of (dn_stat p) (nd_tcp n) in
      if ltime <? ns_ltime st then xerr s else
      let st' := {| ns_status := status; ns_ltime := ltime; ns_alive := if status =? ALIVE then nd_conn n else ns_alive st;
                    ns_gossip := if ns_gossip st =? 0 then port else ns_gossip st |} in
      xok (withp s (set_dn_stat (set_core p (set_ptview c (map (fun e => (fst e, map (pt_offline id) (snd e))) (ptview c))))
                                (stat_set (nd_tcp n) st' (dn_stat p))))
  end.

Definition x_sql_status (s : xstate) (id status ltime : Z) : xstate * bool :=
  let p := pp s in
  match find (fun x => sq_id x =? id) (sqls p) with
  | None => xerr s
  | Some x =>
      if ltime <? sq_ltime x then xerr s else
      xok (withp s (set_sqls p (upd_first (fun x => sq_id x =? id)
            (fun x => {| sq_id := sq_id x; sq_host := sq_host x; sq_conn := sq_conn x; sq_index := sq_index x; sq_status := status; sq_ltime := ltime;
                         sq_alive := if status =? ALIVE then sq_conn x else sq_alive x |}) (sqls p))))
  end.

Definition x_meta_status (s : xstate) (id status ltime : Z) : xstate * bool :=
  let p := pp s in
  match find (fun m => mn_id m =? id) (metas p) with
  | None => xerr s
  | Some m =>
      if ltime <? mn_ltime m then xerr s else
      xok (withp s (set_metas p (upd_first (fun m => mn_id m =? id)
            (fun m => {| mn_id := mn_id m; mn_http := mn_http m; mn_tcp := mn_tcp m; mn_status := status; mn_ltime := ltime |}) (metas p))))
  end.

(* ---- tiers (Data.UpdateShardInfoTier / UpdateIndexInfoTier) ---- *)
Definition x_shard_tier (s : xstate) (db rp id tier : Z) : xstate * bool :=
  let p := pp s in
  match get_pol (core p) db rp with
  | None => xerr s
  | Some q => if existsb (fun g => existsb (fun x => sh_id x =? id) (sg_shards g)) (rp_sgs q)
              then xok (withp s (set_sh_tier p (assoc_set id tier (sh_tier p)))) else xerr s
  end.
Definition x_index_tier (s : xstate) (db rp id tier : Z) : xstate * bool :=
  let p := pp s in
  match get_pol (core p) db rp with
  | None => xerr s
  | Some q => if existsb (fun g => existsb (fun x => ix_id x =? id) (ig_indexes g)) (rp_igs q)
              then xok (withp s (set_ix_tier p (assoc_set id tier (ix_tier p)))) else xerr s
  end.

(* a shard gets its tier when it appears: the tier of the CreateShardGroup command for the shards of a new group, the tier of the
   shard before it for a shard added by an expansion (`Tier: sg.Shards[i-1].Tier`) *)
Fixpoint complete_group (dflt prev : Z) (tbl : list (Z * Z)) (l : list shard) : list (Z * Z) :=
  match l with
  | [] => tbl
  | x :: r => match assoc (sh_id x) tbl with
              | Some t => complete_group dflt t tbl r
              | None => complete_group dflt prev (tbl ++ [(sh_id x, prev)]) r
              end
  end.
Definition complete_tiers (dflt : Z) (c : cat) (tbl : list (Z * Z)) : list (Z * Z) :=
  fold_left (fun t g => complete_group dflt dflt t (sg_shards g)) (flat_map rp_sgs (pols c)) tbl.

(* ---- streams (Data.SetStream / DropStream; the Mark* commands refuse while a stream refers to their object) ---- *)
Definition triple_eqb (a b : Z * Z * Z) : bool := (fst (fst a) =? fst (fst b)) && (snd (fst a) =? snd (fst b)) && (snd a =? snd b).
Definition stream_equal (a b : stream) : bool :=
  (st_name a =? st_name b) && (st_interval a =? st_interval b) && triple_eqb (st_src a) (st_src b) && triple_eqb (st_dst a) (st_dst b).
Definition x_create_stream (s : xstate) (n db rp src dst iv : Z) : xstate * bool :=
  let p := pp s in
  let info := {| st_name := n; st_id := max_stream p; st_src := (db, rp, src); st_dst := (db, rp, dst); st_interval := iv |} in
  match find (fun x => st_name x =? n) (streams p) with
  | Some old =>
      if stream_equal old info
      then xok (withp s (set_max_stream (set_streams p (upd_first (fun x => st_name x =? n) (fun _ => info) (streams p))) (max_stream p + 1)))
      else xerr s
  | None => xok (withp s (set_max_stream (set_streams p (streams p ++ [info])) (max_stream p + 1)))
  end.
Definition x_drop_stream (s : xstate) (n : Z) : xstate * bool :=
  let p := pp s in
  if existsb (fun x => st_name x =? n) (streams p)
  then xok (withp s (set_streams p (filter (fun x => negb (st_name x =? n)) (streams p)))) else xerr s.

Definition in_db (db : Z) (t : Z * Z * Z) : bool := fst (fst t) =? db.
Definition in_rp (db rp : Z) (t : Z * Z * Z) : bool := (fst (fst t) =? db) && (snd (fst t) =? rp).
Definition in_mst (db rp m : Z) (t : Z * Z * Z) : bool := (fst (fst t) =? db) && (snd (fst t) =? rp) && (snd t =? m).
Definition stream_on (f : Z * Z * Z -> bool) (p : pstate) : bool := existsb (fun x => f (st_src x) || f (st_dst x)) (streams p).

Definition QID_SPAN : Z := 100000000.
Definition x_register_qid (s : xstate) (host : Z) : xstate * bool :=
  let p := pp s in
  match assoc host (qids p) with
  | Some _ => xok s
  | None => xok (withp s (set_qids p (qids p ++ [(host, Z.of_nat (length (qids p)) * QID_SPAN)])))
  end.

(* ---- the catalogue commands: the core step function, then what the extension keeps per database / policy / node / shard ---- *)
Definition gc_subs (p : pstate) : pstate :=
  set_subs p (filter (fun e => existsb (is_pol (fst (fst e)) (snd (fst e))) (pols (core p))) (subs p)).
(* the per-node tables follow the data nodes (RemoveNode forgets a node; one that joins later on its address starts afresh) *)
Definition gc_nodes (p : pstate) : pstate :=
  let live k := existsb (fun n => nd_tcp n =? k) (nodes (core p)) in
  set_dn_stat (set_dn_index_tbl p (filter (fun e => live (fst e)) (dn_index p))) (filter (fun e => live (fst e)) (dn_stat p)).
Definition gc (cfg : config) (p : pstate) : pstate :=
  let p1 := gc_nodes (gc_subs p) in set_sh_tier p1 (complete_tiers (cfg_sgtier cfg) (core p1) (sh_tier p1)).

Definition node_alive (p : pstate) (id : Z) : bool :=
  match find (fun n => nd_id n =? id) (nodes (core p)) with
  | Some n => ns_status (stat_of (dn_stat p) (nd_tcp n)) =? ALIVE
  | None => false
  end.

(* Data.SchemaClean marks through Data.MarkMeasurementDelete, which refuses while a stream refers to the measurement *)
Definition ms_unmark (x : mst) : mst := {| ms_name := ms_name x; ms_ver := ms_ver x; ms_id := ms_id x; ms_mark := false |}.
Definition protect_msts (p : pstate) (c_old c_new : cat) : cat :=
  set_pols c_new (map (fun q =>
    match find (is_pol (rp_db q) (rp_name q)) (pols c_old) with
    | None => q
    | Some q0 =>
        pol_set_msts q (map (fun x =>
          if ms_mark x && negb (existsb (fun y => (ms_id y =? ms_id x) && ms_mark y) (rp_msts q0)) &&
             stream_on (in_mst (rp_db q) (rp_nm q) (ms_name x)) p
          then ms_unmark x else x) (rp_msts q)) (rp_vers q)
    end) (pols c_new)).

Definition x_core (cstep : cat -> cmd -> cat * bool) (v : variant) (cfg : config) (s : xstate) (x : cmd) : xstate * bool :=
  let p := pp s in
  let generic := let '(c1, r) := cstep (core p) x in (withp s (gc cfg (set_core p c1)), r) in
  match x with
  | CreateNode h t =>
      let '(s1, r) := x_create_dnode v cfg s h t in (withp s1 (gc cfg (pp s1)), r)
  | DropDb db =>
      (* storeFSM.applyDropDatabaseCommand: nothing at all for an unknown database *)
      match find_db (core p) db with
      | None => xok s
      | Some _ =>
          let '(c1, r) := cstep (core p) x in
          let had := existsb (fun c => cq_db c =? db) (cqs p) in
          let p1 := set_core p c1 in
          let p2 := set_max_cqchg (set_cqs p1 (filter (fun c => negb (cq_db c =? db)) (cqs p1))) (if had then max_cqchg p1 + 1 else max_cqchg p1) in
          let p3 := set_users p2 (map (fun u => u_set_privs (filter (fun e => negb (fst e =? db)) (u_privs u)) u) (users p2)) in
          (withp s (gc cfg p3), r)
      end
  | MarkDb db => if stream_on (in_db db) p then xerr s else generic
  | MarkRp db rp => if stream_on (in_rp db rp) p then xerr s else generic
  | MarkMst db rp m => if stream_on (in_mst db rp m) p then xerr s else generic
  | PruneSg _ =>
      let '(c1, r) := cstep (core p) x in (withp s (gc cfg (set_core p (protect_msts p (core p) c1))), r)
  | UpdatePt db pt co cs owner status =>
      (* Data.UpdatePtInfo: a partition of a known node that is not alive is not set online; the core model knows no alive
         node and refuses for every known node, so for an alive owner it is run without the node list *)
      if (status =? 0) && node_alive p owner then
        let c := core p in
        let '(c1, r) := cstep (set_nodes c [] (max_node c) (max_conn c) (ptnum c) (ptview c)) x in
        (withp s (gc cfg (set_core p (set_nodes c1 (nodes c) (max_node c1) (max_conn c1) (ptnum c1) (ptview c1)))), r)
      else generic
  | _ => generic
  end.

(* storeFSM.executeCmd *)
Definition exec (cstep : cat -> cmd -> cat * bool) (pick : list Z -> option Z) (v : variant) (cfg : config) (s : xstate) (x : xcmd) : xstate * bool :=
  match x with
  | Core c => x_core cstep v cfg s c
  | CreateUser n h a rw => x_create_user s n h a rw
  | DropUser n => x_drop_user s n
  | UpdateUser n h => x_update_user s n h
  | SetPrivilege n db pv => x_set_privilege s n db pv
  | SetAdminPrivilege _ _ => xerr s                 (* ErrUserNotFound or ErrGrantOrRevokeAdmin *)
  | CreateSub db rp n mode dest => x_create_sub s db rp n mode dest
  | DropSub db rp n => x_drop_sub pick v s db rp n
  | CreateCq db n qy => x_create_cq s db n qy
  | ReportCq n ts => x_report_cq v s n ts
  | DropCq n db => x_drop_cq s n db
  | NotifyCqLease => xok (withp s (set_max_cqchg (pp s) (max_cqchg (pp s) + 1)))
  | CreateMeta http tcp rand => x_create_meta s http tcp rand
  | SetMeta http tcp rand => x_set_meta s http tcp rand
  | DeleteMeta id => x_delete_meta s id
  | CreateSql host => x_create_sql v cfg s host
  | UpdateTmpIndex role idx node => x_tmp_index s role idx node
  | MarkTakeover b => xok (withp s (set_takeover (pp s) b))
  | MarkBalancer b => xok (withp s (set_balancer (pp s) b))
  | VerifyNode => xok s
  | RegisterQid host => x_register_qid s host
  | ExpandGroups => xok (withp s (gc cfg (set_core (pp s) (cfg_expandf cfg (core (pp s))))))
  | UpdatePtVersion db pt => xok (fst (x_pt_version s db pt))      (* ApplyUpdatePtVersion drops the error *)
  | NodeStatus id st lt port => x_node_status s id st lt port
  | SqlStatus id st lt => x_sql_status s id st lt
  | MetaStatus id st lt => x_meta_status s id st lt
  | ShardTier db rp id tier => x_shard_tier s db rp id tier
  | IndexTier db rp id tier => x_index_tier s db rp id tier
  | CreateStream n db rp src dst iv => x_create_stream s n db rp src dst iv
  | DropStream n => x_drop_stream s n
  end.

(* storeFSM.Apply of the log entry (term, index, command): term and index are recorded whatever the outcome; after a
   successful command other than UpdateNodeTmpIndex the transient UpdateNodeTmpIndexCommandStart follows the index *)
Definition is_tmpindex (x : xcmd) : bool := match x with UpdateTmpIndex _ _ _ => true | _ => false end.
Definition entry := (Z * Z * xcmd)%type.
Definition x_apply (cstep : cat -> cmd -> cat * bool) (pick : list Z -> option Z) (v : variant) (cfg : config) (s : xstate) (e : entry) : xstate * bool :=
  let '(tm, ix, x) := e in
  let '(s1, r) := exec cstep pick v cfg s x in
  let s2 := withp s1 (set_p_index (set_p_term (pp s1) tm) ix) in
  if r && negb (is_tmpindex x) then (witht s2 (set_t_tmpstart (tt s2) ix), r) else (s2, r).

Fixpoint x_run (cstep : cat -> cmd -> cat * bool) (pick : list Z -> option Z) (v : variant) (cfg : config) (s : xstate) (l : list entry) : xstate * list bool :=
  match l with
  | [] => (s, [])
  | e :: r => let '(s1, b) := x_apply cstep pick v cfg s e in let '(s2, bs) := x_run cstep pick v cfg s1 r in (s2, b :: bs)
  end.

(* ---- snapshot and restore (storeFSM.Snapshot: Data.Clone; Persist: Data.MarshalBinary; storeFSM.Restore: UnmarshalBinary) ----
   [persisted v p] is what comes back from unmarshal (marshal (clone p)). Instants travel as int64 nanoseconds. *)
Definition ZERO_TIME_NANO : Z := -6795364578871345152.   (* time.Time{}.UnixNano(): the year-1 instant wrapped into int64 *)
Definition enc_time (v : variant) (o : option Z) : Z :=
  match o with None => if v_cqfix v then 0 else ZERO_TIME_NANO | Some n => wrap64 n end.
Definition dec_time (v : variant) (z : Z) : option Z := if v_cqfix v then (if z =? 0 then None else Some z) else Some z.

Definition persisted (v : variant) (p : pstate) : pstate :=
  {| core := restore_state (core p);
     users := users p; subs := subs p; max_sub := max_sub p;
     cqs := map (fun c => cq_set_last (dec_time v (enc_time v (cq_last c))) c) (cqs p);
     max_cqchg := max_cqchg p; metas := metas p; cluster_id := cluster_id p;
     sqls := if v_idxfix v then sqls p else map (sq_set_index 0) (sqls p);
     dn_index := if v_idxfix v then dn_index p else [];
     dn_stat := dn_stat p; sh_tier := sh_tier p; ix_tier := ix_tier p; streams := streams p; max_stream := max_stream p;
     takeover := takeover p; balancer := balancer p; qids := qids p; p_term := p_term p; p_index := p_index p |}.

(* the restored replica: a fresh Data filled by Unmarshal - transient fields take their zero value, except the two that
   Unmarshal derives (AdminUserExists from the users, UpdateNodeTmpIndexCommandStart from Index) *)
Definition x_restore (v : variant) (s : xstate) : xstate :=
  let p := persisted v (pp s) in
  {| pp := p; tt := {| t_expand := false; t_admin := existsb u_admin (users p); t_tmpstart := p_index p |} |}.
