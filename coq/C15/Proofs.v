(* C15: coverage of the generated tables implies that restore (snapshot v) equals v on the persistent part. *)
From Coq Require Import ZArith List Bool String.
From OG Require Import C15.Model.
Import ListNotations.
Open Scope string_scope.

Section ValInd.
  Variable P : val -> Prop.
  Hypothesis Hz : P VZero.
  Hypothesis Hl : forall z, P (VLeaf z).
  Hypothesis Hr : forall ty fs, Forall (fun p => P (snd p)) fs -> P (VRec ty fs).
  Hypothesis Hs : forall l, Forall P l -> P (VSeq l).
  Fixpoint val_ind' (v : val) : P v :=
    match v with
    | VZero => Hz
    | VLeaf z => Hl z
    | VRec ty fs => Hr ty fs ((fix go (l : list (string * val)) : Forall (fun p => P (snd p)) l :=
                                 match l with [] => Forall_nil _ | p :: r => Forall_cons p (val_ind' (snd p)) (go r) end) fs)
    | VSeq l => Hs l ((fix go (l : list val) : Forall P l :=
                         match l with [] => Forall_nil _ | x :: r => Forall_cons x (val_ind' x) (go r) end) l)
    end.
End ValInd.

(* projecting twice: the second projection only sees what the first kept *)
Lemma project_project : forall k1 k2 v, project k2 (project k1 v) = project (fun ty f => k1 ty f && k2 ty f) v.
Proof.
  intros k1 k2. induction v using val_ind'; cbn [project]; try reflexivity.
  - f_equal. induction H as [|[f x] r Hx Hr IH]; [reflexivity|]. cbn [snd] in Hx. rewrite IH. f_equal. f_equal.
    destruct (k1 ty f); cbn [andb]; [rewrite Hx; reflexivity|]. destruct (k2 ty f); reflexivity.
  - f_equal. induction H as [|x r Hx Hr IH]; [reflexivity|]. rewrite IH, Hx. reflexivity.
Qed.

Lemma project_ext : forall k1 k2 v, (forall ty f, k1 ty f = k2 ty f) -> project k1 v = project k2 v.
Proof.
  intros k1 k2 v E. induction v using val_ind'; cbn [project]; try reflexivity.
  - f_equal. induction H as [|[f x] r Hx Hr IH]; [reflexivity|]. cbn [snd] in Hx. rewrite IH, E, Hx. reflexivity.
  - f_equal. induction H as [|x r Hx Hr IH]; [reflexivity|]. rewrite IH, Hx. reflexivity.
Qed.

Lemma mem_In : forall x l, mem x l = true <-> In x l.
Proof.
  induction l; cbn; [split; [discriminate | tauto]|]. rewrite orb_true_iff, IHl, String.eqb_eq. split; intros [?|?]; auto.
Qed.

Lemma lookup_In : forall tbl n t, lookup tbl n = Some t -> In t tbl /\ ty_name t = n.
Proof.
  induction tbl; cbn; [discriminate|]. intros n t. destruct (String.eqb (ty_name a) n) eqn:E.
  - intros H. inversion H; subst. apply String.eqb_eq in E. auto.
  - intros H. destruct (IHtbl _ _ H). auto.
Qed.

(* coverage: every persistent field is carried by clone, marshal and unmarshal *)
Lemma coverage_persistent : forall tbl tr gaps, coverage_ok tbl tr gaps = true ->
  forall ty f, persistent tbl tr gaps ty f = true -> cloned tbl ty f && marshalled tbl ty f && unmarshalled tbl ty f = true.
Proof.
  intros tbl tr gaps HC ty f HP. unfold persistent in HP. destruct (lookup tbl ty) as [t|] eqn:El; [|discriminate].
  destruct (lookup_In _ _ _ El) as [Hin En]. subst ty.
  apply andb_true_iff in HP. destruct HP as [HP G]. apply andb_true_iff in HP. destruct HP as [Hf T].
  unfold coverage_ok in HC. rewrite forallb_forall in HC. specialize (HC t Hin). rewrite forallb_forall in HC.
  apply mem_In in Hf. specialize (HC f Hf). unfold covered in HC.
  apply negb_true_iff in T. apply negb_true_iff in G. rewrite T, G in HC. exact HC.
Qed.

Theorem snapshot_restore_id : forall tbl tr gaps, coverage_ok tbl tr gaps = true ->
  forall v, project (persistent tbl tr gaps) (restore tbl (snapshot tbl v)) = project (persistent tbl tr gaps) v.
Proof.
  intros tbl tr gaps HC v. unfold restore, snapshot, unmarshal, marshal, clone.
  rewrite !project_project. apply project_ext. intros ty f.
  destruct (persistent tbl tr gaps ty f) eqn:HP.
  - pose proof (coverage_persistent _ _ _ HC _ _ HP) as X.
    destruct (cloned tbl ty f), (marshalled tbl ty f), (unmarshalled tbl ty f); cbn in *; congruence.
  - destruct (cloned tbl ty f), (marshalled tbl ty f), (unmarshalled tbl ty f); reflexivity.
Qed.
