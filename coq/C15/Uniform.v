(* C15 - uniform sharding as an invariant. C16.Order proves that the outcome of a step does not depend on the map-iteration
   oracle PROVIDED all measurements of a policy have one sharding type (uniform_sharding). Here: that proviso is preserved by
   every step of the oracle step function C16.Order.applyO (all 24 commands of the C16 model, under any valid oracle), given
   what the environment must guarantee about a measurement that is created while no measurement of ANOTHER name is in the
   policy - the one case RetentionPolicyInfo.validMeasurementShardType does not look at (finding
   C15-recreated-measurement-sharding-map-order): it keeps the type of its predecessors. *)
From Coq Require Import ZArith List Bool Lia.
From OG Require Import C16.Model C16.Wf C16.Lists C16.Proofs C16.Order.
Import ListNotations.
Open Scope Z_scope.

Section Uniform.
  Variable st : mst -> Z.                                         (* the sharding type of a measurement *)
  Variable range_create : cat -> policy -> Z -> Z -> cat * bool.  (* the unmodelled RANGE branch of CreateShardGroup *)
  Variables clip cleardef : bool.
  (* marking a measurement for deletion does not change its sharding type *)
  Hypothesis st_mark : forall x, st (mark_one x) = st x.
  (* the RANGE branch creates groups, it does not touch the measurements of any policy *)
  Hypothesis range_keeps : forall c p t e, map rp_msts (pols (fst (range_create c p t e))) = map rp_msts (pols c).

  Definition tl (p : policy) : list Z := map st (rp_msts p).
  Definition pol_uniform (p : policy) : Prop := forall a b, In a (tl p) -> In b (tl p) -> a = b.
  Definition U (l : list policy) : Prop := Forall pol_uniform l.
  Definition pol_le (p' p : policy) : Prop := forall t, In t (tl p') -> In t (tl p).
  Definition derived (l' l : list policy) : Prop := Forall (fun p' => exists p, In p l /\ pol_le p' p) l'.

  Lemma U_iff : forall c, U (pols c) <-> uniform_sharding st c.
  Proof.
    intros c. unfold U, uniform_sharding, pol_uniform, tl. rewrite Forall_forall. split.
    - intros H p m1 m2 Hp H1 H2. apply (H p Hp); apply in_map; assumption.
    - intros H p Hp a b Ha Hb. apply in_map_iff in Ha. apply in_map_iff in Hb.
      destruct Ha as (m1 & <- & H1), Hb as (m2 & <- & H2). apply (H p); assumption.
  Qed.

  Lemma U_derived : forall l l', U l -> derived l' l -> U l'.
  Proof.
    unfold U, derived. intros l l' HU HD. rewrite Forall_forall in *. intros p' Hp'. destruct (HD p' Hp') as (p & Hp & Hle).
    intros a b Ha Hb. apply (HU p Hp); apply Hle; assumption.
  Qed.

  Lemma pol_le_refl : forall p, pol_le p p.
  Proof. intros p t H. exact H. Qed.
  Lemma pol_le_same : forall p' p, rp_msts p' = rp_msts p -> pol_le p' p.
  Proof. intros p' p E t H. unfold tl in *. rewrite E in H. exact H. Qed.

  Lemma derived_refl : forall l, derived l l.
  Proof. intros l. apply Forall_forall. intros p Hp. exists p. split; [exact Hp | apply pol_le_refl]. Qed.

  Lemma derived_trans : forall l2 l1 l0, derived l2 l1 -> derived l1 l0 -> derived l2 l0.
  Proof.
    intros l2 l1 l0 A B. unfold derived in *. rewrite Forall_forall in *. intros p2 Hp2. destruct (A p2 Hp2) as (p1 & Hp1 & L21).
    destruct (B p1 Hp1) as (p0 & Hp0 & L10). exists p0. split; [exact Hp0 | intros t Ht; apply L10, L21; exact Ht].
  Qed.

  Lemma derived_upd_first : forall f g l, (forall p, pol_le (g p) p) -> derived (upd_first f g l) l.
  Proof.
    intros f g l Hg. induction l as [|x r IH]; cbn; [constructor|]. destruct (f x).
    - constructor; [exists x; split; [left; reflexivity | apply Hg]|].
      apply Forall_forall. intros p Hp. exists p. split; [right; exact Hp | apply pol_le_refl].
    - constructor; [exists x; split; [left; reflexivity | apply pol_le_refl]|].
      eapply Forall_impl; [|exact IH]. intros p' (p & Hp & Hle). exists p. split; [right; exact Hp | exact Hle].
  Qed.

  Lemma derived_map : forall g l, (forall p, pol_le (g p) p) -> derived (map g l) l.
  Proof.
    intros g l Hg. apply Forall_forall. intros p' Hp'. apply in_map_iff in Hp'. destruct Hp' as (p & <- & Hp).
    exists p. split; [exact Hp | apply Hg].
  Qed.

  Lemma derived_filter : forall f l, derived (filter f l) l.
  Proof. intros f l. apply Forall_forall. intros p Hp. apply filter_In in Hp. exists p. split; [tauto | apply pol_le_refl]. Qed.

  Lemma U_app_empty : forall l q, U l -> rp_msts q = [] -> U (l ++ [q]).
  Proof.
    intros l q HU E. apply Forall_app. split; [exact HU|]. constructor; [|constructor].
    intros a b Ha. unfold tl in Ha. rewrite E in Ha. destruct Ha.
  Qed.

  (* the measurement lists a command can leave behind: marked, filtered *)
  Lemma tl_map_mark : forall (h : mst -> mst) l, (forall x, st (h x) = st x) -> map st (map h l) = map st l.
  Proof. intros h l H. rewrite map_map. apply map_ext. exact H. Qed.

  Lemma le_set_msts_map : forall p q (h : mst -> mst) vs, rp_msts q = rp_msts p -> (forall x, st (h x) = st x) ->
    pol_le (pol_set_msts q (map h (rp_msts q)) vs) p.
  Proof. intros p q h vs E H t Ht. unfold tl in *. cbn in Ht. rewrite tl_map_mark in Ht by exact H. rewrite E in Ht. exact Ht. Qed.

  Lemma in_upd_first_types : forall (f : mst -> bool) l t, In t (map st (upd_first f mark_one l)) -> In t (map st l).
  Proof.
    intros f l t. induction l as [|x r IH]; cbn; [tauto|]. destruct (f x); cbn.
    - rewrite st_mark. tauto.
    - intros [H|H]; [left; exact H | right; apply IH; exact H].
  Qed.

  Lemma in_filter_types : forall (f : mst -> bool) l t, In t (map st (filter f l)) -> In t (map st l).
  Proof.
    intros f l t H. apply in_map_iff in H. destruct H as (x & <- & Hx). apply filter_In in Hx. apply in_map. tauto.
  Qed.

  Ltac same := apply pol_le_same; reflexivity.

  (* every command that creates no measurement: the policies of the new catalogue derive from those of the old one *)
  Lemma keep_derived : forall c x,
    match x with CreateMst _ _ _ | CreateMstBad _ _ _ | CreateDb _ _ _ _ | CreateRp _ _ _ _ _ | CreateSg _ _ _ _ => False | _ => True end ->
    derived (pols (fst (apply clip cleardef c x))) (pols c).
  Proof.
    intros c x Hx. destruct x; try contradiction; cbn [apply].
    - (* MarkDb *) unfold mark_db. destruct (find_db c db) as [d0|]; [|apply derived_refl]. destruct (db_mark d0); apply derived_refl.
    - (* DropDb *) unfold drop_db. destruct (find_db c db); [|apply derived_refl]. cbn. apply derived_filter.
    - (* UpdateRp *) unfold update_rp. destruct (get_pol c db rp) as [p0|]; [|apply derived_refl].
      destruct (negb _); [apply derived_refl|]. destruct mkdef; cbn; apply derived_upd_first; intros q; same.
    - (* MarkRp *) unfold mark_rp. destruct (get_pol c db rp); [|apply derived_refl]. cbn. apply derived_upd_first; intros q; same.
    - (* DropRp *) unfold drop_rp. destruct (get_db c db) as [d0|]; [|apply derived_refl].
      destruct (cleardef && _); cbn; apply derived_filter.
    - (* SetDefault *) unfold set_default_rp. destruct (get_pol c db rp); apply derived_refl.
    - (* MarkMst *) unfold mark_mst. destruct (get_pol c db rp) as [p|]; [|apply derived_refl].
      destruct (cur_mst p m) as [y|]; [|apply derived_refl]. destruct (ms_mark y); [apply derived_refl|]. cbn.
      apply derived_upd_first. intros q t Ht. unfold tl in *. cbn in Ht. apply in_upd_first_types in Ht. exact Ht.
    - (* DropMst *) unfold drop_mst. destruct (get_pol c db rp); [|apply derived_refl]. cbn.
      apply derived_upd_first. intros q t Ht. unfold tl in *. cbn in Ht. apply in_filter_types in Ht. exact Ht.
    - (* DeleteSg *) unfold delete_sg. destruct (get_pol c db rp); [|apply derived_refl]. cbn. apply derived_upd_first; intros q; same.
    - (* PruneSg *) unfold prune_sg. cbn. apply derived_map. intros q. unfold prune_sg_pol.
      destruct (sclean c && _ && _ && _); [|same].
      intros t Ht. unfold tl in *. cbn in Ht. rewrite tl_map_mark in Ht; [exact Ht|].
      intros y. destruct (assoc (ms_name y) (rp_vers q)); [|reflexivity]. destruct (ms_ver y =? z); [apply st_mark | reflexivity].
    - (* DeleteIg *) unfold delete_ig. destruct (get_pol c db rp); [|apply derived_refl]. cbn. apply derived_upd_first; intros q; same.
    - (* PruneIg *) unfold prune_ig. cbn. apply derived_map. intros q. same.
    - (* CreateNode *) unfold create_node. repeat (destruct (existsb _ _)); cbn; apply derived_refl.
    - (* CreatePtView *) unfold create_ptview. destruct (existsb _ _); [apply derived_refl|]. destruct (nodes c); [apply derived_refl|].
      destruct (ptnum c =? 0); apply derived_refl.
    - (* UpdatePt *) unfold update_pt. destruct (find _ (ptview c)) as [e|]; [|apply derived_refl].
      destruct (_ || _); [apply derived_refl|]. destruct (nth_error _ _); [|apply derived_refl].
      destruct (negb _); [apply derived_refl|]. destruct (_ && _); apply derived_refl.
    - (* Restore *) cbn. apply derived_map. intros q. same.
    - (* RenameRp *) unfold rename_rp. destruct (get_db c db) as [d0|]; [|apply derived_refl]. destruct (get_pol c db rp) as [p0|]; [|apply derived_refl].
      destruct (if nn =? rp then false else _); [apply derived_refl|]. destruct (negb _); [apply derived_refl|].
      (* (deep-C16, round 6: with rekey the entry stored under the new name, if any, is overwritten: a filter before the update) *)
      destruct (rekey c); [destruct (mkdef || _); destruct (nn =? rp_name p0) | destruct mkdef]; cbn;
        try (apply derived_upd_first; intros q; same);
        (eapply derived_trans; [apply derived_upd_first; intros q; same | apply derived_filter]).
    - (* CancelDeleteSg *) unfold cancel_delete_sg. destruct (get_pol c db rp) as [p|]; [|apply derived_refl].
      destruct (find _ (rp_sgs p)) as [g|]; [|apply derived_refl]. destruct (negb (sg_del g)); [apply derived_refl|].
      destruct (safecancel c && _); [apply derived_refl|]. cbn. apply derived_upd_first; intros q; same.
    - (* RemoveNode *) unfold remove_node. cbn. apply derived_refl.
  Qed.

  (* -- the commands that create policies or groups: no measurement appears -- *)
  Lemma U_create_db : forall c db rp d sgd, U (pols c) -> U (pols (fst (create_db c db rp d sgd))).
  Proof.
    intros c db rp d sgd H. unfold create_db. destruct (db =? 0); [exact H|]. destruct (ptnum c =? 0); [exact H|].
    destruct (find_db c db) as [x|]; [destruct (db_mark x); exact H|]. destruct (rp =? 0); [exact H|].
    destruct (negb _); [exact H|]. cbn. apply U_app_empty; [exact H | reflexivity].
  Qed.

  Lemma U_create_rp : forall c db rp d sgd k, U (pols c) -> U (pols (fst (create_rp c db rp d sgd k))).
  Proof.
    intros c db rp d sgd k H. unfold create_rp. destruct (get_db c db) as [x|]; [|exact H]. destruct (rp =? 0); [exact H|].
    destruct (negb _); [exact H|]. destruct (find_pol c db rp) as [q|].
    - destruct (negb _); [exact H|]. destruct (k && _); exact H.
    - destruct k; cbn; (apply U_app_empty; [exact H | reflexivity]).
  Qed.

  Lemma U_create_sg : forall c db rp t eng, U (pols c) -> U (pols (fst (create_sg clip c db rp t eng))).
  Proof.
    intros c db rp t eng H. unfold create_sg. destruct (ptnum c =? 0); [exact H|]. destruct (get_pol c db rp) as [p|]; [|exact H].
    destruct (existsb _ (rp_sgs p)); [exact H|]. destruct (rp_msts p); [exact H|].
    destruct (ensure_ig _ _ _ _ _) as [ig isnew]. cbn.
    eapply U_derived; [exact H|]. apply derived_upd_first. intros q. destruct isnew; apply pol_le_same; reflexivity.
  Qed.

  (* -- CreateMeasurement -- *)
  Definition new_mst (c : cat) (m ver : Z) : mst := {| ms_name := m; ms_ver := ver; ms_id := max_mst c; ms_mark := false |}.

  Lemma U_add_mst : forall c p m ver, U (pols c) -> find_pol c (rp_db p) (rp_name p) = Some p ->
    (forall y, In y (rp_msts p) -> st y = st (new_mst c m ver)) -> U (pols (add_mst c p m ver)).
  Proof.
    intros c p m ver H Hf Hall. unfold add_mst. cbn. unfold U. eapply updf_Forall_first; [exact Hf | exact H |].
    intros a b Ha Hb. unfold tl in *. cbn in Ha, Hb. rewrite map_app in Ha, Hb. cbn in Ha, Hb.
    assert (E : forall t, In t (map st (rp_msts p) ++ [st (new_mst c m ver)]) -> t = st (new_mst c m ver)).
    { intros t Ht. apply in_app_or in Ht. destruct Ht as [Ht|[Ht|[]]]; [|symmetry; exact Ht].
      apply in_map_iff in Ht. destruct Ht as (y & <- & Hy). apply Hall. exact Hy. }
    rewrite (E a Ha), (E b Hb). reflexivity.
  Qed.

  (* what the environment guarantees about a measurement created in a policy that holds no measurement of another name (the
     case validMeasurementShardType does not examine): it has the sharding type of the measurements it succeeds. For the
     half-applied creation of the pre-f21700b code (CreateMstBad with schemafirst = false) no type check runs at all. *)
  Definition env_ok (c : cat) (x : cmd) : Prop :=
    match x with
    | CreateMst db rp m =>
        forall p nm, get_pol c db rp = Some p -> next_mst c p m = Some nm ->
          forall y, In y (rp_msts p) -> ms_name y = m -> st y = st nm
    | CreateMstBad db rp m =>
        schemafirst c = true \/
        forall p nm, get_pol c db rp = Some p -> next_mst c p m = Some nm -> forall y, In y (rp_msts p) -> st y = st nm
    | _ => True
    end.

  Lemma create_mst_next : forall c db rp m p, get_pol c db rp = Some p ->
    create_mst c db rp m = match next_mst c p m with Some nm => ok (add_mst c p m (ms_ver nm)) | None => ok c end.
  Proof.
    intros c db rp m p Hg. unfold create_mst, next_mst. rewrite Hg. destruct (assoc m (rp_vers p)) as [v|]; [|reflexivity].
    destruct (find_mst p m v) as [x|]; [|reflexivity]. destruct (ms_mark x); reflexivity.
  Qed.

  Lemma next_mst_new : forall c p m nm, next_mst c p m = Some nm -> nm = new_mst c m (ms_ver nm).
  Proof.
    intros c p m nm. unfold next_mst, new_mst. destruct (assoc m (rp_vers p)) as [v|].
    - destruct (find_mst p m v) as [x|]; [destruct (ms_mark x)|]; intros H; inversion H; reflexivity.
    - intros H; inversion H; reflexivity.
  Qed.

  Lemma U_create_mstO : forall o c db rp m, valid o -> U (pols c) -> env_ok c (CreateMst db rp m) ->
    U (pols (fst (create_mstO st o c db rp m))).
  Proof.
    intros o c db rp m V H E. unfold create_mstO. destruct (get_pol c db rp) as [p|] eqn:Eg; [|exact H].
    destruct (get_pol_spec _ _ _ _ Eg) as (Hf & Hp & Hdb & _). subst db.
    destruct (next_mst c p m) as [nm|] eqn:En.
    2: { rewrite (create_mst_next c (rp_db p) rp m p Eg), En. exact H. }
    pose proof (next_mst_new c p m nm En) as Enm.
    assert (PU : pol_uniform p) by (unfold U in H; rewrite Forall_forall in H; apply H; exact Hp).
    (* in every branch that changes the catalogue all measurements of the policy have the new one's type *)
    assert (K : (forall y, In y (rp_msts p) -> st y = st nm) -> U (pols (fst (create_mst c (rp_db p) rp m)))).
    { intros Hall. rewrite (create_mst_next c (rp_db p) rp m p Eg), En. cbn [fst ok].
      apply U_add_mst; [exact H | exact Hf |]. rewrite <- Enm. exact Hall. }
    set (l := filter (fun x => negb (ms_name x =? m)) (rp_msts p)).
    pose proof (V l) as Vl. destruct (o l) as [other|] eqn:Eo.
    - destruct (st other =? st nm) eqn:Et; [|exact H]. apply Z.eqb_eq in Et. apply K. intros y Hy.
      rewrite <- Et. apply PU; unfold tl; apply in_map; [exact Hy|]. subst l. apply filter_In in Vl. tauto.
    - apply K. intros y Hy. apply (E p nm Eg En y Hy).
      destruct (ms_name y =? m) eqn:Ey; [apply Z.eqb_eq; exact Ey|].
      exfalso. assert (In y l) by (subst l; apply filter_In; split; [exact Hy | rewrite Ey; reflexivity]). rewrite Vl in H0. exact H0.
  Qed.

  Lemma U_create_mst_bad : forall c db rp m, U (pols c) -> env_ok c (CreateMstBad db rp m) -> U (pols (fst (create_mst_bad c db rp m))).
  Proof.
    intros c db rp m H E. unfold create_mst_bad. destruct (get_pol c db rp) as [p|] eqn:Eg; [|exact H].
    destruct (get_pol_spec _ _ _ _ Eg) as (Hf & Hp & Hdb & _). subst db.
    destruct E as [E|E].
    - rewrite E. destruct (assoc m (rp_vers p)) as [v|]; [|exact H]. destruct (find_mst p m v) as [x|]; [destruct (ms_mark x)|]; exact H.
    - destruct (schemafirst c); [destruct (assoc m (rp_vers p)) as [v|]; [destruct (find_mst p m v) as [x|]; [destruct (ms_mark x)|]|]; exact H|].
      specialize (E p). unfold next_mst in E. rewrite Eg in E.
      destruct (assoc m (rp_vers p)) as [v|].
      + destruct (find_mst p m v) as [x|].
        * destruct (ms_mark x); [|exact H]. cbn [fst]. apply U_add_mst; [exact H | exact Hf | apply (E _ eq_refl eq_refl)].
        * cbn [fst]. apply U_add_mst; [exact H | exact Hf | apply (E _ eq_refl eq_refl)].
      + cbn [fst]. apply U_add_mst; [exact H | exact Hf | apply (E _ eq_refl eq_refl)].
  Qed.

  (* uniform sharding is an invariant of the oracle step function, whatever valid oracle each step consults *)
  Lemma applyO_uniform : forall o c x, valid o -> uniform_sharding st c -> env_ok c x ->
    uniform_sharding st (fst (applyO st range_create clip cleardef o c x)).
  Proof.
    intros o c x V HU E. apply U_iff. apply U_iff in HU.
    destruct x; try (eapply U_derived; [exact HU | apply (keep_derived c); exact I]); cbn [applyO].
    - apply U_create_db; exact HU.
    - apply U_create_rp; exact HU.
    - apply U_create_mstO; assumption.
    - (* CreateSg *) unfold create_sgO. destruct (ptnum c =? 0); [exact HU|]. destruct (get_pol c db rp) as [p|]; [|exact HU].
      destruct (existsb _ (rp_sgs p)); [exact HU|]. destruct (o (rp_msts p)) as [y|]; [|exact HU].
      destruct (st y =? 0); [apply U_create_sg; exact HU|].
      unfold U in *. pose proof (range_keeps c p ts eng) as Ek. revert Ek.
      generalize (pols (fst (range_create c p ts eng))). intros l'. revert HU. generalize (pols c). intros l. revert l'.
      induction l as [|a r IH]; intros l' HU Ek; destruct l' as [|a' r']; try discriminate; [constructor|].
      cbn in Ek. inversion Ek. inversion HU; subst. constructor; [|apply IH; assumption].
      intros u w Hu Hw. unfold tl in *. rewrite H0 in Hu, Hw. apply H3; assumption.
    - apply U_create_mst_bad; assumption.
  Qed.
End Uniform.
