(* C20 - bloom-filter skip index: no false negatives, lifted through the reader's expression evaluation. *)
From Coq Require Import List Bool Arith Lia.
From OG Require Import C20.BloomModel.
Import ListNotations.

Lemma sk_fold_all_true : forall {A} (f : A -> bool) e, (forall a, f a = true) -> sk_fold f e = true.
Proof. induction e; intros H; simpl; auto. rewrite IHe1, IHe2; auto. rewrite IHe1; auto. Qed.

Lemma sk_fold_mono : forall {A} (f g : A -> bool) e,
  (forall a, f a = true -> g a = true) -> sk_fold f e = true -> sk_fold g e = true.
Proof.
  induction e; intros H; simpl; auto.
  - intro E. apply andb_true_iff in E. destruct E. rewrite IHe1, IHe2; auto.
  - intro E. apply orb_true_iff in E. apply orb_true_iff. destruct E; [left | right]; auto.
Qed.

Section BloomProofs.
  Variable token : Type.
  Variable hashpos : token -> list nat.
  Variable value phrase : Type.
  Variable vtokens : value -> list token.
  Variable ptokens : phrase -> list token.
  Variable pmatch : phrase -> value -> bool.
  (* what MATCHPHRASE means for the tokenizers: a matching value produced (on the write side) every token the reader
     derives from the phrase, and the phrase has at least one token. Checked on the real tokenizers by the harness. *)
  Hypothesis match_tokens : forall p v, pmatch p v = true -> ptokens p <> [] /\ incl (ptokens p) (vtokens v).

  Notation bit := (bit).
  Notation insert := (insert token hashpos).
  Notation query := (query token hashpos).
  Notation build := (build token hashpos).

  Lemma bit_app : forall a b p, bit (a ++ b) p = bit a p || bit b p.
  Proof. intros. unfold BloomModel.bit. apply existsb_app. Qed.

  Lemma bit_in : forall f p, In p f -> bit f p = true.
  Proof. intros f p H. unfold BloomModel.bit. apply existsb_exists. exists p. split; auto. apply Nat.eqb_refl. Qed.

  Lemma fold_insert_mono : forall ts f p, bit f p = true -> bit (fold_left insert ts f) p = true.
  Proof.
    induction ts; intros f p H; simpl; auto. apply IHts. unfold BloomModel.insert. rewrite bit_app, H. apply orb_true_r.
  Qed.

  Lemma fold_insert_sets : forall ts f t p, In t ts -> In p (hashpos t) -> bit (fold_left insert ts f) p = true.
  Proof.
    induction ts; intros f t p Hin Hp; simpl in *; [contradiction|]. destruct Hin as [-> | Hin].
    - apply fold_insert_mono. unfold BloomModel.insert. rewrite bit_app, (bit_in _ _ Hp). reflexivity.
    - eapply IHts; eauto.
  Qed.

  (* a token that was inserted into the block's filter is always found *)
  Lemma bloom_no_false_negative : forall ts t, In t ts -> query (build ts) t = true.
  Proof.
    intros ts t H. unfold BloomModel.query, BloomModel.build. apply forallb_forall. intros p Hp.
    eapply fold_insert_sets; eauto.
  Qed.

  Lemma block_tokens_in : forall c (rows : list (row value)) r v t,
    In r rows -> r c = Some v -> In t (vtokens v) -> In t (block_tokens token value vtokens c rows).
  Proof.
    intros c rows r v t Hr Hv Ht. unfold block_tokens. apply in_concat.
    exists (vtokens v). split; auto. apply in_map_iff. exists r. rewrite Hv. auto.
  Qed.

  (* a predicate on a column the filter file does not cover, or with another operator, is "may match" *)
  Lemma pred_hit_uncovered : forall f0 F c p, c <> f0 -> pred_hit token hashpos phrase ptokens f0 F (PMatch phrase c p) = true.
  Proof. intros. simpl. destruct (Nat.eqb_spec c f0); auto; contradiction. Qed.
  Lemma pred_hit_other : forall f0 F c id, pred_hit token hashpos phrase ptokens f0 F (POther phrase c id) = true.
  Proof. reflexivity. Qed.

  Lemma pred_hit_sound : forall other f0 rows r a,
    In r rows -> eval_pred value phrase pmatch other r a = true ->
    pred_hit token hashpos phrase ptokens f0 (block_filter token hashpos value vtokens f0 rows) a = true.
  Proof.
    intros other f0 rows r [c p | c id] Hr He; simpl in *; auto.
    destruct (Nat.eqb_spec c f0) as [-> | Hne]; auto.
    destruct (r f0) as [v|] eqn:Ev; [|discriminate].
    destruct (match_tokens p v He) as [Hne Hincl].
    assert (X : forallb (query (block_filter token hashpos value vtokens f0 rows)) (ptokens p) = true).
    { apply forallb_forall. intros t Ht. apply bloom_no_false_negative. eapply block_tokens_in; eauto. }
    destruct (ptokens p) as [|t0 ts] eqn:Et; [contradiction | exact X].
  Qed.

  (* C20_bloom_skip_sound: a block that contains a row satisfying the condition is kept *)
  Lemma bloom_skip_sound : forall other f0 inschema rows r e,
    In r rows -> sk_fold (eval_pred value phrase pmatch other r) e = true ->
    bloom_kept token hashpos phrase ptokens f0 inschema (block_filter token hashpos value vtokens f0 rows) e = true.
  Proof.
    intros other f0 inschema rows r e Hr He. unfold bloom_kept, sk_kept.
    assert (Hw : sk_fold (pred_hit token hashpos phrase ptokens f0 (block_filter token hashpos value vtokens f0 rows)) e = true).
    { eapply sk_fold_mono; [|exact He]. intros a Ha. eapply pred_hit_sound; eauto. }
    rewrite Hw. apply sk_fold_all_true. intro a. destruct (inschema (pcol phrase a)); reflexivity.
  Qed.
End BloomProofs.
