(* C20 - min-max skip index: the pruning rule a min-max index implements (MinMaxIndexReader.MayBeInFragment: CheckInRange of
   the condition over the hyper-rectangle [min, max] of every indexed column of the block) is sound: a block that holds a
   row satisfying the condition has canBeTrue.
   In today's tree the min-max skip index cannot prune (MinMaxWriter writes nothing, MinMaxIndexReader.ReadFunc is nil in
   production - probed on every run), so this theorem has no implementation to be tied to yet; the harness drives the real
   KeyConditionImpl.CheckInRange over exactly these rectangles (stream "marks"). *)
From Coq Require Import ZArith List Bool Arith Lia.
From OG Require Import C20.Model C20.Proofs.
Import ListNotations.
Open Scope Z_scope.

(* minimum and maximum of the non-null cells of a column of the block *)
Fixpoint col_bounds (cells : list (option Z)) : option (Z * Z) :=
  match cells with
  | [] => None
  | None :: r => col_bounds r
  | Some z :: r => match col_bounds r with
                   | None => Some (z, z)
                   | Some (a, b) => Some (Z.min z a, Z.max z b)
                   end
  end.

(* the column range of the index entry: [min, max]; a column without any value gets an empty-ish point range at +inf
   (no row can satisfy a comparison on it) *)
Definition mm_range (cells : list (option Z)) : range :=
  match col_bounds cells with
  | Some (a, b) => mkR (Fin a) (Fin b) true true
  | None => point PosInf
  end.

Definition column (block : list key) (c : nat) : list (option Z) := map (fun k => nth c k None) block.
Definition mm_rect (nk : nat) (block : list key) : list range := map (fun c => mm_range (column block c)) (seq 0 nk).

Lemma col_bounds_in : forall cells z, In (Some z) cells ->
  exists a b, col_bounds cells = Some (a, b) /\ a <= z <= b.
Proof.
  induction cells as [|c cells IH]; intros z H; simpl in *; [contradiction|].
  destruct H as [-> | H].
  - destruct (col_bounds cells) as [[a b]|]; eexists; eexists; split; try reflexivity; lia.
  - destruct (IH z H) as (a & b & E & Hab). destruct c as [y|].
    + rewrite E. eexists; eexists; split; [reflexivity|]. lia.
    + rewrite E. eauto.
Qed.

Lemma mm_range_inrect : forall cells k, In k cells -> inrect (mm_range cells) k.
Proof.
  intros cells [z|] H; simpl; auto.
  destruct (col_bounds_in cells z H) as (a & b & E & Hab). unfold mm_range. rewrite E.
  unfold mem, left_leq, right_geq; simpl. lia.
Qed.

Lemma mm_rect_nth : forall nk block c, (c < nk)%nat -> nth c (mm_rect nk block) whole = mm_range (column block c).
Proof.
  intros nk block c H. unfold mm_rect.
  rewrite (nth_indep _ whole (mm_range (column block 0%nat))) by (rewrite map_length, seq_length; auto).
  rewrite (map_nth (fun c => mm_range (column block c))). now rewrite seq_nth.
Qed.

Lemma mm_rect_has : forall nk block row, In row block -> rect_has (mm_rect nk block) row.
Proof.
  intros nk block row Hin col. destruct (Nat.lt_ge_cases col nk) as [H | H].
  - rewrite mm_rect_nth by auto. apply mm_range_inrect. unfold column. apply in_map_iff. exists row. auto.
  - rewrite nth_overflow by (unfold mm_rect; rewrite map_length, seq_length; auto). apply inrect_whole.
Qed.

(* soundness of min-max pruning: all blocks, all condition trees NewKeyCondition accepts, nulls anywhere *)
Lemma minmax_sound : forall isint nonkey c rpn nk (block : list key) row,
  compile isint c = Some rpn -> In row block -> eval_cond nonkey c row = true ->
  exists m, check_in_range rpn (mm_rect nk block) = Some m /\ can_t m = true.
Proof.
  intros isint nonkey c rpn nk block row Hc Hin He.
  destruct (mark_sound isint nonkey c rpn (mm_rect nk block) row Hc (mm_rect_has nk block row Hin) He) as [H1 H2].
  eauto.
Qed.

(* the statement's "min <= v <= max" for a block with a matching value *)
Lemma minmax_bounds : forall block c row z, In row block -> nth c row None = Some z ->
  exists a b, col_bounds (column block c) = Some (a, b) /\ a <= z <= b.
Proof.
  intros block c row z Hin E. apply col_bounds_in. unfold column. apply in_map_iff. exists row. auto.
Qed.
