(* C20 - executable model of the column-store sparse primary index (engine/index/sparseindex):
   ranges with open/closed/infinite ends, the Mark{canBeTrue,canBeFalse} algebra, the RPN form of a condition,
   CheckInRange over a hyper-rectangle, checkInAnyRange (decomposition of a lexicographic key interval into
   hyper-rectangles), MayBeInRange, the index built from a sorted key list cut into fragments, and the two search
   strategies of PKIndexReaderImpl.Scan.

   Two places of today's code are defective; the model carries both behaviours, selected by a [variant]:
     v_rb_res   = true  : checkRangeRightBound returns the accumulated [res]   (repaired)
                  false : it returns the last [mark] only                      (today's code)
     v_norm_idx = false : bounds taken from the index are never rewritten       (repaired)
                  true  : createLeftBounded/createRightBounded turn an open integer bound taken from the INDEX
                          into a closed one by rewriting the index value in place (x -> x+1 / x-1); the following
                          left/right-bound step then reads the rewritten value   (today's code)
   Definitions only; all proofs are in Proofs.v. *)
From Coq Require Import ZArith List Bool Arith.
Import ListNotations.
Open Scope Z_scope.

(* ---------- values, bounds ---------- *)
Inductive bound := NegInf | Fin (z : Z) | PosInf.

(* FieldRef.Less / FieldRef.Equals *)
Definition blt (a b : bound) : bool :=
  match a, b with
  | NegInf, NegInf => false
  | NegInf, _ => true
  | _, NegInf => false
  | PosInf, _ => false
  | Fin _, PosInf => true
  | Fin x, Fin y => x <? y
  end.
Definition beq (a b : bound) : bool :=
  match a, b with
  | NegInf, NegInf => true
  | PosInf, PosInf => true
  | Fin x, Fin y => x =? y
  | _, _ => false
  end.

(* a key column value: None is a null; the index reader treats a null as +infinity *)
Definition key := list (option Z).
Definition kb (k : option Z) : bound := match k with Some z => Fin z | None => PosInf end.

(* ---------- ranges ---------- *)
Record range := mkR { lo : bound; hi : bound; loi : bool; hii : bool }.

Definition left_leq (r : range) (x : bound) : bool := blt (lo r) x || (loi r && beq x (lo r)).
Definition right_geq (r : range) (x : bound) : bool := blt x (hi r) || (hii r && beq x (hi r)).
Definition right_lq (r nr : range) : bool :=
  blt (hi r) (lo nr) || ((negb (hii r) || negb (loi nr)) && beq (lo nr) (hi r)).
Definition intersects (r nr : range) : bool := negb (right_lq r nr || right_lq nr r).
Definition contains (r nr : range) : bool := left_leq r (lo nr) && right_geq r (hi nr).

Definition whole : range := mkR NegInf PosInf false false.
Definition point (b : bound) : range := mkR b b true true.

Definition max_i64 : Z := 9223372036854775807.
Definition min_i64 : Z := -9223372036854775808.

(* turnOpenRangeIntoClosed, one end at a time; [isint] = the column is of integer type *)
Definition norm_left (isint : bool) (r : range) : range :=
  if isint && negb (loi r) then
    match lo r with
    | Fin z => if z =? max_i64 then r else mkR (Fin (z + 1)) (hi r) true (hii r)
    | _ => r
    end
  else r.
Definition norm_right (isint : bool) (r : range) : range :=
  if isint && negb (hii r) then
    match hi r with
    | Fin z => if z =? min_i64 then r else mkR (lo r) (Fin (z - 1)) (loi r) true
    | _ => r
    end
  else r.

(* ---------- marks ---------- *)
Record mark := mkM { can_t : bool; can_f : bool }.
Definition mand (m k : mark) : mark := mkM (can_t m && can_t k) (can_f m || can_f k).
Definition mor (m k : mark) : mark := mkM (can_t m || can_t k) (can_f m && can_f k).
Definition mnot (m : mark) : mark := mkM (can_f m) (can_t m).
Definition complete (m : mark) : bool := can_f m && can_t m.
Definition init_mask : mark := mkM false true.   (* ConsiderOnlyBeTrue *)

(* ---------- conditions ---------- *)
Inductive cmp := Ceq | Cne | Clt | Cle | Cgt | Cge.

(* condition tree as the query layer hands it over: comparisons of a key column with a literal, comparisons on
   columns outside the primary key (opaque, numbered), IN lists, AND, OR *)
Inductive cond :=
| CAtom (col : nat) (op : cmp) (v : Z)
| CNonKey (id : nat)
| CIn (col : nat) (vs : list Z)
| CAnd (a b : cond)
| COr (a b : cond).

Inductive elem :=
| EIn (col : nat) (rg : range)
| ENotIn (col : nat) (rg : range)
| EAnd | EOr | ETrue | EFalse.

(* genRPNElementByOp *)
Definition atom_elem (isint : bool) (col : nat) (op : cmp) (v : Z) : elem :=
  match op with
  | Ceq => EIn col (point (Fin v))
  | Cne => ENotIn col (point (Fin v))
  | Clt => EIn col (norm_right isint (mkR NegInf (Fin v) false false))
  | Cgt => EIn col (norm_left isint (mkR (Fin v) PosInf false false))
  | Cle => EIn col (mkR NegInf (Fin v) false true)
  | Cge => EIn col (mkR (Fin v) PosInf true false)
  end.

(* rpn.ConvertToRPNExpr + convertToRPNElem; None = NewKeyCondition returns an error (IN is not supported there) *)
Fixpoint compile (isint : list bool) (c : cond) : option (list elem) :=
  match c with
  | CAtom col op v => Some [atom_elem (nth col isint false) col op v]
  | CNonKey _ => Some [ETrue]
  | CIn _ _ => None
  | CAnd a b =>
      match compile isint a, compile isint b with
      | Some x, Some y => Some (x ++ y ++ [EAnd])
      | _, _ => None
      end
  | COr a b =>
      match compile isint a, compile isint b with
      | Some x, Some y => Some (x ++ y ++ [EOr])
      | _, _ => None
      end
  end.

(* row semantics (what a full scan would answer). A null satisfies no comparison. *)
Definition cmp_holds (op : cmp) (x v : Z) : bool :=
  match op with
  | Ceq => x =? v | Cne => negb (x =? v)
  | Clt => x <? v | Cle => x <=? v
  | Cgt => v <? x | Cge => v <=? x
  end.
Fixpoint eval_cond (nonkey : nat -> bool) (c : cond) (row : key) : bool :=
  match c with
  | CAtom col op v => match nth col row None with Some x => cmp_holds op x v | None => false end
  | CNonKey id => nonkey id
  | CIn col vs => match nth col row None with Some x => existsb (Z.eqb x) vs | None => false end
  | CAnd a b => eval_cond nonkey a row && eval_cond nonkey b row
  | COr a b => eval_cond nonkey a row || eval_cond nonkey b row
  end.

(* ---------- CheckInRange ---------- *)
Definition elem_range_mark (rg kr : range) : mark := mkM (intersects rg kr) (negb (contains rg kr)).

Fixpoint run_rpn (rpn : list elem) (rgs : list range) (st : list mark) : option (list mark) :=
  match rpn with
  | [] => Some st
  | e :: rest =>
      match e with
      | EIn c rg => run_rpn rest rgs (elem_range_mark rg (nth c rgs whole) :: st)
      | ENotIn c rg => run_rpn rest rgs (mnot (elem_range_mark rg (nth c rgs whole)) :: st)
      | ETrue => run_rpn rest rgs (mkM true false :: st)
      | EFalse => run_rpn rest rgs (mkM false true :: st)
      | EAnd => match st with a :: b :: st' => run_rpn rest rgs (mand b a :: st') | _ => None end
      | EOr => match st with a :: b :: st' => run_rpn rest rgs (mor b a :: st') | _ => None end
      end
  end.

Definition check_in_range (rpn : list elem) (rgs : list range) : option mark :=
  match run_rpn rpn rgs [] with Some [m] => Some m | _ => None end.

(* total version used as the call-back of checkInAnyRange; an ill-formed RPN (an error in the code) is (true,true) *)
Definition cir (rpn : list elem) (rgs : list range) : mark :=
  match check_in_range rpn rgs with Some m => m | None => mkM true true end.
Definition rpn_ok (rpn : list elem) : bool :=
  match check_in_range rpn [] with Some _ => true | None => false end.

(* GetMaxKeyIndex + 1 *)
Fixpoint used_keys (rpn : list elem) : nat :=
  match rpn with
  | [] => O
  | EIn c _ :: r | ENotIn c _ :: r => Nat.max (S c) (used_keys r)
  | _ :: r => used_keys r
  end.

(* ---------- checkInAnyRange ---------- *)
Record variant := mkV { v_rb_res : bool; v_norm_idx : bool }.
Definition repaired : variant := mkV true false.
Definition current : variant := mkV false true.

Section Ciar.
  Variable V : variant.
  Variable cb : list range -> mark.

  Definition wholes (n : nat) : list range := repeat whole n.

  (* value read by the left-bound step after createLeftBounded rewrote the index value in place *)
  Definition shift_l (isint : bool) (l : bound) : bound :=
    if v_norm_idx V && isint then
      match l with Fin z => if z =? max_i64 then l else Fin (z + 1) | _ => l end
    else l.
  Definition shift_r (isint : bool) (r : bound) : bound :=
    if v_norm_idx V && isint then
      match r with Fin z => if z =? min_i64 then r else Fin (z - 1) | _ => r end
    else r.

  (* checkRangeLeftRightBound, prefixSize+1 < keySize *)
  Definition mid_range (isint : bool) (l r : bound) (lb rb : bool) : range :=
    if lb && rb then mkR l r false false
    else if lb then
      (let rg := mkR l PosInf false false in if v_norm_idx V then norm_left isint rg else rg)
    else
      (let rg := mkR NegInf r false false in if v_norm_idx V then norm_right isint rg else rg).

  (* checkRangeLeftRightBound, prefixSize+1 = keySize *)
  Definition last_range (l r : bound) (lb rb : bool) : range :=
    if lb && rb then mkR l r true true
    else if lb then mkR l PosInf true (beq l PosInf)
    else mkR NegInf r (beq r NegInf) true.

  (* how checkInAnyRange combines the mark of the middle rectangle (already OR-ed into the initial mask: [res]) with
     the marks of the left-bound and right-bound recursions, including the early exits on a complete mark.
     checkRangeRightBound is the last step: repaired it returns res1 OR mrb, today it returns mrb alone. *)
  Definition ciar_combine (lb rb : bool) (res mlb mrb : mark) : mark :=
    if complete res then res else
    let res1 := if lb then mor res mlb else res in
    if lb && complete res1 then res1 else
    if rb then (if v_rb_res V then mor res1 mrb else mrb) else res1.

  (* L, R, tys: the part of the left key, right key and column types from position prefixSize on;
     pre: rgs[0..prefixSize) *)
  Fixpoint ciar (tys : list bool) (L R : list bound) (lb rb : bool) (pre : list range) {struct L} : mark :=
    match L, R, tys with
    | l :: L', r :: R', ty :: tys' =>
        if negb lb && negb rb then cb (pre ++ wholes (length L))
        else if lb && rb && beq l r then ciar tys' L' R' true true (pre ++ [point l])
        else
          match L' with
          | [] => cb (pre ++ [last_range l r lb rb])
          | _ :: _ =>
              let res := mor init_mask (cb (pre ++ mid_range ty l r lb rb :: wholes (length L'))) in
              let mlb := if lb then ciar tys' L' R' true false (pre ++ [point (if rb then l else shift_l ty l)])
                         else init_mask in
              let mrb := if rb then ciar tys' L' R' false true (pre ++ [point (if lb then r else shift_r ty r)])
                         else init_mask in
              ciar_combine lb rb res mlb mrb
          end
    | _, _, _ => cb pre
    end.
End Ciar.

(* MayBeInRange *)
Definition may_be (V : variant) (isint : list bool) (rpn : list elem) (L R : list bound) : bool :=
  can_t (ciar V (cir rpn) isint L R true true []).

(* ---------- the primary index ---------- *)
(* row positions at which the fragments start: sizes [a;b;c] -> [0; a; a+b] *)
Fixpoint starts_from (at_ : nat) (sizes : list nat) : list nat :=
  match sizes with
  | [] => []
  | s :: r => at_ :: starts_from (at_ + s) r
  end.
Definition starts := starts_from 0.

(* PKIndexWriterImpl.Build: the first key of every fragment, then the last key *)
Definition build_index (sizes : list nat) (keys : list key) : list key :=
  map (fun st => nth st keys []) (starts sizes) ++ [last keys []].

Definition frag_rows (sizes : list nat) (keys : list key) (i : nat) : list key :=
  firstn (nth i sizes O) (skipn (nth i (starts sizes) O) keys).

(* checkInRange closure of Scan: rows s and e of the index, first [used] columns, nulls as +infinity *)
Definition may_range (V : variant) (isint : list bool) (rpn : list elem) (idx : list key) (s e : nat) : bool :=
  let used := used_keys rpn in
  may_be V isint rpn (map kb (firstn used (nth s idx []))) (map kb (firstn used (nth e idx []))).

(* ---------- doBinarySearch ---------- *)
Open Scope nat_scope.
Fixpoint bs_left (fuel : nat) (may : nat -> nat -> bool) (left right : nat) : nat :=
  match fuel with
  | O => left
  | S f =>
      if left + 1 <? right then
        let mid := (left + right) / 2 in
        if may 0 mid then bs_left f may left mid else bs_left f may mid right
      else left
  end.
Fixpoint bs_right (fuel : nat) (may : nat -> nat -> bool) (n left right : nat) : nat :=
  match fuel with
  | O => right
  | S f =>
      if left + 1 <? right then
        let mid := (left + right) / 2 in
        if may mid n then bs_right f may n mid right else bs_right f may n left mid
      else right
  end.
Definition scan_binary (may : nat -> nat -> bool) (n : nat) : list (nat * nat) :=
  let st := bs_left n may 0 n in
  let en := bs_right n may n st n in
  if (st <? en) && may st en then [(st, en)] else [].

(* ---------- doExclusionSearch ---------- *)
(* the sub-ranges pushed for a range (start,en), in the order in which they are popped (ascending) *)
Fixpoint pieces_aux (fuel start en step : nat) (acc : list (nat * nat)) : list (nat * nat) :=
  match fuel with
  | O => (start, en) :: acc
  | S f =>
      if start + step <? en then pieces_aux f start (en - step) step ((en - step, en) :: acc)
      else (start, en) :: acc
  end.
Definition pieces (start en coarse : nat) : list (nat * nat) :=
  let step := (en - start - 1) / coarse + 1 in
  pieces_aux (en - start) start en step [].

(* result list is kept with the most recent range first *)
Definition add_single (minmarks : nat) (res : list (nat * nat)) (s : nat) : list (nat * nat) :=
  match res with
  | [] => [(s, s + 1)]
  | (a, b) :: t => if minmarks <? s - b then (s, s + 1) :: res else (a, s + 1) :: t
  end.

(* depth-first, left to right = the explicit stack of the code; fuel bounds the depth (a range of length k is split
   into strictly shorter pieces when coarse >= 2). Out of fuel the range is kept (never happens with fuel = n+1). *)
Fixpoint excl (fuel : nat) (may : nat -> nat -> bool) (coarse minmarks s e : nat) (acc : list (nat * nat))
  : list (nat * nat) :=
  match fuel with
  | O => (s, e) :: acc
  | S f =>
      if negb (may s e) then acc
      else if e =? s + 1 then add_single minmarks acc s
      else fold_left (fun a p => excl f may coarse minmarks (fst p) (snd p) a) (pieces s e coarse) acc
  end.
Definition scan_exclusion (may : nat -> nat -> bool) (coarse minmarks n : nat) : list (nat * nat) :=
  rev (excl (S n) may coarse minmarks 0 n []).

(* ---------- PKIndexReaderImpl.Scan ---------- *)
Inductive scan_result := ScanErr | ScanOk (rs : list (nat * nat)).

Definition scan (V : variant) (isint : list bool) (rpn : list elem) (idx : list key) (n coarse minmarks : nat)
  : scan_result :=
  match rpn with
  | [] => ScanOk [(0, n)]
  | _ =>
      let may := may_range V isint rpn idx in
      if used_keys rpn =? 1 then
        (if rpn_ok rpn then ScanOk (scan_binary may n) else ScanErr)
      else if coarse <=? 1 then ScanErr
      else if rpn_ok rpn then ScanOk (scan_exclusion may coarse minmarks n) else ScanErr
  end.

Definition covered (i : nat) (rs : list (nat * nat)) : bool :=
  existsb (fun p => (fst p <=? i) && (i <? snd p)) rs.
