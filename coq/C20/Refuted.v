(* C20 - today's code violates the property: witnesses for the two defective places, closed by vm_compute.
   Strings are encoded by rank: 'A' 'B' 'C' 'D' = 1 2 3 4. *)
From Coq Require Import ZArith NArith List Bool.
From OG Require Import C20.Model C20.Proofs C20.Cover C20.ScanProofs C20.NullOrder C20.StrOps C20.Grouped C20.BloomModel C20.BloomRepair.
From OG Require C20.TokModel.
Import ListNotations.
Open Scope Z_scope.

Definition nk0 : nat -> bool := fun _ => false.

(* a fragment contains a row that satisfies the condition, yet MayBeInRange over the fragment's key interval is false *)
Definition prunes_match (V : variant) (isint : list bool) (c : cond) (keys : list key) (sizes : list nat) (i : nat) : Prop :=
  exists rpn row, compile isint c = Some rpn /\ In row (frag_rows sizes keys i) /\ eval_cond nk0 c row = true /\
                  may_range V isint rpn (build_index sizes keys) i (S i) = false.

(* checkRangeRightBound returns `mark` instead of the accumulated `res` (variant v_rb_res = false), index bounds
   handled correctly: the witness is independent of the second defect *)
Definition rb_current : variant := mkV false false.

(* a = 'C' AND b != 1   over rows (C,2) (C,5) (D,0) | (D,1) (D,3) *)
Definition w1_keys : list key := [[Some 3; Some 2]; [Some 3; Some 5]; [Some 4; Some 0]; [Some 4; Some 1]; [Some 4; Some 3]].
Definition w1_cond : cond := CAnd (CAtom 0 Ceq 3) (CAtom 1 Cne 1).
(* a != 'D' OR b = 1    over rows (A,5) (B,7) (C,9) | (D,0) (D,2) *)
Definition w2_keys : list key := [[Some 1; Some 5]; [Some 2; Some 7]; [Some 3; Some 9]; [Some 4; Some 0]; [Some 4; Some 2]].
Definition w2_cond : cond := COr (CAtom 0 Cne 4) (CAtom 1 Ceq 1).

Theorem C20_rightbound_refuted :
  exists isint c keys sizes i, prunes_match rb_current isint c keys sizes i.
Proof.
  exists [false; true], w1_cond, w1_keys, [3%nat; 2%nat], 0%nat.
  eexists. exists [Some 3; Some 2]. split; [vm_compute; reflexivity|]. vm_compute. repeat split; auto.
Qed.
Print Assumptions C20_rightbound_refuted.

Theorem C20_rightbound_refuted_or :
  exists isint c keys sizes i, prunes_match rb_current isint c keys sizes i.
Proof.
  exists [false; true], w2_cond, w2_keys, [3%nat; 2%nat], 0%nat.
  eexists. exists [Some 1; Some 5]. split; [vm_compute; reflexivity|]. vm_compute. repeat split; auto.
Qed.

(* the same inputs are handled correctly by the repaired variant, and also fail in the variant that mirrors today's
   code in both places *)
Example C20_rightbound_witnesses_repaired :
  (exists rpn, compile [false; true] w1_cond = Some rpn /\
     may_range repaired [false; true] rpn (build_index [3%nat; 2%nat] w1_keys) 0 1 = true /\
     may_range current [false; true] rpn (build_index [3%nat; 2%nat] w1_keys) 0 1 = false) /\
  (exists rpn, compile [false; true] w2_cond = Some rpn /\
     may_range repaired [false; true] rpn (build_index [3%nat; 2%nat] w2_keys) 0 1 = true /\
     may_range current [false; true] rpn (build_index [3%nat; 2%nat] w2_keys) 0 1 = false).
Proof. split; eexists; (split; [vm_compute; reflexivity|]); vm_compute; repeat split. Qed.

(* the whole Scan prunes the fragment too (exclusion search, coarse index 8) *)
Example C20_rightbound_scan_refuted :
  exists rpn, compile [false; true] w1_cond = Some rpn /\
    scan rb_current [false; true] rpn (build_index [3%nat; 2%nat] w1_keys) 2 8 0 = ScanOk [] /\
    scan repaired [false; true] rpn (build_index [3%nat; 2%nat] w1_keys) 2 8 0 = ScanOk [(0, 1)%nat].
Proof. eexists. split; [vm_compute; reflexivity|]. vm_compute. repeat split. Qed.

(* second defect: an open integer bound taken from the index is closed by rewriting the index value in place
   (variant v_norm_idx = true), checkRangeRightBound repaired.
   a = 1 AND b = 5 AND c = 7   over rows (1,5,3) (1,5,7) (1,9,0) | (2,0,0) (2,1,1), all integer columns *)
Definition norm_current : variant := mkV true true.
Definition w3_keys : list key :=
  [[Some 1; Some 5; Some 3]; [Some 1; Some 5; Some 7]; [Some 1; Some 9; Some 0]; [Some 2; Some 0; Some 0]; [Some 2; Some 1; Some 1]].
Definition w3_cond : cond := CAnd (CAnd (CAtom 0 Ceq 1) (CAtom 1 Ceq 5)) (CAtom 2 Ceq 7).

Theorem C20_index_rewrite_refuted :
  exists isint c keys sizes i, prunes_match norm_current isint c keys sizes i.
Proof.
  exists [true; true; true], w3_cond, w3_keys, [3%nat; 2%nat], 0%nat.
  eexists. exists [Some 1; Some 5; Some 7]. split; [vm_compute; reflexivity|]. vm_compute. repeat split; auto.
Qed.
Print Assumptions C20_index_rewrite_refuted.

Example C20_index_rewrite_witness_repaired :
  exists rpn, compile [true; true; true] w3_cond = Some rpn /\
    may_range repaired [true; true; true] rpn (build_index [3%nat; 2%nat] w3_keys) 0 1 = true.
Proof. eexists. split; [vm_compute; reflexivity|]. vm_compute. repeat split. Qed.

(* ---------- null keys: the data is in the writer's order, today's reader reads a null index cell as +infinity ----------
   finding C20-null-key-sort-order, witness corpus/C20/w8: f < 0.5 over (null)(0)(0)(1), one fragment. Floats by rank:
   pad (-MaxFloat64) = 0, 0.0 = 1, 0.5 = 2, 1.0 = 3. The index is [null; 1.0]: read as [+inf, 1.0] the interval is
   empty and Scan returns no range although two rows match. *)
Theorem C20_null_order_refuted :
  exists isint c rpn keys pads sizes i,
    compile isint c = Some rpn /\ writer_sorted pads keys /\ frag_matches nk0 c sizes keys i /\
    scan repaired isint rpn (read_index null_posinf pads (build_index sizes keys)) (length sizes) 8 0 = ScanOk [].
Proof.
  exists [false], (CAtom 0 Clt 2), [EIn 0 (mkR NegInf (Fin 2) false false)], [[None]; [Some 1]; [Some 1]; [Some 3]], [0], [4%nat], 0%nat.
  split; [reflexivity|]. split; [apply sortedb_true; vm_compute; reflexivity|]. split.
  - exists [Some 1]. split; [right; left; reflexivity | reflexivity].
  - vm_compute. reflexivity.
Qed.
Print Assumptions C20_null_order_refuted.

(* the rejected candidate repair (props/C20/fix3_candidate.patch: use the null cell as it is - FieldRef.Less orders a
   null strictly BEFORE every value) is unsound too, because the writer lets a null TIE with the pad value:
   boolean key false false | null false, condition k = false (false = pad = 0). The index is [false; null; false];
   fragment 0 gets the interval [false, null] = [0, -inf], which is empty, and both rows of the fragment match. *)
Theorem C20_null_strictly_first_refuted :
  exists isint c rpn keys pads sizes i,
    compile isint c = Some rpn /\ writer_sorted pads keys /\ frag_matches nk0 c sizes keys i /\
    covered i (scan_binary (may_range_first isint rpn (build_index sizes keys)) (length sizes)) = false /\
    (* the repaired reading keeps it *)
    covered i (scan_binary (may_range repaired isint rpn (read_index null_pad pads (build_index sizes keys))) (length sizes)) = true.
Proof.
  exists [false], (CAtom 0 Ceq 0), [EIn 0 (point (Fin 0))], [[Some 0]; [Some 0]; [None]; [Some 0]], [0], [2%nat; 2%nat], 0%nat.
  split; [reflexivity|]. split; [apply sortedb_true; vm_compute; reflexivity|]. split.
  - exists [Some 0]. split; [left; reflexivity | reflexivity].
  - split; vm_compute; reflexivity.
Qed.
Print Assumptions C20_null_strictly_first_refuted.

(* ---------- unboundable predicates on a key column, before /repo 05a4bb5 (findings C20-matchphrase-key-as-equality,
   C20-like-on-key-panics; fixed) ----------
   strings by rank: 'a world' = 0, 'b' = 1, 'c' = 2, 'world' = 3, 'zeta' = 4; pk MATCHPHRASE 'world' holds for the row
   'a world' (opaque predicate 1 = true) but the old translation reads it as pk = 'world' and prunes fragment 0 *)
Theorem C20_matchphrase_as_equality_refuted :
  exists x keys sizes i row,
    In row (frag_rows sizes keys i) /\ eval_xcond (fun _ => true) x row = true /\
    scan repaired [false] (compile_old [false] x) (build_index sizes keys) (length sizes) 8 0 = ScanOk [(1, 2)%nat].
Proof.
  exists (XStr 0 SKmatchphrase 3 1), [[Some 0]; [Some 1]; [Some 2]; [Some 4]], [2%nat; 2%nat], 0%nat, [Some 0].
  split; [left; reflexivity|]. split; [reflexivity|]. vm_compute. reflexivity.
Qed.
Print Assumptions C20_matchphrase_as_equality_refuted.

(* pk LIKE 'x' AND k1 = 1: the old translation appends no element for LIKE, the AND finds one operand only: CheckInRange
   fails for every rectangle (the Go code indexes an empty stack: panic), while the repaired translation evaluates *)
Theorem C20_like_no_element_refuted :
  forall rgs, check_in_range (compile_old [false; true] (XAnd (XStr 0 SKlike 0 1) (XAtom 1 Ceq 1))) rgs = None /\
              exists rpn, compile [false; true] (lower (XAnd (XStr 0 SKlike 0 1) (XAtom 1 Ceq 1))) = Some rpn /\
                          check_in_range rpn rgs <> None.
Proof.
  intro rgs. split; [reflexivity|]. eexists. split; [reflexivity|]. simpl. discriminate.
Qed.
Print Assumptions C20_like_no_element_refuted.

(* ---------- a numeric literal of another type than the key column's (finding C20-literal-type-mismatch) ----------
   today's genRPNElementByVal stores the literal's bits as a value of the KEY's type: for the index the atom `f = 2` (integer
   literal, float key) is `f = 1e-323`. Floats by rank: -1 = 0, 1e-323 = 1, 0.5 = 2, 1 = 3, 2 = 4; keys -1 0.5 | 1 1 | 2 2.
   The rows are judged with the literal 2 (rank 4), the index with rank 1: fragment 2 holds the matching rows, Scan returns
   fragment 0 only. With the literal converted (fix6.patch) the atom is an ordinary CAtom and C20_scan_sound applies. *)
Theorem C20_literal_reinterpreted_refuted :
  exists keys sizes i v v',
    frag_matches nk0 (CAtom 0 Ceq v) sizes keys i /\
    scan repaired [false] [EIn 0 (point (Fin v'))] (build_index sizes keys) (length sizes) 8 0 = ScanOk [(0, 1)%nat] /\
    scan repaired [false] [EIn 0 (point (Fin v))] (build_index sizes keys) (length sizes) 8 0 = ScanOk [(1, 3)%nat].
Proof.
  exists [[Some 0]; [Some 2]; [Some 3]; [Some 3]; [Some 4]; [Some 4]], [2%nat; 2%nat; 2%nat], 2%nat, 4, 1.
  split; [exists [Some 4]; split; [left; reflexivity | reflexivity]|]. split; vm_compute; reflexivity.
Qed.
Print Assumptions C20_literal_reinterpreted_refuted.

(* ---------- the key-grouped index read with the pad value (finding C20-null-key-grouped-index) ----------
   the same index as C20_example_grouped, a null cell read as the pad value (false = 0, '' = 0): the rows read
   (0,2) (0,3) (0,0) (0,0) (1,0) are not ordered, and k1 > 'B' loses group 1 = (null,'C'), whose key satisfies it *)
Theorem C20_grouped_pad_reading_refuted :
  exists idx pads c rpn i,
    ks_sorted idx /\ compile [false; false] c = Some rpn /\ eval_cond nk0 c (nth i idx []) = true /\
    (exists rs, scan_g [false; false] rpn (map (padk pads) idx) 8 0 = ScanOk rs /\ covered i rs = false) /\
    (exists rs, scan_g [false; false] rpn idx 8 0 = ScanOk rs /\ covered i rs = true).
Proof.
  exists [[None; Some 2]; [None; Some 3]; [Some 0; None]; [Some 0; Some 0]; [Some 1; Some 0]], [0; 0], (CAtom 1 Cgt 2),
         [EIn 1 (mkR (Fin 2) PosInf false false)], 1%nat.
  split; [apply ks_sortedb_true; vm_compute; reflexivity|]. split; [reflexivity|]. split; [reflexivity|].
  split; eexists; (split; [vm_compute; reflexivity|]); vm_compute; reflexivity.
Qed.
Print Assumptions C20_grouped_pad_reading_refuted.

(* ---------- bloom-filter skip index: today's reader / writer (findings C20-bloom-gram-phrase, C20-bloom-nonascii-token-boundary) ----------
   split table = {space, '/'}; hash positions of a token: two numbers computed from its bytes *)
Open Scope nat_scope.
Definition bsplit (b : N) : bool := ((b =? 32) || (b =? 47))%N.
Definition bhash (t : list N) : list nat :=
  [N.to_nat (fold_left N.add t 0%N mod 61); N.to_nat ((7 * fold_left N.add t 0 + N.of_nat (length t)) mod 59)%N].
Definition one_row (v : list N) : list (row (list N)) := [fun c => if c =? 0 then Some v else None].

(* (a) a phrase without a token: '/' matches the row "a/b" (SimpleTokenFinder: the phrase's own first and last byte are
   boundaries) but today's hitExpr answers "absent" for an empty token list *)
Theorem C20_bloom_notoken_refuted :
  exists v p, TokModel.finder bsplit p v = true /\
    bloom_kept (list N) bhash (list N) (TokModel.tokens bsplit) 0 (fun c => c =? 0)
               (block_filter (list N) bhash (list N) (TokModel.tokens bsplit) 0 (one_row v)) (SAtom (PMatch (list N) 0 p)) = false.
Proof. exists [97; 47; 98]%N, [47]%N. split; vm_compute; reflexivity. Qed.
Print Assumptions C20_bloom_notoken_refuted.

(* (b) gram lookups: today's reader looks a phrase of three tokens joined by the same separator up by ONE combined hash
   (modelled as the token made of all bytes of the phrase); the writer inserted the three single tokens *)
Definition gram_tokens (p : list N) : list (list N) :=
  match TokModel.tokens bsplit p with
  | t1 :: t2 :: t3 :: _ => [p]
  | ts => ts
  end.
Theorem C20_bloom_gram_refuted :
  exists v p, TokModel.finder bsplit p v = true /\
    bloom_kept (list N) bhash (list N) gram_tokens 0 (fun c => c =? 0)
               (block_filter (list N) bhash (list N) (TokModel.tokens bsplit) 0 (one_row v)) (SAtom (PMatch (list N) 0 p)) = false /\
    bloom_kept_r (list N) bhash (list N) (TokModel.tokens bsplit) 0 (fun c => c =? 0)
               (block_filter (list N) bhash (list N) (TokModel.tokens bsplit) 0 (one_row v)) (SAtom (PMatch (list N) 0 p)) = true.
Proof. exists [98; 32; 102; 32; 103]%N, [98; 32; 102; 32; 103]%N. repeat split; vm_compute; reflexivity. Qed.
Print Assumptions C20_bloom_gram_refuted.

(* (c) non-ASCII text: the value "ab" + one 3-byte character is ONE byte-level token, the finder takes the non-ASCII byte
   for a boundary and matches the phrase "ab"; the premise of the bloom theorems fails and the block is pruned - even by the
   repaired READER as long as the WRITER tokenizes byte-wise (fix5.patch changes the writer's tokens) *)
Theorem C20_bloom_nonascii_refuted :
  exists v p, TokModel.finder bsplit p v = true /\ ~ incl (TokModel.tokens bsplit p) (TokModel.tokens bsplit v) /\
    bloom_kept_r (list N) bhash (list N) (TokModel.tokens bsplit) 0 (fun c => c =? 0)
               (block_filter (list N) bhash (list N) (TokModel.tokens bsplit) 0 (one_row v)) (SAtom (PMatch (list N) 0 p)) = false.
Proof.
  exists [97; 98; 229; 141; 142]%N, [97; 98]%N. split; [vm_compute; reflexivity|]. split; [|vm_compute; reflexivity].
  intro H. specialize (H [97; 98]%N). vm_compute in H. destruct H as [H | H]; [now left | discriminate H | destruct H].
Qed.
Print Assumptions C20_bloom_nonascii_refuted.
