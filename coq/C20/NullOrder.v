(* C20 - null primary-key values and the order of the data.
   The column store's flush sort (record.SortHelper.SortForColumnStore, lib/record/sort_item.go Pad*Slice) sorts a
   null key as the smallest value it knows for the column's type (MinInt64, -MaxFloat64, "", false): a null TIES with
   that value, it is neither below nor above it. The rows of a file - and so the rows of the primary index - are in
   that order ("writer order"). Two readings of a null index cell by PKIndexReaderImpl.createFieldRefFunc:
     null_posinf : +infinity (today's code) - the index is then NOT ordered the way the data is,
     null_pad    : the pad value of the column (repaired) - the index is ordered exactly like the data.
   [padk] replaces the nulls of a key by the pad values; reading an index with null_pad is reading the padded index
   with the old [kb]. Soundness for writer-ordered data follows from the theorems of ScanProofs.v applied to the padded
   key list, because a condition tree is monotone in its atoms and a null satisfies no atom. *)
From Coq Require Import ZArith List Bool Arith Lia Sorted.
From OG Require Import C20.Model C20.Proofs C20.Cover C20.ScanProofs.
Import ListNotations.

Definition padc (p : Z) (c : option Z) : option Z := match c with Some z => Some z | None => Some p end.
Fixpoint padk (pads : list Z) (k : key) : key :=
  match k with
  | [] => []
  | c :: k' => padc (hd 0%Z pads) c :: padk (tl pads) k'
  end.

Inductive null_reading := null_posinf | null_pad.
Definition read_index (nr : null_reading) (pads : list Z) (idx : list key) : list key :=
  match nr with null_posinf => idx | null_pad => map (padk pads) idx end.

(* the order of the data: lexicographic on the padded keys *)
Definition writer_sorted (pads : list Z) (keys : list key) : Prop := sorted_lex (map (padk pads) keys).

(* the candidate repair that was rejected: a null index cell is used as it is and FieldRef.Less / Equals order a null
   strictly before every value. Modelled by its own reading of a cell. *)
Definition kb_first (k : option Z) : bound := match k with Some z => Fin z | None => NegInf end.
Definition may_range_first (isint : list bool) (rpn : list elem) (idx : list key) (s e : nat) : bool :=
  let used := used_keys rpn in
  may_be repaired isint rpn (map kb_first (firstn used (nth s idx []))) (map kb_first (firstn used (nth e idx []))).

(* ---------- padk ---------- *)
Lemma padk_length : forall k pads, length (padk pads k) = length k.
Proof. induction k; intros; simpl; auto. Qed.

Lemma padk_nth_some : forall row pads col x,
  nth col row None = Some x -> nth col (padk pads row) None = Some x.
Proof.
  induction row as [|c row IH]; intros pads col x H; destruct col; simpl in *; try discriminate.
  - subst c. reflexivity.
  - now apply IH.
Qed.

(* a condition tree is monotone in its atoms, and an atom on a null is false: padding never loses a match *)
Lemma eval_cond_pad : forall nonkey c pads row,
  eval_cond nonkey c row = true -> eval_cond nonkey c (padk pads row) = true.
Proof.
  induction c as [col op v | id | col vs | a IHa b IHb | a IHa b IHb]; intros pads row H; simpl in *; auto.
  - destruct (nth col row None) as [x|] eqn:E; [|discriminate]. now rewrite (padk_nth_some _ pads _ _ E).
  - destruct (nth col row None) as [x|] eqn:E; [|discriminate]. now rewrite (padk_nth_some _ pads _ _ E).
  - apply andb_true_iff in H. destruct H. apply andb_true_iff. split; auto.
  - apply orb_true_iff in H. apply orb_true_iff. destruct H; auto.
Qed.

(* ---------- the index and the fragments commute with a key transformation that keeps [] ---------- *)
Lemma last_map : forall {A B} (f : A -> B) l d, last (map f l) (f d) = f (last l d).
Proof.
  induction l as [|x l IH]; intros d; simpl; auto. destruct l; simpl in *; auto.
Qed.

Lemma build_index_map : forall (f : key -> key) sizes keys, f [] = [] ->
  build_index sizes (map f keys) = map f (build_index sizes keys).
Proof.
  intros f sizes keys Hf. unfold build_index. rewrite map_app, map_map. f_equal.
  - apply map_ext. intro st. rewrite <- Hf at 1. apply map_nth.
  - simpl. f_equal. rewrite <- Hf at 1. apply last_map.
Qed.

Lemma frag_rows_map : forall (f : key -> key) sizes keys i,
  frag_rows sizes (map f keys) i = map f (frag_rows sizes keys i).
Proof. intros. unfold frag_rows. now rewrite skipn_map, firstn_map. Qed.

Lemma frag_matches_pad : forall nonkey c sizes keys pads i,
  frag_matches nonkey c sizes keys i -> frag_matches nonkey c sizes (map (padk pads) keys) i.
Proof.
  intros nonkey c sizes keys pads i (row & Hin & He). exists (padk pads row). split.
  - rewrite frag_rows_map. now apply in_map.
  - now apply eval_cond_pad.
Qed.

Lemma Forall_length_pad : forall pads keys nk,
  Forall (fun k => length k = nk) keys -> Forall (fun k => length k = nk) (map (padk pads) keys).
Proof.
  intros pads keys nk H. apply Forall_forall. intros k Hk. apply in_map_iff in Hk. destruct Hk as (k0 & <- & Hk0).
  rewrite padk_length. rewrite Forall_forall in H. auto.
Qed.

(* ---------- soundness for data in the writer's order, null index cells read as the pad value ---------- *)
Lemma may_be_sound_writer_order : forall isint nonkey c rpn keys pads sizes nk s i e row,
  compile isint c = Some rpn ->
  writer_sorted pads keys -> Forall (fun k => length k = nk) keys ->
  (used_keys rpn <= nk)%nat -> (used_keys rpn <= length isint)%nat ->
  Forall (fun z => 1 <= z)%nat sizes -> sum sizes = length keys ->
  (s <= i)%nat -> (i < e)%nat -> (e <= length sizes)%nat ->
  In row (frag_rows sizes keys i) -> eval_cond nonkey c row = true ->
  may_range repaired isint rpn (read_index null_pad pads (build_index sizes keys)) s e = true.
Proof.
  intros isint nonkey c rpn keys pads sizes nk s i e row Hc Hs Hlen Hu Hty Hpos Hsum Hsi Hie Hen Hin He.
  simpl read_index. rewrite <- build_index_map by reflexivity.
  apply (may_be_sound isint nonkey c rpn (map (padk pads) keys) sizes nk s i e (padk pads row)); auto.
  - now apply Forall_length_pad.
  - now rewrite map_length.
  - rewrite frag_rows_map. now apply in_map.
  - now apply eval_cond_pad.
Qed.

Lemma scan_sound_writer_order : forall isint nonkey c rpn keys pads sizes nk coarse minmarks i,
  compile isint c = Some rpn ->
  writer_sorted pads keys -> Forall (fun k => length k = nk) keys ->
  (used_keys rpn <= nk)%nat -> (used_keys rpn <= length isint)%nat ->
  Forall (fun z => 1 <= z)%nat sizes -> sum sizes = length keys ->
  (2 <= coarse)%nat -> (i < length sizes)%nat ->
  frag_matches nonkey c sizes keys i ->
  exists rs, scan repaired isint rpn (read_index null_pad pads (build_index sizes keys)) (length sizes) coarse minmarks
             = ScanOk rs /\ covered i rs = true.
Proof.
  intros isint nonkey c rpn keys pads sizes nk coarse minmarks i Hc Hs Hlen Hu Hty Hpos Hsum Hco Hi Hm.
  simpl read_index. rewrite <- build_index_map by reflexivity.
  apply (scan_sound isint nonkey c rpn (map (padk pads) keys) sizes nk coarse minmarks i); auto.
  - now apply Forall_length_pad.
  - now rewrite map_length.
  - now apply frag_matches_pad.
Qed.

(* without nulls the two readings coincide and the writer's order is the plain lexicographic order *)
Definition no_nulls (k : key) : Prop := Forall (fun c => c <> None) k.
Lemma padk_no_nulls : forall k pads, no_nulls k -> padk pads k = k.
Proof.
  induction k as [|c k IH]; intros pads H; simpl; auto. inversion H; subst.
  rewrite IH by auto. destruct c; [reflexivity|congruence].
Qed.
Lemma read_index_no_nulls : forall pads idx, Forall no_nulls idx ->
  read_index null_pad pads idx = read_index null_posinf pads idx.
Proof.
  intros pads idx H. simpl. induction H as [|k idx Hk _ IH]; simpl; auto. now rewrite padk_no_nulls, IH.
Qed.

(* ---------- a decision procedure for sortedness (used by Examples and refutation witnesses) ---------- *)
Fixpoint lex_leb (a b : list bound) : bool :=
  match a, b with
  | [], _ => true
  | _ :: _, [] => false
  | x :: a', y :: b' => blt x y || (beq x y && lex_leb a' b')
  end.
Lemma lex_leb_true : forall a b, lex_leb a b = true -> lex_le a b.
Proof.
  induction a as [|x a IH]; intros [|y b] H; simpl in *; auto; try discriminate.
  apply orb_true_iff in H. destruct H as [H | H]; auto.
  apply andb_true_iff in H. destruct H as [E H]. apply beq_eq in E. right. split; auto.
Qed.
Fixpoint sortedb (keys : list key) : bool :=
  match keys with
  | [] => true
  | k :: r => forallb (fun k' => lex_leb (map kb k) (map kb k')) r && sortedb r
  end.
Lemma sortedb_true : forall keys, sortedb keys = true -> sorted_lex keys.
Proof.
  induction keys as [|k r IH]; intro H; simpl in *.
  - constructor.
  - apply andb_true_iff in H. destruct H as [H1 H2]. apply SSorted_cons; [now apply IH|].
    apply Forall_forall. intros k' Hk'. rewrite forallb_forall in H1. apply lex_leb_true. now apply H1.
Qed.
