(* C20 property theorems for the bloom-filter skip index. Statements closed by `exact lemma` + Print Assumptions.
   The hash function, the two tokenizers and the row semantics of MATCHPHRASE are Section variables of the model; the
   only assumption about them is the premise [match_tokens] below (checked on the real tokenizers by the harness;
   today's pure-Go build violates it for phrases the reader turns into a multi-token gram hash or into no token -
   finding C20-bloom-gram-phrase). *)
From Coq Require Import List Bool Arith NArith.
From OG Require Import C20.BloomModel C20.BloomProofs C20.BloomRepair C20.TokModel C20.TokProofs C20.UtfTok.
Import ListNotations.

Theorem bloom_no_false_negative : forall (token : Type) (hashpos : token -> list nat) ts t,
  In t ts -> query token hashpos (build token hashpos ts) t = true.
Proof. exact BloomProofs.bloom_no_false_negative. Qed.
Print Assumptions bloom_no_false_negative.

(* a predicate on a column the filter file does not cover must evaluate to "may match" *)
Theorem C20_bloom_uncovered_may_match : forall (token : Type) hashpos (phrase : Type) (ptokens : phrase -> list token) f0 F c p,
  c <> f0 -> pred_hit token hashpos phrase ptokens f0 F (PMatch phrase c p) = true.
Proof. exact BloomProofs.pred_hit_uncovered. Qed.

Theorem C20_bloom_skip_sound :
  forall (token : Type) (hashpos : token -> list nat) (value phrase : Type)
         (vtokens : value -> list token) (ptokens : phrase -> list token) (pmatch : phrase -> value -> bool),
  (forall p v, pmatch p v = true -> ptokens p <> [] /\ incl (ptokens p) (vtokens v)) ->
  forall other f0 inschema (rows : list (row value)) r e,
  In r rows -> sk_fold (eval_pred value phrase pmatch other r) e = true ->
  bloom_kept token hashpos phrase ptokens f0 inschema (block_filter token hashpos value vtokens f0 rows) e = true.
Proof. exact BloomProofs.bloom_skip_sound. Qed.
Print Assumptions C20_bloom_skip_sound.

(* the premise is satisfiable and the filter does prune: tokens = numbers, two hash positions per token, a value is
   the list of its tokens, a phrase is one token, MATCHPHRASE = membership *)
Example C20_bloom_example :
  let hp := fun t : nat => [t mod 7; (3 * t + 1) mod 11] in
  let vt := fun v : list nat => v in
  let pt := fun p : nat => [p] in
  let pm := fun (p : nat) (v : list nat) => existsb (Nat.eqb p) v in
  (forall p v, pm p v = true -> pt p <> [] /\ incl (pt p) (vt v)) /\
  let rows : list (row (list nat)) := [fun c => if c =? 0 then Some [1; 2] else None; fun c => None] in
  bloom_kept nat hp nat pt 0 (fun c => c =? 0) (block_filter nat hp (list nat) vt 0 rows)
             (SAnd (SAtom (PMatch nat 0 2)) (SAtom (PMatch nat 1 9))) = true /\
  bloom_kept nat hp nat pt 0 (fun c => c =? 0) (block_filter nat hp (list nat) vt 0 rows)
             (SAtom (PMatch nat 0 5)) = false.
Proof.
  split; [|split; vm_compute; reflexivity].
  intros p v H. split; [discriminate|]. intros t [<- | []]. simpl in H.
  apply existsb_exists in H. destruct H as (x & Hx & E). apply Nat.eqb_eq in E. now subst.
Qed.

(* ---------- repaired reader (props/C20/fix5.patch): a phrase without a token is "may match" ----------
   the premise shrinks to an inclusion, and is needed for the values of the block only *)
Theorem C20_bloom_skip_sound_repaired :
  forall (token : Type) (hashpos : token -> list nat) (value phrase : Type)
         (vtokens : value -> list token) (ptokens : phrase -> list token) (pmatch : phrase -> value -> bool)
         other f0 inschema (rows : list (row value)) r e,
  (forall r v p, In r rows -> r f0 = Some v -> pmatch p v = true -> incl (ptokens p) (vtokens v)) ->
  In r rows -> sk_fold (eval_pred value phrase pmatch other r) e = true ->
  bloom_kept_r token hashpos phrase ptokens f0 inschema (block_filter token hashpos value vtokens f0 rows) e = true.
Proof. exact BloomRepair.bloom_skip_sound_r. Qed.
Print Assumptions C20_bloom_skip_sound_repaired.

(* the repaired reader keeps every block today's reader keeps *)
Theorem C20_bloom_repaired_prunes_less :
  forall (token : Type) (hashpos : token -> list nat) (phrase : Type) (ptokens : phrase -> list token) f0 F a,
  pred_hit token hashpos phrase ptokens f0 F a = true -> pred_hit_r token hashpos phrase ptokens f0 F a = true.
Proof. exact BloomRepair.pred_hit_le. Qed.

(* ---------- the tokenizer premise, PROVED for ASCII values ----------
   tokens = SimpleTokenizer (maximal runs of non-split bytes: what the pure-Go writer inserts and, for ASCII text, what the
   repaired reader looks a phrase up by), finder = SimpleTokenFinder (row semantics of MATCHPHRASE), any split table. *)
Theorem C20_finder_tokens_incl : forall (split : N -> bool) p v,
  ascii v -> finder split p v = true -> incl (tokens split p) (tokens split v).
Proof. exact finder_tokens_incl. Qed.
Print Assumptions C20_finder_tokens_incl.

(* closed end-to-end statement for ASCII text: no premise about the tokenizers is left; the hash function stays abstract *)
Theorem C20_bloom_skip_sound_ascii :
  forall (split : N -> bool) (hashpos : list N -> list nat) other f0 inschema (rows : list (row (list N))) r e,
  (forall r v, In r rows -> r f0 = Some v -> ascii v) ->
  In r rows -> sk_fold (eval_pred (list N) (list N) (finder split) other r) e = true ->
  bloom_kept_r (list N) hashpos (list N) (tokens split) f0 inschema
               (block_filter (list N) hashpos (list N) (tokens split) f0 rows) e = true.
Proof.
  intros split hashpos other f0 inschema rows r e Ha Hr He.
  eapply BloomRepair.bloom_skip_sound_r; eauto.
  intros r0 v p Hr0 Hv Hm. apply finder_tokens_incl; eauto.
Qed.
Print Assumptions C20_bloom_skip_sound_ascii.

(* satisfiable and not vacuous: split table = {space, '/'}, value "ab cd", phrase "cd" is kept, phrase "zz" is pruned,
   the separator-only phrase "/" (no token) is kept by the repaired reader *)
Example C20_bloom_ascii_example :
  let split := fun b : N => ((b =? 32) || (b =? 47))%N in
  let hp := fun t : list N => [N.to_nat (fold_left N.add t 0%N mod 61); N.to_nat ((7 * fold_left N.add t 0 + N.of_nat (length t)) mod 59)%N] in
  let rows : list (row (list N)) := [fun c => if c =? 0 then Some [97; 98; 32; 99; 100]%N else None] in
  let F := block_filter (list N) hp (list N) (tokens split) 0 rows in
  ascii [97; 98; 32; 99; 100]%N /\ finder split [99; 100]%N [97; 98; 32; 99; 100]%N = true /\
  bloom_kept_r (list N) hp (list N) (tokens split) 0 (fun c => c =? 0) F (SAtom (PMatch (list N) 0 [99; 100]%N)) = true /\
  bloom_kept_r (list N) hp (list N) (tokens split) 0 (fun c => c =? 0) F (SAtom (PMatch (list N) 0 [122; 122]%N)) = false /\
  bloom_kept_r (list N) hp (list N) (tokens split) 0 (fun c => c =? 0) F (SAtom (PMatch (list N) 0 [47]%N)) = true.
Proof.
  split; [|split; [|split; [|split]]]; try (vm_compute; reflexivity).
  intros x Hx. simpl in Hx. repeat (destruct Hx as [<- | Hx]; [reflexivity|]). destruct Hx.
Qed.

(* ---------- the tokenizer premise PROVED for valid UTF-8 and the UTF-8 aware tokens (writer since 9dd9491 / 71f094e) ----------
   utokens = SimpleUtf8Tokenizer (an ASCII run between split characters, or one multi-byte character by its lead-byte class,
   a truncated last character = what is left of it); valid = UTF-8 by length classes (lead 0xC0-0xDF + 1, 0xE0-0xEF + 2,
   0xF0-0xF7 + 3 continuation bytes 0x80-0xBF). Uses that UTF-8 is self-synchronising (valid_occurrence). *)
Theorem C20_finder_utokens_incl : forall (split : N -> bool) p v,
  valid v -> valid p -> finder split p v = true -> incl (utokens split p) (utokens split v).
Proof. exact finder_utokens_incl. Qed.
Print Assumptions C20_finder_utokens_incl.

Theorem C20_utf8_self_synchronising : forall a p b, valid (a ++ p ++ b) -> valid p -> p <> [] -> valid a /\ valid b.
Proof. exact (valid_occurrence (fun _ => false)). Qed.

(* end to end for valid UTF-8 text: phrases are valid UTF-8 strings (a sigma type), no premise about the tokenizers is left *)
Theorem C20_bloom_skip_sound_utf8 :
  forall (split : N -> bool) (hashpos : list N -> list nat) other f0 inschema (rows : list (row (list N))) r
         (e : sk (pred {p : list N | valid p})),
  (forall r v, In r rows -> r f0 = Some v -> valid v) ->
  In r rows ->
  sk_fold (eval_pred (list N) {p : list N | valid p} (fun ph v => finder split (proj1_sig ph) v) other r) e = true ->
  bloom_kept_r (list N) hashpos {p : list N | valid p} (fun ph => utokens split (proj1_sig ph)) f0 inschema
               (block_filter (list N) hashpos (list N) (utokens split) f0 rows) e = true.
Proof.
  intros split hashpos other f0 inschema rows r e Hv Hr He.
  eapply BloomRepair.bloom_skip_sound_r; eauto.
  intros r0 v [p Hp] Hr0 Hv0 Hm. simpl in *. apply finder_utokens_incl; eauto.
Qed.
Print Assumptions C20_bloom_skip_sound_utf8.

(* "ab" + a 3-byte character + "cd": the ASCII words and the character are tokens; the phrase "ab" is found and kept *)
Example C20_utf8_example :
  let split := fun b : N => ((b =? 32) || (b =? 47))%N in
  let v := [97; 98; 229; 141; 142; 99; 100]%N in
  valid v /\ utokens split v = [[97; 98]; [229; 141; 142]; [99; 100]]%N /\ finder split [97; 98]%N v = true /\
  incl (utokens split [97; 98]%N) (utokens split v).
Proof.
  split; [|split; [vm_compute; reflexivity | split; [vm_compute; reflexivity|]]].
  - apply v_1; [reflexivity|]. apply v_1; [reflexivity|]. apply v_3; try (unfold contb; split); try (vm_compute; discriminate).
    apply v_1; [reflexivity|]. apply v_1; [reflexivity|]. constructor.
  - intros t Ht. vm_compute in Ht. destruct Ht as [<-|[]]. vm_compute. now left.
Qed.
