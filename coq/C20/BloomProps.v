(* C20 property theorems for the bloom-filter skip index. Statements closed by `exact lemma` + Print Assumptions.
   The hash function, the two tokenizers and the row semantics of MATCHPHRASE are Section variables of the model; the
   only assumption about them is the premise [match_tokens] below (checked on the real tokenizers by the harness;
   today's pure-Go build violates it for phrases the reader turns into a multi-token gram hash or into no token -
   finding C20-bloom-gram-phrase). *)
From Coq Require Import List Bool Arith.
From OG Require Import C20.BloomModel C20.BloomProofs.
Import ListNotations.

Theorem bloom_no_false_negative : forall (token : Type) (hashpos : token -> list nat) ts t,
  In t ts -> query token hashpos (build token hashpos ts) t = true.
Proof. exact BloomProofs.bloom_no_false_negative. Qed.
Print Assumptions bloom_no_false_negative.

(* a predicate on a column the filter file does not cover must evaluate to "may match" *)
Theorem C20_bloom_uncovered_may_match : forall (token : Type) hashpos (phrase : Type) (ptokens : phrase -> list token) f0 F c p,
  c <> f0 -> pred_hit token hashpos phrase ptokens f0 F (PMatch phrase c p) = true.
Proof. exact BloomProofs.pred_hit_uncovered. Qed.

Theorem C20_bloom_skip_sound :
  forall (token : Type) (hashpos : token -> list nat) (value phrase : Type)
         (vtokens : value -> list token) (ptokens : phrase -> list token) (pmatch : phrase -> value -> bool),
  (forall p v, pmatch p v = true -> ptokens p <> [] /\ incl (ptokens p) (vtokens v)) ->
  forall other f0 inschema (rows : list (row value)) r e,
  In r rows -> sk_fold (eval_pred value phrase pmatch other r) e = true ->
  bloom_kept token hashpos phrase ptokens f0 inschema (block_filter token hashpos value vtokens f0 rows) e = true.
Proof. exact BloomProofs.bloom_skip_sound. Qed.
Print Assumptions C20_bloom_skip_sound.

(* the premise is satisfiable and the filter does prune: tokens = numbers, two hash positions per token, a value is
   the list of its tokens, a phrase is one token, MATCHPHRASE = membership *)
Example C20_bloom_example :
  let hp := fun t : nat => [t mod 7; (3 * t + 1) mod 11] in
  let vt := fun v : list nat => v in
  let pt := fun p : nat => [p] in
  let pm := fun (p : nat) (v : list nat) => existsb (Nat.eqb p) v in
  (forall p v, pm p v = true -> pt p <> [] /\ incl (pt p) (vt v)) /\
  let rows : list (row (list nat)) := [fun c => if c =? 0 then Some [1; 2] else None; fun c => None] in
  bloom_kept nat hp nat pt 0 (fun c => c =? 0) (block_filter nat hp (list nat) vt 0 rows)
             (SAnd (SAtom (PMatch nat 0 2)) (SAtom (PMatch nat 1 9))) = true /\
  bloom_kept nat hp nat pt 0 (fun c => c =? 0) (block_filter nat hp (list nat) vt 0 rows)
             (SAtom (PMatch nat 0 5)) = false.
Proof.
  split; [|split; vm_compute; reflexivity].
  intros p v H. split; [discriminate|]. intros t [<- | []]. simpl in H.
  apply existsb_exists in H. destruct H as (x & Hx & E). apply Nat.eqb_eq in E. now subst.
Qed.
