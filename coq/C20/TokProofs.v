(* C20 - the premise of the bloom-filter theorems about the tokenizers, PROVED for ASCII values:
   if SimpleTokenFinder matches a phrase in a value without bytes >= 0x80, then every token of the phrase is a token of
   the value (the writer inserted it). For values with non-ASCII bytes the statement is false for the byte-level tokens
   (finding C20-bloom-nonascii-token-boundary, refuted below). *)
From Coq Require Import List Bool Arith NArith Lia.
From OG Require Import C20.TokModel.
Import ListNotations.

Section TokProofs.
  Variable split : N -> bool.
  Notation run := (run split).
  Notation tokens := (tokens split).
  Notation fsplit := (fsplit split).
  Notation scan := (scan split).
  Notation finder := (finder split).
  Notation valid_occ := (valid_occ split).

  (* ---------- the pass is compositional ---------- *)
  Lemma run_app : forall s1 s2 cur,
    run (s1 ++ s2) cur = let (o1, c1) := run s1 cur in let (o2, c2) := run s2 c1 in (o1 ++ o2, c2).
  Proof.
    induction s1 as [|b s1 IH]; intros s2 cur; simpl.
    - destruct (run s2 cur); reflexivity.
    - destruct (split b).
      + rewrite IH. destruct (run s1 []) as [o1 c1]. destruct (run s2 c1) as [o2 c2]. now rewrite app_assoc.
      + apply IH.
  Qed.

  Lemma run_split_hd : forall x s cur, split x = true ->
    run (x :: s) cur = let (o, c) := run s [] in (flush cur ++ o, c).
  Proof. intros. simpl. now rewrite H. Qed.

  Lemma run_split_last : forall s x cur, split x = true -> snd (run (s ++ [x]) cur) = [].
  Proof.
    intros s x cur H. rewrite run_app. destruct (run s cur) as [o1 c1]. simpl. now rewrite H.
  Qed.

  (* ---------- the finder finds a valid occurrence ---------- *)
  Lemma prefixb_app : forall p s, prefixb p s = true -> s = p ++ skipn (length p) s.
  Proof.
    induction p as [|x p IH]; intros [|y s] H; simpl in *; auto; try discriminate.
    apply andb_true_iff in H. destruct H as [E H]. apply N.eqb_eq in E. subst y. f_equal. auto.
  Qed.

  Lemma scan_occ : forall p s acc skip, scan p acc s skip = true ->
    exists acc' post, rev acc ++ s = rev acc' ++ p ++ post /\ valid_occ p acc' post = true.
  Proof.
    intros p. induction s as [|y s IH]; intros acc skip H; simpl in H; [discriminate|].
    assert (Hnext : forall k, scan p (y :: acc) s k = true ->
              exists acc' post, rev acc ++ y :: s = rev acc' ++ p ++ post /\ valid_occ p acc' post = true).
    { intros k Hk. destruct (IH _ _ Hk) as (acc' & post & E & V). exists acc', post. split; auto.
      simpl in E. now rewrite <- app_assoc in E. }
    destruct skip as [|k]; [|eauto].
    destruct (prefixb p (y :: s)) eqn:Ep; [|eauto].
    destruct (valid_occ p acc (skipn (length p) (y :: s))) eqn:Ev; [|eauto].
    exists acc, (skipn (length p) (y :: s)). split; auto. f_equal. now apply prefixb_app.
  Qed.

  (* ---------- main lemma: a valid occurrence whose boundaries are table boundaries ---------- *)
  Lemma last_app_single : forall (l : list N) x d, last (l ++ [x]) d = x.
  Proof. induction l as [|y l IH]; intros; simpl; auto. rewrite IH. destruct (l ++ [x]) eqn:E; auto. destruct l; discriminate. Qed.

  Lemma occ_tokens_incl : forall a p b,
    (a = [] \/ (exists a' x, a = a' ++ [x] /\ split x = true) \/ (exists x p', p = x :: p' /\ split x = true)) ->
    (b = [] \/ (exists x b', b = x :: b' /\ split x = true) \/ (exists p' x, p = p' ++ [x] /\ split x = true)) ->
    incl (tokens p) (tokens (a ++ p ++ b)).
  Proof.
    intros a p b Hl Hr. unfold tokens at 2. rewrite run_app. destruct (run a []) as [o1 c1] eqn:Ea.
    rewrite run_app. unfold TokModel.tokens. destruct (run p []) as [op cp] eqn:Ep.
    (* left boundary: running p after a yields the tokens of p (possibly after flushing an unfinished token of a) *)
    assert (Hp : exists o2', run p c1 = (o2' ++ op, cp)).
    { destruct Hl as [-> | [(a' & x & -> & Hx) | (x & p' & -> & Hx)]].
      - simpl in Ea. inversion Ea; subst. exists []. exact Ep.
      - pose proof (run_split_last a' x [] Hx) as Hc. rewrite Ea in Hc. simpl in Hc. subst c1. exists []. exact Ep.
      - rewrite run_split_hd in * by auto. destruct (run p' []) as [o c]. simpl in Ep. inversion Ep; subst.
        exists (flush c1). reflexivity. }
    destruct Hp as (o2' & Hp). rewrite Hp. destruct (run b cp) as [o3 c3] eqn:Eb.
    intros t Ht. apply in_app_or in Ht. destruct Ht as [Ht | Ht].
    - apply in_or_app. left. apply in_or_app. right. apply in_or_app. left. apply in_or_app. now right.
    - (* the unfinished token of p is finished by the right boundary *)
      destruct Hr as [-> | [(x & b' & -> & Hx) | (p' & x & -> & Hx)]].
      + simpl in Eb. inversion Eb; subst. apply in_or_app. now right.
      + rewrite run_split_hd in Eb by auto. destruct (run b' []) as [o c]. inversion Eb; subst.
        apply in_or_app. left. apply in_or_app. right. apply in_or_app. right. apply in_or_app. now left.
      + pose proof (run_split_last p' x [] Hx) as Hc. rewrite Ep in Hc. simpl in Hc. subst cp. destruct Ht.
  Qed.

  (* ---------- the premise match_tokens for ASCII values ---------- *)
  Definition ascii (s : list N) : Prop := forall x, In x s -> (x < 128)%N.

  Lemma fsplit_ascii : forall x, (x < 128)%N -> fsplit x = split x.
  Proof. intros x H. unfold TokModel.fsplit. replace (128 <=? x)%N with false; auto. symmetry. now apply N.leb_gt. Qed.

  Theorem finder_tokens_incl : forall p v, ascii v -> finder p v = true -> incl (tokens p) (tokens v).
  Proof.
    intros p v Ha H. unfold TokModel.finder in H. destruct p as [|x0 p0].
    { intros t Ht. destruct Ht. }
    destruct (scan_occ _ _ _ _ H) as (acc & post & E & V).
    set (p := x0 :: p0) in *.
    assert (E' : v = rev acc ++ p ++ post) by exact E. clear E. subst v.
    assert (Aa : ascii (rev acc)) by (intros x Hx; apply Ha; apply in_or_app; now left).
    assert (Ap : ascii p) by (intros x Hx; apply Ha; apply in_or_app; right; apply in_or_app; now left).
    assert (Ab : ascii post) by (intros x Hx; apply Ha; apply in_or_app; right; apply in_or_app; now right).
    unfold TokModel.valid_occ in V. apply andb_true_iff in V. destruct V as [V1 V2].
    apply occ_tokens_incl.
    - apply orb_true_iff in V1. destruct V1 as [V1 | V1].
      + destruct acc as [|x acc']; [now left|]. right. left. exists (rev acc'), x. split; [reflexivity|].
        rewrite <- fsplit_ascii; auto. apply Aa. simpl. apply in_or_app. right. now left.
      + right. right. exists x0, p0. split; [reflexivity|]. rewrite <- fsplit_ascii; auto. apply Ap. now left.
    - apply orb_true_iff in V2. destruct V2 as [V2 | V2].
      + destruct post as [|x post']; [now left|]. right. left. exists x, post'. split; [reflexivity|].
        rewrite <- fsplit_ascii; auto. apply Ab. now left.
      + right. right. destruct (exists_last (l := p)) as (p' & x & E); [discriminate|].
        exists p', x. split; [exact E|]. rewrite E in V2. rewrite last_app_single in V2.
        rewrite <- fsplit_ascii; auto. apply Ap. rewrite E. apply in_or_app. right. now left.
  Qed.
End TokProofs.
