(* C20 - the primary index of the production ATTACHED flush (ColumnStoreTSSPWriter, colstore.PrimaryKeyFetcher / KeySorter):
   one index row per KEY GROUP (all rows with the same primary key), groups in KeySorter order - a null key STRICTLY before
   every value, nulls equal to each other - NO trailing last-key row, and per group the segments that hold its rows
   (__fragment__ = segment offset << 32 | segment count). A fragment of PKIndexReaderImpl.Scan is a key group; the ranges it
   returns are turned into segment ranges by getSegmentRanges (ColumnStoreReader.initReadCursor).
   Reading of such an index: a null cell = -infinity (strictly first, repaired createFieldRefFunc for an index with a
   __fragment__ column), the row behind the record = +infinity (no upper bound known).
   Part 1 generalises the cover lemmas of Cover.v to ANY reading [rd] of a null cell (a value is always read as itself): a null
   satisfies no comparison, so where a null is put is irrelevant for soundness. *)
From Coq Require Import ZArith List Bool Arith Lia ZifyBool Sorted.
From OG Require Import C20.Model C20.Proofs C20.Cover C20.ScanProofs.
Import ListNotations.
Open Scope Z_scope.

Section AnyNullReading.
  Variable rd : option Z -> bound.
  Hypothesis rd_some : forall z, rd (Some z) = Fin z.

(* ---------- membership in the generated column ranges ---------- *)
Lemma inrect_point : forall t, inrect (point (rd t)) t.
Proof.
  destruct t as [z|]; simpl; auto. rewrite rd_some. unfold mem, left_leq, right_geq; simpl. lia.
Qed.

Lemma wholes_inrect_g : forall ts, Forall2 inrect (wholes (length ts)) ts.
Proof.
  induction ts; simpl; constructor; auto. apply inrect_whole.
Qed.

Lemma mid_inrect : forall ty l r lb rb t,
  (lb = true -> blt l (rd t) = true) -> (rb = true -> blt (rd t) r = true) -> lb || rb = true ->
  inrect (mid_range repaired ty l r lb rb) t.
Proof.
  intros ty l r lb rb [z|] Hl Hr Hb; simpl; auto. rewrite rd_some in Hl, Hr.
  unfold mid_range; simpl.
  destruct lb, rb; simpl in *; try discriminate; unfold mem, left_leq, right_geq; simpl.
  - rewrite Hl, Hr; auto.
  - rewrite Hl; auto.
  - rewrite Hr; auto.
Qed.

Lemma last_inrect : forall l r lb rb t,
  (lb = true -> blt l (rd t) = true \/ l = rd t) -> (rb = true -> blt (rd t) r = true \/ rd t = r) -> lb || rb = true ->
  inrect (last_range l r lb rb) t.
Proof.
  intros l r lb rb [z|] Hl Hr Hb; simpl; auto. rewrite rd_some in Hl, Hr.
  unfold last_range.
  destruct lb, rb; simpl in *; try discriminate; unfold mem, left_leq, right_geq; simpl.
  - destruct Hl as [Hl | Hl]; auto; destruct Hr as [Hr | Hr]; auto; subst; simpl;
      rewrite ?Hl, ?Hr, ?Z.eqb_refl, ?orb_true_r; auto.
  - destruct Hl as [Hl | Hl]; auto; subst; simpl; rewrite ?Hl, ?Z.eqb_refl, ?orb_true_r; auto.
  - destruct Hr as [Hr | Hr]; auto; subst; simpl; rewrite ?Hr, ?Z.eqb_refl, ?orb_true_r; auto.
Qed.

(* ---------- rect_cover + soundness of the OR over the cover (repaired variant) ----------
   ts: the key tuple (columns prefixSize..), lexicographically >= L when left-bounded and <= R when right-bounded;
   cb is assumed true on every rectangle whose remaining columns contain ts. *)
Lemma ciar_sound : forall cb L tys R lb rb pre ts,
  length R = length L -> length ts = length L -> (length L <= length tys)%nat ->
  (lb = true -> lex_le L (map rd ts)) ->
  (rb = true -> lex_le (map rd ts) R) ->
  (forall rs, Forall2 inrect rs ts -> can_t (cb (pre ++ rs)) = true) ->
  can_t (ciar repaired cb tys L R lb rb pre) = true.
Proof.
  intros cb. induction L as [|l L' IH]; intros tys R lb rb pre ts LR LT LY Hl Hr Hcb.
  - rewrite ciar_nil. destruct ts; [|discriminate]. specialize (Hcb [] (Forall2_nil _)). now rewrite app_nil_r in Hcb.
  - destruct R as [|r R']; [discriminate|]. destruct ts as [|t ts']; [discriminate|].
    destruct tys as [|ty tys']; [simpl in LY; lia|].
    simpl in LR, LT, LY. injection LR as LR. injection LT as LT. apply le_S_n in LY.
    rewrite ciar_cons.
    destruct (negb lb && negb rb) eqn:Enone.
    { (* not bounded at all *)
      replace (length (l :: L')) with (length (t :: ts')) by (simpl; lia).
      apply Hcb. apply wholes_inrect_g. }
    assert (Hb : lb || rb = true) by (destruct lb, rb; simpl in *; auto; discriminate).
    simpl map in Hl, Hr. simpl lex_le in Hl, Hr.
    destruct (lb && rb && beq l r) eqn:Eeq.
    { (* common prefix *)
      apply andb_true_iff in Eeq. destruct Eeq as [Eb Eeq]. apply andb_true_iff in Eb. destruct Eb; subst lb rb.
      apply beq_eq in Eeq. subst r.
      specialize (Hl eq_refl). specialize (Hr eq_refl).
      assert (l = rd t /\ lex_le L' (map rd ts') /\ lex_le (map rd ts') R') as (E & H1 & H2).
      { destruct Hl as [Hl | [E Hl]]; destruct Hr as [Hr | [E' Hr]]; subst; auto.
        - rewrite (blt_asym _ _ Hl) in Hr. discriminate.
        - rewrite blt_irrefl in Hl. discriminate.
        - rewrite blt_irrefl in Hr. discriminate. }
      subst l. apply (IH tys' R' true true (pre ++ [point (rd t)]) ts'); auto.
      intros rs Hrs. rewrite <- app_assoc. simpl. apply Hcb. constructor; auto. apply inrect_point. }
    destruct L' as [|l2 L''].
    { (* last column *)
      destruct ts'; [|discriminate]. apply Hcb. constructor; [|constructor].
      apply last_inrect; auto.
      - intro E. destruct (Hl E) as [H | [H _]]; auto.
      - intro E. destruct (Hr E) as [H | [H _]]; auto. }
    (* middle rectangle, left bound, right bound *)
    cbv zeta. apply ciar_combine_true.
    assert (Hshl : forall rb0 : bool, (if rb0 then l else shift_l repaired ty l) = l) by (destruct rb0; reflexivity).
    assert (Hshr : forall lb0 : bool, (if lb0 then r else shift_r repaired ty r) = r) by (destruct lb0; reflexivity).
    rewrite Hshl, Hshr.
    (* where is the first column of the tuple relative to l and r? *)
    assert (Cl : lb = true -> blt l (rd t) = true \/ (l = rd t /\ lex_le (l2 :: L'') (map rd ts'))) by auto.
    assert (Cr : rb = true -> blt (rd t) r = true \/ (rd t = r /\ lex_le (map rd ts') R')) by auto.
    destruct lb eqn:Elb.
    + destruct (Cl eq_refl) as [Hlt | [Heq Hlex]].
      * destruct rb eqn:Erb.
        -- destruct (Cr eq_refl) as [Hrt | [Heq Hlex]].
           ++ left. apply mor_mono_r.
              replace (length (l2 :: L'')) with (length ts') by lia.
              apply Hcb. constructor; [|apply wholes_inrect_g]. apply mid_inrect; auto.
           ++ right. right. split; auto. subst r.
              apply (IH tys' R' false true (pre ++ [point (rd t)]) ts'); auto; try discriminate.
              intros rs Hrs. rewrite <- app_assoc. simpl. apply Hcb. constructor; auto. apply inrect_point.
        -- left. apply mor_mono_r.
           replace (length (l2 :: L'')) with (length ts') by lia.
           apply Hcb. constructor; [|apply wholes_inrect_g]. apply mid_inrect; auto. discriminate.
      * right. left. split; auto. subst l.
        apply (IH tys' R' true false (pre ++ [point (rd t)]) ts'); auto; try discriminate.
        intros rs Hrs. rewrite <- app_assoc. simpl. apply Hcb. constructor; auto. apply inrect_point.
    + destruct rb eqn:Erb; [|discriminate].
      destruct (Cr eq_refl) as [Hrt | [Heq Hlex]].
      * left. apply mor_mono_r.
        replace (length (l2 :: L'')) with (length ts') by lia.
        apply Hcb. constructor; [|apply wholes_inrect_g]. apply mid_inrect; auto. discriminate.
      * right. right. split; auto. subst r.
        apply (IH tys' R' false true (pre ++ [point (rd t)]) ts'); auto; try discriminate.
        intros rs Hrs. rewrite <- app_assoc. simpl. apply Hcb. constructor; auto. apply inrect_point.
Qed.

Lemma may_be_sound_lex : forall isint nonkey c rpn row L R,
  compile isint c = Some rpn -> eval_cond nonkey c row = true ->
  length L = used_keys rpn -> length R = used_keys rpn ->
  (used_keys rpn <= length row)%nat -> (used_keys rpn <= length isint)%nat ->
  lex_le L (map rd (firstn (used_keys rpn) row)) -> lex_le (map rd (firstn (used_keys rpn) row)) R ->
  may_be repaired isint rpn L R = true.
Proof.
  intros isint nonkey c rpn row L R Hc He HL HR Hrow Hty H1 H2.
  unfold may_be. apply ciar_sound with (ts := firstn (used_keys rpn) row); auto; try lia.
  - rewrite firstn_length_le; auto.
  - intros rs Hrs. simpl. eapply mark_sound_rpn; eauto. eapply rect_has_firstn; eauto.
Qed.

End AnyNullReading.

(* ---------- Part 2: the key-grouped index ---------- *)
From OG Require Import C20.NullOrder.
Open Scope nat_scope.

Lemma kb_first_some : forall z, kb_first (Some z) = Fin z.
Proof. reflexivity. Qed.

(* the row behind the index record: no upper bound *)
Definition top (u : nat) : list bound := repeat PosInf u.
(* what createFieldRef hands to MayBeInRange for index row j (first u columns) *)
Definition grow (idx : list key) (u j : nat) : list bound :=
  if j <? length idx then map kb_first (firstn u (nth j idx [])) else top u.
Definition may_g (isint : list bool) (rpn : list elem) (idx : list key) (s e : nat) : bool :=
  let u := used_keys rpn in may_be repaired isint rpn (grow idx u s) (grow idx u e).
(* PKIndexReaderImpl.Scan over it: fragment count = number of key groups *)
Definition scan_g (isint : list bool) (rpn : list elem) (idx : list key) (coarse minmarks : nat) : scan_result :=
  let n := length idx in
  match rpn with
  | [] => ScanOk [(0, n)]
  | _ =>
      let may := may_g isint rpn idx in
      if used_keys rpn =? 1 then (if rpn_ok rpn then ScanOk (scan_binary may n) else ScanErr)
      else if coarse <=? 1 then ScanErr
      else if rpn_ok rpn then ScanOk (scan_exclusion may coarse minmarks n) else ScanErr
  end.

(* KeySorter: lexicographic, a null strictly before every value, nulls equal *)
Definition ks_le (a b : key) : Prop := lex_le (map kb_first a) (map kb_first b).
Definition ks_sorted (idx : list key) : Prop := StronglySorted ks_le idx.

(* getSegmentRanges: cnts = segments per key group; the segments of group i are sum(firstn i) .. sum(firstn (S i)) - 1 *)
Definition seg_ranges (cnts : list nat) (rs : list (nat * nat)) : list (nat * nat) :=
  map (fun p => (sum (firstn (fst p) cnts), sum (firstn (snd p) cnts))) rs.

Lemma ks_sorted_nth : forall idx, ks_sorted idx ->
  forall p q, p <= q -> q < length idx -> ks_le (nth p idx []) (nth q idx []).
Proof.
  induction 1 as [|k idx Hs IH Hall]; intros p q Hpq Hq; simpl in *; [lia|].
  destruct p, q; try lia.
  - apply lex_le_refl.
  - rewrite Forall_forall in Hall. apply Hall. apply nth_In. lia.
  - apply IH; lia.
Qed.

Lemma lex_le_top : forall x, lex_le x (top (length x)).
Proof.
  induction x as [|b x IH]; simpl; auto. destruct b; simpl; auto.
Qed.

Lemma grow_length : forall idx u j nk, Forall (fun k => length k = nk) idx -> u <= nk -> length (grow idx u j) = u.
Proof.
  intros idx u j nk Hlen Hu. unfold grow, key in *. destruct (Nat.ltb j (length idx)) eqn:E.
  - apply Nat.ltb_lt in E. rewrite map_length. rewrite firstn_length_le; auto.
    rewrite Forall_forall in Hlen. rewrite (Hlen (nth j idx [])); auto. now apply nth_In.
  - unfold top. apply repeat_length.
Qed.

(* a key group i in [s, e) whose key satisfies the condition (all its rows carry that key) => MayBeInRange true *)
Lemma may_g_sound : forall isint nonkey c rpn idx nk s i e,
  compile isint c = Some rpn -> ks_sorted idx -> Forall (fun k => length k = nk) idx ->
  used_keys rpn <= nk -> used_keys rpn <= length isint ->
  s <= i -> i < e -> e <= length idx ->
  eval_cond nonkey c (nth i idx []) = true ->
  may_g isint rpn idx s e = true.
Proof.
  intros isint nonkey c rpn idx nk s i e Hc Hs Hlen Hu Hty Hsi Hie Hen He.
  unfold may_g. set (u := used_keys rpn) in *.
  assert (Hki : length (nth i idx []) = nk).
  { rewrite Forall_forall in Hlen. apply Hlen. apply nth_In. lia. }
  apply (may_be_sound_lex kb_first kb_first_some isint nonkey c rpn (nth i idx [])); auto; try (fold u).
  - eapply grow_length; eauto.
  - eapply grow_length; eauto.
  - lia.
  - unfold grow, key in *. replace (s <? length idx) with true by (symmetry; apply Nat.ltb_lt; lia).
    rewrite <- !firstn_map. apply lex_le_firstn. apply ks_sorted_nth; auto; unfold key in *; lia.
  - unfold grow, key in *. destruct (e <? length idx) eqn:E.
    + apply Nat.ltb_lt in E. rewrite <- !firstn_map. apply lex_le_firstn. apply ks_sorted_nth; auto; unfold key in *; lia.
    + replace u with (length (map kb_first (firstn u (nth i idx [])))) at 2
        by (rewrite map_length, firstn_length_le; lia).
      apply lex_le_top.
Qed.

Lemma scan_g_sound : forall isint nonkey c rpn idx nk coarse minmarks i,
  compile isint c = Some rpn -> ks_sorted idx -> Forall (fun k => length k = nk) idx ->
  used_keys rpn <= nk -> used_keys rpn <= length isint ->
  2 <= coarse -> i < length idx ->
  eval_cond nonkey c (nth i idx []) = true ->
  exists rs, scan_g isint rpn idx coarse minmarks = ScanOk rs /\ covered i rs = true.
Proof.
  intros isint nonkey c rpn idx nk coarse minmarks i Hc Hs Hlen Hu Hty Hco Hi He.
  assert (Hmay : forall s j e, s <= j -> j < e -> e <= length idx -> eval_cond nonkey c (nth j idx []) = true ->
                               may_g isint rpn idx s e = true).
  { intros s j e H1 H2 H3 H4. eapply may_g_sound; eauto. }
  unfold scan_g. destruct rpn as [|e0 rpn'] eqn:Erpn.
  - eexists. split; [reflexivity|]. apply covered_single; lia.
  - rewrite <- Erpn in *. rewrite (rpn_ok_compile _ _ _ Hc).
    destruct (used_keys rpn =? 1).
    + eexists. split; [reflexivity|].
      apply (scan_binary_sound (may_g isint rpn idx) (length idx) (fun j => eval_cond nonkey c (nth j idx []) = true)); auto.
    + replace (coarse <=? 1) with false by (symmetry; apply Nat.leb_gt; lia).
      eexists. split; [reflexivity|].
      apply (scan_exclusion_sound (may_g isint rpn idx) (length idx) (fun j => eval_cond nonkey c (nth j idx []) = true)); auto.
Qed.

Lemma seg_ranges_sound : forall cnts rs i sg,
  covered i rs = true -> sum (firstn i cnts) <= sg -> sg < sum (firstn (S i) cnts) ->
  covered sg (seg_ranges cnts rs) = true.
Proof.
  intros cnts rs i sg Hc H1 H2. unfold covered in *. apply existsb_exists in Hc. destruct Hc as ([a b] & Hin & Hab).
  simpl in Hab. apply andb_true_iff in Hab. destruct Hab as [Ha Hb]. apply Nat.leb_le in Ha. apply Nat.ltb_lt in Hb.
  apply existsb_exists. exists (sum (firstn a cnts), sum (firstn b cnts)). split.
  - unfold seg_ranges. apply in_map_iff. exists (a, b). auto.
  - simpl. pose proof (sum_firstn_mono cnts a i Ha). pose proof (sum_firstn_mono cnts (S i) b ltac:(lia)).
    apply andb_true_iff. split; [apply Nat.leb_le | apply Nat.ltb_lt]; lia.
Qed.

(* end to end for the attached flush's index: every segment of a key group whose key satisfies the condition is read *)
Theorem grouped_index_sound : forall isint nonkey c rpn idx cnts nk coarse minmarks i sg,
  compile isint c = Some rpn -> ks_sorted idx -> Forall (fun k => length k = nk) idx ->
  used_keys rpn <= nk -> used_keys rpn <= length isint ->
  2 <= coarse -> i < length idx ->
  eval_cond nonkey c (nth i idx []) = true ->
  sum (firstn i cnts) <= sg -> sg < sum (firstn (S i) cnts) ->
  exists rs, scan_g isint rpn idx coarse minmarks = ScanOk rs /\ covered sg (seg_ranges cnts rs) = true.
Proof.
  intros isint nonkey c rpn idx cnts nk coarse minmarks i sg Hc Hs Hlen Hu Hty Hco Hi He H1 H2.
  destruct (scan_g_sound isint nonkey c rpn idx nk coarse minmarks i Hc Hs Hlen Hu Hty Hco Hi He) as (rs & E & Hcov).
  exists rs. split; auto. eapply seg_ranges_sound; eauto.
Qed.

(* decision procedure for KeySorter order (correspondence check + examples) *)
Fixpoint ks_sortedb (idx : list key) : bool :=
  match idx with
  | [] => true
  | k :: r => forallb (fun k' => lex_leb (map kb_first k) (map kb_first k')) r && ks_sortedb r
  end.
Lemma ks_sortedb_true : forall idx, ks_sortedb idx = true -> ks_sorted idx.
Proof.
  induction idx as [|k r IH]; intro H; simpl in *; [constructor|].
  apply andb_true_iff in H. destruct H as [H1 H2]. apply SSorted_cons; [now apply IH|].
  apply Forall_forall. intros k' Hk'. rewrite forallb_forall in H1. apply lex_leb_true. now apply H1.
Qed.
