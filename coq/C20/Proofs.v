(* C20 - lemmas, part 1: order on bounds, ranges, the mark algebra, soundness of CheckInRange (mark_sound). *)
From Coq Require Import ZArith List Bool Arith Lia ZifyBool.
From OG Require Import C20.Model.
Import ListNotations.
Open Scope Z_scope.

(* ---------- bounds ---------- *)
Lemma beq_eq : forall a b, beq a b = true <-> a = b.
Proof.
  destruct a, b; simpl; split; intro H; try discriminate; try reflexivity.
  - apply Z.eqb_eq in H. now subst.
  - inversion H. apply Z.eqb_refl.
Qed.
Lemma beq_refl : forall a, beq a a = true.
Proof. intro a. now apply beq_eq. Qed.
Lemma blt_irrefl : forall a, blt a a = false.
Proof. destruct a; simpl; auto. apply Z.ltb_irrefl. Qed.
Lemma blt_trans : forall a b c, blt a b = true -> blt b c = true -> blt a c = true.
Proof. destruct a, b, c; simpl; intros; try discriminate; auto; lia. Qed.
Lemma blt_asym : forall a b, blt a b = true -> blt b a = false.
Proof. destruct a, b; simpl; intros; try discriminate; auto; lia. Qed.
Lemma blt_total : forall a b, blt a b = true \/ a = b \/ blt b a = true.
Proof.
  destruct a, b; simpl; auto.
  destruct (Z.lt_trichotomy z z0) as [H | [H | H]].
  - left. lia.
  - right. left. now subst.
  - right. right. lia.
Qed.

(* ---------- membership of a value in a range ---------- *)
Definition mem (r : range) (x : bound) : bool := left_leq r x && right_geq r x.

(* a key column value lies in a column range of a hyper-rectangle. A null satisfies no comparison, so where it is
   put is irrelevant for soundness: it is admitted everywhere. *)
Definition inrect (kr : range) (k : option Z) : Prop :=
  match k with Some z => mem kr (Fin z) = true | None => True end.

Lemma inrect_whole : forall k, inrect whole k.
Proof. destruct k; simpl; auto. Qed.

Ltac crush_range :=
  unfold mem, intersects, contains, right_lq, left_leq, right_geq; simpl;
  repeat match goal with
         | b : bound |- _ => destruct b
         end; simpl; try lia; try (intros; discriminate); try tauto.

(* InRange atom: a value in both ranges makes them intersect *)
Lemma mem_intersects : forall rg kr x,
  mem rg x = true -> mem kr x = true -> intersects rg kr = true.
Proof.
  intros [l1 h1 li1 hi1] [l2 h2 li2 hi2] x. crush_range.
Qed.

(* NotInRange atom: if the atom's range contains the column range, every value of the column range is in it *)
Lemma contains_mem : forall rg kr x,
  contains rg kr = true -> mem kr x = true -> mem rg x = true.
Proof.
  intros [l1 h1 li1 hi1] [l2 h2 li2 hi2] x. crush_range.
Qed.

(* ---------- marks ---------- *)
Lemma mand_true : forall a b, can_t (mand a b) = true <-> can_t a = true /\ can_t b = true.
Proof. intros. unfold mand; simpl. apply andb_true_iff. Qed.
Lemma mor_true : forall a b, can_t (mor a b) = true <-> can_t a = true \/ can_t b = true.
Proof. intros. unfold mor; simpl. apply orb_true_iff. Qed.
Lemma mor_mono_l : forall a b, can_t a = true -> can_t (mor a b) = true.
Proof. intros. apply mor_true. auto. Qed.
Lemma mor_mono_r : forall a b, can_t b = true -> can_t (mor a b) = true.
Proof. intros. apply mor_true. auto. Qed.
Lemma complete_true : forall m, complete m = true -> can_t m = true.
Proof. unfold complete. intros m H. apply andb_true_iff in H. tauto. Qed.

(* ---------- atoms built from comparisons ---------- *)
Lemma norm_left_mem : forall isint r z, mem (norm_left isint r) (Fin z) = mem r (Fin z).
Proof.
  intros isint [l h li hi_] z. unfold norm_left; simpl.
  destruct isint; simpl; auto. destruct li; simpl; auto.
  destruct l; simpl; auto.
  destruct (z0 =? max_i64) eqn:E; auto.
  unfold mem, left_leq, right_geq; simpl. destruct h; simpl; lia.
Qed.
Lemma norm_right_mem : forall isint r z, mem (norm_right isint r) (Fin z) = mem r (Fin z).
Proof.
  intros isint [l h li hi_] z. unfold norm_right; simpl.
  destruct isint; simpl; auto. destruct hi_; simpl; auto.
  destruct h; simpl; auto.
  destruct (z0 =? min_i64) eqn:E; auto.
  unfold mem, left_leq, right_geq; simpl. destruct l; simpl; lia.
Qed.

(* the mark CheckInRange computes for a condition tree, defined on the tree *)
Definition elem_mark (e : elem) (rgs : list range) : mark :=
  match e with
  | EIn c rg => elem_range_mark rg (nth c rgs whole)
  | ENotIn c rg => mnot (elem_range_mark rg (nth c rgs whole))
  | ETrue => mkM true false
  | EFalse => mkM false true
  | _ => mkM true true
  end.

Fixpoint mark_of (isint : list bool) (c : cond) (rgs : list range) : mark :=
  match c with
  | CAtom col op v => elem_mark (atom_elem (nth col isint false) col op v) rgs
  | CNonKey _ => mkM true false
  | CIn _ _ => mkM true true
  | CAnd a b => mand (mark_of isint a rgs) (mark_of isint b rgs)
  | COr a b => mor (mark_of isint a rgs) (mark_of isint b rgs)
  end.

Lemma run_atom : forall isint col op v rest rgs st,
  run_rpn (atom_elem isint col op v :: rest) rgs st =
  run_rpn rest rgs (elem_mark (atom_elem isint col op v) rgs :: st).
Proof. intros. destruct op; reflexivity. Qed.

(* the stack machine over the RPN computes mark_of *)
Lemma run_compile : forall isint c rpn,
  compile isint c = Some rpn ->
  forall rest rgs st, run_rpn (rpn ++ rest) rgs st = run_rpn rest rgs (mark_of isint c rgs :: st).
Proof.
  induction c as [col op v | id | col vs | a IHa b IHb | a IHa b IHb]; intros rpn Hc rest rgs st; simpl in Hc.
  - inversion Hc; subst. simpl app. apply run_atom.
  - inversion Hc; subst. reflexivity.
  - discriminate.
  - destruct (compile isint a) as [x|]; [|discriminate]. destruct (compile isint b) as [y|]; [|discriminate].
    inversion Hc; subst. rewrite <- !app_assoc. rewrite (IHa x eq_refl). rewrite (IHb y eq_refl). reflexivity.
  - destruct (compile isint a) as [x|]; [|discriminate]. destruct (compile isint b) as [y|]; [|discriminate].
    inversion Hc; subst. rewrite <- !app_assoc. rewrite (IHa x eq_refl). rewrite (IHb y eq_refl). reflexivity.
Qed.

Lemma check_compile : forall isint c rpn rgs,
  compile isint c = Some rpn -> check_in_range rpn rgs = Some (mark_of isint c rgs).
Proof.
  intros. unfold check_in_range. rewrite <- (app_nil_r rpn). rewrite (run_compile _ _ _ H). reflexivity.
Qed.
Lemma cir_compile : forall isint c rpn rgs,
  compile isint c = Some rpn -> cir rpn rgs = mark_of isint c rgs.
Proof. intros. unfold cir. now rewrite (check_compile _ _ _ rgs H). Qed.
Lemma rpn_ok_compile : forall isint c rpn, compile isint c = Some rpn -> rpn_ok rpn = true.
Proof. intros. unfold rpn_ok. now rewrite (check_compile _ _ _ [] H). Qed.

(* a row lies in a hyper-rectangle *)
Definition rect_has (rgs : list range) (row : key) : Prop :=
  forall col, inrect (nth col rgs whole) (nth col row None).

Lemma atom_sound : forall isint col op v rgs x,
  cmp_holds op x v = true -> mem (nth col rgs whole) (Fin x) = true ->
  can_t (elem_mark (atom_elem isint col op v) rgs) = true.
Proof.
  intros isint col op v rgs x Hh Hm.
  destruct op; simpl in *.
  - apply (mem_intersects _ _ (Fin x)); auto. unfold mem, left_leq, right_geq; simpl. lia.
  - (* != : the point range must not contain the column range *)
    destruct (contains (point (Fin v)) (nth col rgs whole)) eqn:E; auto.
    pose proof (contains_mem _ _ _ E Hm) as M. unfold mem, left_leq, right_geq in M; simpl in M. lia.
  - apply (mem_intersects _ _ (Fin x)); auto. rewrite norm_right_mem. unfold mem, left_leq, right_geq; simpl. lia.
  - apply (mem_intersects _ _ (Fin x)); auto. unfold mem, left_leq, right_geq; simpl. lia.
  - apply (mem_intersects _ _ (Fin x)); auto. rewrite norm_left_mem. unfold mem, left_leq, right_geq; simpl. lia.
  - apply (mem_intersects _ _ (Fin x)); auto. unfold mem, left_leq, right_geq; simpl. lia.
Qed.

(* mark_sound: if some row of the hyper-rectangle satisfies the condition then canBeTrue *)
Lemma mark_sound_tree : forall isint nonkey c rgs row,
  (exists rpn, compile isint c = Some rpn) ->
  rect_has rgs row -> eval_cond nonkey c row = true -> can_t (mark_of isint c rgs) = true.
Proof.
  induction c as [col op v | id | col vs | a IHa b IHb | a IHa b IHb]; intros rgs row [rpn Hc] Hr He; simpl in *.
  - specialize (Hr col). destruct (nth col row None) as [x|]; [|discriminate].
    simpl in Hr. eapply atom_sound; eauto.
  - reflexivity.
  - discriminate.
  - destruct (compile isint a) as [x|] eqn:Ea; [|discriminate]. destruct (compile isint b) as [y|] eqn:Eb; [|discriminate].
    apply andb_true_iff in He. destruct He. apply mand_true. split; [eapply IHa | eapply IHb]; eauto.
  - destruct (compile isint a) as [x|] eqn:Ea; [|discriminate]. destruct (compile isint b) as [y|] eqn:Eb; [|discriminate].
    apply orb_true_iff in He. apply mor_true. destruct He; [left; eapply IHa | right; eapply IHb]; eauto.
Qed.

Lemma mark_sound_rpn : forall isint nonkey c rpn rgs row,
  compile isint c = Some rpn -> rect_has rgs row -> eval_cond nonkey c row = true ->
  can_t (cir rpn rgs) = true.
Proof.
  intros. rewrite (cir_compile _ _ _ rgs H). eapply mark_sound_tree; eauto.
Qed.

Lemma mark_sound : forall isint nonkey c rpn rgs row,
  compile isint c = Some rpn -> rect_has rgs row -> eval_cond nonkey c row = true ->
  check_in_range rpn rgs = Some (mark_of isint c rgs) /\ can_t (mark_of isint c rgs) = true.
Proof.
  intros. split. now apply check_compile. eapply mark_sound_tree; eauto.
Qed.
