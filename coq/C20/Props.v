(* C20 property theorems. Nothing but statements closed by `exact lemma`, Print Assumptions, and Examples showing
   that the hypotheses are satisfiable. All theorems are about the REPAIRED variant of the model
   (checkRangeRightBound returns the accumulated res; index bounds are never rewritten); Refuted.v shows that
   both deviations of today's code break them. *)
From Coq Require Import ZArith List Bool Arith Sorted.
From OG Require Import C20.Model C20.Proofs C20.Cover C20.ScanProofs C20.TwoSided C20.NullOrder C20.MinMax C20.StrOps C20.Multi C20.Grouped.
Import ListNotations.

(* mark_sound: CheckInRange over a hyper-rectangle never says "cannot be true" when some row of the rectangle
   satisfies the condition - for every condition tree NewKeyCondition accepts, every rectangle, every row. The RPN
   stack machine computes exactly the mark defined on the tree. *)
Theorem C20_mark_sound : forall isint nonkey c rpn rgs row,
  compile isint c = Some rpn -> rect_has rgs row -> eval_cond nonkey c row = true ->
  check_in_range rpn rgs = Some (mark_of isint c rgs) /\ can_t (mark_of isint c rgs) = true.
Proof. exact mark_sound. Qed.
Print Assumptions C20_mark_sound.

(* two-sided mark_sound: canBeFalse is sound as well (what a NOT-like rewrite needs), for trees of key-column
   comparisons and rows whose compared columns are not null; TwoSided.v shows both restrictions are necessary
   (a non-key predicate is AlwaysTrue = (true,false); `!=` on a null). *)
Theorem C20_mark_sound_two_sided : forall isint nonkey c rgs row,
  key_only c = true -> nonnull_on c row -> rect_has rgs row ->
  (eval_cond nonkey c row = true -> can_t (mark_of isint c rgs) = true) /\
  (eval_cond nonkey c row = false -> can_f (mark_of isint c rgs) = true).
Proof. exact mark_sound_two_sided. Qed.
Print Assumptions C20_mark_sound_two_sided.

(* rect_cover: the hyper-rectangles checkInAnyRange generates for the key interval [L,R] (common prefix, middle,
   left bound, right bound, recursively) cover every key tuple lexicographically between L and R. *)
Theorem C20_rect_cover : forall L R tys ts,
  length R = length L -> length ts = length L -> (length L <= length tys)%nat ->
  lex_le L (map kb ts) -> lex_le (map kb ts) R ->
  can_t (ciar repaired (fun rs => mkM (in_rectb ts rs) true) tys L R true true []) = true.
Proof. exact Cover.rect_cover. Qed.
Print Assumptions C20_rect_cover.

(* OR-ing a call-back's marks over the cover is sound (with every early exit), whatever the call-back *)
Theorem C20_any_range_sound : forall cb L tys R lb rb pre ts,
  length R = length L -> length ts = length L -> (length L <= length tys)%nat ->
  (lb = true -> lex_le L (map kb ts)) ->
  (rb = true -> lex_le (map kb ts) R) ->
  (forall rs, Forall2 inrect rs ts -> can_t (cb (pre ++ rs)) = true) ->
  can_t (ciar repaired cb tys L R lb rb pre) = true.
Proof. exact Cover.ciar_sound. Qed.
Print Assumptions C20_any_range_sound.

(* C20_may_be_sound: for every sorted key list cut into non-empty fragments of any sizes, every accepted condition
   tree and every s <= i < e: if fragment i contains a row that satisfies the condition then MayBeInRange over the
   index rows s and e answers true. *)
Theorem C20_may_be_sound : forall isint nonkey c rpn keys sizes nk s i e row,
  compile isint c = Some rpn ->
  sorted_lex keys -> Forall (fun k => length k = nk) keys ->
  (used_keys rpn <= nk)%nat -> (used_keys rpn <= length isint)%nat ->
  Forall (fun z => 1 <= z)%nat sizes -> sum sizes = length keys ->
  (s <= i)%nat -> (i < e)%nat -> (e <= length sizes)%nat ->
  In row (frag_rows sizes keys i) -> eval_cond nonkey c row = true ->
  may_range repaired isint rpn (build_index sizes keys) s e = true.
Proof. exact may_be_sound. Qed.
Print Assumptions C20_may_be_sound.

(* binary search and exclusion search keep every fragment with a match, for any range predicate that is sound in
   the sense of C20_may_be_sound, any coarse-index setting and any seek threshold *)
Theorem C20_scan_binary_sound : forall (may : nat -> nat -> bool) n (hasmatch : nat -> Prop),
  (forall s i e, s <= i -> i < e -> e <= n -> hasmatch i -> may s e = true)%nat ->
  forall i, (i < n)%nat -> hasmatch i -> covered i (scan_binary may n) = true.
Proof. exact scan_binary_sound. Qed.
Print Assumptions C20_scan_binary_sound.

Theorem C20_scan_exclusion_sound : forall (may : nat -> nat -> bool) n (hasmatch : nat -> Prop),
  (forall s i e, s <= i -> i < e -> e <= n -> hasmatch i -> may s e = true)%nat ->
  forall coarse minmarks i, (i < n)%nat -> hasmatch i -> covered i (scan_exclusion may coarse minmarks n) = true.
Proof. exact scan_exclusion_sound. Qed.
Print Assumptions C20_scan_exclusion_sound.

(* C20_scan_sound: Scan returns ranges (no error) and every fragment that contains a satisfying row lies in one *)
Theorem C20_scan_sound : forall isint nonkey c rpn keys sizes nk coarse minmarks i,
  compile isint c = Some rpn ->
  sorted_lex keys -> Forall (fun k => length k = nk) keys ->
  (used_keys rpn <= nk)%nat -> (used_keys rpn <= length isint)%nat ->
  Forall (fun z => 1 <= z)%nat sizes -> sum sizes = length keys ->
  (2 <= coarse)%nat -> (i < length sizes)%nat ->
  frag_matches nonkey c sizes keys i ->
  exists rs, scan repaired isint rpn (build_index sizes keys) (length sizes) coarse minmarks = ScanOk rs /\
             covered i rs = true.
Proof. exact scan_sound. Qed.
Print Assumptions C20_scan_sound.

(* whichever strategy CanDoBinarySearch picks *)
Theorem C20_both_strategies_sound : forall isint nonkey c rpn keys sizes nk coarse minmarks i,
  compile isint c = Some rpn ->
  sorted_lex keys -> Forall (fun k => length k = nk) keys ->
  (used_keys rpn <= nk)%nat -> (used_keys rpn <= length isint)%nat ->
  Forall (fun z => 1 <= z)%nat sizes -> sum sizes = length keys ->
  (i < length sizes)%nat -> frag_matches nonkey c sizes keys i ->
  let may := may_range repaired isint rpn (build_index sizes keys) in
  covered i (scan_binary may (length sizes)) = true /\
  covered i (scan_exclusion may coarse minmarks (length sizes)) = true.
Proof. exact both_strategies_sound. Qed.
Print Assumptions C20_both_strategies_sound.

(* ---------- null keys, data in the order of the column store's flush sort ----------
   record.SortForColumnStore sorts a null key as the smallest value it knows for the type (the pad value: a null TIES
   with it). writer_sorted pads keys = the keys are lexicographically sorted once every null is replaced by its column's
   pad value. With a null index cell read as that pad value (read_index null_pad = the repaired createFieldRefFunc,
   props/C20/fix3.patch) pruning is sound for every key list in the writer's order, nulls anywhere, any pad values. *)
Theorem C20_may_be_sound_writer_order : forall isint nonkey c rpn keys pads sizes nk s i e row,
  compile isint c = Some rpn ->
  writer_sorted pads keys -> Forall (fun k => length k = nk) keys ->
  (used_keys rpn <= nk)%nat -> (used_keys rpn <= length isint)%nat ->
  Forall (fun z => 1 <= z)%nat sizes -> sum sizes = length keys ->
  (s <= i)%nat -> (i < e)%nat -> (e <= length sizes)%nat ->
  In row (frag_rows sizes keys i) -> eval_cond nonkey c row = true ->
  may_range repaired isint rpn (read_index null_pad pads (build_index sizes keys)) s e = true.
Proof. exact may_be_sound_writer_order. Qed.
Print Assumptions C20_may_be_sound_writer_order.

Theorem C20_scan_sound_writer_order : forall isint nonkey c rpn keys pads sizes nk coarse minmarks i,
  compile isint c = Some rpn ->
  writer_sorted pads keys -> Forall (fun k => length k = nk) keys ->
  (used_keys rpn <= nk)%nat -> (used_keys rpn <= length isint)%nat ->
  Forall (fun z => 1 <= z)%nat sizes -> sum sizes = length keys ->
  (2 <= coarse)%nat -> (i < length sizes)%nat ->
  frag_matches nonkey c sizes keys i ->
  exists rs, scan repaired isint rpn (read_index null_pad pads (build_index sizes keys)) (length sizes) coarse minmarks
             = ScanOk rs /\ covered i rs = true.
Proof. exact scan_sound_writer_order. Qed.
Print Assumptions C20_scan_sound_writer_order.

(* padding never loses a match: a condition tree is monotone in its atoms and a null satisfies no atom *)
Theorem C20_pad_keeps_match : forall nonkey c pads row,
  eval_cond nonkey c row = true -> eval_cond nonkey c (padk pads row) = true.
Proof. exact eval_cond_pad. Qed.
Print Assumptions C20_pad_keeps_match.

(* without nulls in the index the two readings of a null cell are the same reader *)
Theorem C20_null_readings_agree_without_nulls : forall pads idx, Forall no_nulls idx ->
  read_index null_pad pads idx = read_index null_posinf pads idx.
Proof. exact read_index_no_nulls. Qed.

(* ---------- min-max skip index ----------
   the rule: a block is read iff CheckInRange of the condition over the rectangle [min, max] of every indexed column
   (non-null values; mm_rect) says canBeTrue. Sound for every block, every accepted condition tree, nulls anywhere.
   (Today's tree cannot prune with it: MinMaxWriter writes nothing and the reader's ReadFunc is nil - a checked obligation
   of props/C20/run.py; the harness drives the real CheckInRange over exactly these rectangles.) *)
Theorem C20_minmax_sound : forall isint nonkey c rpn nk (block : list key) row,
  compile isint c = Some rpn -> In row block -> eval_cond nonkey c row = true ->
  exists m, check_in_range rpn (mm_rect nk block) = Some m /\ can_t m = true.
Proof. exact minmax_sound. Qed.
Print Assumptions C20_minmax_sound.

(* a block with a matching value v in column c has min <= v <= max *)
Theorem C20_minmax_bounds : forall block c row z, In row block -> nth c row None = Some z ->
  exists a b, col_bounds (column block c) = Some (a, b) /\ (a <= z <= b)%Z.
Proof. exact minmax_bounds. Qed.
Print Assumptions C20_minmax_bounds.

(* ---------- predicates the key order cannot bound (MATCHPHRASE, IPINRANGE, LIKE, MATCH on a key column) ----------
   repaired (/repo 05a4bb5): such an atom is an AlwaysTrue element - it may be true anywhere (canBeTrue, never
   "certainly false") and it keeps its operand slot for the AND / OR that follows *)
Theorem C20_unboundable_atom_always_true : forall isint col k v id rgs,
  compile isint (lower (XStr col k v id)) = Some [ETrue] /\
  check_in_range [ETrue] rgs = Some (mkM true false).
Proof. exact str_atom_always_true. Qed.
Print Assumptions C20_unboundable_atom_always_true.

(* every tree with such atoms compiles (no missing operand), and pruning is sound whatever the opaque predicates answer *)
Theorem C20_scan_sound_unboundable_atoms : forall isint nonkey x keys pads sizes nk coarse minmarks i,
  Forall (fun k => length k = nk) keys -> writer_sorted pads keys ->
  Forall (fun z => 1 <= z)%nat sizes -> sum sizes = length keys ->
  (2 <= coarse)%nat -> (i < length sizes)%nat ->
  (exists row, In row (frag_rows sizes keys i) /\ eval_xcond nonkey x row = true) ->
  exists rpn, compile isint (lower x) = Some rpn /\
    ((used_keys rpn <= nk)%nat -> (used_keys rpn <= length isint)%nat ->
     exists rs, scan repaired isint rpn (read_index null_pad pads (build_index sizes keys)) (length sizes) coarse minmarks
                = ScanOk rs /\ covered i rs = true).
Proof. exact scan_sound_strops. Qed.
Print Assumptions C20_scan_sound_unboundable_atoms.

(* ---------- the reader above the single indexes: attachedIndexReader.Next over a list of data files ----------
   per file: primary-key scan, then the skip index (sk_scan), files with an empty result passed over, optional batch return;
   [delivered] = everything the caller collects by repeating Next until it answers nil. *)

(* every file of the list is looked at exactly once: what is delivered is, in order, the skip-filtered primary-key ranges of
   every file for which they are not empty - for every file list, both index layers arbitrary, with and without batches *)
Theorem C20_attached_reader_visits_every_file_once : forall files batch,
  delivered files batch = expected_from files 0.
Proof. exact delivered_spec. Qed.
Print Assumptions C20_attached_reader_visits_every_file_once.

(* the skip-index scan keeps every fragment the primary-key scan kept and the skip index does not exclude *)
Theorem C20_sk_scan_sound : forall keep rs j,
  covered j rs = true -> keep j = true -> covered j (sk_scan keep rs) = true.
Proof. exact sk_scan_sound. Qed.
Print Assumptions C20_sk_scan_sound.

(* composition: a fragment that the primary-key scan of its file keeps (C20_scan_sound_writer_order: it holds a matching
   row) and the skip index keeps (C20_bloom_skip_sound_repaired / _ascii: it holds a matching row) is delivered, whichever
   file of the list it is in *)
Theorem C20_attached_reader_delivers : forall files batch i f j,
  nth_error files i = Some f -> covered j (f_pk f) = true -> f_keep f j = true ->
  exists frs, In (i, frs) (delivered files batch) /\ covered j frs = true.
Proof. exact attached_reader_delivers. Qed.
Print Assumptions C20_attached_reader_delivers.

(* ---------- the key-grouped index of the production attached flush (ColumnStoreTSSPWriter) ----------
   one index row per key group in KeySorter order (a null strictly before every value), no trailing row, a null cell read
   as -infinity, the row behind the record as +infinity; a fragment is a key group, getSegmentRanges maps the kept groups
   to the segments that hold their rows (cnts = segments per group). *)

(* the cover lemma for ANY reading of a null cell: a null satisfies no comparison, so where it is put does not matter *)
Theorem C20_may_be_sound_any_null_reading : forall (rd : option Z -> bound), (forall z, rd (Some z) = Fin z) ->
  forall isint nonkey c rpn row L R,
  compile isint c = Some rpn -> eval_cond nonkey c row = true ->
  length L = used_keys rpn -> length R = used_keys rpn ->
  (used_keys rpn <= length row)%nat -> (used_keys rpn <= length isint)%nat ->
  lex_le L (map rd (firstn (used_keys rpn) row)) -> lex_le (map rd (firstn (used_keys rpn) row)) R ->
  may_be repaired isint rpn L R = true.
Proof. exact Grouped.may_be_sound_lex. Qed.
Print Assumptions C20_may_be_sound_any_null_reading.

Theorem C20_grouped_scan_sound : forall isint nonkey c rpn idx nk coarse minmarks i,
  compile isint c = Some rpn -> ks_sorted idx -> Forall (fun k => length k = nk) idx ->
  (used_keys rpn <= nk)%nat -> (used_keys rpn <= length isint)%nat ->
  (2 <= coarse)%nat -> (i < length idx)%nat ->
  eval_cond nonkey c (nth i idx []) = true ->
  exists rs, scan_g isint rpn idx coarse minmarks = ScanOk rs /\ covered i rs = true.
Proof. exact scan_g_sound. Qed.
Print Assumptions C20_grouped_scan_sound.

(* end to end: every SEGMENT of a key group whose key satisfies the condition lies in a segment range handed to the reader *)
Theorem C20_grouped_index_sound : forall isint nonkey c rpn idx cnts nk coarse minmarks i sg,
  compile isint c = Some rpn -> ks_sorted idx -> Forall (fun k => length k = nk) idx ->
  (used_keys rpn <= nk)%nat -> (used_keys rpn <= length isint)%nat ->
  (2 <= coarse)%nat -> (i < length idx)%nat ->
  eval_cond nonkey c (nth i idx []) = true ->
  (sum (firstn i cnts) <= sg)%nat -> (sg < sum (firstn (S i) cnts))%nat ->
  exists rs, scan_g isint rpn idx coarse minmarks = ScanOk rs /\ covered sg (seg_ranges cnts rs) = true.
Proof. exact grouped_index_sound. Qed.
Print Assumptions C20_grouped_index_sound.

(* ---------- the hypotheses are satisfiable: the refutation witnesses of Refuted.v, under the repaired model ---------- *)
Open Scope Z_scope.
Definition ex_keys : list key := [[Some 3; Some 2]; [Some 3; Some 5]; [Some 4; Some 0]; [Some 4; Some 1]; [Some 4; None]].
Definition ex_cond : cond := CAnd (CAtom 0 Ceq 3) (CAtom 1 Cne 1).

Example C20_example_hypotheses :
  sorted_lex ex_keys /\ Forall (fun k => length k = 2%nat) ex_keys /\
  Forall (fun z => 1 <= z)%nat [3%nat; 2%nat] /\ sum [3%nat; 2%nat] = length ex_keys /\
  (exists rpn, compile [false; true] ex_cond = Some rpn /\ used_keys rpn = 2%nat) /\
  frag_matches (fun _ => false) ex_cond [3%nat; 2%nat] ex_keys 0.
Proof.
  split; [|split; [|split; [|split; [|split]]]].
  - unfold sorted_lex, ex_keys.
    repeat (first [apply SSorted_cons | apply SSorted_nil | apply Forall_cons | apply Forall_nil]); unfold key_le;
      repeat (simpl; first [exact I | left; reflexivity | right; split; [reflexivity|]]).
  - repeat constructor.
  - repeat constructor.
  - reflexivity.
  - eexists. split; reflexivity.
  - exists [Some 3; Some 2]. split; [left; reflexivity | reflexivity].
Qed.

Example C20_example_scan :
  exists rpn, compile [false; true] ex_cond = Some rpn /\
    scan repaired [false; true] rpn (build_index [3%nat; 2%nat] ex_keys) 2 8 0 = ScanOk [(0, 1)%nat].
Proof. eexists. split; [vm_compute; reflexivity|]. vm_compute. reflexivity. Qed.

(* writer order with a null: the witness of finding C20-null-key-sort-order (f < 0.5 over (null)(0)(0)(1) in one
   fragment; floats by rank: pad -MaxFloat64 = 0, 0.0 = 1, 0.5 = 2, 1.0 = 3). The hypotheses of
   C20_scan_sound_writer_order hold and the repaired reader keeps the fragment. *)
Definition exn_keys : list key := [[None]; [Some 1]; [Some 1]; [Some 3]].
Example C20_example_writer_order :
  writer_sorted [0] exn_keys /\ ~ sorted_lex exn_keys /\
  frag_matches (fun _ => false) (CAtom 0 Clt 2) [4%nat] exn_keys 0 /\
  exists rpn, compile [false] (CAtom 0 Clt 2) = Some rpn /\
    scan repaired [false] rpn (read_index null_pad [0] (build_index [4%nat] exn_keys)) 1 8 0 = ScanOk [(0, 1)%nat].
Proof.
  split; [|split; [|split]].
  - apply sortedb_true. vm_compute. reflexivity.
  - intro H. inversion H as [|k r Hs Hall]; subst. inversion Hall as [|k' r' H1 _]; subst.
    unfold key_le in H1. simpl in H1. destruct H1 as [H1 | [H1 _]]; discriminate.
  - exists [Some 1]. split; [right; left; reflexivity | reflexivity].
  - eexists. split; [vm_compute; reflexivity|]. vm_compute. reflexivity.
Qed.

(* min-max: block (1,null)(3,7)(2,5), condition a >= 3 AND b < 6 has no matching row (pruned: canBeTrue = false would be
   allowed) but a >= 2 AND b < 6 has one, and the mark says so; a = 9 is pruned *)
Example C20_example_minmax :
  let block : list key := [[Some 1; None]; [Some 3; Some 7]; [Some 2; Some 5]] in
  mm_rect 2 block = [mkR (Fin 1) (Fin 3) true true; mkR (Fin 5) (Fin 7) true true] /\
  (exists rpn, compile [true; true] (CAnd (CAtom 0 Cge 2) (CAtom 1 Clt 6)) = Some rpn /\
               option_map can_t (check_in_range rpn (mm_rect 2 block)) = Some true) /\
  (exists rpn, compile [true; true] (CAtom 0 Ceq 9) = Some rpn /\
               option_map can_t (check_in_range rpn (mm_rect 2 block)) = Some false).
Proof.
  split; [vm_compute; reflexivity|]. split; eexists; (split; [vm_compute; reflexivity|]); vm_compute; reflexivity.
Qed.

(* three files; the skip index drops everything the primary index kept in file 1; file 2 is still delivered (the shape of
   the seeded defect "the file after a file emptied by the skip index is never scanned"), in one call and in batches of 1 *)
Example C20_example_attached_reader :
  let files := [mkF [(0, 2)%nat] (fun _ => true); mkF [(0, 3)%nat] (fun _ => false); mkF [(1, 3)%nat] (fun j => Nat.eqb j 2)] in
  delivered files None = [(0, [(0, 2)]); (2, [(2, 3)])]%nat /\
  drain 4 files 0 (Some 1%nat) = [[(0, [(0, 2)])]; [(2, [(2, 3)])]]%nat.
Proof. split; vm_compute; reflexivity. Qed.

(* key-grouped index (bool, string by rank: '' = 0, 'B' = 2, 'C' = 3): groups (null,'B') (null,'C') (false,null) (false,'')
   (true,''); the second group spans two segments; k1 > 'B' keeps group 1 and its segments 1..2 *)
Example C20_example_grouped :
  let idx : list key := [[None; Some 2]; [None; Some 3]; [Some 0; None]; [Some 0; Some 0]; [Some 1; Some 0]] in
  ks_sorted idx /\
  exists rpn, compile [false; false] (CAtom 1 Cgt 2) = Some rpn /\
    exists rs, scan_g [false; false] rpn idx 8 0 = ScanOk rs /\ covered 1 rs = true /\
               covered 1 (seg_ranges [1; 2; 1; 1; 1]%nat rs) = true /\ covered 2 (seg_ranges [1; 2; 1; 1; 1]%nat rs) = true.
Proof.
  split; [apply ks_sortedb_true; vm_compute; reflexivity|].
  eexists. split; [vm_compute; reflexivity|]. eexists. split; [vm_compute; reflexivity|]. repeat split; vm_compute; reflexivity.
Qed.
