(* C20 property theorems. Nothing but statements closed by `exact lemma` and Print Assumptions. *)
From Coq Require Import ZArith List Bool.
From OG Require Import C20.Model C20.Proofs.
Import ListNotations.
Open Scope Z_scope.

(* mark_sound: CheckInRange over a hyper-rectangle never says "cannot be true" when some row of the rectangle
   satisfies the condition (for every condition tree NewKeyCondition accepts, every rectangle, every row; a null
   column value is admitted in every column range). *)
Theorem C20_mark_sound : forall isint nonkey c rpn rgs row,
  compile isint c = Some rpn -> rect_has rgs row -> eval_cond nonkey c row = true ->
  check_in_range rpn rgs = Some (mark_of isint c rgs) /\ can_t (mark_of isint c rgs) = true.
Proof. exact mark_sound. Qed.
Print Assumptions C20_mark_sound.
