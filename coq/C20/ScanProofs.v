(* C20 - lemmas, part 3: the primary index over a sorted key list cut into fragments (C20_may_be_sound), binary
   search and exclusion search never drop a fragment that contains a matching row (scan soundness). *)
From Coq Require Import ZArith List Bool Arith Lia ZifyBool Sorted.
From OG Require Import C20.Model C20.Proofs C20.Cover.
Import ListNotations.
Open Scope nat_scope.

(* ---------- sorted key lists ---------- *)
Definition key_le (a b : key) : Prop := lex_le (map kb a) (map kb b).
Definition sorted_lex (keys : list key) : Prop := StronglySorted key_le keys.

Lemma sorted_nth : forall keys, sorted_lex keys ->
  forall p q, p <= q -> q < length keys -> key_le (nth p keys []) (nth q keys []).
Proof.
  induction 1 as [|k keys Hs IH Hall]; intros p q Hpq Hq; simpl in *; [lia|].
  destruct p, q; try lia.
  - apply lex_le_refl.
  - rewrite Forall_forall in Hall. apply Hall. apply nth_In. lia.
  - apply IH; lia.
Qed.

(* ---------- fragment starts ---------- *)
Fixpoint sum (l : list nat) : nat := match l with [] => 0 | x :: r => x + sum r end.

Lemma starts_from_length : forall sizes a, length (starts_from a sizes) = length sizes.
Proof. induction sizes; intros; simpl; auto. Qed.

Lemma starts_from_nth : forall sizes a j, j < length sizes ->
  nth j (starts_from a sizes) 0 = a + sum (firstn j sizes).
Proof.
  induction sizes as [|s sizes IH]; intros a j Hj; simpl in *; [lia|].
  destruct j; simpl; [lia|]. rewrite IH by lia. lia.
Qed.

Lemma sum_firstn_mono : forall l i j, i <= j -> sum (firstn i l) <= sum (firstn j l).
Proof.
  induction l as [|x l IH]; intros i j H; destruct i, j; simpl; try lia.
  specialize (IH i j). lia.
Qed.
Lemma sum_firstn_S : forall l i, i < length l -> sum (firstn (S i) l) = sum (firstn i l) + nth i l 0.
Proof.
  induction l as [|x l IH]; intros i H; simpl in *; [lia|]. destruct i; simpl; [lia|].
  rewrite <- Nat.add_assoc. f_equal. apply (IH i). lia.
Qed.
Lemma sum_firstn_all : forall l i, length l <= i -> sum (firstn i l) = sum l.
Proof. intros. now rewrite firstn_all2. Qed.
Lemma sum_firstn_lt : forall l i, Forall (fun z => 1 <= z) l -> i < length l -> sum (firstn i l) < sum l.
Proof.
  induction l as [|x l IH]; intros i Hf Hi; simpl in *; [lia|]. inversion Hf; subst.
  destruct i; simpl; [lia|]. specialize (IH i H2). lia.
Qed.

Lemma nth_skipn_add : forall {A} (l : list A) a k d, nth k (skipn a l) d = nth (a + k) l d.
Proof.
  induction l as [|x l IH]; intros a k d; destruct a; simpl; auto. destruct k; auto.
Qed.

Lemma In_firstn_skipn : forall {A} (l : list A) a n x d, In x (firstn n (skipn a l)) ->
  exists p, a <= p /\ p < a + n /\ p < length l /\ x = nth p l d.
Proof.
  intros A l a n x d H.
  apply (In_nth _ _ d) in H. destruct H as (k & Hk & E).
  rewrite firstn_length, skipn_length in Hk.
  exists (a + k). repeat split; try lia.
  rewrite <- E. rewrite nth_firstn_lt by lia. now rewrite nth_skipn_add.
Qed.

Lemma last_nth : forall {A} (l : list A) d, last l d = nth (length l - 1) l d.
Proof.
  induction l as [|x l IH]; intros d; simpl; auto.
  destruct l; simpl in *; auto. rewrite IH. simpl. now rewrite Nat.sub_0_r.
Qed.

(* rows of the index: row j < n is the first key of fragment j, row n is the last key *)
Lemma index_row : forall sizes keys j, j <= length sizes ->
  nth j (build_index sizes keys) [] =
  if j <? length sizes then nth (sum (firstn j sizes)) keys [] else nth (length keys - 1) keys [].
Proof.
  intros sizes keys j Hj. unfold build_index, starts.
  destruct (j <? length sizes) eqn:E.
  - apply Nat.ltb_lt in E. rewrite app_nth1 by (rewrite map_length, starts_from_length; auto).
    rewrite (nth_indep _ [] (nth 0 keys [])) by (rewrite map_length, starts_from_length; auto).
    rewrite (map_nth (fun st => nth st keys [])). rewrite starts_from_nth by auto. reflexivity.
  - apply Nat.ltb_ge in E. assert (j = length sizes) by lia. subst j.
    rewrite app_nth2 by (rewrite map_length, starts_from_length; auto).
    rewrite map_length, starts_from_length, Nat.sub_diag. simpl. apply last_nth.
Qed.

(* every row of fragment i lies lexicographically between index rows s and e, for s <= i < e *)
Lemma fragment_between : forall sizes keys s i e row,
  sorted_lex keys -> Forall (fun z => 1 <= z) sizes -> sum sizes = length keys ->
  s <= i -> i < e -> e <= length sizes ->
  In row (frag_rows sizes keys i) ->
  In row keys /\
  key_le (nth s (build_index sizes keys) []) row /\ key_le row (nth e (build_index sizes keys) []).
Proof.
  intros sizes keys s i e row Hs Hpos Hsum Hsi Hie Hen Hin.
  unfold frag_rows, starts in Hin. rewrite starts_from_nth in Hin by lia. simpl in Hin.
  destruct (In_firstn_skipn _ _ _ _ [] Hin) as (p & Hp1 & Hp2 & Hp3 & Erow).
  assert (Hi1 : sum (firstn (S i) sizes) = sum (firstn i sizes) + nth i sizes 0) by (apply sum_firstn_S; lia).
  split; [subst row; apply nth_In; auto|].
  split.
  - rewrite index_row by lia. replace (s <? length sizes) with true by (symmetry; apply Nat.ltb_lt; lia).
    subst row. apply sorted_nth; auto. pose proof (sum_firstn_mono sizes s i Hsi). lia.
  - rewrite index_row by lia. destruct (e <? length sizes) eqn:E.
    + apply Nat.ltb_lt in E. subst row. apply sorted_nth; auto.
      * pose proof (sum_firstn_mono sizes (S i) e Hie). lia.
      * rewrite <- Hsum. apply sum_firstn_lt; auto.
    + subst row. apply sorted_nth; auto; unfold key in *; lia.
Qed.

(* C20_may_be_sound: a fragment in [s,e) contains a satisfying row => MayBeInRange over index rows s,e is true *)
Lemma may_be_sound : forall isint nonkey c rpn keys sizes nk s i e row,
  compile isint c = Some rpn ->
  sorted_lex keys -> Forall (fun k => length k = nk) keys ->
  used_keys rpn <= nk -> used_keys rpn <= length isint ->
  Forall (fun z => 1 <= z) sizes -> sum sizes = length keys ->
  s <= i -> i < e -> e <= length sizes ->
  In row (frag_rows sizes keys i) -> eval_cond nonkey c row = true ->
  may_range repaired isint rpn (build_index sizes keys) s e = true.
Proof.
  intros isint nonkey c rpn keys sizes nk s i e row Hc Hs Hlen Hu Hty Hpos Hsum Hsi Hie Hen Hin He.
  destruct (fragment_between sizes keys s i e row Hs Hpos Hsum Hsi Hie Hen Hin) as (Hk & H1 & H2).
  unfold may_range.
  rewrite Forall_forall in Hlen.
  assert (Hrow : length row = nk) by auto.
  assert (HnthIn : forall j, j <= length sizes -> In (nth j (build_index sizes keys) []) keys).
  { intros j Hj. rewrite index_row by auto.
    assert (0 < length keys) by (destruct keys; simpl in *; [contradiction|lia]).
    destruct (j <? length sizes) eqn:E; apply nth_In; try lia.
    apply Nat.ltb_lt in E. rewrite <- Hsum. apply sum_firstn_lt; auto. }
  assert (Ls : length (nth s (build_index sizes keys) []) = nk) by (apply Hlen, HnthIn; lia).
  assert (Le : length (nth e (build_index sizes keys) []) = nk) by (apply Hlen, HnthIn; lia).
  eapply may_be_sound_lex with (row := row); eauto; try lia.
  - rewrite map_length, firstn_length_le; lia.
  - rewrite map_length, firstn_length_le; lia.
  - rewrite <- !firstn_map. apply lex_le_firstn. exact H1.
  - rewrite <- !firstn_map. apply lex_le_firstn. exact H2.
Qed.

(* ---------- the two searches, over an abstract sound [may] ---------- *)
Section Search.
  Variable may : nat -> nat -> bool.
  Variable n : nat.
  Variable hasmatch : nat -> Prop.
  Hypothesis may_sound : forall s i e, s <= i -> i < e -> e <= n -> hasmatch i -> may s e = true.

  Lemma div2_between : forall l r, l + 1 < r -> l < (l + r) / 2 /\ (l + r) / 2 < r.
  Proof.
    intros l r H. split.
    - apply Nat.div_le_lower_bound; lia.
    - apply Nat.div_lt_upper_bound; lia.
  Qed.

  Lemma bs_left_inv : forall fuel left right, left <= right -> right <= n ->
    (forall j, j < left -> ~ hasmatch j) ->
    (forall j, j < bs_left fuel may left right -> ~ hasmatch j) /\ bs_left fuel may left right <= n.
  Proof.
    induction fuel as [|f IH]; intros left right H1 H2 Hinv; cbn [bs_left].
    - split; auto. lia.
    - destruct (left + 1 <? right) eqn:E.
      + apply Nat.ltb_lt in E. destruct (div2_between _ _ E) as [M1 M2].
        destruct (may 0 ((left + right) / 2)) eqn:Em.
        * apply IH; auto; lia.
        * apply IH; auto; try lia.
          intros j Hj Hm. assert (X : may 0 ((left + right) / 2) = true) by (apply (may_sound 0 j); auto; lia). congruence.
      + split; auto. lia.
  Qed.

  Lemma bs_right_inv : forall fuel left right, left <= right -> right <= n ->
    (forall j, right <= j -> j < n -> ~ hasmatch j) ->
    (forall j, bs_right fuel may n left right <= j -> j < n -> ~ hasmatch j) /\ bs_right fuel may n left right <= n.
  Proof.
    induction fuel as [|f IH]; intros left right H1 H2 Hinv; cbn [bs_right].
    - split; auto.
    - destruct (left + 1 <? right) eqn:E.
      + apply Nat.ltb_lt in E. destruct (div2_between _ _ E) as [M1 M2].
        destruct (may ((left + right) / 2) n) eqn:Em.
        * apply IH; auto; lia.
        * apply IH; auto; try lia.
          intros j Hj Hn Hm. assert (X : may ((left + right) / 2) n = true) by (apply (may_sound _ j); auto; lia). congruence.
      + split; auto.
  Qed.

  Lemma covered_single : forall i a b, a <= i -> i < b -> covered i [(a, b)] = true.
  Proof.
    intros. unfold covered; simpl. rewrite orb_false_r. apply andb_true_iff. split.
    - now apply Nat.leb_le.
    - now apply Nat.ltb_lt.
  Qed.

  Lemma scan_binary_sound : forall i, i < n -> hasmatch i -> covered i (scan_binary may n) = true.
  Proof.
    intros i Hi Hm. unfold scan_binary.
    assert (HL : (forall j, j < bs_left n may 0 n -> ~ hasmatch j) /\ bs_left n may 0 n <= n).
    { apply bs_left_inv; try lia; intros j Hj; lia. }
    destruct HL as [L1 L2].
    set (st := bs_left n may 0 n) in *.
    assert (HR : (forall j, bs_right n may n st n <= j -> j < n -> ~ hasmatch j) /\ bs_right n may n st n <= n).
    { apply bs_right_inv; try lia; intros j H1 H2; lia. }
    destruct HR as [R1 R2].
    set (en := bs_right n may n st n) in *.
    assert (Hst : st <= i). { destruct (Nat.le_gt_cases st i); auto. exfalso. eapply L1; eauto. }
    assert (Hen : i < en). { destruct (Nat.le_gt_cases en i); auto. exfalso. eapply R1; eauto. }
    replace (st <? en) with true by (symmetry; apply Nat.ltb_lt; lia).
    assert (X : may st en = true) by (apply (may_sound st i); auto). rewrite X. simpl andb. cbv iota. now apply covered_single.
  Qed.

  (* ----- exclusion search ----- *)
  Inductive chain : nat -> nat -> list (nat * nat) -> Prop :=
  | chain_one : forall a b, a < b -> chain a b [(a, b)]
  | chain_cons : forall a b c rest, a < b -> chain b c rest -> chain a c ((a, b) :: rest).

  Lemma pieces_aux_chain : forall fuel step start en acc E,
    1 <= step -> start < en ->
    ((acc = [] /\ en = E) \/ chain en E acc) ->
    chain start E (pieces_aux fuel start en step acc).
  Proof.
    induction fuel as [|f IH]; intros step start en acc E Hs Hlt Hacc; simpl.
    - destruct Hacc as [[-> ->] | Hc]; [apply chain_one | apply chain_cons]; auto.
    - destruct (start + step <? en) eqn:Ec.
      + apply Nat.ltb_lt in Ec. apply IH; auto; try lia. right.
        destruct Hacc as [[-> ->] | Hc]; [apply chain_one | apply chain_cons]; auto; lia.
      + destruct Hacc as [[-> ->] | Hc]; [apply chain_one | apply chain_cons]; auto.
  Qed.

  Lemma pieces_chain : forall s e coarse, s < e -> chain s e (pieces s e coarse).
  Proof.
    intros. unfold pieces. apply pieces_aux_chain; auto; lia.
  Qed.

  (* accumulated result: well-formed ranges that end at or before x *)
  Definition bounded (acc : list (nat * nat)) (x : nat) : Prop :=
    Forall (fun p => fst p <= snd p /\ snd p <= x) acc.

  Lemma bounded_mono : forall acc x y, bounded acc x -> x <= y -> bounded acc y.
  Proof. unfold bounded. intros acc x y H Hxy. eapply Forall_impl; [|exact H]. simpl. intros; lia. Qed.

  Lemma add_single_props : forall m acc s, bounded acc s ->
    bounded (add_single m acc s) (s + 1) /\
    (forall j, covered j acc = true -> covered j (add_single m acc s) = true) /\
    covered s (add_single m acc s) = true.
  Proof.
    intros m acc s Hb. unfold add_single. destruct acc as [|[a b] t].
    - repeat split.
      + constructor; simpl; auto. lia.
      + intros j H. discriminate.
      + apply covered_single; lia.
    - inversion Hb as [|x l [Hab Hbs] Ht]; subst. simpl in Hab, Hbs.
      destruct (m <? s - b) eqn:E.
      + repeat split.
        * constructor; simpl; [lia|]. constructor; simpl; [lia|]. eapply bounded_mono; eauto. lia.
        * intros j H. unfold covered in *. simpl in *. rewrite H. apply orb_true_r.
        * unfold covered. simpl. replace (s <=? s) with true by (symmetry; apply Nat.leb_le; lia).
          replace (s <? s + 1) with true by (symmetry; apply Nat.ltb_lt; lia). reflexivity.
      + repeat split.
        * constructor; simpl; [lia|]. eapply bounded_mono; eauto. lia.
        * intros j H. unfold covered in *. simpl in *. apply orb_true_iff in H. apply orb_true_iff.
          destruct H as [H | H]; auto. left. apply andb_true_iff in H. destruct H as [H1 H2].
          apply andb_true_iff. split; auto. apply Nat.ltb_lt in H2. apply Nat.ltb_lt. lia.
        * unfold covered. simpl. replace (a <=? s) with true by (symmetry; apply Nat.leb_le; lia).
          replace (s <? s + 1) with true by (symmetry; apply Nat.ltb_lt; lia). reflexivity.
  Qed.

  Definition excl_post (s e : nat) (acc acc' : list (nat * nat)) : Prop :=
    bounded acc' e /\
    (forall j, covered j acc = true -> covered j acc' = true) /\
    (forall j, s <= j -> j < e -> hasmatch j -> covered j acc' = true).

  Lemma chain_lt : forall a c ps, chain a c ps -> a < c.
  Proof. induction 1; lia. Qed.

  Lemma fold_chain : forall (F : nat -> nat -> list (nat * nat) -> list (nat * nat)),
    (forall s e acc, s < e -> e <= n -> bounded acc s -> excl_post s e acc (F s e acc)) ->
    forall a c ps, chain a c ps -> c <= n -> forall acc, bounded acc a ->
    excl_post a c acc (fold_left (fun a0 p => F (fst p) (snd p) a0) ps acc).
  Proof.
    intros F HF a c ps Hch. induction Hch as [a b Hab | a b c rest Hab Hch IHch]; intros Hc acc Hb; simpl.
    - apply HF; auto.
    - pose proof (chain_lt _ _ _ Hch) as Hbc.
      destruct (HF a b acc Hab ltac:(lia) Hb) as (B1 & M1 & C1).
      destruct (IHch Hc (F a b acc) B1) as (B2 & M2 & C2).
      repeat split; auto.
      intros j H1 H2 Hm. destruct (Nat.lt_ge_cases j b); auto.
  Qed.

  Lemma excl_sound : forall coarse minmarks fuel s e acc,
    s < e -> e <= n -> bounded acc s ->
    excl_post s e acc (excl fuel may coarse minmarks s e acc).
  Proof.
    intros coarse minmarks. induction fuel as [|f IH]; intros s e acc Hse Hen Hb; simpl.
    - repeat split.
      + constructor; simpl; [lia|]. eapply bounded_mono; eauto. lia.
      + intros j H. unfold covered in *. simpl. rewrite H. apply orb_true_r.
      + intros j H1 H2 _. unfold covered. simpl.
        replace (s <=? j) with true by (symmetry; apply Nat.leb_le; lia).
        replace (j <? e) with true by (symmetry; apply Nat.ltb_lt; lia). reflexivity.
    - destruct (may s e) eqn:Em; simpl.
      + destruct (e =? s + 1) eqn:Ee.
        * apply Nat.eqb_eq in Ee. subst e. destruct (add_single_props minmarks acc s Hb) as (B & M & C).
          repeat split; auto. intros j H1 H2 _. assert (j = s) by lia. subst j. exact C.
        * apply (fold_chain (excl f may coarse minmarks) IH s e); auto. now apply pieces_chain.
      + repeat split.
        * eapply bounded_mono; eauto. lia.
        * auto.
        * intros j H1 H2 Hm. assert (X : may s e = true) by (apply (may_sound s j); auto). congruence.
  Qed.

  Lemma covered_rev : forall i l, covered i (rev l) = covered i l.
  Proof.
    intros i l. unfold covered. induction l as [|x l IH]; simpl; auto.
    rewrite existsb_app, IH. simpl. rewrite orb_false_r. apply orb_comm.
  Qed.

  Lemma scan_exclusion_sound : forall coarse minmarks i, i < n -> hasmatch i ->
    covered i (scan_exclusion may coarse minmarks n) = true.
  Proof.
    intros coarse minmarks i Hi Hm. unfold scan_exclusion. rewrite covered_rev.
    destruct (excl_sound coarse minmarks (S n) 0 n []) as (_ & _ & C); try lia.
    - constructor.
    - apply C; auto. lia.
  Qed.
End Search.

(* ---------- PKIndexReaderImpl.Scan ---------- *)
Definition frag_matches (nonkey : nat -> bool) (c : cond) (sizes : list nat) (keys : list key) (i : nat) : Prop :=
  exists row, In row (frag_rows sizes keys i) /\ eval_cond nonkey c row = true.

Lemma scan_sound : forall isint nonkey c rpn keys sizes nk coarse minmarks i,
  compile isint c = Some rpn ->
  sorted_lex keys -> Forall (fun k => length k = nk) keys ->
  used_keys rpn <= nk -> used_keys rpn <= length isint ->
  Forall (fun z => 1 <= z) sizes -> sum sizes = length keys ->
  2 <= coarse -> i < length sizes ->
  frag_matches nonkey c sizes keys i ->
  exists rs, scan repaired isint rpn (build_index sizes keys) (length sizes) coarse minmarks = ScanOk rs /\
             covered i rs = true.
Proof.
  intros isint nonkey c rpn keys sizes nk coarse minmarks i Hc Hs Hlen Hu Hty Hpos Hsum Hco Hi Hm.
  assert (Hmay : forall s j e, s <= j -> j < e -> e <= length sizes -> frag_matches nonkey c sizes keys j ->
                               may_range repaired isint rpn (build_index sizes keys) s e = true).
  { intros s j e H1 H2 H3 (row & Hin & He). eapply may_be_sound; eauto. }
  unfold scan. destruct rpn as [|e0 rpn'] eqn:Erpn.
  - eexists. split; [reflexivity|]. apply covered_single; lia.
  - rewrite <- Erpn in *. rewrite (rpn_ok_compile _ _ _ Hc).
    destruct (used_keys rpn =? 1).
    + eexists. split; [reflexivity|]. eapply scan_binary_sound; eauto.
    + replace (coarse <=? 1) with false by (symmetry; apply Nat.leb_gt; lia).
      eexists. split; [reflexivity|]. eapply scan_exclusion_sound; eauto.
Qed.

(* both strategies are sound on their own (the choice made by CanDoBinarySearch is irrelevant for soundness) *)
Lemma both_strategies_sound : forall isint nonkey c rpn keys sizes nk coarse minmarks i,
  compile isint c = Some rpn ->
  sorted_lex keys -> Forall (fun k => length k = nk) keys ->
  used_keys rpn <= nk -> used_keys rpn <= length isint ->
  Forall (fun z => 1 <= z) sizes -> sum sizes = length keys ->
  i < length sizes -> frag_matches nonkey c sizes keys i ->
  let may := may_range repaired isint rpn (build_index sizes keys) in
  covered i (scan_binary may (length sizes)) = true /\
  covered i (scan_exclusion may coarse minmarks (length sizes)) = true.
Proof.
  intros isint nonkey c rpn keys sizes nk coarse minmarks i Hc Hs Hlen Hu Hty Hpos Hsum Hi Hm may.
  assert (Hmay : forall s j e, s <= j -> j < e -> e <= length sizes -> frag_matches nonkey c sizes keys j ->
                               may s e = true).
  { intros s j e H1 H2 H3 (row & Hin & He). eapply may_be_sound; eauto. }
  split.
  - eapply scan_binary_sound; eauto.
  - eapply scan_exclusion_sound; eauto.
Qed.
