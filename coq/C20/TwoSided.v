(* C20 - two-sided soundness of CheckInRange: canBeFalse is sound too (needed for NOT-like rewrites), for condition
   trees made of key-column comparisons only and rows whose compared columns are not null.
   The two restrictions are necessary for today's Mark values:
   - a predicate on a non-key column is AlwaysTrue = (true,false): canBeFalse is false although the predicate may be
     false on a row, so a NOT-like rewrite above it would be unsound;
   - a null compared with != evaluates to false in the row filter, while the rectangle [null,null] gives
     NotInRange the mark (true,false). *)
From Coq Require Import ZArith List Bool Arith Lia ZifyBool.
From OG Require Import C20.Model C20.Proofs.
Import ListNotations.
Open Scope Z_scope.

Fixpoint key_only (c : cond) : bool :=
  match c with
  | CAtom _ _ _ => true
  | CNonKey _ | CIn _ _ => false
  | CAnd a b | COr a b => key_only a && key_only b
  end.

Fixpoint nonnull_on (c : cond) (row : key) : Prop :=
  match c with
  | CAtom col _ _ => nth col row None <> None
  | CNonKey _ | CIn _ _ => True
  | CAnd a b | COr a b => nonnull_on a row /\ nonnull_on b row
  end.

Lemma atom_sound_false : forall isint col op v rgs x,
  cmp_holds op x v = false -> mem (nth col rgs whole) (Fin x) = true ->
  can_f (elem_mark (atom_elem isint col op v) rgs) = true.
Proof.
  intros isint col op v rgs x Hh Hm.
  destruct op; simpl in *.
  - destruct (contains (point (Fin v)) (nth col rgs whole)) eqn:E; auto.
    pose proof (contains_mem _ _ _ E Hm) as M. unfold mem, left_leq, right_geq in M; simpl in M. lia.
  - (* != false: x = v lies in the column range, so the point range intersects it *)
    apply (mem_intersects _ _ (Fin x)); auto. unfold mem, left_leq, right_geq; simpl. lia.
  - destruct (contains (norm_right isint (mkR NegInf (Fin v) false false)) (nth col rgs whole)) eqn:E; auto.
    pose proof (contains_mem _ _ _ E Hm) as M. rewrite norm_right_mem in M.
    unfold mem, left_leq, right_geq in M; simpl in M. lia.
  - destruct (contains (mkR NegInf (Fin v) false true) (nth col rgs whole)) eqn:E; auto.
    pose proof (contains_mem _ _ _ E Hm) as M. unfold mem, left_leq, right_geq in M; simpl in M. lia.
  - destruct (contains (norm_left isint (mkR (Fin v) PosInf false false)) (nth col rgs whole)) eqn:E; auto.
    pose proof (contains_mem _ _ _ E Hm) as M. rewrite norm_left_mem in M.
    unfold mem, left_leq, right_geq in M; simpl in M. lia.
  - destruct (contains (mkR (Fin v) PosInf true false) (nth col rgs whole)) eqn:E; auto.
    pose proof (contains_mem _ _ _ E Hm) as M. unfold mem, left_leq, right_geq in M; simpl in M. lia.
Qed.

Lemma mark_sound_two_sided : forall isint nonkey c rgs row,
  key_only c = true -> nonnull_on c row -> rect_has rgs row ->
  (eval_cond nonkey c row = true -> can_t (mark_of isint c rgs) = true) /\
  (eval_cond nonkey c row = false -> can_f (mark_of isint c rgs) = true).
Proof.
  induction c as [col op v | id | col vs | a IHa b IHb | a IHa b IHb]; intros rgs row Hk Hn Hr; simpl in *; try discriminate.
  - specialize (Hr col). destruct (nth col row None) as [x|]; [|contradiction].
    simpl in Hr. split; intro He; [eapply atom_sound | eapply atom_sound_false]; eauto.
  - apply andb_true_iff in Hk. destruct Hk as [Ka Kb]. destruct Hn as [Na Nb].
    destruct (IHa rgs row Ka Na Hr) as [A1 A2]. destruct (IHb rgs row Kb Nb Hr) as [B1 B2].
    split; intro He.
    + apply andb_true_iff in He. destruct He. rewrite A1, B1; auto.
    + apply andb_false_iff in He. destruct He as [He | He]; [rewrite A2 | rewrite B2]; auto. apply orb_true_r.
  - apply andb_true_iff in Hk. destruct Hk as [Ka Kb]. destruct Hn as [Na Nb].
    destruct (IHa rgs row Ka Na Hr) as [A1 A2]. destruct (IHb rgs row Kb Nb Hr) as [B1 B2].
    split; intro He.
    + apply orb_true_iff in He. destruct He as [He | He]; [rewrite A1 | rewrite B1]; auto. apply orb_true_r.
    + apply orb_false_iff in He. destruct He. rewrite A2, B2; auto.
Qed.

(* the two restrictions cannot be dropped *)
Example nonkey_can_f_unsound :
  eval_cond (fun _ => false) (CNonKey 0) [] = false /\ can_f (mark_of [] (CNonKey 0) []) = false.
Proof. split; reflexivity. Qed.
Example null_neq_can_f_unsound :
  let rgs := [point PosInf] in   (* the rectangle of a null key *)
  rect_has rgs [None] /\ eval_cond (fun _ => false) (CAtom 0 Cne 1) [None] = false /\
  can_f (mark_of [false] (CAtom 0 Cne 1) rgs) = false.
Proof. repeat split. intro col. destruct col as [|[|col]]; simpl; auto. Qed.
