(* C20 correspondence evaluator: runs the model variants (4 x 2 readings of a null index cell) on a harness case and compares with what the real code
   returned (NewKeyCondition error, Scan ranges, MayBeInRange per probe, CheckInRange marks per rectangle). *)
From Coq Require Import ZArith NArith List Bool Arith.
From OG Require Import C20.Model C20.NullOrder C20.BloomModel.
Import ListNotations.

Record ccase := mkC {
  c_isint : list bool; c_pads : list Z; c_keys : list key; c_sizes : list nat; c_cond : cond;
  c_coarse : nat; c_minmarks : nat; c_probes : list (nat * nat); c_rects : list (list range);
  c_detail : bool;
  (* checkInAnyRange driven with recorded call-back marks: (s, e), visited rectangles with their marks, final mark *)
  c_cbs : list ((nat * nat) * list (list range * (bool * bool)) * (Z * Z));
  (* implementation observables *)
  i_conderr : bool;
  i_scan : nat;                    (* 0 = ranges returned, 1 = error returned, 2 = panic *)
  i_ranges : list (nat * nat);
  i_maybe : list Z;                (* 1 / 0 / -1 error / -2 panic *)
  i_marks : list (Z * Z)           (* canBeTrue, canBeFalse as 1/0; (-1,-1) error; (-2,-2) panic *)
}.

(* order: (rb current, norm current) (rb current, norm repaired) (rb repaired, norm current) (rb repaired, norm repaired) *)
Definition variants : list variant := [mkV false true; mkV false false; mkV true true; mkV true false].
(* each of them under the two readings of a null index cell: entries 0..3 = +infinity (today), 4..7 = the pad value the
   writer's sort uses for a null (repaired createFieldRefFunc) *)
Definition variants_nr : list (null_reading * variant) :=
  map (pair null_posinf) variants ++ map (pair null_pad) variants.

Fixpoint list_eqb {A} (eqb : A -> A -> bool) (a b : list A) : bool :=
  match a, b with
  | [], [] => true
  | x :: a', y :: b' => eqb x y && list_eqb eqb a' b'
  | _, _ => false
  end.
Definition pair_eqb (a b : nat * nat) := Nat.eqb (fst a) (fst b) && Nat.eqb (snd a) (snd b).
Definition b2z (b : bool) : Z := if b then 1%Z else 0%Z.

Definition range_eqb (a b : range) : bool :=
  beq (lo a) (lo b) && beq (hi a) (hi b) && Bool.eqb (loi a) (loi b) && Bool.eqb (hii a) (hii b).
Fixpoint lookup_cb (tbl : list (list range * (bool * bool))) (rs : list range) : mark :=
  match tbl with
  | [] => mkM false true
  | (k, (t, f)) :: r => if list_eqb range_eqb k rs then mkM t f else lookup_cb r rs
  end.

Definition scan_matches (c : ccase) (m : scan_result) : bool :=
  match m, i_scan c with
  | ScanErr, 1 => true
  | ScanOk rs, 0 => list_eqb pair_eqb rs (i_ranges c)
  | _, _ => false
  end.

(* per variant: (mismatch mask, model cover per fragment, model may_be per probe).
   mask bits: 1 scan, 2 may_be, 4 marks, 8 condition error, 16 checkInAnyRange with recorded call-back marks *)
Definition eval_variant (c : ccase) (rpn : list elem) (NV : null_reading * variant) : nat * list bool * list bool :=
  let V := snd NV in
  let n := length (c_sizes c) in
  let idx := read_index (fst NV) (c_pads c) (build_index (c_sizes c) (c_keys c)) in
  let sc := scan V (c_isint c) rpn idx n (c_coarse c) (c_minmarks c) in
  let probes := map (fun f => (f, S f)) (seq 0 n) ++ c_probes c in
  let mb := map (fun p => may_range V (c_isint c) rpn idx (fst p) (snd p)) probes in
  let marks := map (fun rg => match check_in_range rpn rg with
                              | Some m => (b2z (can_t m), b2z (can_f m))
                              | None => ((-1)%Z, (-1)%Z) end) (c_rects c) in
  let cover := match sc with ScanOk rs => map (fun f => covered f rs) (seq 0 n) | ScanErr => [] end in
  let b1 := if scan_matches c sc then 0 else 1 in
  let b2 := if list_eqb Z.eqb (map b2z mb) (i_maybe c) then 0 else 2 in
  let b4 := if list_eqb (fun a b => Z.eqb (fst a) (fst b) && Z.eqb (snd a) (snd b)) marks (i_marks c) then 0 else 4 in
  let used := used_keys rpn in
  let cbok := forallb (fun x =>
                let '(se, tbl, fin) := x in
                let m := ciar V (lookup_cb tbl) (c_isint c)
                              (map kb (firstn used (nth (fst se) idx []))) (map kb (firstn used (nth (snd se) idx [])))
                              true true [] in
                Z.eqb (b2z (can_t m)) (fst fin) && Z.eqb (b2z (can_f m)) (snd fin)) (c_cbs c) in
  let b16 := if cbok then 0 else 16 in
  (b1 + b2 + b4 + b16, (if c_detail c then cover else []), (if c_detail c then mb else [])).

Definition eval_case (c : ccase) : list (nat * list bool * list bool) :=
  match compile (c_isint c) (c_cond c) with
  | None => [((if i_conderr c then 0 else 8), [], [])]
  | Some rpn =>
      if i_conderr c then [(8, [], [])] else map (eval_variant c rpn) variants_nr
  end.

Definition interesting (r : list (nat * list bool * list bool)) : bool :=
  existsb (fun x => negb (Nat.eqb (fst (fst x)) 0)) r.

Fixpoint results_from (k : nat) (cs : list ccase) : list (nat * list (nat * list bool * list bool)) :=
  match cs with
  | [] => []
  | c :: r =>
      let e := eval_case c in
      if interesting e || c_detail c then (k, e) :: results_from (S k) r else results_from (S k) r
  end.
Definition results := results_from 0.

(* ---------- bloom-filter skip index stream ----------
   an atom of a harness case: (on the reader's file column, is MATCHPHRASE, column in the reader's schema, measured
   single-predicate hit of this segment). The kept/pruned decision of the compound condition is predicted from the
   measured single-predicate hits with the model's expression evaluation (hash independent). *)
Definition katom := (bool * bool * bool * bool)%type.
Definition katom_hit (a : katom) : bool := let '(fc, im, _, h) := a in if fc && im then h else true.
Definition katom_inschema (a : katom) : bool := let '(_, _, s, _) := a in s.
Definition bloom_predict (e : sk katom) : bool := sk_kept katom_hit katom_inschema e.

(* case = list over segments of (expression with that segment's hits, kept by the implementation) *)
Fixpoint bloom_results_from (k : nat) (cs : list (list (sk katom * bool))) : list (nat * list bool) :=
  match cs with
  | [] => []
  | c :: r =>
      let pred := map (fun x => bloom_predict (fst x)) c in
      if list_eqb Bool.eqb pred (map snd c) then bloom_results_from (S k) r
      else (k, pred) :: bloom_results_from (S k) r
  end.
Definition bloom_results := bloom_results_from 0.

(* ---------- tokenizer tie ----------
   the split table as the list of its split bytes; per value: (bytes, the byte-level tokens the harness computed and
   checked against the real SimpleTokenizer's hash sequence); per pair: (phrase, value, the real SimpleTokenFinder's
   answer). Returns the indices where TokModel.tokens / TokModel.finder differ. *)
From OG Require C20.TokModel.
Fixpoint mism_from {A} (bad : A -> bool) (k : nat) (l : list A) : list nat :=
  match l with
  | [] => []
  | x :: r => if bad x then k :: mism_from bad (S k) r else mism_from bad (S k) r
  end.
Definition tok_results (splitbytes : list N) (vals : list (list N * list (list N)))
                       (pairs : list (list N * list N * bool)) : list nat * list nat :=
  let split := fun b => existsb (N.eqb b) splitbytes in
  (mism_from (fun x => negb (list_eqb (list_eqb N.eqb) (TokModel.tokens split (fst x)) (snd x))) 0 vals,
   mism_from (fun x => negb (Bool.eqb (TokModel.finder split (fst (fst x)) (snd (fst x))) (snd x))) 0 pairs).

(* ---------- the reader above the single indexes (Multi.v) ----------
   a case: per file (primary-key ranges, MayBeInFragment per fragment), the batch setting, and what the implementation's
   successive Next() calls delivered: lists of (file index, ranges). *)
From OG Require C20.Multi.
Definition mcase := (list (list (nat * nat) * list bool) * option nat * list (list (nat * list (nat * nat))))%type.
Definition multi_ok (c : mcase) : bool :=
  let '(fs, batch, impl) := c in
  let files := map (fun p => Multi.mkF (fst p) (fun j => nth j (snd p) true)) fs in
  list_eqb (list_eqb (fun a b => Nat.eqb (fst a) (fst b) && list_eqb pair_eqb (snd a) (snd b)))
           (Multi.drain (S (length files)) files 0 batch) impl.
Definition multi_results (cs : list mcase) : list nat := mism_from (fun c => negb (multi_ok c)) 0 cs.

(* ---------- the key-grouped index of the attached flush (Grouped.v) ----------
   per case: the index rows (key groups) as the real sortRecord produced them, segments per group and segment offsets (the
   two halves of __fragment__), the condition, reader settings; implementation: NewKeyCondition error, Scan (fragment ranges),
   getSegmentRanges. Result per case: mismatch mask under the reading "null = -infinity" (repaired), mask under the reading
   "null = pad value" (the reading a93f46a applies to every index), groups covered under the first reading.
   mask bits: 1 fragment ranges, 2 segment ranges, 4 the index rows are not in KeySorter order, 8 condition error,
   16 the segment offsets are not the prefix sums of the segment counts. *)
From OG Require C20.Grouped.
Record gcase := mkG {
  g_isint : list bool; g_pads : list Z; g_idx : list key; g_cnts : list nat; g_offs : list nat; g_cond : cond;
  g_coarse : nat; g_minmarks : nat;
  g_conderr : bool; g_scan : nat; g_ranges : list (nat * nat); g_segranges : list (nat * nat) }.

Definition g_mask (c : gcase) (rpn : list elem) (idx : list key) : nat * list bool :=
  let sc := Grouped.scan_g (g_isint c) rpn idx (g_coarse c) (g_minmarks c) in
  let b1 := match sc, g_scan c with
            | ScanErr, 1 => 0
            | ScanOk rs, 0 => if list_eqb pair_eqb rs (g_ranges c) then 0 else 1
            | _, _ => 1 end in
  let b2 := match sc with
            | ScanOk rs => if list_eqb pair_eqb (Grouped.seg_ranges (g_cnts c) rs) (g_segranges c) then 0 else 2
            | ScanErr => 0 end in
  let cover := match sc with ScanOk rs => map (fun f => covered f rs) (seq 0 (length idx)) | ScanErr => [] end in
  (b1 + b2, cover).

Definition g_eval (c : gcase) : nat * nat * list bool :=
  let b4 := if Grouped.ks_sortedb (g_idx c) then 0 else 4 in
  let b16 := if list_eqb Nat.eqb (g_offs c) (map (fun i => ScanProofs.sum (firstn i (g_cnts c))) (seq 0 (length (g_cnts c)))) then 0 else 16 in
  match compile (g_isint c) (g_cond c) with
  | None => ((if g_conderr c then 0 else 8) + b4 + b16, (if g_conderr c then 0 else 8) + b4 + b16, [])
  | Some rpn =>
      if g_conderr c then (8 + b4 + b16, 8 + b4 + b16, [])
      else
        let '(m1, cov) := g_mask c rpn (g_idx c) in
        let '(m2, _) := g_mask c rpn (map (NullOrder.padk (g_pads c)) (g_idx c)) in
        (m1 + b4 + b16, m2 + b4 + b16, cov)
  end.
Definition grouped_results (cs : list gcase) : list (nat * nat * list bool) := map g_eval cs.

(* UTF-8 aware tokens (UtfTok.utokens) against the harness's tokens, which are checked against the real
   SimpleUtf8Tokenizer's hash sequence: the indices of the values where they differ *)
From OG Require C20.UtfTok.
Definition utok_results (splitbytes : list N) (vals : list (list N * list (list N))) : list nat :=
  let split := fun b => existsb (N.eqb b) splitbytes in
  mism_from (fun x => negb (list_eqb (list_eqb N.eqb) (UtfTok.utokens split (fst x)) (snd x))) 0 vals.
