(* C20 - bloom-filter skip index, repaired reader: a phrase from which the reader derives no token says nothing about the
   block ("may match"; today's LineFilterReader / VerticalFilterReader answer "absent"), and the premise about the
   tokenizers is needed only for the values of the block and only as an inclusion (no "the phrase has a token").
   props/C20/fix5.patch. *)
From Coq Require Import List Bool Arith Lia.
From OG Require Import C20.BloomModel C20.BloomProofs.
Import ListNotations.

Section BloomRepair.
  Variable token : Type.
  Variable hashpos : token -> list nat.
  Variable value phrase : Type.
  Variable vtokens : value -> list token.
  Variable ptokens : phrase -> list token.
  Variable pmatch : phrase -> value -> bool.

  (* hitExpr on one predicate, repaired: every token of the phrase must hit; no token = nothing known = may match *)
  Definition pred_hit_r (f0 : nat) (F : filter) (a : pred phrase) : bool :=
    match a with
    | PMatch _ c p => if c =? f0 then forallb (query token hashpos F) (ptokens p) else true
    | POther _ _ _ => true
    end.
  Definition bloom_kept_r (f0 : nat) (inschema : nat -> bool) (F : filter) (e : sk (pred phrase)) : bool :=
    sk_kept (pred_hit_r f0 F) (fun a => inschema (pcol phrase a)) e.

  (* the repaired reader never prunes more than today's *)
  Lemma pred_hit_le : forall f0 F a,
    pred_hit token hashpos phrase ptokens f0 F a = true -> pred_hit_r f0 F a = true.
  Proof.
    intros f0 F [c p | c id]; simpl; auto. destruct (c =? f0); auto. destruct (ptokens p); [discriminate | auto].
  Qed.

  Lemma pred_hit_r_sound : forall other f0 (rows : list (row value)) r a,
    (forall r v p, In r rows -> r f0 = Some v -> pmatch p v = true -> incl (ptokens p) (vtokens v)) ->
    In r rows -> eval_pred value phrase pmatch other r a = true ->
    pred_hit_r f0 (block_filter token hashpos value vtokens f0 rows) a = true.
  Proof.
    intros other f0 rows r [c p | c id] Hm Hr He; simpl in *; auto.
    destruct (Nat.eqb_spec c f0) as [-> | Hne]; auto.
    destruct (r f0) as [v|] eqn:Ev; [|discriminate].
    apply forallb_forall. intros t Ht. apply bloom_no_false_negative.
    eapply block_tokens_in; eauto. eapply Hm; eauto.
  Qed.

  Lemma bloom_skip_sound_r : forall other f0 inschema (rows : list (row value)) r e,
    (forall r v p, In r rows -> r f0 = Some v -> pmatch p v = true -> incl (ptokens p) (vtokens v)) ->
    In r rows -> sk_fold (eval_pred value phrase pmatch other r) e = true ->
    bloom_kept_r f0 inschema (block_filter token hashpos value vtokens f0 rows) e = true.
  Proof.
    intros other f0 inschema rows r e Hm Hr He. unfold bloom_kept_r, sk_kept.
    assert (Hw : sk_fold (pred_hit_r f0 (block_filter token hashpos value vtokens f0 rows)) e = true).
    { eapply sk_fold_mono; [|exact He]. intros a Ha. eapply pred_hit_r_sound; eauto. }
    rewrite Hw. apply sk_fold_all_true. intro a. destruct (inschema (pcol phrase a)); reflexivity.
  Qed.
End BloomRepair.
