(* C20 - the UTF-8 aware tokenizer the bloom-filter writer uses since 9dd9491 (SimpleUtf8Tokenizer.Next, with the bound of
   fix8.patch) and the reader looks phrases up by, on byte strings:
     a split character of the table (a byte < 0x80 with splitTable > 0) separates tokens,
     a run of other bytes < 0x80 is a token,
     a byte >= 0x80 starts a character token of 2 (<= 0xdf), 3 (<= 0xef) or 4 (<= 0xf7) bytes, a byte > 0xf7 is passed over;
     a value that ends inside such a character: what is left of it is the token.
   Proved: for VALID UTF-8 value and phrase, whenever SimpleTokenFinder (TokModel.finder - the row semantics of MATCHPHRASE)
   matches the phrase in the value, every token of the phrase is a token of the value. With C20_finder_tokens_incl (ASCII,
   byte-level tokens) this removes the last premise about the tokenizers from the bloom-filter theorems. *)
From Coq Require Import List Bool Arith NArith Lia ZifyBool ZifyN.
From OG Require Import C20.TokModel C20.TokProofs.
Import ListNotations.
Local Open Scope N_scope.

Section UtfTok.
  Variable split : N -> bool.

  (* bytes of the character a byte >= 0x80 starts; 0 = the byte is passed over *)
  Definition clen (b : N) : nat :=
    if b <=? 223 then 2%nat else if b <=? 239 then 3%nat else if b <=? 247 then 4%nat else 0%nat.

  Inductive ust :=
  | UA (cur : list N)                 (* between characters; cur = the ASCII run being read, newest first *)
  | UM (k : nat) (acc : list N).      (* inside a multi-byte character: k more bytes belong to it *)

  Fixpoint urun (s : list N) (st : ust) : list (list N) * ust :=
    match s with
    | [] => ([], st)
    | b :: s' =>
        match st with
        | UM (S (S k)) acc => urun s' (UM (S k) (b :: acc))
        | UM _ acc => let (o, e) := urun s' (UA []) in (rev (b :: acc) :: o, e)
        | UA cur =>
            if b <? 128 then
              (if split b then (let (o, e) := urun s' (UA []) in (flush cur ++ o, e)) else urun s' (UA (b :: cur)))
            else
              match clen b with
              | O => let (o, e) := urun s' (UA []) in (flush cur ++ o, e)
              | S k => let (o, e) := urun s' (UM k [b]) in (flush cur ++ o, e)
              end
        end
    end.
  Definition uflush (st : ust) : list (list N) :=
    match st with UA cur => flush cur | UM _ acc => [rev acc] end.
  Definition utokens (s : list N) : list (list N) := let (o, e) := urun s (UA []) in o ++ uflush e.

  (* ---------- valid UTF-8 (by length classes; overlong forms and surrogates are not excluded - not needed) ---------- *)
  Definition contb (b : N) : Prop := 128 <= b /\ b <= 191.
  Inductive valid : list N -> Prop :=
  | v_nil : valid []
  | v_1 : forall b s, b < 128 -> valid s -> valid (b :: s)
  | v_2 : forall b c1 s, 192 <= b -> b <= 223 -> contb c1 -> valid s -> valid (b :: c1 :: s)
  | v_3 : forall b c1 c2 s, 224 <= b -> b <= 239 -> contb c1 -> contb c2 -> valid s -> valid (b :: c1 :: c2 :: s)
  | v_4 : forall b c1 c2 c3 s, 240 <= b -> b <= 247 -> contb c1 -> contb c2 -> contb c3 -> valid s ->
          valid (b :: c1 :: c2 :: c3 :: s).

  (* ---------- the pass is compositional ---------- *)
  Lemma urun_app : forall s1 s2 st,
    urun (s1 ++ s2) st = let (o1, e1) := urun s1 st in let (o2, e2) := urun s2 e1 in (o1 ++ o2, e2).
  Proof.
    induction s1 as [|b s1 IH]; intros s2 st; simpl.
    - destruct (urun s2 st); reflexivity.
    - destruct st as [cur | k acc].
      + destruct (b <? 128).
        * destruct (split b).
          -- rewrite IH. destruct (urun s1 (UA [])) as [o1 e1]. destruct (urun s2 e1) as [o2 e2]. now rewrite app_assoc.
          -- apply IH.
        * destruct (clen b) as [|k].
          -- rewrite IH. destruct (urun s1 (UA [])) as [o1 e1]. destruct (urun s2 e1) as [o2 e2]. now rewrite app_assoc.
          -- rewrite IH. destruct (urun s1 (UM k [b])) as [o1 e1]. destruct (urun s2 e1) as [o2 e2]. now rewrite app_assoc.
      + destruct k as [|[|k]].
        * rewrite IH. destruct (urun s1 (UA [])) as [o1 e1]. destruct (urun s2 e1) as [o2 e2]. reflexivity.
        * rewrite IH. destruct (urun s1 (UA [])) as [o1 e1]. destruct (urun s2 e1) as [o2 e2]. reflexivity.
        * apply IH.
  Qed.

  (* a byte that ends an ASCII run: a split character of the table or any byte >= 0x80 that starts a character *)
  Lemma urun_break_hd : forall x s cur, fsplit split x = true -> (x < 128 \/ clen x <> 0%nat) ->
    exists o e, urun (x :: s) (UA cur) = (flush cur ++ o, e) /\ urun (x :: s) (UA []) = (o, e).
  Proof.
    intros x s cur Hf Hx. unfold fsplit in Hf. simpl.
    destruct (x <? 128) eqn:E.
    - assert (Hs : split x = true).
      { apply orb_true_iff in Hf. destruct Hf as [Hf|Hf]; auto. apply N.leb_le in Hf. apply N.ltb_lt in E. lia. }
      rewrite Hs. destruct (urun s (UA [])) as [o e]. exists o, e. split; reflexivity.
    - destruct (clen x) as [|k] eqn:Ec.
      + destruct Hx as [Hx|Hx]; [apply N.ltb_ge in E; lia | contradiction].
      + destruct (urun s (UM k [x])) as [o e]. exists o, e. split; reflexivity.
  Qed.

  (* ---------- valid strings end between characters ---------- *)
  Lemma clen_2 : forall b, 192 <= b -> b <= 223 -> clen b = 2%nat.
  Proof. intros. unfold clen. replace (b <=? 223) with true by (symmetry; apply N.leb_le; lia). reflexivity. Qed.
  Lemma clen_3 : forall b, 224 <= b -> b <= 239 -> clen b = 3%nat.
  Proof.
    intros. unfold clen. replace (b <=? 223) with false by (symmetry; apply N.leb_gt; lia).
    replace (b <=? 239) with true by (symmetry; apply N.leb_le; lia). reflexivity.
  Qed.
  Lemma clen_4 : forall b, 240 <= b -> b <= 247 -> clen b = 4%nat.
  Proof.
    intros. unfold clen. replace (b <=? 223) with false by (symmetry; apply N.leb_gt; lia).
    replace (b <=? 239) with false by (symmetry; apply N.leb_gt; lia).
    replace (b <=? 247) with true by (symmetry; apply N.leb_le; lia). reflexivity.
  Qed.
  Lemma ge128 : forall b, 128 <= b -> (b <? 128) = false.
  Proof. intros. apply N.ltb_ge. lia. Qed.

  (* the state after a valid string: an ASCII run, which is empty unless the string ends with a non-split byte < 0x80 *)
  Lemma valid_end : forall s, valid s -> forall cur,
    exists o c, urun s (UA cur) = (o, UA c) /\
      (s = [] -> c = cur) /\
      (s <> [] -> fsplit split (last s 0) = true -> c = []).
  Proof.
    induction 1 as [| b s Hb Hv IH | b c1 s H1 H2 Hc1 Hv IH | b c1 c2 s H1 H2 Hc1 Hc2 Hv IH
                    | b c1 c2 c3 s H1 H2 Hc1 Hc2 Hc3 Hv IH]; intro cur.
    - exists [], cur. repeat split; auto. intro; contradiction.
    - simpl. replace (b <? 128) with true by (symmetry; apply N.ltb_lt; lia).
      destruct (split b) eqn:Es.
      + destruct (IH []) as (o & c & E & P1 & P2). rewrite E. exists (flush cur ++ o), c. split; [reflexivity|].
        split; [discriminate|]. intros _ Hl. destruct s as [|y s']; [apply P1; reflexivity|].
        apply P2; [discriminate|]. exact Hl.
      + destruct (IH (b :: cur)) as (o & c & E & P1 & P2). rewrite E. exists o, c. split; [reflexivity|].
        split; [discriminate|]. intros _ Hl. destruct s as [|y s'].
        * simpl in Hl. unfold fsplit in Hl. rewrite Es in Hl. replace (128 <=? b) with false in Hl by (symmetry; apply N.leb_gt; lia).
          discriminate.
        * apply P2; [discriminate|]. exact Hl.
    - destruct Hc1 as [Ha Hb']. simpl. rewrite (ge128 b) by lia. rewrite (clen_2 b) by lia.
      destruct (IH []) as (o & c & E & P1 & P2). rewrite E. eexists. exists c. split; [reflexivity|].
      split; [discriminate|]. intros _ Hl. destruct s as [|y s']; [apply P1; reflexivity|]. apply P2; [discriminate|]. exact Hl.
    - simpl. rewrite (ge128 b) by lia. rewrite (clen_3 b) by lia.
      destruct (IH []) as (o & c & E & P1 & P2). rewrite E. eexists. exists c. split; [reflexivity|].
      split; [discriminate|]. intros _ Hl. destruct s as [|y s']; [apply P1; reflexivity|]. apply P2; [discriminate|]. exact Hl.
    - simpl. rewrite (ge128 b) by lia. rewrite (clen_4 b) by lia.
      destruct (IH []) as (o & c & E & P1 & P2). rewrite E. eexists. exists c. split; [reflexivity|].
      split; [discriminate|]. intros _ Hl. destruct s as [|y s']; [apply P1; reflexivity|]. apply P2; [discriminate|]. exact Hl.
  Qed.

  (* the first byte of a valid string is not a continuation byte, and if it is >= 0x80 it starts a character *)
  Lemma valid_hd : forall x s, valid (x :: s) -> ~ contb x /\ (x < 128 \/ clen x <> 0%nat).
  Proof.
    intros x s H. inversion H; subst; unfold contb.
    - split; [lia | now left].
    - split; [lia | right; rewrite clen_2 by lia; discriminate].
    - split; [lia | right; rewrite clen_3 by lia; discriminate].
    - split; [lia | right; rewrite clen_4 by lia; discriminate].
  Qed.

  (* ---------- UTF-8 is self-synchronising: an occurrence of a valid string in a valid string is character aligned ---------- *)
  Lemma valid_prefix_free : forall x, valid x -> forall y, valid (x ++ y) -> valid y.
  Proof.
    induction 1 as [| b s Hb Hv IH | b c1 s H1 H2 Hc1 Hv IH | b c1 c2 s H1 H2 Hc1 Hc2 Hv IH
                    | b c1 c2 c3 s H1 H2 Hc1 Hc2 Hc3 Hv IH]; intros y Hy; simpl in Hy; auto.
    - inversion Hy; subst; try lia. now apply IH.
    - inversion Hy; subst; try lia. now apply IH.
    - inversion Hy; subst; try lia. now apply IH.
    - inversion Hy; subst; try lia. now apply IH.
  Qed.

  Ltac list_eqs := repeat match goal with
    | H : _ :: _ = _ :: _ |- _ => injection H; clear H; intros; subst
    | H : _ :: _ = ?r |- _ => is_var r; subst r
    | H : ?r = _ :: _ |- _ => is_var r; subst r
    end.

  Lemma valid_split : forall a r, valid (a ++ r) -> r <> [] -> ~ contb (hd 0 r) -> valid a.
  Proof.
    intros a. remember (length a) as n eqn:En. revert a En.
    induction n as [n IHn] using lt_wf_ind. intros a En r Hv Hr Hh.
    destruct a as [|b0 [|x1 [|x2 [|x3 a'']]]]; [constructor| | | |]; simpl in Hv; inversion Hv; subst; simpl in *; list_eqs;
      simpl in Hh; try contradiction; try lia.
    (* one byte left in a *)
    - constructor; auto. constructor.
    (* two bytes *)
    - constructor; auto. apply (IHn 1%nat) with (r := r); auto.
    - apply v_2; auto. constructor.
    (* three bytes *)
    - constructor; auto. apply (IHn 2%nat) with (r := r); auto.
    - apply v_2; auto. apply (IHn 1%nat) with (r := r); auto.
    - apply v_3; auto. constructor.
    (* four or more bytes *)
    - constructor; auto. apply (IHn (S (S (S (length a''))))) with (r := r); auto.
    - apply v_2; auto. apply (IHn (S (S (length a'')))) with (r := r); auto.
    - apply v_3; auto. apply (IHn (S (length a''))) with (r := r); auto.
    - apply v_4; auto. apply (IHn (length a'')) with (r := r); auto.
  Qed.

  Lemma valid_occurrence : forall a p b, valid (a ++ p ++ b) -> valid p -> p <> [] -> valid a /\ valid b.
  Proof.
    intros a p b Hv Hp Hne. destruct p as [|x p']; [contradiction|].
    assert (Ha : valid a).
    { apply (valid_split a ((x :: p') ++ b)); auto; [discriminate|]. simpl. apply (valid_hd x p' Hp). }
    split; auto. apply (valid_prefix_free (x :: p') Hp). apply (valid_prefix_free a Ha). exact Hv.
  Qed.

  (* ---------- main lemma: a valid, finder-accepted occurrence keeps every token of the phrase ---------- *)
  Lemma occ_utokens_incl : forall acc p post,
    valid (rev acc ++ p ++ post) -> valid p -> p <> [] ->
    valid_occ split p acc post = true ->
    incl (utokens p) (utokens (rev acc ++ p ++ post)).
  Proof.
    intros acc p post Hv Hp Hne Hocc.
    destruct (valid_occurrence _ _ _ Hv Hp Hne) as [Ha Hb].
    unfold utokens at 2. rewrite urun_app.
    destruct (valid_end (rev acc) Ha []) as (o1 & c1 & E1 & A1 & A2). rewrite E1.
    rewrite urun_app. unfold utokens.
    destruct (valid_end p Hp []) as (op & cp & Ep & P1 & P2). rewrite Ep.
    unfold valid_occ in Hocc. apply andb_true_iff in Hocc. destruct Hocc as [V1 V2].
    destruct p as [|x0 p0]; [contradiction|].
    (* left boundary *)
    assert (Hl : exists o2', urun (x0 :: p0) (UA c1) = (o2' ++ op, UA cp)).
    { apply orb_true_iff in V1. destruct V1 as [V1 | V1].
      - assert (c1 = []) as ->.
        { destruct acc as [|y acc']; [apply A1; reflexivity|].
          apply A2; [simpl; intro H; apply app_eq_nil in H; destruct H; discriminate|].
          simpl. rewrite last_app_single. exact V1. }
        exists []. exact Ep.
      - destruct (urun_break_hd x0 p0 c1 V1 (proj2 (valid_hd x0 p0 Hp))) as (o & e & F1 & F2).
        rewrite Ep in F2. inversion F2; subst. exists (flush c1). exact F1. }
    destruct Hl as (o2' & Hl). rewrite Hl.
    destruct (valid_end post Hb cp) as (o3 & c3 & E3 & B1 & B2). rewrite E3.
    intros t Ht. apply in_app_or in Ht. destruct Ht as [Ht | Ht].
    - apply in_or_app. left. apply in_or_app. right. apply in_or_app. left. apply in_or_app. now right.
    - (* the unfinished ASCII run of the phrase is finished by what follows *)
      simpl in Ht. apply orb_true_iff in V2. destruct V2 as [V2 | V2].
      + destruct post as [|y post'].
        * rewrite (B1 eq_refl). apply in_or_app. right. exact Ht.
        * destruct (urun_break_hd y post' cp V2 (proj2 (valid_hd y post' Hb))) as (o & e & F1 & F2).
          rewrite E3 in F1. inversion F1; subst.
          apply in_or_app. left. apply in_or_app. right. apply in_or_app. right. apply in_or_app. now left.
      + assert (cp = []) as -> by (apply P2; [discriminate | exact V2]). destruct Ht.
  Qed.

  Theorem finder_utokens_incl : forall p v, valid v -> valid p -> finder split p v = true -> incl (utokens p) (utokens v).
  Proof.
    intros p v Hv Hp H. unfold finder in H. destruct p as [|x0 p0].
    { intros t Ht. destruct Ht. }
    destruct (scan_occ split _ _ _ _ H) as (acc & post & E & V).
    assert (E' : v = rev acc ++ (x0 :: p0) ++ post) by exact E. subst v.
    apply occ_utokens_incl; auto. discriminate.
  Qed.
End UtfTok.
