(* C20 - the reader ABOVE the single indexes: engine/hybrid_index_reader.go attachedIndexReader.Next.
   For every data file of the list, in order: primary-key scan -> fragment ranges; every skip-index reader filters them
   (SKIndexReaderImpl.Scan: the kept fragments, adjacent ones merged); a file whose ranges became empty is passed over;
   the others are appended to the answer of this call; with readSegmentBatch the call returns as soon as the accumulated
   number of fragments reaches segmentBatchCount, the next call resumes behind the last file it looked at.
   Model: a file is abstracted to what the two index layers answer for it (pk : the ranges of the primary-key scan,
   keep : the skip index's MayBeInFragment). Proved: draining Next delivers, for EVERY file of the list, exactly the
   skip-filtered ranges of that file, each file once, in order; composed with the soundness of the two layers: a fragment
   with a matching row in ANY file is delivered. *)
From Coq Require Import List Bool Arith Lia.
From OG Require Import C20.Model.
Import ListNotations.

Record mfile := mkF { f_pk : list (nat * nat); f_keep : nat -> bool }.

(* ---------- SKIndexReaderImpl.Scan (minMarksForSeek = 0 as in production: MinRowsForSeek = 0) ---------- *)
Definition frags_of (rs : list (nat * nat)) : list nat := flat_map (fun p => seq (fst p) (snd p - fst p)) rs.
(* result kept newest first: the kept fragment j extends the last range when it is adjacent to it, else starts a new one *)
Definition sk_add (res : list (nat * nat)) (j : nat) : list (nat * nat) :=
  match res with
  | (a, b) :: t => if b =? j then (a, S j) :: t else (j, S j) :: res
  | [] => [(j, S j)]
  end.
Definition sk_scan (keep : nat -> bool) (rs : list (nat * nat)) : list (nat * nat) :=
  rev (fold_left sk_add (filter keep (frags_of rs)) []).
Definition file_result (f : mfile) : list (nat * nat) := sk_scan (f_keep f) (f_pk f).
Definition count_frags (rs : list (nat * nat)) : nat := fold_right (fun p n => (snd p - fst p) + n) 0 rs.

(* ---------- attachedIndexReader.Next ----------
   files: the files from the cursor on; idx: the cursor; batch: Some n = readSegmentBatch with segmentBatchCount n.
   Returns the (file index, ranges) pairs of this call and the new cursor. *)
Fixpoint next_loop (files : list mfile) (idx : nat) (batch : option nat) (acc : list (nat * list (nat * nat))) (cnt : nat)
  : list (nat * list (nat * nat)) * nat :=
  match files with
  | [] => (rev acc, idx)
  | f :: rest =>
      let frs := file_result f in
      let c := count_frags frs in
      if c =? 0 then next_loop rest (S idx) batch acc cnt
      else
        let acc' := (idx, frs) :: acc in
        match batch with
        | Some n => if n <=? cnt + c then (rev acc', S idx) else next_loop rest (S idx) batch acc' (cnt + c)
        | None => next_loop rest (S idx) batch acc' (cnt + c)
        end
  end.
Definition next (files : list mfile) (idx : nat) (batch : option nat) : list (nat * list (nat * nat)) * nat :=
  next_loop (skipn idx files) idx batch [] 0.

(* the caller repeats Next until it answers nil (nothing accumulated) *)
Fixpoint drain (fuel : nat) (files : list mfile) (idx : nat) (batch : option nat) : list (list (nat * list (nat * nat))) :=
  match fuel with
  | O => []
  | S k => let (r, idx') := next files idx batch in
           match r with [] => [] | _ => r :: drain k files idx' batch end
  end.
Definition delivered (files : list mfile) (batch : option nat) : list (nat * list (nat * nat)) :=
  concat (drain (S (length files)) files 0 batch).

(* what must be delivered: every file with a non-empty result, once, in order *)
Fixpoint expected_from (files : list mfile) (idx : nat) : list (nat * list (nat * nat)) :=
  match files with
  | [] => []
  | f :: rest => if count_frags (file_result f) =? 0 then expected_from rest (S idx)
                 else (idx, file_result f) :: expected_from rest (S idx)
  end.

(* ---------- proofs ---------- *)
Lemma next_loop_spec : forall files idx batch acc cnt,
  exists k, k <= length files /\
    next_loop files idx batch acc cnt = (rev acc ++ expected_from (firstn k files) idx, idx + k) /\
    (* it stops early only right behind a delivered file, and only in batch mode *)
    (k < length files -> batch <> None /\ expected_from (firstn k files) idx <> []).
Proof.
  induction files as [|f rest IH]; intros idx batch acc cnt; simpl.
  - exists 0. rewrite app_nil_r, Nat.add_0_r. split; [lia|]. split; [reflexivity|]. intro H; inversion H.
  - destruct (count_frags (file_result f) =? 0) eqn:Ec.
    + destruct (IH (S idx) batch acc cnt) as (k & Hk & E & Hs). exists (S k). split; [lia|]. simpl. rewrite Ec.
      split; [rewrite E; f_equal; lia|]. intro H. apply Hs. lia.
    + set (acc' := (idx, file_result f) :: acc).
      assert (Hgo : exists k, k <= length (f :: rest) /\
                next_loop rest (S idx) batch acc' (cnt + count_frags (file_result f)) =
                  (rev acc ++ expected_from (firstn k (f :: rest)) idx, idx + k) /\
                (k < length (f :: rest) -> batch <> None /\ expected_from (firstn k (f :: rest)) idx <> [])).
      { destruct (IH (S idx) batch acc' (cnt + count_frags (file_result f))) as (k & Hk & E & Hs). exists (S k).
        split; [simpl; lia|]. simpl firstn. simpl expected_from. rewrite Ec. split.
        - rewrite E. f_equal; [|lia]. unfold acc'. cbn [rev]. rewrite <- app_assoc. reflexivity.
        - intro H. destruct Hs as [Hb _]; [simpl in H; lia|]. split; auto. discriminate. }
      destruct batch as [n|]; [|exact Hgo].
      destruct (n <=? cnt + count_frags (file_result f)) eqn:En; [|exact Hgo].
      exists 1. split; [simpl; lia|]. simpl. rewrite Ec. split.
      * replace (idx + 1) with (S idx) by lia. unfold acc'. cbn [rev]. rewrite <- ?app_assoc. reflexivity.
      * intro H. split; discriminate.
Qed.

Lemma expected_from_app : forall a b idx,
  expected_from (a ++ b) idx = expected_from a idx ++ expected_from b (idx + length a).
Proof.
  induction a as [|f a IH]; intros b idx; simpl.
  - now rewrite Nat.add_0_r.
  - rewrite IH. replace (S idx + length a) with (idx + S (length a)) by lia.
    destruct (count_frags (file_result f) =? 0); reflexivity.
Qed.

Lemma skipn_skipn_add : forall {A} (l : list A) a b, skipn a (skipn b l) = skipn (b + a) l.
Proof.
  induction l as [|x l IH]; intros a b; destruct b; simpl; auto.
  - now destruct a.
Qed.

(* draining from cursor idx delivers the expected entries of all files from idx on; fuel: one call per remaining file
   plus the final empty call *)
Lemma drain_spec : forall fuel files idx batch,
  idx <= length files -> length files - idx < fuel ->
  concat (drain fuel files idx batch) = expected_from (skipn idx files) idx.
Proof.
  induction fuel as [|fuel IH]; intros files idx batch Hi Hf; [lia|].
  simpl. unfold next.
  destruct (next_loop_spec (skipn idx files) idx batch [] 0) as (k & Hk & E & Hs). rewrite E. simpl rev. simpl app.
  rewrite skipn_length in Hk.
  destruct (expected_from (firstn k (skipn idx files)) idx) as [|e es] eqn:Ex.
  - (* nothing accumulated: the loop ran to the end of the list *)
    assert (k = length (skipn idx files)).
    { destruct (Nat.lt_ge_cases k (length (skipn idx files))) as [H|H]; [|rewrite skipn_length in *; lia].
      destruct (Hs H) as [_ Hne]. contradiction. }
    subst k. rewrite firstn_all in Ex. now rewrite Ex.
  - cbn [concat]. rewrite <- Ex.
    assert (Hk0 : k <> 0) by (intro; subst k; simpl in Ex; discriminate).
    rewrite IH by lia.
    transitivity (expected_from (firstn k (skipn idx files) ++ skipn k (skipn idx files)) idx);
      [|now rewrite firstn_skipn].
    rewrite expected_from_app. rewrite firstn_length, skipn_length. replace (Nat.min k (length files - idx)) with k by lia.
    rewrite skipn_skipn_add. reflexivity.
Qed.

(* every file of the list is looked at exactly once: the delivered list is the expected list *)
Lemma delivered_spec : forall files batch, delivered files batch = expected_from files 0.
Proof.
  intros. unfold delivered. rewrite drain_spec; simpl; auto; lia.
Qed.

Lemma expected_from_nth : forall files idx i f,
  nth_error files i = Some f -> count_frags (file_result f) <> 0 ->
  In (idx + i, file_result f) (expected_from files idx).
Proof.
  induction files as [|g rest IH]; intros idx i f Hn Hc; destruct i; simpl in *; try discriminate.
  - inversion Hn; subst g. apply Nat.eqb_neq in Hc. rewrite Hc. left. f_equal. lia.
  - replace (idx + S i) with (S idx + i) by lia.
    destruct (count_frags (file_result g) =? 0); [|right]; apply IH; auto.
Qed.

(* ---------- the skip-index scan keeps every kept fragment of the primary-key ranges ---------- *)
(* well-formed accumulator: every range has start < end *)
Definition wf_ranges (rs : list (nat * nat)) : Prop := Forall (fun p => fst p < snd p) rs.

Lemma sk_add_wf : forall res j, wf_ranges res -> wf_ranges (sk_add res j).
Proof.
  intros res j H. unfold sk_add. destruct res as [|[a b] t]; [repeat constructor|].
  inversion H as [|x l Hab Ht]; subst. simpl in Hab. destruct (b =? j) eqn:E.
  - apply Nat.eqb_eq in E. subst. constructor; simpl; [lia|auto].
  - constructor; simpl; [lia|]. constructor; auto.
Qed.

Lemma sk_add_covers : forall res j, wf_ranges res -> covered j (sk_add res j) = true.
Proof.
  intros res j H. unfold sk_add, covered. destruct res as [|[a b] t]; simpl.
  - rewrite Nat.leb_refl. replace (j <? S j) with true by (symmetry; apply Nat.ltb_lt; lia). reflexivity.
  - inversion H as [|x l Hab Ht]; subst. simpl in Hab. destruct (b =? j) eqn:E; simpl.
    + apply Nat.eqb_eq in E. subst b. replace (a <=? j) with true by (symmetry; apply Nat.leb_le; lia).
      replace (j <? S j) with true by (symmetry; apply Nat.ltb_lt; lia). reflexivity.
    + rewrite Nat.leb_refl. replace (j <? S j) with true by (symmetry; apply Nat.ltb_lt; lia). reflexivity.
Qed.

Lemma sk_add_mono : forall res j i, covered i res = true -> covered i (sk_add res j) = true.
Proof.
  intros res j i H. unfold sk_add. destruct res as [|[a b] t]; [discriminate|].
  destruct (b =? j) eqn:E.
  - apply Nat.eqb_eq in E. subst b. unfold covered in *. simpl in *. apply orb_true_iff in H. apply orb_true_iff.
    destruct H as [H|H]; auto. left. apply andb_true_iff in H. destruct H as [H1 H2]. apply andb_true_iff. split; auto.
    apply Nat.ltb_lt in H2. apply Nat.ltb_lt. lia.
  - unfold covered in *. simpl in *. rewrite H. apply orb_true_r.
Qed.

Lemma sk_fold_covers : forall js res j, wf_ranges res ->
  (In j js \/ covered j res = true) -> covered j (fold_left sk_add js res) = true /\ wf_ranges (fold_left sk_add js res).
Proof.
  induction js as [|x js IH]; intros res j Hwf H; simpl.
  - destruct H as [[]|H]; auto.
  - apply IH; [now apply sk_add_wf|]. destruct H as [[->|H]|H]; auto.
    + right. now apply sk_add_covers.
    + right. now apply sk_add_mono.
Qed.

Lemma covered_rev' : forall i l, covered i (rev l) = covered i l.
Proof.
  intros i l. unfold covered. induction l as [|x l IH]; simpl; auto.
  rewrite existsb_app, IH. simpl. rewrite orb_false_r. apply orb_comm.
Qed.

Lemma in_frags_of : forall rs j, covered j rs = true -> In j (frags_of rs).
Proof.
  intros rs j H. unfold covered in H. apply existsb_exists in H. destruct H as ([a b] & Hin & Hc). simpl in Hc.
  apply andb_true_iff in Hc. destruct Hc as [H1 H2]. apply Nat.leb_le in H1. apply Nat.ltb_lt in H2.
  unfold frags_of. apply in_flat_map. exists (a, b). split; auto. simpl. apply in_seq. lia.
Qed.

Lemma sk_scan_sound : forall keep rs j, covered j rs = true -> keep j = true -> covered j (sk_scan keep rs) = true.
Proof.
  intros keep rs j Hc Hk. unfold sk_scan. rewrite covered_rev'.
  apply sk_fold_covers; [constructor|]. left. apply filter_In. split; auto. now apply in_frags_of.
Qed.

Lemma covered_count : forall rs j, covered j rs = true -> count_frags rs <> 0.
Proof.
  induction rs as [|[a b] rs IH]; intros j H; [discriminate|]. unfold covered in H. simpl in *.
  apply orb_true_iff in H. destruct H as [H|H].
  - apply andb_true_iff in H. destruct H as [H1 H2]. apply Nat.leb_le in H1. apply Nat.ltb_lt in H2. lia.
  - specialize (IH j H). lia.
Qed.

(* ---------- composition: a fragment the two index layers must keep is delivered, whichever file it is in ---------- *)
Theorem attached_reader_delivers : forall files batch i f j,
  nth_error files i = Some f ->
  covered j (f_pk f) = true ->        (* the primary-key scan of file i keeps fragment j (C20_scan_sound...) *)
  f_keep f j = true ->                (* the skip index keeps it (C20_bloom_skip_sound...) *)
  exists frs, In (i, frs) (delivered files batch) /\ covered j frs = true.
Proof.
  intros files batch i f j Hn Hc Hk. exists (file_result f).
  assert (Hcov : covered j (file_result f) = true) by (now apply sk_scan_sound).
  split; auto. rewrite delivered_spec. apply (expected_from_nth files 0 i f Hn). eapply covered_count; eauto.
Qed.
