(* C20 - executable model of the tokenizers behind the bloom-filter skip index, on byte strings (list N, a byte < 256):
     tokens      = SimpleTokenizer.Next (lib/tokenizer/tokenizer.go): a token is a maximal run of bytes that are not split
                   characters. This is what the pure-Go writer inserts (ProcessTokenizerBatch) and - for ASCII text - what
                   the reader's UTF-8 aware tokenizer yields for a phrase.
     finder      = SimpleTokenFinder.Next (lib/tokenizer/token_finder.go), the row semantics of MATCHPHRASE: the phrase
                   occurs as a byte substring whose ends are token boundaries; the finder takes a split character of the
                   table AND every byte >= 0x80 for a boundary; occurrences are scanned left to right, the search resumes
                   BEHIND a rejected occurrence (overlapping occurrences are skipped).
   [split] is the split table (a Section variable: any table). Definitions only; proofs in TokProofs.v. *)
From Coq Require Import List Bool Arith NArith.
Import ListNotations.

Section Tok.
  Variable split : N -> bool.                       (* splitTable[b] > 0 *)

  (* the finder's boundary test (SimpleTokenFinder.isSplit: int8(b) < 0 || splitTable[b] > 0) *)
  Definition fsplit (b : N) : bool := (128 <=? b)%N || split b.

  (* one pass over the bytes; cur = the bytes of the token being read, newest first. Returns the completed tokens and the
     unfinished one. *)
  Definition flush (cur : list N) : list (list N) := match cur with [] => [] | _ => [rev cur] end.
  Fixpoint run (s : list N) (cur : list N) : list (list N) * list N :=
    match s with
    | [] => ([], cur)
    | b :: s' =>
        if split b then (let (o, c) := run s' [] in (flush cur ++ o, c))
        else run s' (b :: cur)
    end.
  Definition tokens (s : list N) : list (list N) := let (o, c) := run s [] in o ++ flush c.

  (* ---------- SimpleTokenFinder ---------- *)
  Fixpoint prefixb (p s : list N) : bool :=
    match p, s with
    | [], _ => true
    | x :: p', y :: s' => (x =? y)%N && prefixb p' s'
    | _ :: _, [] => false
    end.

  (* acc: the bytes before the occurrence, newest first (hd acc = the byte at pre); post: the bytes behind it *)
  Definition valid_occ (p acc post : list N) : bool :=
    (match acc with [] => true | x :: _ => fsplit x end || match p with [] => false | x :: _ => fsplit x end) &&
    (match post with [] => true | x :: _ => fsplit x end || fsplit (last p 0%N)).

  (* skip: positions that may not start an occurrence (the search resumed behind a rejected occurrence) *)
  Fixpoint scan (p acc s : list N) (skip : nat) : bool :=
    match s with
    | [] => false
    | y :: s' =>
        match skip with
        | S k => scan p (y :: acc) s' k
        | O => if prefixb p s then
                 (if valid_occ p acc (skipn (length p) s) then true else scan p (y :: acc) s' (length p - 1))
               else scan p (y :: acc) s' 0
        end
    end.

  (* an empty phrase matches only an empty value *)
  Definition finder (p v : list N) : bool :=
    match p with
    | [] => match v with [] => true | _ => false end
    | _ => scan p [] v 0
    end.
End Tok.
