(* C20 - predicates on a primary-key column that the key order cannot bound (MATCHPHRASE, IPINRANGE, LIKE, MATCH).
   [xcond] = condition trees with such atoms; their row semantics is opaque (token containment, subnet membership, a
   regular expression: [nonkey id]). Two translations to the RPN:
     lower        (repaired, /repo 05a4bb5): the atom becomes an AlwaysTrue element that keeps its operand slot - exactly
                  what a comparison on a non-key column becomes; all soundness theorems apply through [lower];
     compile_old  (before 05a4bb5): MATCHPHRASE / IPINRANGE become the equality range [v,v], LIKE / MATCH append NO
                  element (a following AND / OR pops an empty stack). *)
From Coq Require Import ZArith List Bool Arith.
From OG Require Import C20.Model C20.Proofs C20.ScanProofs C20.NullOrder.
Import ListNotations.
Open Scope Z_scope.

Inductive strkind := SKmatchphrase | SKipinrange | SKlike | SKmatch.

Inductive xcond :=
| XAtom (col : nat) (op : cmp) (v : Z)
| XNonKey (id : nat)
| XStr (col : nat) (k : strkind) (v : Z) (id : nat)      (* key column, literal (by rank), id of its opaque row predicate *)
| XAnd (a b : xcond)
| XOr (a b : xcond).

Fixpoint lower (x : xcond) : cond :=
  match x with
  | XAtom col op v => CAtom col op v
  | XNonKey id => CNonKey id
  | XStr _ _ _ id => CNonKey id
  | XAnd a b => CAnd (lower a) (lower b)
  | XOr a b => COr (lower a) (lower b)
  end.

(* row semantics: the opaque predicate decides; nothing about the key value can be assumed *)
Definition eval_xcond (nonkey : nat -> bool) (x : xcond) (row : key) : bool := eval_cond nonkey (lower x) row.

Fixpoint compile_old (isint : list bool) (x : xcond) : list elem :=
  match x with
  | XAtom col op v => [atom_elem (nth col isint false) col op v]
  | XNonKey _ => [ETrue]
  | XStr col SKmatchphrase v _ | XStr col SKipinrange v _ => [EIn col (point (Fin v))]
  | XStr _ _ _ _ => []
  | XAnd a b => compile_old isint a ++ compile_old isint b ++ [EAnd]
  | XOr a b => compile_old isint a ++ compile_old isint b ++ [EOr]
  end.

(* the repaired element of an unboundable atom: AlwaysTrue = (canBeTrue, not canBeFalse), one stack slot *)
Lemma str_atom_always_true : forall isint col k v id rgs,
  compile isint (lower (XStr col k v id)) = Some [ETrue] /\
  check_in_range [ETrue] rgs = Some (mkM true false).
Proof. intros. split; reflexivity. Qed.

Lemma lower_compiles : forall isint x, exists rpn, compile isint (lower x) = Some rpn.
Proof.
  induction x as [col op v | id | col k v id | a [ra Ha] b [rb Hb] | a [ra Ha] b [rb Hb]]; simpl; eauto.
  - rewrite Ha, Hb. eauto.
  - rewrite Ha, Hb. eauto.
Qed.

(* soundness with unboundable atoms anywhere in the tree, data in the writer's order, nulls anywhere *)
Lemma scan_sound_strops : forall isint nonkey x keys pads sizes nk coarse minmarks i,
  Forall (fun k => length k = nk) keys -> writer_sorted pads keys ->
  Forall (fun z => 1 <= z)%nat sizes -> sum sizes = length keys ->
  (2 <= coarse)%nat -> (i < length sizes)%nat ->
  (exists row, In row (frag_rows sizes keys i) /\ eval_xcond nonkey x row = true) ->
  exists rpn, compile isint (lower x) = Some rpn /\
    ((used_keys rpn <= nk)%nat -> (used_keys rpn <= length isint)%nat ->
     exists rs, scan repaired isint rpn (read_index null_pad pads (build_index sizes keys)) (length sizes) coarse minmarks
                = ScanOk rs /\ covered i rs = true).
Proof.
  intros isint nonkey x keys pads sizes nk coarse minmarks i Hlen Hs Hpos Hsum Hco Hi Hm.
  destruct (lower_compiles isint x) as [rpn Hc]. exists rpn. split; auto. intros Hu Hty.
  eapply scan_sound_writer_order; eauto.
Qed.
