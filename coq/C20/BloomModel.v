(* C20 - executable model of the bloom-filter skip index: a filter as a set of bit positions, k positions per token
   given by an abstract hash function (Section variable), insert = set the bits, query = all bits set; the per-block
   filter of a column built by the writer from the tokens of the block's non-null values; the expression evaluation
   of the reader (LineFilterReader.hitExpr: AND/OR over per-predicate hits, a predicate on a column the filter file
   does not cover, or with another operator, is "may match") and of SKConditionImpl.IsExist (every element on a
   column of the reader's schema asks the reader - which evaluates the WHOLE expression - every other element is
   AlwaysTrue). Definitions only. *)
From Coq Require Import List Bool Arith.
Import ListNotations.

(* ---------- expressions over abstract atoms ---------- *)
Inductive sk (A : Type) :=
| SAtom (a : A)
| SAnd (x y : sk A)
| SOr (x y : sk A).
Arguments SAtom {A} a.
Arguments SAnd {A} x y.
Arguments SOr {A} x y.

Fixpoint sk_fold {A} (f : A -> bool) (e : sk A) : bool :=
  match e with
  | SAtom a => f a
  | SAnd x y => sk_fold f x && sk_fold f y
  | SOr x y => sk_fold f x || sk_fold f y
  end.

(* MayBeInFragment: SKConditionImpl over the RPN, the reader answering every schema element with hitExpr(whole) *)
Definition sk_kept {A} (atomhit : A -> bool) (inschema : A -> bool) (e : sk A) : bool :=
  sk_fold (fun a => if inschema a then sk_fold atomhit e else true) e.

(* ---------- the filter ---------- *)
Section Bloom.
  Variable token : Type.
  Variable hashpos : token -> list nat.          (* the bit positions of a token (third-party hash: abstract) *)

  Definition filter := list nat.                  (* positions of the set bits *)
  Definition bit (f : filter) (p : nat) : bool := existsb (Nat.eqb p) f.
  Definition insert (f : filter) (t : token) : filter := hashpos t ++ f.
  Definition query (f : filter) (t : token) : bool := forallb (bit f) (hashpos t).
  Definition build (ts : list token) : filter := fold_left insert ts [].

  (* ---------- rows, blocks, predicates ---------- *)
  Variable value phrase : Type.
  Variable vtokens : value -> list token.         (* writer: tokens inserted for a stored value *)
  Variable ptokens : phrase -> list token.        (* reader: tokens looked up for a phrase *)
  Variable pmatch : phrase -> value -> bool.      (* row semantics of MATCHPHRASE *)

  Definition row := nat -> option value.           (* column -> value, None = null *)

  (* GenBloomFilterData for one segment: tokens of the non-null values of the segment's rows *)
  Definition block_tokens (c : nat) (rows : list row) : list token :=
    concat (map (fun r => match r c with Some v => vtokens v | None => [] end) rows).
  Definition block_filter (c : nat) (rows : list row) : filter := build (block_tokens c rows).

  Inductive pred :=
  | PMatch (col : nat) (p : phrase)                (* col MATCHPHRASE p *)
  | POther (col : nat) (id : nat).                 (* any other comparison; opaque *)
  Definition pcol (a : pred) : nat := match a with PMatch c _ => c | POther c _ => c end.

  Definition eval_pred (other : nat -> bool) (r : row) (a : pred) : bool :=
    match a with
    | PMatch c p => match r c with Some v => pmatch p v | None => false end
    | POther _ id => other id
    end.

  (* hitExpr on one predicate; f0 = the column of the filter file (the only entry of splitMap) *)
  Definition pred_hit (f0 : nat) (F : filter) (a : pred) : bool :=
    match a with
    | PMatch c p =>
        if c =? f0 then
          match ptokens p with [] => false | ts => forallb (query F) ts end
        else true
    | POther _ _ => true
    end.

  Definition bloom_kept (f0 : nat) (inschema : nat -> bool) (F : filter) (e : sk pred) : bool :=
    sk_kept (pred_hit f0 F) (fun a => inschema (pcol a)) e.
End Bloom.
