(* C04 engine level, proofs part 2: NO DEADLOCK.  For every system of operations whose programs pass the static
   discipline `chk`, in every reachable state of the machine of Eng.v (variant `ecode`: writer-preferring read/write
   locks, DeleteDatabase's wait has its time-out), as long as some operation has not finished some step is enabled.
   Argument: in a stuck state every lock is free, by downward induction on the rank - whoever holds a lock of rank k is
   not finished, so it is blocked, and by the rank discipline it can only be blocked on a lock of higher rank (or, as an
   announced writer, on the readers of its own lock, which in turn are blocked on higher ranks). *)
From Coq Require Import List Bool Arith PeanoNat Lia.
From OG Require Import C04.Model C04.Proofs C04.Eng C04.EngInv.
Import ListNotations.

Definition free (s : eshared) (k : nat) : Prop := pend (lk s k) = None /\ rd (lk s k) = [].

Lemma is_none_false : forall A (o : option A), is_none o = false -> o <> None.
Proof. destruct o; simpl; congruence. Qed.

Lemma blocked_wants : forall i s a, actor_inv a -> pr a <> Done ->
  estep ecode i true s a = None -> estep ecode i false s a = None ->
  (exists k', pend (lk s k') <> None /\ (forall x, In x (held (ts a)) -> fst x < k')) \/
  (exists k' q, pr a = Seq (L (Acq k')) q /\ rd (lk s k') <> [] /\ In (k', MA) (held (ts a))).
Proof.
  intros i s a [Hc _] Hnd H1 H2. unfold estep in *. destruct (pr a) as [|o q|b f q] eqn:Ep; [congruence| |].
  - apply chk_Seq in Hc. destruct Hc as [Hok _]. destruct o as [o|o].
    + destruct (guard_lock o s) eqn:Eg; [discriminate|]. destruct o as [k|k|k|k|k]; simpl in Eg, Hok; try discriminate.
      * left. exists k. apply andb_true_iff in Hok. destruct Hok as [Hlt _]. split; [apply is_none_false; auto|apply all_lt_In; auto].
      * left. exists k. apply andb_true_iff in Hok. destruct Hok as [Hlt _]. split; [apply is_none_false; auto|apply all_lt_In; auto].
      * right. exists k, q. split; auto. split; [|apply holds_In; auto]. destruct (rd (lk s k)); simpl in Eg; congruence.
    + destruct (guard_data o s) eqn:Eg; [discriminate|]. destruct o; simpl in Eg, Hok; try discriminate.
      left. exists 2. apply andb_true_iff in Hok. destruct Hok as [_ Hlt]. split; [apply is_none_false; auto|apply all_lt_In; auto].
  - apply chk_Br in Hc. destruct Hc as [Hok _]. destruct b; simpl in Hok.
    + destruct (is_none (pend (lk s 2))) eqn:Eg.
      * destruct (present s && (negb (offl s) || ev_ref_ignores_offl ecode)); discriminate.
      * left. exists 2. apply andb_true_iff in Hok. destruct Hok as [Hok _]. apply andb_true_iff in Hok. destruct Hok as [_ Hlt].
        split; [apply is_none_false; auto|apply all_lt_In; auto].
    + destruct (present s); discriminate.
    + destruct (mapped s); discriminate.
    + simpl in H2. discriminate.
Qed.

Lemma eexec_none : forall V st i c a, nth_error (eacts st) i = Some a -> eexec V st i c = None -> estep V i c (esh st) a = None.
Proof.
  intros V st i c a Ha H. unfold eexec in H. rewrite Ha in H. destruct (estep V i c (esh st) a) as [[s' a']|]; [discriminate|auto].
Qed.

Lemma not_done_of_held : forall a x, actor_inv a -> In x (held (ts a)) -> pr a <> Done.
Proof.
  intros a x [Hc _] Hi Hd. rewrite Hd in Hc. simpl in Hc. apply andb_true_iff in Hc. destruct Hc as [Hc _].
  apply andb_true_iff in Hc. destruct Hc as [Hc _]. destruct (held (ts a)); [destruct Hi|discriminate].
Qed.

(* a holder of (k, m) that is blocked waits for a lock of rank > k, or (announced writer of k itself) for k's readers *)
Lemma holder_blocked : forall st j a k m, all_inv st -> (forall i c, eexec ecode st i c = None) ->
  nth_error (eacts st) j = Some a -> In (k, m) (held (ts a)) ->
  (exists k', k < k' /\ ~ free (esh st) k') \/ (m = MA /\ rd (lk (esh st) k) <> []).
Proof.
  intros st j a k m [HL HA] Hst Ha Hi. pose proof (HA _ _ Ha) as HI.
  destruct (blocked_wants j (esh st) a HI (not_done_of_held _ _ HI Hi) (eexec_none _ _ _ _ _ Ha (Hst j true)) (eexec_none _ _ _ _ _ Ha (Hst j false)))
    as [[k' [Hp Hlt]]|[k' [q [Ep [Hr Hma]]]]].
  - left. exists k'. split; [apply (Hlt _ Hi)|]. intros [F _]. congruence.
  - destruct HI as [_ [Hs [_ Hm]]]. destruct (Hm _ Hma) as [_ [r Hr']].
    destruct (Nat.eq_dec k' k) as [->|N].
    + right. split; auto. exact (uniq_rank _ _ _ _ Hs Hi Hma).
    + left. exists k'. split.
      * rewrite Hr' in Hi, Hs. destruct Hi as [C|C]; [inversion C; congruence|]. simpl in Hs. destruct Hs as [Hs _]. apply (Hs _ C).
      * intros [_ F]. congruence.
Qed.

Lemma stuck_free : forall st, all_inv st -> (forall i c, eexec ecode st i c = None) ->
  forall n k, 4 <= k + n -> free (esh st) k.
Proof.
  intros st HI Hst. pose proof HI as [HL HA]. induction n as [|n IH]; intros k Hk.
  - (* no lock of rank >= 4 is ever held *)
    destruct (HL k) as [H1 [H2 [H3 [H4 [H5 H6]]]]].
    assert (Nh : forall j m, ~ holder st j k m).
    { intros j m [a [Ha Hi]]. destruct (HA _ _ Ha) as [_ [_ [Hb _]]]. apply Hb in Hi. simpl in Hi. lia. }
    split.
    + destruct (pend (lk (esh st) k)) as [j|] eqn:Ep; auto. exfalso. destruct (wheld (lk (esh st) k)) eqn:Ew.
      * eapply Nh. apply H4. eauto.
      * eapply Nh. apply H3. eauto.
    + destruct (rd (lk (esh st) k)) as [|j r] eqn:Er; auto. exfalso. eapply Nh. apply H2. left; reflexivity.
  - destruct (Nat.le_gt_cases 4 (k + n)) as [Hle|Hgt]; [apply IH; auto|].
    assert (Hup : forall k', k < k' -> free (esh st) k') by (intros k' Hk'; apply IH; lia).
    destruct (HL k) as [H1 [H2 [H3 [H4 [H5 H6]]]]].
    assert (Hrd : rd (lk (esh st) k) = []).
    { destruct (rd (lk (esh st) k)) as [|j r] eqn:Er; auto. exfalso.
      destruct (proj1 (H2 j) (or_introl eq_refl)) as [a [Ha Hi]].
      destruct (holder_blocked st j a k MR HI Hst Ha Hi) as [[k' [Hlt Hnf]]|[C _]]; [|discriminate].
      apply Hnf. apply Hup. auto. }
    split; auto.
    destruct (pend (lk (esh st) k)) as [j|] eqn:Ep; auto. exfalso.
    assert (Hh : exists a m, nth_error (eacts st) j = Some a /\ In (k, m) (held (ts a)) /\ m <> MR).
    { destruct (wheld (lk (esh st) k)) eqn:Ew.
      - destruct (proj1 (H4 j) (conj eq_refl eq_refl)) as [a [Ha Hi]]. exists a, MW. repeat split; auto. discriminate.
      - destruct (proj1 (H3 j) (conj eq_refl eq_refl)) as [a [Ha Hi]]. exists a, MA. repeat split; auto. discriminate. }
    destruct Hh as [a [m [Ha [Hi _]]]].
    destruct (holder_blocked st j a k m HI Hst Ha Hi) as [[k' [Hlt Hnf]]|[_ C]]; [|congruence].
    apply Hnf. apply Hup. auto.
Qed.

Theorem eng_no_deadlock_all : forall ps st, forallb (chk ts0) ps = true -> ereach ecode (einit ps) st ->
  (exists i a, nth_error (eacts st) i = Some a /\ edone a = false) ->
  exists i c st', eexec ecode st i c = Some st'.
Proof.
  intros ps st Hp R [i [a [Hi Hd]]]. pose proof (all_inv_reach _ _ _ Hp R) as HI.
  assert (Hdec : forall n, (exists j c st', j < n /\ eexec ecode st j c = Some st') \/ (forall j c, j < n -> eexec ecode st j c = None)).
  { induction n as [|n IH]; [right; intros; lia|]. destruct IH as [[j [c [st' [Hj He]]]]|IH]; [left; exists j, c, st'; split; auto|].
    destruct (eexec ecode st n true) as [st'|] eqn:E1; [left; exists n, true, st'; split; auto|].
    destruct (eexec ecode st n false) as [st'|] eqn:E2; [left; exists n, false, st'; split; auto|].
    right. intros j c Hj. destruct (Nat.eq_dec j n); [subst; destruct c; auto|apply IH; lia]. }
  destruct (Hdec (length (eacts st))) as [[j [c [st' [_ He]]]]|Hnone]; [eauto|].
  exfalso. assert (Hst : forall j c, eexec ecode st j c = None).
  { intros j c. destruct (Nat.lt_ge_cases j (length (eacts st))); auto.
    unfold eexec. assert (X : nth_error (eacts st) j = None) by (apply nth_error_None; auto). rewrite X. auto. }
  assert (Hfree : forall k, free (esh st) k) by (intros k; apply (stuck_free st HI Hst 4 k); lia).
  destruct HI as [HL HA]. pose proof (HA _ _ Hi) as HIa.
  assert (Hnd : pr a <> Done) by (unfold edone in Hd; destruct (pr a); congruence).
  destruct (blocked_wants i (esh st) a HIa Hnd (eexec_none _ _ _ _ _ Hi (Hst i true)) (eexec_none _ _ _ _ _ Hi (Hst i false)))
    as [[k' [Hp' _]]|[k' [q [_ [Hr _]]]]].
  - destruct (Hfree k') as [F _]. congruence.
  - destruct (Hfree k') as [_ F]. congruence.
Qed.
