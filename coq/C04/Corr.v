(* C04 correspondence evaluator: runs the model on a forced schedule and compares, query by query, the set of
   batches the real shard returned with the model's view. *)
From Coq Require Import List Bool Arith PeanoNat.
From OG Require Import C04.Model.
Import ListNotations.

(* actor specifications as the harness writes them *)
Inductive aspec := SW (bs : list nat) | SR (n : nat) | SF (n : nat) | SM | SC.
Definition mk_actor (a : aspec) : actor :=
  match a with
  | SW bs => fresh_writer bs | SR n => fresh_reader n | SF n => fresh_flusher n | SM => AP [Merge] | SC => AC C0
  end.

Fixpoint insert_nat (x : nat) (l : list nat) : list nat :=
  match l with [] => [x] | y :: t => if x <? y then x :: l else if x =? y then l else y :: insert_nat x t end.
Definition sort_dedup (l : list nat) : list nat := fold_right insert_nat [] l.

Fixpoint list_eqb (a b : list nat) : bool :=
  match a, b with [] , [] => true | x :: a', y :: b' => (x =? y) && list_eqb a' b' | _, _ => false end.

(* results of the finished queries of reader actor i, oldest first, as sorted duplicate-free sets *)
Definition model_results (st : state) (i : nat) : list (list nat) :=
  match nth_error (actors st) i with
  | Some a => rev (map (fun e => sort_dedup (snd e)) (reader_hist a))
  | None => []
  end.

Fixpoint lists_eqb (a b : list (list nat)) : bool :=
  match a, b with [], [] => true | x :: a', y :: b' => list_eqb x y && lists_eqb a' b' | _, _ => false end.

(* a case: actors, schedule, and for each reader actor index the observed result sets of its queries.
   0 = agree; 1 = the schedule is not executable in the model; 2 = some view differs *)
Definition check_case (V : variant) (specs : list aspec) (sched : list nat) (obs : list (nat * list (list nat))) : nat :=
  match run V (init_state (map mk_actor specs)) sched with
  | None => 1
  | Some st => if forallb (fun o => lists_eqb (model_results st (fst o)) (map sort_dedup (snd o))) obs then 0 else 2
  end.

Definition case := (list aspec * list nat * list (nat * list (list nat)))%type.
Fixpoint mismatches_from (V : variant) (k : nat) (cs : list case) : list (nat * nat) :=
  match cs with
  | [] => []
  | (sp, sc, ob) :: r =>
      match check_case V sp sc ob with
      | 0 => mismatches_from V (S k) r
      | c => (k, c) :: mismatches_from V (S k) r
      end
  end.
Definition mismatches (V : variant) := mismatches_from V 0.

(* aggregate readers (harness actor kind A): the harness reports count(v) of the series, computed on the store's
   aggregate path (pre-aggregation from chunk metadata + memtable rows), instead of the row set.  The model's count of a
   view is the number of distinct batches in it - a view that showed the snapshot table together with a file flushed
   from it would count those batches twice on that path.  cobs: reader index -> observed counts.  3 = a count differs *)
Definition model_counts (st : state) (i : nat) : list nat := map (@length nat) (model_results st i).
Definition check_case_a (V : variant) (specs : list aspec) (sched : list nat) (obs : list (nat * list (list nat)))
  (cobs : list (nat * list nat)) : nat :=
  match run V (init_state (map mk_actor specs)) sched with
  | None => 1
  | Some st =>
      if forallb (fun o => lists_eqb (model_results st (fst o)) (map sort_dedup (snd o))) obs
      then (if forallb (fun o => list_eqb (model_counts st (fst o)) (snd o)) cobs then 0 else 3)
      else 2
  end.
Definition case_a := (list aspec * list nat * list (nat * list (list nat)) * list (nat * list nat))%type.
Fixpoint mismatches_a_from (V : variant) (k : nat) (cs : list case_a) : list (nat * nat) :=
  match cs with
  | [] => []
  | (sp, sc, ob, cb) :: r =>
      match check_case_a V sp sc ob cb with
      | 0 => mismatches_a_from V (S k) r
      | c => (k, c) :: mismatches_a_from V (S k) r
      end
  end.
Definition mismatches_a (V : variant) := mismatches_a_from V 0.

(* ---- bounded enumeration of schedules in the normal form the harness can force:
   a write (append + acknowledgement), the tail of a query (reference memtables, read, release) and a close are
   macro steps whose model steps are adjacent; everything else is interleaved step by step. *)
Definition mid_macro (a : actor) : bool :=
  match a with
  | AW w => match w_ph w with W1 _ => true | W0 => false end
  | AR r => match r_ph r with R3 _ _ | R4 _ _ _ => true | _ => false end
  | AC c => match c with C1 | C2 | C3 | C4 => true | _ => false end
  | _ => false
  end.

Fixpoint macro_exec (V : variant) (fuel : nat) (st : state) (i : nat) : option (state * list nat) :=
  match fuel with
  | O => None
  | S f =>
      match exec V st i with
      | None => None
      | Some st' =>
          match nth_error (actors st') i with
          | Some a => if mid_macro a
                      then match macro_exec V f st' i with
                           | Some (st2, l) => Some (st2, i :: l)
                           | None => None
                           end
                      else Some (st', [i])
          | None => None
          end
      end
  end.

Fixpoint enum (V : variant) (fuel : nat) (st : state) : list (list nat) :=
  match fuel with
  | O => [[]]
  | S f =>
      let idx := seq 0 (length (actors st)) in
      let nexts := flat_map (fun i => match macro_exec V 6 st i with
                                      | Some (st', l) => map (fun s => l ++ s) (enum V f st')
                                      | None => [] end) idx in
      match nexts with [] => [[]] | _ => nexts end
  end.

Definition enum_sys (specs : list aspec) (fuel : nat) : list (list nat) :=
  enum current fuel (init_state (map mk_actor specs)).

(* model-guided random walk: at every point the enabled macro steps are computed with the machine and the next one is
   picked by the next number of `choices` (supplied by the driver from its seeded PRNG) *)
Fixpoint walk (V : variant) (choices : list nat) (st : state) : list nat :=
  match choices with
  | [] => []
  | c :: t =>
      let idx := seq 0 (length (actors st)) in
      let en := flat_map (fun i => match macro_exec V 6 st i with Some r => [r] | None => [] end) idx in
      match en with
      | [] => []
      | _ => let '(st', l) := nth (Nat.modulo c (length en)) en (st, []) in l ++ walk V t st'
      end
  end.
Definition walk_sys (specs : list aspec) (choices : list nat) : list nat :=
  walk current choices (init_state (map mk_actor specs)).

(* every interleaving of the macro steps of the actors in `allowed`, from the state reached by `prefix` *)
Fixpoint enum_only (V : variant) (fuel : nat) (allowed : list nat) (st : state) : list (list nat) :=
  match fuel with
  | O => [[]]
  | S f =>
      let nexts := flat_map (fun i => match macro_exec V 6 st i with
                                      | Some (st', l) => map (fun s => l ++ s) (enum_only V f allowed st')
                                      | None => [] end) allowed in
      match nexts with [] => [[]] | _ => nexts end
  end.
Definition enum_from (specs : list aspec) (prefix : list nat) (allowed : list nat) (fuel : nat) : list (list nat) :=
  match run current (init_state (map mk_actor specs)) prefix with
  | Some st => map (fun s => prefix ++ s) (enum_only current fuel allowed st)
  | None => []
  end.

(* is the next step of actor i disabled after `sched` (schedules in the 4-step flush layout)?  (used for negative probes: the
   implementation must block there too) *)
Definition blocked_after (specs : list aspec) (sched : list nat) (i : nat) : bool :=
  match run current (init_state (map mk_actor specs)) sched with
  | Some st => match exec current st i with None => true | Some _ => false end
  | None => false
  end.
