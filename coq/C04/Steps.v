(* C04 proofs, part 2: the steps of the CORRECT machine as an inductive relation (one constructor per kind of
   critical section), extracted from the executable step function once and for all. *)
From Coq Require Import List Bool Arith PeanoNat Lia.
From OG Require Import C04.Model C04.Proofs.
Import ListNotations.

Definition mkr (left : nat) (ok : bool) (st : list nat) (ph : rph) (hist : list (bool * list nat * list nat)) : reader :=
  {| r_left := left; r_ok := ok; r_start := st; r_ph := ph; r_hist := hist |}.

Definition unord_listed (s : shared) : list nat :=
  filter (fun f => match get_file s f with Some x => negb (f_ord x) | None => false end) (listed s).
Definition ord_listed (s : shared) : list nat :=
  filter (fun f => match get_file s f with Some x => f_ord x | None => false end) (listed s).

(* lstep s l i a s' a' : actor a (at position i of l) steps, shared state s -> s', actor -> a' *)
Inductive lstep (s : shared) (l : list actor) (i : nat) : actor -> shared -> actor -> Prop :=
| LW_reject : forall w b t, w_ph w = W0 -> w_todo w = b :: t -> mu_x s = false ->
    (closing s = true \/ active s = None) ->
    lstep s l i (AW w) s (AW {| w_todo := t; w_ph := W0 |})
| LW_append : forall w b t a, w_ph w = W0 -> w_todo w = b :: t -> mu_x s = false -> closing s = false ->
    active s = Some a ->
    lstep s l i (AW w) (set_logs (map_mt s a (mt_add_row b)) (b :: appended s) (acked s)) (AW {| w_todo := t; w_ph := W1 b |})
| LW_ack : forall w b, w_ph w = W1 b ->
    lstep s l i (AW w) (set_logs s (appended s) (b :: acked s)) (AW {| w_todo := w_todo w; w_ph := W0 |})
| LR_begin : forall r n, r_ph r = R0 -> r_left r = S n ->
    lstep s l i (AR r) s (AR (mkr (r_left r) (negb (dropped s)) (acked s) (R1 (snap s) (flag_of s (snap s))) (r_hist r)))
| LR_files : forall r sn fl0, r_ph r = R1 sn fl0 -> mmu_x s = false ->
    lstep s l i (AR r)
      (if fclosed s then s else set_files s (map_at 0 (fun k => mem_nat k (listed s)) (f_add_hold i) (files s)))
      (AR (mkr (r_left r) (r_ok r) (r_start r) (R2 sn (listed s) (flag_of s sn)) (r_hist r)))
| LR_mem : forall r sn fs fl, r_ph r = R2 sn fs fl ->
    let ms := opt_list (active s) ++ (if fl then [] else opt_list sn) in
    lstep s l i (AR r) (set_mts s (map_at 0 (fun k => mem_nat k ms) (mt_add_hold i) (mts s)))
      (AR (mkr (r_left r) (r_ok r) (r_start r) (R3 ms fs) (r_hist r)))
| LR_read : forall r ms fs, r_ph r = R3 ms fs ->
    lstep s l i (AR r) s
      (AR (mkr (r_left r) (r_ok r) (r_start r) (R4 ms fs (flat_map (mt_rows_of s) ms ++ flat_map (file_rows_of s) fs)) (r_hist r)))
| LR_done : forall r ms fs res, r_ph r = R4 ms fs res ->
    let s1 := set_files s (map_at 0 (fun k => mem_nat k fs) (f_unhold i) (files s)) in
    lstep s l i (AR r) (set_mts s1 (unhold_all i (owned_ids s) ms 0 (mts s1)))
      (AR (mkr (pred (r_left r)) false [] R0 ((r_ok r, r_start r, res) :: r_hist r)))
| LF_skip : forall f n, fl_ph f = F0 -> fl_left f = S n -> active s = None ->
    lstep s l i (AF f) s (AF {| fl_left := n; fl_ph := F0 |})
| LF_swap : forall f n a, fl_ph f = F0 -> fl_left f = S n -> active s = Some a -> snapR l = false -> snap s = None ->
    lstep s l i (AF f) (set_active_snap (set_mts s (mts s ++ [new_mtab])) (Some (length (mts s))) (Some a))
      (AF {| fl_left := fl_left f; fl_ph := F1 a |})
| LF_publish : forall f m, fl_ph f = F1 m -> mmu_x s = false ->
    lstep s l i (AF f) (publish s m false) (AF {| fl_left := fl_left f; fl_ph := F2 m |})
| LF_publish_b : forall f m g, fl_ph f = F1b m g -> mmu_x s = false ->
    lstep s l i (AF f) (publish s m (negb (Nat.eqb g (ugen s)))) (AF {| fl_left := fl_left f; fl_ph := F2 m |})
| LF_drop : forall f m, fl_ph f = F2 m -> snapR l = false ->
    lstep s l i (AF f) (drop_snap s m) (AF {| fl_left := pred (fl_left f); fl_ph := F0 |})
| LP_gc : forall f t x, get_file s f = Some x -> f_listed x = false -> f_removed x = false -> f_hold x = [] ->
    lstep s l i (AP (Gc f :: t)) (map_file s f f_remove) (AP t)
| LP_skip : forall op t, lstep s l i (AP (op :: t)) s (AP t)
| LP_replace : forall olds extra t, closing s = false -> mmu_x s = false ->
    olds <> [] -> nodup_nat (olds ++ extra) = true -> all_listed s (olds ++ extra) = true ->
    let s1 := set_files s (map_at 0 (fun k => mem_nat k olds) f_delist (files s)) in
    lstep s l i (AP (Replace olds extra :: t))
      (set_files s1 (files s1 ++ [mk_file (flat_map (file_rows_of s) (olds ++ extra)) None true true])) (AP t)
| LP_delist : forall fs t, closing s = false -> mmu_x s = false ->
    nodup_nat fs = true -> all_listed s fs = true -> covered_elsewhere s fs = true ->
    lstep s l i (AP (Delist fs :: t)) (set_files s (map_at 0 (fun k => mem_nat k fs) f_delist (files s))) (AP t)
| LP_merge : forall t, closing s = false -> mmu_x s = false -> ord_listed s <> [] -> unord_listed s <> [] ->
    let s1 := set_files s (map_at 0 (fun k => mem_nat k (ord_listed s)) f_delist (files s)) in
    lstep s l i (AP (Merge :: t))
      (set_files s1 (files s1 ++ [mk_file (flat_map (file_rows_of s) (ord_listed s ++ unord_listed s)) None true true]))
      (AP (Delist (unord_listed s) :: DropList :: t))
| LP_droplist : forall t, lstep s l i (AP (DropList :: t)) (set_seq s (hi s) (S (ugen s))) (AP t)
| LC_again : closing s = true -> lstep s l i (AC C0) s (AC C5)
| LC_begin : closing s = false ->
    lstep s l i (AC C0) (set_close s (dropped s) true (mu_x s) (mmu_x s) (fclosed s)) (AC C1)
| LC_lock : wmid l = false -> lstep s l i (AC C1) (set_close s (dropped s) true true (mmu_x s) (fclosed s)) (AC C2)
| LC_drop : snapR l = false ->
    lstep s l i (AC C2) (set_close (set_active_snap s None (snap s)) true true true (mmu_x s) (fclosed s)) (AC C3)
| LC_wait : fmid l = false -> lstep s l i (AC C3) (set_close s (dropped s) true true true (fclosed s)) (AC C4)
| LC_files : all_unheld s = true -> lstep s l i (AC C4) (set_close s (dropped s) true false false true) (AC C5).

Lemma is_nil_true : forall A (l : list A), is_nil l = true -> l = [].
Proof. destruct l; simpl; congruence. Qed.
Lemma is_nil_false : forall A (l : list A), is_nil l = false -> l <> [].
Proof. destruct l; simpl; congruence. Qed.

Lemma exec_lstep : forall st i st', exec correct st i = Some st' ->
  exists a a', nth_error (actors st) i = Some a /\ lstep (sh st) (actors st) i a (sh st') a' /\
               actors st' = upd (actors st) i a'.
Proof.
  intros st i st' H. unfold exec in H.
  destruct (nth_error (actors st) i) as [a|] eqn:Ha; [|discriminate].
  exists a. destruct a as [w|r|f|t|c].
  - (* writer *)
    unfold step_writer in H. destruct (w_ph w) eqn:Ep.
    + destruct (w_todo w) as [|b t] eqn:Et; [discriminate|].
      destruct (mu_x (sh st)) eqn:Em; [discriminate|].
      destruct (closing (sh st)) eqn:Ec.
      * inversion H; subst; clear H. eexists; split; [reflexivity|]. split; [|reflexivity]. simpl.
        eapply LW_reject; eauto.
      * destruct (active (sh st)) as [a|] eqn:Ea.
        -- inversion H; subst; clear H. eexists; split; [reflexivity|]. split; [|reflexivity]. simpl.
           assert (Hx : appended (map_mt (sh st) a (mt_add_row b)) = appended (sh st) /\
                        acked (map_mt (sh st) a (mt_add_row b)) = acked (sh st)).
           { unfold map_mt. destruct (get_mt (sh st) a); simpl; auto. }
           destruct Hx as [-> ->]. eapply LW_append; eauto.
        -- inversion H; subst; clear H. eexists; split; [reflexivity|]. split; [|reflexivity]. simpl.
           eapply LW_reject; eauto.
    + inversion H; subst; clear H. eexists; split; [reflexivity|]. split; [|reflexivity]. simpl.
      eapply LW_ack; eauto.
  - (* reader *)
    unfold step_reader in H. destruct (r_ph r) eqn:Ep.
    + destruct (r_left r) eqn:El; [discriminate|]. inversion H; subst; clear H.
      eexists; split; [reflexivity|]. split; [|reflexivity]. simpl. rewrite <- El. eapply LR_begin; eauto.
    + destruct (mmu_x (sh st)) eqn:Em; [discriminate|]. inversion H; subst; clear H.
      eexists; split; [reflexivity|]. split; [|reflexivity]. simpl. eapply LR_files; eauto.
    + inversion H; subst; clear H. eexists; split; [reflexivity|]. split; [|reflexivity]. simpl.
      eapply LR_mem; eauto.
    + inversion H; subst; clear H. eexists; split; [reflexivity|]. split; [|reflexivity]. simpl.
      eapply LR_read; eauto.
    + inversion H; subst; clear H. eexists; split; [reflexivity|]. split; [|reflexivity]. simpl.
      eapply LR_done; eauto.
  - (* flusher *)
    unfold step_flusher in H. simpl in H. destruct (fl_ph f) eqn:Ep.
    + destruct (fl_left f) eqn:El; [discriminate|]. destruct (active (sh st)) as [a|] eqn:Ea.
      * destruct (negb (snapR (actors st))) eqn:Es; simpl in H; [|discriminate].
        destruct (snap (sh st)) eqn:En; [discriminate|]. inversion H; subst; clear H.
        eexists; split; [reflexivity|]. split; [|reflexivity]. simpl. rewrite <- El.
        eapply LF_swap; eauto. apply negb_true_iff in Es; auto.
      * inversion H; subst; clear H. eexists; split; [reflexivity|]. split; [|reflexivity]. simpl.
        eapply LF_skip; eauto.
    + destruct (mmu_x (sh st)) eqn:Em; [discriminate|]. inversion H; subst; clear H.
      eexists; split; [reflexivity|]. split; [|reflexivity]. simpl. eapply LF_publish; eauto.
    + destruct (mmu_x (sh st)) eqn:Em; [discriminate|]. inversion H; subst; clear H.
      eexists; split; [reflexivity|]. split; [|reflexivity]. simpl. eapply LF_publish_b; eauto.
    + destruct (negb (snapR (actors st))) eqn:Es; [|discriminate]. inversion H; subst; clear H.
      eexists; split; [reflexivity|]. split; [|reflexivity]. simpl. eapply LF_drop; eauto.
      apply negb_true_iff in Es; auto.
  - (* replacer *)
    unfold step_replacer in H. destruct t as [|op t]; [discriminate|].
    destruct op.
    + (* Replace *)
      destruct (closing (sh st) || mmu_x (sh st)) eqn:Ec.
      { inversion H; subst; clear H. eexists; split; [reflexivity|]. split; [|reflexivity]. apply LP_skip. }
      apply orb_false_iff in Ec. destruct Ec as [Ec Em].
      destruct (negb (is_nil olds) && nodup_nat (olds ++ extra) && all_listed (sh st) (olds ++ extra)) eqn:Eg.
      * apply andb_true_iff in Eg. destruct Eg as [Eg E3]. apply andb_true_iff in Eg. destruct Eg as [E1 E2].
        inversion H; subst; clear H. eexists; split; [reflexivity|]. split; [|reflexivity]. simpl.
        eapply LP_replace; eauto. apply is_nil_false. apply negb_true_iff; auto.
      * inversion H; subst; clear H. eexists; split; [reflexivity|]. split; [|reflexivity]. apply LP_skip.
    + (* Delist *)
      destruct (closing (sh st) || mmu_x (sh st)) eqn:Ec.
      { inversion H; subst; clear H. eexists; split; [reflexivity|]. split; [|reflexivity]. apply LP_skip. }
      apply orb_false_iff in Ec. destruct Ec as [Ec Em].
      destruct (nodup_nat fs && all_listed (sh st) fs && covered_elsewhere (sh st) fs) eqn:Eg.
      * apply andb_true_iff in Eg. destruct Eg as [Eg E3]. apply andb_true_iff in Eg. destruct Eg as [E1 E2].
        inversion H; subst; clear H. eexists; split; [reflexivity|]. split; [|reflexivity]. simpl.
        eapply LP_delist; eauto.
      * inversion H; subst; clear H. eexists; split; [reflexivity|]. split; [|reflexivity]. apply LP_skip.
    + (* Gc *)
      destruct (get_file (sh st) f) as [x|] eqn:Ef.
      * simpl in H.
        destruct (negb (f_listed x) && negb (f_removed x) && is_nil (f_hold x)) eqn:Eg.
        -- apply andb_true_iff in Eg. destruct Eg as [Eg E3]. apply andb_true_iff in Eg. destruct Eg as [E1 E2].
           inversion H; subst; clear H. eexists; split; [reflexivity|]. split; [|reflexivity]. simpl.
           eapply LP_gc; eauto. apply negb_true_iff; auto. apply negb_true_iff; auto. apply is_nil_true; auto.
        -- destruct (f_removed x || f_listed x); [|discriminate].
           inversion H; subst; clear H. eexists; split; [reflexivity|]. split; [|reflexivity]. apply LP_skip.
      * inversion H; subst; clear H. eexists; split; [reflexivity|]. split; [|reflexivity]. apply LP_skip.
    + (* Merge *)
      destruct (closing (sh st) || mmu_x (sh st)) eqn:Ec.
      { inversion H; subst; clear H. eexists; split; [reflexivity|]. split; [|reflexivity]. apply LP_skip. }
      apply orb_false_iff in Ec. destruct Ec as [Ec Em].
      fold (ord_listed (sh st)) in H. fold (unord_listed (sh st)) in H.
      destruct (is_nil (ord_listed (sh st)) || is_nil (unord_listed (sh st))) eqn:Eg.
      * inversion H; subst; clear H. eexists; split; [reflexivity|]. split; [|reflexivity]. apply LP_skip.
      * apply orb_false_iff in Eg. destruct Eg as [E1 E2].
        inversion H; subst; clear H. eexists; split; [reflexivity|]. split; [|reflexivity]. simpl.
        eapply LP_merge; eauto using is_nil_false.
    + (* DropList *)
      destruct (closing (sh st) || mmu_x (sh st)) eqn:Ec.
      { inversion H; subst; clear H. eexists; split; [reflexivity|]. split; [|reflexivity]. apply LP_skip. }
      match type of H with context [is_nil ?u] => destruct (is_nil u) end.
      * inversion H; subst; clear H. eexists; split; [reflexivity|]. split; [|reflexivity]. apply LP_droplist.
      * inversion H; subst; clear H. eexists; split; [reflexivity|]. split; [|reflexivity]. apply LP_skip.
  - (* closer *)
    unfold step_closer in H. destruct c.
    + destruct (closing (sh st)) eqn:Ec; inversion H; subst; clear H;
        (eexists; split; [reflexivity|]; split; [|reflexivity]; simpl).
      * apply LC_again; auto.
      * apply LC_begin; auto.
    + destruct (wmid (actors st)) eqn:E; [discriminate|]. inversion H; subst; clear H.
      eexists; split; [reflexivity|]. split; [|reflexivity]. simpl. apply LC_lock; auto.
    + destruct (snapR (actors st)) eqn:E; [discriminate|]. inversion H; subst; clear H.
      eexists; split; [reflexivity|]. split; [|reflexivity]. simpl. apply LC_drop; auto.
    + destruct (fmid (actors st)) eqn:E; [discriminate|]. inversion H; subst; clear H.
      eexists; split; [reflexivity|]. split; [|reflexivity]. simpl. apply LC_wait; auto.
    + destruct (all_unheld (sh st)) eqn:E; [|discriminate]. inversion H; subst; clear H.
      eexists; split; [reflexivity|]. split; [|reflexivity]. simpl. apply LC_files; auto.
    + discriminate.
Qed.
