(* C04 proofs, part 7: a view never contains a memtable together with a file that was flushed from it. *)
From Coq Require Import List Bool Arith PeanoNat Lia.
From OG Require Import C04.Model C04.Proofs C04.Steps C04.Inv C04.Views C04.Safety.
Import ListNotations.

Lemma step_flag_mono : forall s l i a s' a' m, lstep s l i a s' a' ->
  flag_of s (Some m) = true -> flag_of s' (Some m) = true.
Proof.
  intros s l i a s' a' m Hls Hfl. unfold flag_of in *.
  inversion Hls; subst; repeat match goal with x := _ |- _ => subst x end; auto.
  - rewrite get_mt_set_logs, get_mt_map_mt. destruct (get_mt s a0) eqn:G; auto.
    destruct (Nat.eqb a0 m) eqn:Ek; auto. apply Nat.eqb_eq in Ek; subst. rewrite G in Hfl. auto.
  - destruct (fclosed s); auto.
  - rewrite get_mt_set_mts, nth_error_map_at, <- get_mt_unfold. destruct (get_mt s m); simpl; auto. destruct (mem_nat m _); auto.
  - rewrite get_mt_set_mts, nth_error_unhold_all, <- get_mt_unfold. simpl. rewrite get_mt_set_files. destruct (get_mt s m); simpl; auto.
    destruct (mem_nat m ms); auto. rewrite mt_unhold_flag; auto.
  - rewrite get_mt_set_as, get_mt_set_mts. rewrite get_mt_unfold in Hfl. destruct (nth_error (mts s) m) eqn:G; [|discriminate].
    rewrite (nth_error_app_old _ _ _ _ _ G). auto.
  - rewrite publish_mts. destruct (get_mt s m0) eqn:G; auto. destruct (Nat.eqb m0 m) eqn:Ek; auto.
  - rewrite publish_mts. destruct (get_mt s m0) eqn:G; auto. destruct (Nat.eqb m0 m) eqn:Ek; auto.
  - unfold drop_snap. rewrite get_mt_set_as. destruct (get_mt s m0) eqn:G; [|rewrite get_mt_set_as; auto].
    destruct (is_nil (m_hold m1)); [|rewrite get_mt_set_as; auto].
    rewrite get_mt_map_mt, get_mt_set_as, G. destruct (Nat.eqb m0 m) eqn:Ek; [|rewrite get_mt_set_as; auto].
    apply Nat.eqb_eq in Ek; subst. rewrite G in Hfl. auto.
  - rewrite get_mt_map_file. auto.
Qed.

(* files are never forgotten and keep their provenance *)
Lemma step_file_fwd : forall s l i a s' a' f x, lstep s l i a s' a' -> get_file s f = Some x ->
  exists x', get_file s' f = Some x' /\ f_src x' = f_src x.
Proof.
  intros s l i a s' a' f x Hls G.
  inversion Hls; subst; repeat match goal with x := _ |- _ => subst x end; eauto.
  - rewrite get_file_set_logs, get_file_map_mt. eauto.
  - destruct (fclosed s); eauto. rewrite get_file_set_files, nth_error_map_at, <- get_file_unfold, G. simpl.
    destruct (mem_nat f _); eauto.
  - rewrite get_file_set_mts, get_file_set_files, nth_error_map_at, <- get_file_unfold, G. simpl. destruct (mem_nat f fs); eauto.
  - rewrite get_file_unfold, publish_files. rewrite get_file_unfold in G. rewrite (nth_error_app_old _ _ _ _ _ G). eauto.
  - rewrite get_file_unfold, publish_files. rewrite get_file_unfold in G. rewrite (nth_error_app_old _ _ _ _ _ G). eauto.
  - unfold drop_snap. rewrite get_mt_set_as. destruct (get_mt s m); [destruct (is_nil (m_hold m0))|]; autorewrite with shr; eauto.
  - rewrite get_file_map_file. match goal with Hx : get_file s f0 = Some _ |- _ => rewrite Hx end.
    destruct (Nat.eqb f0 f) eqn:Ek; eauto. apply Nat.eqb_eq in Ek; subst.
    match goal with Hx : get_file s f = Some x0 |- _ => rewrite Hx in G; inversion G; subst end. eauto.
  - rewrite get_file_set_files. simpl.
    assert (G' : nth_error (map_at 0 (fun k => mem_nat k olds) f_delist (files s)) f = Some (if mem_nat f olds then f_delist x else x)).
    { rewrite nth_error_map_at, <- get_file_unfold, G. reflexivity. }
    rewrite (nth_error_app_old _ _ _ _ _ G'). destruct (mem_nat f olds); eauto.
  - rewrite get_file_set_files, nth_error_map_at, <- get_file_unfold, G. simpl. destruct (mem_nat f fs); eauto.
  - rewrite get_file_set_files. simpl.
    assert (G' : nth_error (map_at 0 (fun k => mem_nat k (ord_listed s)) f_delist (files s)) f = Some (if mem_nat f (ord_listed s) then f_delist x else x)).
    { rewrite nth_error_map_at, <- get_file_unfold, G. reflexivity. }
    rewrite (nth_error_app_old _ _ _ _ _ G'). destruct (mem_nat f _); eauto.
Qed.

Definition prov_ok (s : shared) : Prop :=
  forall f x m, get_file s f = Some x -> f_src x = Some m -> flag_of s (Some m) = true.

Lemma prov_ok_step : forall st i st', Inv1 st -> prov_ok (sh st) -> exec correct st i = Some st' -> prov_ok (sh st').
Proof.
  intros st i st' [[Ha [Hs Hne]] [Hfl _] _ _] Hp H. inv_step H.
  intros f x m G Hsrc.
  (* either the file existed before (flags only grow) or it was created by this step *)
  destruct (get_file (sh st) f) as [x0|] eqn:G0.
  - destruct (step_file_fwd _ _ _ _ _ _ _ _ Hls G0) as [x' [G' Es]]. rewrite G in G'. inversion G'; subst.
    eapply step_flag_mono; eauto. eapply Hp; eauto. congruence.
  - destruct st' as [s' l']. simpl in *. subst l'.
    inversion Hls; subst; repeat match goal with x := _ |- _ => subst x end; autorewrite with shr in G; try congruence.
    + revert G. destruct (fclosed (sh st)); intro G; [congruence|]. rewrite get_file_set_files, nth_error_map_at, <- get_file_unfold, G0 in G. discriminate.
    + rewrite nth_error_map_at, <- get_file_unfold, G0 in G. discriminate.
    + (* publish *) apply get_file_publish in G. destruct G as [G|[_ [_ [_ [Es _]]]]]; [congruence|].
      rewrite Hsrc in Es. inversion Es; subst.
      pose proof (Hfl _ _ Hnth) as X. match goal with Hx : fl_ph _ = F1 _ |- _ => rewrite Hx in X end. destruct X as [X1 _].
      destruct (Hs _ X1) as [tm [G1 _]]. unfold flag_of. rewrite publish_mts, G1, Nat.eqb_refl. reflexivity.
    + pose proof (Hfl _ _ Hnth) as X. match goal with Hx : fl_ph _ = F1b _ _ |- _ => rewrite Hx in X end. contradiction.
    + unfold drop_snap in G. rewrite get_mt_set_as in G.
      destruct (get_mt (sh st) m0); [destruct (is_nil (m_hold m1))|]; autorewrite with shr in G; congruence.
    + rewrite get_file_map_file in G. match goal with Hx : get_file (sh st) f0 = Some _ |- _ => rewrite Hx in G end.
      destruct (Nat.eqb f0 f) eqn:Ek; [|congruence]. apply Nat.eqb_eq in Ek; subst. congruence.
    + simpl in G. apply nth_error_app_new in G. destruct G as [[_ G]|[_ ->]]; [|simpl in Hsrc; discriminate].
      rewrite nth_error_map_at, <- get_file_unfold, G0 in G. discriminate.
    + rewrite nth_error_map_at, <- get_file_unfold, G0 in G. discriminate.
    + simpl in G. apply nth_error_app_new in G. destruct G as [[_ G]|[_ ->]]; [|simpl in Hsrc; discriminate].
      rewrite nth_error_map_at, <- get_file_unfold, G0 in G. discriminate.
Qed.

Definition sep_ok (st : state) : Prop :=
  forall i r, nth_error (actors st) i = Some (AR r) ->
    match r_ph r with
    | R2 sn fs fl =>
        (forall f, In f fs -> exists x, get_file (sh st) f = Some x) /\
        (forall f x, In f fs -> get_file (sh st) f = Some x ->
           (forall a, active (sh st) = Some a -> f_src x <> Some a) /\ (fl = false -> forall m, sn = Some m -> f_src x <> Some m))
    | R3 ms fs | R4 ms fs _ =>
        (forall f, In f fs -> exists x, get_file (sh st) f = Some x) /\
        (forall m f x, In m ms -> In f fs -> get_file (sh st) f = Some x -> f_src x <> Some m)
    | _ => True
    end.

Lemma sep_ok_step : forall st i st', Inv1 st -> prov_ok (sh st) -> ptr_ok st -> sep_ok st ->
  exec correct st i = Some st' -> sep_ok st'.
Proof.
  intros st i st' HI Hp Hptr Hsep H. assert (HI' := HI). destruct HI' as [[Ha [Hs Hne]] _ _ _]. inv_step H.
  intros j r Hj. rewrite Hact in Hj. apply nth_error_upd in Hj. destruct Hj as [[<- Ej]|[N Hj]].
  - (* own step *) subst a'. destruct st' as [s' l']. simpl in *. subst l'.
    inversion Hls; subst; repeat match goal with x := _ |- _ => subst x end; simpl; auto.
    + (* files *)
      assert (Hex : forall f, In f (listed (sh st)) -> exists x, get_file (sh st) f = Some x /\ f_listed x = true) by (intros; apply listed_In; auto).
      specialize (Hptr _ _ Hnth). match goal with Hx : r_ph r0 = R1 _ _ |- _ => rewrite Hx in Hptr end.
      assert (Hsrc : forall f x, In f (listed (sh st)) -> get_file (sh st) f = Some x ->
                (forall a, active (sh st) = Some a -> f_src x <> Some a) /\
                (flag_of (sh st) sn = false -> forall m, sn = Some m -> f_src x <> Some m)).
      { intros f x Hf G. split.
        - intros a Ea Es. pose proof (Hp _ _ _ G Es) as F. destruct (Ha _ Ea) as [tm [G1 [G2 _]]].
          unfold flag_of in F. rewrite G1 in F. congruence.
        - intros Efl m Em Es. subst sn. pose proof (Hp _ _ _ G Es) as F. congruence. }
      destruct (fclosed (sh st)); [split; [intros f Hf; destruct (Hex _ Hf) as [x [G _]]; eauto|auto]|].
      split.
      * intros f Hf. destruct (Hex _ Hf) as [x [G _]]. rewrite get_file_set_files, nth_error_map_at, <- get_file_unfold, G. simpl.
        destruct (mem_nat f _); eauto.
      * intros f x Hf G. rewrite get_file_set_files, nth_error_map_at, <- get_file_unfold in G. simpl.
        destruct (get_file (sh st) f) eqn:E; simpl in G; [|discriminate]. inversion G; subst.
        destruct (Hsrc _ _ Hf E) as [S1 S2]. destruct (mem_nat f _); simpl; auto.
    + (* mem *)
      specialize (Hsep _ _ Hnth). match goal with Hx : r_ph r0 = R2 _ _ _ |- _ => rewrite Hx in Hsep end.
      destruct Hsep as [A B]. split; [intros f Hf; rewrite get_file_set_mts; auto|].
      intros m f x Hm Hf G. rewrite get_file_set_mts in G. destruct (B _ _ Hf G) as [B1 B2].
      apply in_app_or in Hm. destruct Hm as [Hm|Hm].
      * destruct (active (sh st)) eqn:Ea; simpl in Hm; [|tauto]. destruct Hm as [<-|[]]. auto.
      * destruct fl; [destruct Hm|]. destruct sn eqn:Es; simpl in Hm; [|tauto]. destruct Hm as [<-|[]]. auto.
    + (* read *)
      specialize (Hsep _ _ Hnth). match goal with Hx : r_ph r0 = R3 _ _ |- _ => rewrite Hx in Hsep end. auto.
  - (* step of another actor *)
    specialize (Hsep _ _ Hj). destruct (r_ph r) eqn:Ep; auto.
    + assert (Hl : snapR (actors st) = true) by (eapply snapR_of_reader; eauto; rewrite Ep; auto).
      destruct (step_ext_owned _ _ _ _ _ _ Hls Hl) as [E1 _]. destruct Hsep as [A B]. split.
      * intros f Hf. destruct (A _ Hf) as [x G]. destruct (step_file_fwd _ _ _ _ _ _ _ _ Hls G) as [x' [G' _]]. eauto.
      * intros f x' Hf G'. destruct (A _ Hf) as [x G]. destruct (step_file_fwd _ _ _ _ _ _ _ _ Hls G) as [x2 [G2 Es]].
        rewrite G' in G2. inversion G2; subst. rewrite Es, E1. eauto.
    + destruct Hsep as [A B]. split.
      * intros f Hf. destruct (A _ Hf) as [x G]. destruct (step_file_fwd _ _ _ _ _ _ _ _ Hls G) as [x' [G' _]]. eauto.
      * intros m f x' Hm Hf G'. destruct (A _ Hf) as [x G]. destruct (step_file_fwd _ _ _ _ _ _ _ _ Hls G) as [x2 [G2 Es]].
        rewrite G' in G2. inversion G2; subst. rewrite Es. eauto.
    + destruct Hsep as [A B]. split.
      * intros f Hf. destruct (A _ Hf) as [x G]. destruct (step_file_fwd _ _ _ _ _ _ _ _ Hls G) as [x' [G' _]]. eauto.
      * intros m f x' Hm Hf G'. destruct (A _ Hf) as [x G]. destruct (step_file_fwd _ _ _ _ _ _ _ _ Hls G) as [x2 [G2 Es]].
        rewrite G' in G2. inversion G2; subst. rewrite Es. eauto.
Qed.

Lemma not_both_reach : forall l st, forallb fresh l = true -> reach correct (init_state l) st -> prov_ok (sh st) /\ sep_ok st.
Proof.
  intros l st Hl R. induction R.
  - split.
    + intros f x m G. unfold get_file in G; simpl in G. destruct f; discriminate.
    + intros i r Hi. rewrite forallb_forall in Hl. apply nth_error_In in Hi. apply Hl in Hi. simpl in Hi.
      destruct (r_ph r); auto; discriminate.
  - destruct H as [i H]. destruct IHR as [A B]. pose proof (inv3_reach _ _ Hl R) as [[I1 _ _ _] _ P _]. split.
    + eapply prov_ok_step; eauto.
    + eapply sep_ok_step; eauto.
Qed.

(* the memtables of a view and the files of the same view never overlap in provenance: in particular never the
   snapshot table together with a file flushed from it *)
Theorem view_not_both_all : forall l st i r ms fs,
  forallb fresh l = true -> reach correct (init_state l) st ->
  nth_error (actors st) i = Some (AR r) -> (r_ph r = R3 ms fs \/ exists res, r_ph r = R4 ms fs res) ->
  forall m f x, In m ms -> In f fs -> get_file (sh st) f = Some x -> f_src x <> Some m.
Proof.
  intros l st i r ms fs Hl R Hn Hp. destruct (not_both_reach _ _ Hl R) as [_ S]. specialize (S _ _ Hn).
  destruct Hp as [Hp|[res Hp]]; rewrite Hp in S; destruct S as [_ S]; eauto.
Qed.
