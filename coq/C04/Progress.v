(* C04 proofs, part 6: no deadlock - from every reachable state of the correct machine some step is enabled until
   every actor is done (lock order: shard.mu -> snapshot lock -> MmsTables.mu -> file-list locks; waits for
   references are waits for readers that need no lock to finish). *)
From Coq Require Import List Bool Arith PeanoNat Lia.
From OG Require Import C04.Model C04.Proofs C04.Steps C04.Inv C04.Views C04.Safety.
Import ListNotations.

Definition reader_has_file (r : reader) (f : nat) : Prop :=
  match r_ph r with R2 _ fs _ | R3 _ fs | R4 _ fs _ => In f fs | _ => False end.

Definition lock_ok (st : state) : Prop :=
  (mmu_x (sh st) = true -> exists j, nth_error (actors st) j = Some (AC C4)) /\
  (mu_x (sh st) = true -> exists j c, nth_error (actors st) j = Some (AC c) /\ (c = C2 \/ c = C3 \/ c = C4)) /\
  (forall f x j, get_file (sh st) f = Some x -> In j (f_hold x) ->
     exists r, nth_error (actors st) j = Some (AR r) /\ reader_has_file r f).

Lemma lock_ok_init : forall l, lock_ok (init_state l).
Proof.
  intros l. split; [|split]; simpl; try discriminate.
  intros f x j G. unfold get_file in G; simpl in G. destruct f; discriminate.
Qed.

Lemma nth_upd_other : forall (l : list actor) i j a a', nth_error l j = Some a -> j <> i -> nth_error (upd l i a') j = Some a.
Proof. intros. rewrite nth_error_upd_neq; auto. Qed.

Lemma nth_upd_same : forall (l : list actor) i a a', nth_error l i = Some a -> nth_error (upd l i a') i = Some a'.
Proof. intros. apply nth_error_upd_eq. eapply nth_lt; eauto. Qed.

Lemma lock_ok_step : forall st i st', lock_ok st -> exec correct st i = Some st' -> lock_ok st'.
Proof.
  intros st i st' [K1 [K2 K3]] H. inv_step H. unfold lock_ok. rewrite Hact.
  destruct st' as [s' l']. simpl in *. subst l'.
  (* generic frame for steps of non-closer, non-reader actors that keep the holders *)
  assert (Hframe : forall s2 a2,
            mmu_x s2 = mmu_x (sh st) -> mu_x s2 = mu_x (sh st) ->
            (forall c, a <> AC c) -> (forall r, a <> AR r) -> (forall r, a2 <> AR r \/ True) ->
            (forall f x j, get_file s2 f = Some x -> In j (f_hold x) -> exists x0, get_file (sh st) f = Some x0 /\ In j (f_hold x0)) ->
            (mmu_x s2 = true -> exists j, nth_error (upd (actors st) i a2) j = Some (AC C4)) /\
            (mu_x s2 = true -> exists j c, nth_error (upd (actors st) i a2) j = Some (AC c) /\ (c = C2 \/ c = C3 \/ c = C4)) /\
            (forall f x j, get_file s2 f = Some x -> In j (f_hold x) ->
               exists r, nth_error (upd (actors st) i a2) j = Some (AR r) /\ reader_has_file r f)).
  { intros s2 a2 E1 E2 Nc Nr _ Hh. split; [|split].
    - rewrite E1. intro X. destruct (K1 X) as [j Hj]. exists j. apply nth_upd_other; auto. intro; subst. rewrite Hnth in Hj. inversion Hj. eapply Nc; eauto.
    - rewrite E2. intro X. destruct (K2 X) as [j [c [Hj Hc]]]. exists j, c. split; auto. apply nth_upd_other; auto.
      intro; subst. rewrite Hnth in Hj. inversion Hj. eapply Nc; eauto.
    - intros f x j G Hi. destruct (Hh _ _ _ G Hi) as [x0 [G0 Hi0]]. destruct (K3 _ _ _ G0 Hi0) as [r [Hj Hr]].
      exists r. split; auto. apply nth_upd_other; auto. intro; subst. rewrite Hnth in Hj. inversion Hj. eapply Nr; eauto. }
  inversion Hls; subst; repeat match goal with x := _ |- _ => subst x end.
  - (* reject *) apply Hframe; auto; try discriminate. eauto.
  - (* append *) apply Hframe; simpl; autorewrite with shr; auto; try discriminate.
    + unfold map_mt. destruct (get_mt (sh st) a0); auto.
    + unfold map_mt. destruct (get_mt (sh st) a0); auto.
    + intros f x j G. rewrite get_file_set_logs, get_file_map_mt in G. eauto.
  - (* ack *) apply Hframe; auto; try discriminate. eauto.
  - (* begin *) split; [|split].
    + intro X. destruct (K1 X) as [j Hj]. exists j. apply nth_upd_other; auto. intro; subst. congruence.
    + intro X. destruct (K2 X) as [j [c [Hj Hc]]]. exists j, c. split; auto. apply nth_upd_other; auto. intro; subst. congruence.
    + intros f x j G Hi. destruct (K3 _ _ _ G Hi) as [r0 [Hj Hr]]. destruct (Nat.eq_dec j i) as [->|N].
      * rewrite Hnth in Hj. inversion Hj; subst. unfold reader_has_file in Hr.
        match goal with Hx : r_ph r0 = R0 |- _ => rewrite Hx in Hr end. destruct Hr.
      * exists r0. split; auto. apply nth_upd_other; auto.
  - (* files *) split; [|split].
    + destruct (fclosed (sh st)); simpl; intro X; destruct (K1 X) as [j Hj]; exists j; apply nth_upd_other; auto; intro; subst; congruence.
    + destruct (fclosed (sh st)); simpl; intro X; destruct (K2 X) as [j [c [Hj Hc]]]; exists j, c; (split; auto); apply nth_upd_other; auto; intro; subst; congruence.
    + intros f x j G Hi.
      assert (Hold : forall x0, get_file (sh st) f = Some x0 -> In j (f_hold x0) -> j <> i ->
                exists r0, nth_error (upd (actors st) i (AR (mkr (r_left r) (r_ok r) (r_start r) (R2 sn (listed (sh st)) (flag_of (sh st) sn)) (r_hist r)))) j = Some (AR r0) /\ reader_has_file r0 f).
      { intros x0 G0 Hi0 N. destruct (K3 _ _ _ G0 Hi0) as [r0 [Hj Hr]]. exists r0. split; auto. apply nth_upd_other; auto. }
      assert (Hself : forall x0, get_file (sh st) f = Some x0 -> In i (f_hold x0) -> False).
      { intros x0 G0 Hi0. destruct (K3 _ _ _ G0 Hi0) as [r0 [Hj Hr]]. rewrite Hnth in Hj. inversion Hj; subst.
        unfold reader_has_file in Hr. match goal with Hx : r_ph r0 = R1 _ _ |- _ => rewrite Hx in Hr end. destruct Hr. }
      destruct (fclosed (sh st)).
      * destruct (Nat.eq_dec j i) as [->|N]; [exfalso; eapply Hself; eauto|eauto].
      * rewrite get_file_set_files, nth_error_map_at, <- get_file_unfold in G.
        destruct (get_file (sh st) f) eqn:E; simpl in G; [|discriminate]. inversion G; subst.
        destruct (mem_nat f (listed (sh st))) eqn:Em; simpl in Hi.
        -- destruct Hi as [<-|Hi].
           ++ eexists. split; [eapply nth_upd_same; eauto|]. unfold reader_has_file. simpl. apply mem_nat_In; auto.
           ++ destruct (Nat.eq_dec j i) as [->|N]; [exfalso; eapply Hself; eauto|eauto].
        -- destruct (Nat.eq_dec j i) as [->|N]; [exfalso; eapply Hself; eauto|eauto].
  - (* mem *) split; [|split].
    + simpl. intro X. destruct (K1 X) as [j Hj]. exists j. apply nth_upd_other; auto. intro; subst. congruence.
    + simpl. intro X. destruct (K2 X) as [j [c [Hj Hc]]]. exists j, c. split; auto. apply nth_upd_other; auto. intro; subst. congruence.
    + intros f x j G Hi. rewrite get_file_set_mts in G. destruct (K3 _ _ _ G Hi) as [r0 [Hj Hr]].
      destruct (Nat.eq_dec j i) as [->|N].
      * rewrite Hnth in Hj. inversion Hj; subst. eexists. split; [eapply nth_upd_same; eauto|].
        unfold reader_has_file in *. simpl. match goal with Hx : r_ph r0 = R2 _ _ _ |- _ => rewrite Hx in Hr end. auto.
      * exists r0. split; auto. apply nth_upd_other; auto.
  - (* read *) split; [|split].
    + intro X. destruct (K1 X) as [j Hj]. exists j. apply nth_upd_other; auto. intro; subst. congruence.
    + intro X. destruct (K2 X) as [j [c [Hj Hc]]]. exists j, c. split; auto. apply nth_upd_other; auto. intro; subst. congruence.
    + intros f x j G Hi. destruct (K3 _ _ _ G Hi) as [r0 [Hj Hr]].
      destruct (Nat.eq_dec j i) as [->|N].
      * rewrite Hnth in Hj. inversion Hj; subst. eexists. split; [eapply nth_upd_same; eauto|].
        unfold reader_has_file in *. simpl. match goal with Hx : r_ph r0 = R3 _ _ |- _ => rewrite Hx in Hr end. auto.
      * exists r0. split; auto. apply nth_upd_other; auto.
  - (* done *) split; [|split].
    + simpl. intro X. destruct (K1 X) as [j Hj]. exists j. apply nth_upd_other; auto. intro; subst. congruence.
    + simpl. intro X. destruct (K2 X) as [j [c [Hj Hc]]]. exists j, c. split; auto. apply nth_upd_other; auto. intro; subst. congruence.
    + intros f x j G Hi. rewrite get_file_set_mts, get_file_set_files, nth_error_map_at, <- get_file_unfold in G.
      destruct (get_file (sh st) f) eqn:E; simpl in G; [|discriminate]. inversion G; subst.
      assert (Hj0 : In j (f_hold f0) /\ (mem_nat f fs = true -> j <> i)).
      { destruct (mem_nat f fs); simpl in Hi; [apply In_remove_nat in Hi; tauto|split; auto; discriminate]. }
      destruct Hj0 as [Hj0 Hne]. destruct (K3 _ _ _ E Hj0) as [r0 [Hj Hr]].
      destruct (Nat.eq_dec j i) as [->|N].
      * exfalso. rewrite Hnth in Hj. inversion Hj; subst. unfold reader_has_file in Hr.
        match goal with Hx : r_ph r0 = R4 _ _ _ |- _ => rewrite Hx in Hr end.
        apply mem_nat_In in Hr. specialize (Hne Hr). congruence.
      * exists r0. split; auto. apply nth_upd_other; auto.
  - (* flush skip *) apply Hframe; auto; try discriminate. eauto.
  - (* swap *) apply Hframe; auto; try discriminate. intros f0 x j G. rewrite get_file_set_as, get_file_set_mts in G. eauto.
  - (* publish *) apply Hframe; auto; try discriminate.
    + unfold publish, map_mt; simpl. destruct (get_mt _ m); auto.
    + unfold publish, map_mt; simpl. destruct (get_mt _ m); auto.
    + intros f0 x j G Hi. apply get_file_publish in G. destruct G as [G|[_ [_ [G _]]]]; eauto. rewrite G in Hi. destruct Hi.
  - (* publish_b *) apply Hframe; auto; try discriminate.
    + unfold publish, map_mt; simpl. destruct (get_mt _ m); auto.
    + unfold publish, map_mt; simpl. destruct (get_mt _ m); auto.
    + intros f0 x j G Hi. apply get_file_publish in G. destruct G as [G|[_ [_ [G _]]]]; eauto. rewrite G in Hi. destruct Hi.
  - (* drop *) apply Hframe; auto; try discriminate.
    + unfold drop_snap, map_mt; simpl. destruct (get_mt _ m); simpl; auto. destruct (is_nil (m_hold m0)); simpl; auto.
    + unfold drop_snap, map_mt; simpl. destruct (get_mt _ m); simpl; auto. destruct (is_nil (m_hold m0)); simpl; auto.
    + intros f0 x j G. unfold drop_snap in G. rewrite get_mt_set_as in G.
      destruct (get_mt (sh st) m); [destruct (is_nil (m_hold m0))|]; autorewrite with shr in G; eauto.
  - (* gc *) apply Hframe; auto; try discriminate.
    + unfold map_file. destruct (get_file (sh st) f); auto.
    + unfold map_file. destruct (get_file (sh st) f); auto.
    + intros f0 x0 j G Hi. rewrite get_file_map_file in G.
      match goal with Hx : get_file (sh st) f = Some _ |- _ => rewrite Hx in G end.
      destruct (Nat.eqb f f0) eqn:Ek; eauto. inversion G; subst. simpl in Hi.
      match goal with Hx : f_hold x = [] |- _ => rewrite Hx in Hi end. destruct Hi.
  - (* skip *) apply Hframe; auto; try discriminate. eauto.
  - (* replace *) apply Hframe; auto; try discriminate. intros f0 x j G Hi.
    rewrite get_file_set_files in G. simpl in G. apply nth_error_app_new in G.
    destruct G as [[_ G]|[_ ->]]; [|simpl in Hi; destruct Hi].
    rewrite nth_error_map_at, <- get_file_unfold in G. destruct (get_file (sh st) f0) eqn:E; simpl in G; [|discriminate].
    inversion G; subst. destruct (mem_nat f0 olds); simpl in Hi; eauto.
  - (* delist *) apply Hframe; auto; try discriminate. intros f0 x j G Hi.
    rewrite get_file_set_files, nth_error_map_at, <- get_file_unfold in G. destruct (get_file (sh st) f0) eqn:E; simpl in G; [|discriminate].
    inversion G; subst. destruct (mem_nat f0 fs); simpl in Hi; eauto.
  - (* merge *) apply Hframe; auto; try discriminate. intros f0 x j G Hi.
    rewrite get_file_set_files in G. simpl in G. apply nth_error_app_new in G.
    destruct G as [[_ G]|[_ ->]]; [|simpl in Hi; destruct Hi].
    rewrite nth_error_map_at, <- get_file_unfold in G. destruct (get_file (sh st) f0) eqn:E; simpl in G; [|discriminate].
    inversion G; subst. destruct (mem_nat f0 _); simpl in Hi; eauto.
  - (* droplist *) apply Hframe; auto; try discriminate. eauto.
  - (* c again *) split; [|split].
    + intro X. destruct (K1 X) as [j Hj]. exists j. apply nth_upd_other; auto. intro; subst. congruence.
    + intro X. destruct (K2 X) as [j [c [Hj Hc]]]. exists j, c. split; auto. apply nth_upd_other; auto.
      intro; subst. rewrite Hnth in Hj. inversion Hj; subst. destruct Hc as [|[|]]; discriminate.
    + intros f x j G Hi. destruct (K3 _ _ _ G Hi) as [r0 [Hj Hr]]. exists r0. split; auto. apply nth_upd_other; auto. intro; subst. congruence.
  - (* c begin *) split; [|split]; simpl.
    + intro X. destruct (K1 X) as [j Hj]. exists j. apply nth_upd_other; auto. intro; subst. congruence.
    + intro X. destruct (K2 X) as [j [c [Hj Hc]]]. exists j, c. split; auto. apply nth_upd_other; auto.
      intro; subst. rewrite Hnth in Hj. inversion Hj; subst. destruct Hc as [|[|]]; discriminate.
    + intros f x j G Hi. destruct (K3 _ _ _ G Hi) as [r0 [Hj Hr]]. exists r0. split; auto. apply nth_upd_other; auto. intro; subst. congruence.
  - (* c lock *) split; [|split]; simpl.
    + intro X. destruct (K1 X) as [j Hj]. exists j. apply nth_upd_other; auto. intro; subst. congruence.
    + intros _. exists i, C2. split; auto. eapply nth_upd_same; eauto.
    + intros f x j G Hi. destruct (K3 _ _ _ G Hi) as [r0 [Hj Hr]]. exists r0. split; auto. apply nth_upd_other; auto. intro; subst. congruence.
  - (* c drop *) split; [|split]; simpl.
    + intro X. destruct (K1 X) as [j Hj]. exists j. apply nth_upd_other; auto. intro; subst. congruence.
    + intros _. exists i, C3. split; auto. eapply nth_upd_same; eauto.
    + intros f x j G Hi. destruct (K3 _ _ _ G Hi) as [r0 [Hj Hr]]. exists r0. split; auto. apply nth_upd_other; auto. intro; subst. congruence.
  - (* c wait *) split; [|split]; simpl.
    + intros _. exists i. eapply nth_upd_same; eauto.
    + intros _. exists i, C4. split; auto. eapply nth_upd_same; eauto.
    + intros f x j G Hi. destruct (K3 _ _ _ G Hi) as [r0 [Hj Hr]]. exists r0. split; auto. apply nth_upd_other; auto. intro; subst. congruence.
  - (* c files *) split; [|split]; simpl; try discriminate.
    intros f x j G Hi. destruct (K3 _ _ _ G Hi) as [r0 [Hj Hr]]. exists r0. split; auto. apply nth_upd_other; auto. intro; subst. congruence.
Qed.

Lemma lock_ok_reach : forall l st, reach correct (init_state l) st -> lock_ok st.
Proof.
  intros l st R. induction R; [apply lock_ok_init|]. destruct H as [i H]. eapply lock_ok_step; eauto.
Qed.

(* ---------------------------------------------------------------- when is an actor blocked? *)
Lemma blocked_writer : forall st i w, nth_error (actors st) i = Some (AW w) -> exec correct st i = None ->
  w_ph w = W0 /\ (w_todo w = [] \/ mu_x (sh st) = true).
Proof.
  intros st i w Hn H. unfold exec in H. rewrite Hn in H. unfold step_writer in H.
  destruct (w_ph w); [|discriminate]. split; auto. destruct (w_todo w); auto. right.
  destruct (mu_x (sh st)); auto. destruct (closing (sh st)); [discriminate|]. destruct (active (sh st)); discriminate.
Qed.

Lemma blocked_reader : forall st i r, nth_error (actors st) i = Some (AR r) -> exec correct st i = None ->
  (r_ph r = R0 /\ r_left r = 0) \/ (exists sn fl, r_ph r = R1 sn fl /\ mmu_x (sh st) = true).
Proof.
  intros st i r Hn H. unfold exec in H. rewrite Hn in H. unfold step_reader in H.
  destruct (r_ph r); try discriminate.
  - left. destruct (r_left r); auto. discriminate.
  - right. destruct (mmu_x (sh st)); [eauto|discriminate].
Qed.

Lemma blocked_flusher : forall st i f, nth_error (actors st) i = Some (AF f) -> exec correct st i = None ->
  (fl_ph f = F0 /\ fl_left f = 0) \/
  (fl_ph f = F0 /\ (snapR (actors st) = true \/ snap (sh st) <> None)) \/
  ((exists m, fl_ph f = F1 m) /\ mmu_x (sh st) = true) \/
  ((exists m g, fl_ph f = F1b m g) /\ mmu_x (sh st) = true) \/
  ((exists m, fl_ph f = F2 m) /\ snapR (actors st) = true).
Proof.
  intros st i f Hn H. unfold exec in H. rewrite Hn in H. unfold step_flusher in H. simpl in H.
  destruct (fl_ph f).
  - destruct (fl_left f); [left; auto|]. right; left. split; auto.
    destruct (active (sh st)); [|discriminate]. destruct (snapR (actors st)); simpl in H; auto.
    destruct (snap (sh st)); [right; discriminate|discriminate].
  - right; right; left. destruct (mmu_x (sh st)); [eauto|discriminate].
  - right; right; right; left. destruct (mmu_x (sh st)); [eauto|discriminate].
  - right; right; right; right. destruct (snapR (actors st)); simpl in H; [eauto|discriminate].
Qed.

Lemma blocked_replacer : forall st i t, nth_error (actors st) i = Some (AP t) -> exec correct st i = None ->
  t = [] \/ exists f t' x, t = Gc f :: t' /\ get_file (sh st) f = Some x /\ f_hold x <> [].
Proof.
  intros st i t Hn H. unfold exec in H. rewrite Hn in H. unfold step_replacer in H.
  destruct t as [|op t']; auto. right. destruct op.
  - destruct (closing (sh st) || mmu_x (sh st)); [discriminate|].
    destruct (negb (is_nil olds) && nodup_nat (olds ++ extra) && all_listed (sh st) (olds ++ extra)); discriminate.
  - destruct (closing (sh st) || mmu_x (sh st)); [discriminate|].
    destruct (nodup_nat fs && all_listed (sh st) fs && covered_elsewhere (sh st) fs); discriminate.
  - destruct (get_file (sh st) f) as [x|] eqn:G; [|discriminate]. simpl in H.
    exists f, t', x. split; auto. split; auto. intro Hh. rewrite Hh in H. simpl in H.
    destruct (f_listed x), (f_removed x); simpl in H; discriminate.
  - destruct (closing (sh st) || mmu_x (sh st)); [discriminate|].
    match type of H with context [is_nil ?u || is_nil ?v] => destruct (is_nil u || is_nil v) end; discriminate.
  - destruct (closing (sh st) || mmu_x (sh st)); [discriminate|].
    match type of H with context [is_nil ?u] => destruct (is_nil u) end; discriminate.
Qed.

Lemma blocked_closer : forall st i c, nth_error (actors st) i = Some (AC c) -> exec correct st i = None ->
  c = C5 \/ (c = C1 /\ wmid (actors st) = true) \/ (c = C2 /\ snapR (actors st) = true) \/
  (c = C3 /\ fmid (actors st) = true) \/ (c = C4 /\ all_unheld (sh st) = false).
Proof.
  intros st i c Hn H. unfold exec in H. rewrite Hn in H. unfold step_closer in H. destruct c; auto.
  - destruct (closing (sh st)); discriminate.
  - right; left. destruct (wmid (actors st)); [auto|discriminate].
  - right; right; left. destruct (snapR (actors st)); [auto|discriminate].
  - right; right; right; left. destruct (fmid (actors st)); [auto|discriminate].
  - right; right; right; right. destruct (all_unheld (sh st)); [discriminate|auto].
Qed.

Lemma existsb_false_all : forall A (p : A -> bool) l, (forall i a, nth_error l i = Some a -> p a = false) -> existsb p l = false.
Proof.
  intros A p l H. destruct (existsb p l) eqn:E; auto. apply existsb_exists in E. destruct E as [a [Hi Hp]].
  apply In_nth_error in Hi. destruct Hi as [n Hn]. rewrite (H _ _ Hn) in Hp. discriminate.
Qed.

(* if no actor can step, every actor is done *)
Lemma stuck_all_done : forall st, Inv1 st -> lock_ok st ->
  (forall i, exec correct st i = None) -> forall i a, nth_error (actors st) i = Some a -> done a = true.
Proof.
  intros st [_ [_ [_ Hsm]] _ _] [K1 [K2 K3]] Hstuck.
  (* 1. nobody holds a file *)
  assert (Hnohold : forall f x, get_file (sh st) f = Some x -> f_hold x = []).
  { intros f x G. destruct (f_hold x) as [|j t] eqn:E; auto. exfalso.
    destruct (K3 f x j G) as [r [Hj Hr]]; [rewrite E; left; auto|].
    destruct (blocked_reader _ _ _ Hj (Hstuck j)) as [[P _]|[sn [fl [P _]]]]; unfold reader_has_file in Hr; rewrite P in Hr; auto. }
  assert (Hunheld : all_unheld (sh st) = true).
  { unfold all_unheld. apply forallb_forall. intros x Hx. apply In_nth_error in Hx. destruct Hx as [f Hf].
    rewrite (Hnohold f x); auto. }
  (* 2. the closer does not hold MmsTables.mu *)
  assert (Hmmu : mmu_x (sh st) = false).
  { destruct (mmu_x (sh st)) eqn:E; auto. destruct (K1 eq_refl) as [j Hj].
    destruct (blocked_closer _ _ _ Hj (Hstuck j)) as [X|[[X _]|[[X _]|[[X _]|[_ X]]]]]; try discriminate. congruence. }
  (* 3. all readers are done, so the snapshot lock is free *)
  assert (Hrd : forall j r, nth_error (actors st) j = Some (AR r) -> r_ph r = R0 /\ r_left r = 0).
  { intros j r Hj. destruct (blocked_reader _ _ _ Hj (Hstuck j)) as [X|[sn [fl [_ X]]]]; auto. congruence. }
  assert (HsnapR : snapR (actors st) = false).
  { apply existsb_false_all. intros j a Hj. destruct a; simpl; auto. destruct (Hrd _ _ Hj) as [P _]. rewrite P. auto. }
  (* 4. no writer is in the middle of a write *)
  assert (Hwmid : wmid (actors st) = false).
  { apply existsb_false_all. intros j a Hj. destruct a; simpl; auto.
    destruct (blocked_writer _ _ _ Hj (Hstuck j)) as [P _]. rewrite P. auto. }
  (* 5. no flusher is in the middle of a flush; hence there is no snapshot table; hence flushers are done *)
  assert (Hfl0 : forall j f, nth_error (actors st) j = Some (AF f) -> fl_ph f = F0).
  { intros j f Hj. destruct (blocked_flusher _ _ _ Hj (Hstuck j)) as [[P _]|[[P _]|[[_ X]|[[_ X]|[_ X]]]]]; auto; congruence. }
  assert (Hfmid : fmid (actors st) = false).
  { apply existsb_false_all. intros j a Hj. destruct a; simpl; auto. rewrite (Hfl0 _ _ Hj). auto. }
  assert (Hsnap : snap (sh st) = None).
  { destruct (snap (sh st)) eqn:E; auto. rewrite (Hsm _ eq_refl) in Hfmid. discriminate. }
  (* 6. closers are done, so shard.mu is free *)
  assert (Hcl : forall j c, nth_error (actors st) j = Some (AC c) -> c = C5).
  { intros j c Hj. destruct (blocked_closer _ _ _ Hj (Hstuck j)) as [X|[[_ X]|[[_ X]|[[_ X]|[_ X]]]]]; auto; congruence. }
  assert (Hmu : mu_x (sh st) = false).
  { destruct (mu_x (sh st)) eqn:E; auto. destruct (K2 eq_refl) as [j [c [Hj Hc]]]. rewrite (Hcl _ _ Hj) in Hc.
    destruct Hc as [|[|]]; discriminate. }
  intros i a Hi. destruct a; simpl.
  - destruct (blocked_writer _ _ _ Hi (Hstuck i)) as [P [Q|Q]]; rewrite P; [rewrite Q; auto|congruence].
  - destruct (Hrd _ _ Hi) as [P Q]. rewrite P, Q. auto.
  - destruct (blocked_flusher _ _ _ Hi (Hstuck i)) as [[P Q]|[[P [Q|Q]]|[[[m P] _]|[[[m [g P]] _]|[[m P] _]]]]];
      try (rewrite (Hfl0 _ _ Hi) in P; discriminate); try congruence. rewrite P, Q. auto.
  - destruct (blocked_replacer _ _ _ Hi (Hstuck i)) as [->|[f [t' [x [_ [G Hh]]]]]]; auto.
    exfalso. apply Hh. eauto.
  - rewrite (Hcl _ _ Hi). auto.
Qed.

(* close_drains / no deadlock *)
Theorem no_deadlock_all : forall l st, forallb fresh l = true -> reach correct (init_state l) st ->
  (exists i a, nth_error (actors st) i = Some a /\ done a = false) ->
  exists i st', exec correct st i = Some st'.
Proof.
  intros l st Hl R [i [a [Hi Hd]]].
  pose proof (inv1_reach _ _ Hl R) as HI. pose proof (lock_ok_reach _ _ R) as HK.
  (* search the finitely many actors for an enabled one *)
  assert (Hdec : forall n, (exists j st', j < n /\ exec correct st j = Some st') \/ (forall j, j < n -> exec correct st j = None)).
  { induction n as [|n IH]; [right; intros; lia|]. destruct IH as [[j [st' [Hj He]]]|IH]; [left; exists j, st'; split; auto|].
    destruct (exec correct st n) as [st'|] eqn:E; [left; exists n, st'; split; auto|].
    right. intros j Hj. destruct (Nat.eq_dec j n); [subst; auto|apply IH; lia]. }
  destruct (Hdec (length (actors st))) as [[j [st' [_ He]]]|Hnone]; [eauto|].
  exfalso. assert (Hstuck : forall j, exec correct st j = None).
  { intro j. destruct (Nat.lt_ge_cases j (length (actors st))); auto.
    unfold exec. assert (X : nth_error (actors st) j = None) by (apply nth_error_None; auto). rewrite X. auto. }
  rewrite (stuck_all_done _ HI HK Hstuck _ _ Hi) in Hd. discriminate.
Qed.

Lemma single_snapshot_all : forall l st, forallb fresh l = true -> reach correct (init_state l) st ->
  (forall j1 j2 f1 f2, nth_error (actors st) j1 = Some (AF f1) -> nth_error (actors st) j2 = Some (AF f2) ->
     fl_ph f1 <> F0 -> fl_ph f2 <> F0 -> j1 = j2) /\
  (forall m, snap (sh st) = Some m -> fmid (actors st) = true) /\
  (forall j f m, nth_error (actors st) j = Some (AF f) -> (fl_ph f = F1 m \/ fl_ph f = F2 m) -> snap (sh st) = Some m).
Proof.
  intros l st Hl R. destruct (inv1_reach _ _ Hl R) as [_ [Hf [Hu Hsm]] _ _]. split; [exact Hu|]. split; [exact Hsm|].
  intros j f m Hj [P|P]; specialize (Hf _ _ Hj); rewrite P in Hf; tauto.
Qed.
