(* C04 proofs, part 5: values come from appended batches; never a memtable together with a file flushed from it;
   nothing referenced is removed or recycled; monotone reads. *)
From Coq Require Import List Bool Arith PeanoNat Lia.
From OG Require Import C04.Model C04.Proofs C04.Steps C04.Inv C04.Views.
Import ListNotations.

(* ---------------------------------------------------------------- (S1) every stored or returned batch was appended *)
Definition rows_ok (st : state) : Prop :=
  (forall m t, get_mt (sh st) m = Some t -> incl (m_rows t) (appended (sh st))) /\
  (forall f x, get_file (sh st) f = Some x -> incl (f_rows x) (appended (sh st))) /\
  (forall i r, nth_error (actors st) i = Some (AR r) ->
     (forall ms fs res, r_ph r = R4 ms fs res -> incl res (appended (sh st))) /\
     (forall ok s0 res, In (ok, s0, res) (r_hist r) -> incl res (appended (sh st)))).

Lemma incl_flat_map : forall (g : nat -> list nat) l (A : list nat),
  (forall x, In x l -> incl (g x) A) -> incl (flat_map g l) A.
Proof. intros g l A H b Hb. apply in_flat_map in Hb. destruct Hb as [x [Hx Hb]]. eapply H; eauto. Qed.

Lemma rows_ok_step : forall st i st', Inv1 st -> rows_ok st -> exec correct st i = Some st' -> rows_ok st'.
Proof.
  intros st i st' HI [Hm [Hf Hr]] H. inv_step H. unfold rows_ok.
  destruct st' as [s' l']. simpl in *. subst l'.
  pose proof (step_appended_mono _ _ _ _ _ _ Hls) as Hmono.
  assert (HmR : forall m, incl (mt_rows_of (sh st) m) (appended (sh st))).
  { intro m. rewrite mt_rows_of_get. destruct (get_mt (sh st) m) eqn:G; [eauto|intros x []]. }
  assert (HfR : forall f, incl (file_rows_of (sh st) f) (appended (sh st))).
  { intro f. rewrite file_rows_of_get. destruct (get_file (sh st) f) eqn:G; [eauto|intros x []]. }
  (* readers: generic treatment *)
  assert (HRd : (forall r', a' = AR r' ->
                   (forall ms fs res, r_ph r' = R4 ms fs res -> incl res (appended s')) /\
                   (forall ok s0 res, In (ok, s0, res) (r_hist r') -> incl res (appended s'))) ->
                forall j r, nth_error (upd (actors st) i a') j = Some (AR r) ->
                   (forall ms fs res, r_ph r = R4 ms fs res -> incl res (appended s')) /\
                   (forall ok s0 res, In (ok, s0, res) (r_hist r) -> incl res (appended s'))).
  { intros Hself j r Hj. apply nth_error_upd in Hj. destruct Hj as [[_ Ej]|[_ Hj]]; [apply Hself; auto|].
    destruct (Hr _ _ Hj) as [A B]. split; intros; eapply incl_tran; eauto. }
  inversion Hls; subst; repeat match goal with x := _ |- _ => subst x end.
  - (* reject *) split; [|split]; auto. apply HRd. intros; discriminate.
  - (* append *) split; [|split].
    + intros m t0 G. rewrite get_mt_set_logs, get_mt_map_mt in G. simpl.
      destruct (get_mt (sh st) a0) eqn:Ga; [|intros x Hx; right; eapply Hm; eauto].
      destruct (Nat.eqb a0 m) eqn:Ek; [|intros x Hx; right; eapply Hm; eauto].
      inversion G; subst. simpl. intros x [<-|Hx]; [left; auto|right; eapply Hm; eauto].
    + intros f x G. rewrite get_file_set_logs, get_file_map_mt in G. simpl. intros y Hy; right; eapply Hf; eauto.
    + apply HRd. intros; discriminate.
  - (* ack *) split; [|split]; auto. apply HRd. intros; discriminate.
  - (* begin *) split; [|split]; auto. apply HRd. intros r' E. inversion E; subst. simpl. split; [intros; discriminate|].
    destruct (Hr _ _ Hnth) as [_ B]. auto.
  - (* files *) split; [|split].
    + destruct (fclosed (sh st)); auto.
    + destruct (fclosed (sh st)); auto. intros f x G. rewrite get_file_set_files, nth_error_map_at, <- get_file_unfold in G. simpl.
      destruct (get_file (sh st) f) eqn:E; simpl in G; [|discriminate]. inversion G; subst.
      destruct (mem_nat f (listed (sh st))); simpl; eauto.
    + apply HRd. intros r' E. inversion E; subst. simpl. split; [intros; discriminate|].
      destruct (Hr _ _ Hnth) as [_ B]. intros. eapply incl_tran; eauto.
  - (* mem *) split; [|split]; auto.
    + intros m t0 G. rewrite get_mt_set_mts, nth_error_map_at, <- get_mt_unfold in G. simpl.
      destruct (get_mt (sh st) m) eqn:E; simpl in G; [|discriminate]. inversion G; subst.
      destruct (mem_nat m _); simpl; eauto.
    + apply HRd. intros r' E. inversion E; subst. simpl. split; [intros; discriminate|].
      destruct (Hr _ _ Hnth) as [_ B]. auto.
  - (* read *) split; [|split]; auto. apply HRd. intros r' E. inversion E; subst. simpl. split.
    + intros ms0 fs0 res0 E0. inversion E0; subst. apply incl_app; apply incl_flat_map; auto.
    + destruct (Hr _ _ Hnth) as [_ B]. auto.
  - (* done *) split; [|split].
    + intros m t0 G. rewrite get_mt_set_mts, nth_error_unhold_all in G. simpl in G. rewrite <- get_mt_unfold in G. simpl.
      destruct (get_mt (sh st) m) eqn:E; simpl in G; [|discriminate]. inversion G; subst.
      destruct (mem_nat m ms); eauto. unfold mt_unhold. destruct (is_nil _ && negb _); simpl; eauto. intros x [].
    + intros f x G. rewrite get_file_set_mts, get_file_set_files, nth_error_map_at, <- get_file_unfold in G. simpl.
      destruct (get_file (sh st) f) eqn:E; simpl in G; [|discriminate]. inversion G; subst.
      destruct (mem_nat f fs); simpl; eauto.
    + apply HRd. intros r' E. inversion E; subst. simpl. split; [intros; discriminate|].
      destruct (Hr _ _ Hnth) as [A B]. intros ok s0 res0 [Hi|Hi]; [inversion Hi; subst; eauto|eauto].
  - (* flush skip *) split; [|split]; auto. apply HRd. intros; discriminate.
  - (* swap *) split; [|split]; auto.
    + intros m t0 G. rewrite get_mt_set_as, get_mt_set_mts in G. simpl. apply nth_error_app_new in G.
      destruct G as [[_ G]|[_ ->]]; [eauto|intros x []].
    + apply HRd. intros; discriminate.
  - (* publish *) split; [|split].
    + intros m0 t0 G. rewrite publish_mts in G. eapply incl_tran; [|exact Hmono].
      destruct (get_mt (sh st) m) eqn:E; eauto. destruct (Nat.eqb m m0) eqn:Ek; eauto.
      apply Nat.eqb_eq in Ek; subst. inversion G; subst. simpl. eauto.
    + intros f0 x G. eapply incl_tran; [|exact Hmono]. apply get_file_publish in G.
      destruct G as [G|[_ [_ [_ [_ [_ G]]]]]]; eauto. eapply incl_tran; eauto.
    + apply HRd. intros; discriminate.
  - (* publish_b *) split; [|split].
    + intros m0 t0 G. rewrite publish_mts in G. eapply incl_tran; [|exact Hmono].
      destruct (get_mt (sh st) m) eqn:E; eauto. destruct (Nat.eqb m m0) eqn:Ek; eauto.
      apply Nat.eqb_eq in Ek; subst. inversion G; subst. simpl. eauto.
    + intros f0 x G. eapply incl_tran; [|exact Hmono]. apply get_file_publish in G.
      destruct G as [G|[_ [_ [_ [_ [_ G]]]]]]; eauto. eapply incl_tran; eauto.
    + apply HRd. intros; discriminate.
  - (* drop *) split; [|split].
    + intros m0 t0 G. eapply incl_tran; [|exact Hmono]. unfold drop_snap in G. rewrite get_mt_set_as in G.
      destruct (get_mt (sh st) m) eqn:E; [|rewrite get_mt_set_as in G; eauto].
      destruct (is_nil (m_hold m1)); [|rewrite get_mt_set_as in G; eauto].
      rewrite get_mt_map_mt, get_mt_set_as, E in G. destruct (Nat.eqb m m0); [inversion G; subst; simpl; intros x []|].
      rewrite get_mt_set_as in G. eauto.
    + intros f0 x G. eapply incl_tran; [|exact Hmono]. unfold drop_snap in G. rewrite get_mt_set_as in G.
      destruct (get_mt (sh st) m); [destruct (is_nil (m_hold m0))|]; autorewrite with shr in G; eauto.
    + apply HRd. intros; discriminate.
  - (* gc *) split; [|split].
    + intros m t0 G. eapply incl_tran; [|exact Hmono]. rewrite get_mt_map_file in G. eauto.
    + intros f0 x0 G. eapply incl_tran; [|exact Hmono]. rewrite get_file_map_file in G.
      match goal with Hx : get_file (sh st) f = Some _ |- _ => rewrite Hx in G end.
      destruct (Nat.eqb f f0); [inversion G; subst; simpl; intros y []|eauto].
    + apply HRd. intros; discriminate.
  - (* skip *) split; [|split]; auto. apply HRd. intros; discriminate.
  - (* replace *) split; [|split]; auto.
    + intros f0 x G. rewrite get_file_set_files in G. simpl in G. apply nth_error_app_new in G. simpl.
      destruct G as [[_ G]|[_ ->]].
      * rewrite nth_error_map_at, <- get_file_unfold in G. destruct (get_file (sh st) f0) eqn:E; simpl in G; [|discriminate].
        inversion G; subst. destruct (mem_nat f0 olds); simpl; eauto.
      * simpl. apply incl_flat_map; auto.
    + apply HRd. intros; discriminate.
  - (* delist *) split; [|split]; auto.
    + intros f0 x G. rewrite get_file_set_files, nth_error_map_at, <- get_file_unfold in G. simpl.
      destruct (get_file (sh st) f0) eqn:E; simpl in G; [|discriminate].
      inversion G; subst. destruct (mem_nat f0 fs); simpl; eauto.
    + apply HRd. intros; discriminate.
  - (* merge *) split; [|split]; auto.
    + intros f0 x G. rewrite get_file_set_files in G. simpl in G. apply nth_error_app_new in G. simpl.
      destruct G as [[_ G]|[_ ->]].
      * rewrite nth_error_map_at, <- get_file_unfold in G. destruct (get_file (sh st) f0) eqn:E; simpl in G; [|discriminate].
        inversion G; subst. destruct (mem_nat f0 _); simpl; eauto.
      * simpl. apply incl_flat_map; auto.
    + apply HRd. intros; discriminate.
  - (* droplist *) split; [|split]; auto. apply HRd. intros; discriminate.
  - split; [|split]; auto. apply HRd. intros; discriminate.
  - split; [|split]; auto. apply HRd. intros; discriminate.
  - split; [|split]; auto. apply HRd. intros; discriminate.
  - split; [|split]; auto. apply HRd. intros; discriminate.
  - split; [|split]; auto. apply HRd. intros; discriminate.
  - split; [|split]; auto. apply HRd. intros; discriminate.
Qed.

Lemma rows_ok_init : forall l, forallb fresh l = true -> rows_ok (init_state l).
Proof.
  intros l Hl. split; [|split]; simpl.
  - intros m t G. unfold get_mt in G; simpl in G. destruct m; [inversion G; subst; simpl; intros x []|destruct m; discriminate].
  - intros f x G. unfold get_file in G; simpl in G. destruct f; discriminate.
  - intros i r Hi. rewrite forallb_forall in Hl. apply nth_error_In in Hi. apply Hl in Hi. simpl in Hi.
    destruct (r_ph r) eqn:E; try discriminate. split; [intros; discriminate|].
    apply is_nil_true in Hi. rewrite Hi. intros ok s0 res [].
Qed.

(* ---------------------------------------------------------------- the snapshot pointer a reader holds is current *)
Definition ptr_ok (st : state) : Prop :=
  forall i r, nth_error (actors st) i = Some (AR r) ->
    match r_ph r with R1 sn _ | R2 sn _ _ => snap (sh st) = sn | _ => True end.

Lemma ptr_ok_step : forall st i st', ptr_ok st -> exec correct st i = Some st' -> ptr_ok st'.
Proof.
  intros st i st' Hp H. inv_step H. intros j r Hj. rewrite Hact in Hj.
  apply nth_error_upd in Hj. destruct Hj as [[<- Ej]|[N Hj]].
  - subst a'. destruct st' as [s' l']. simpl in *. subst l'.
    inversion Hls; subst; repeat match goal with x := _ |- _ => subst x end; simpl; auto.
    specialize (Hp _ _ Hnth). match goal with Hx : r_ph _ = R1 _ _ |- _ => rewrite Hx in Hp end.
    destruct (fclosed (sh st)); auto.
  - specialize (Hp _ _ Hj). destruct (r_ph r) eqn:Ep; auto.
    + assert (Hl : snapR (actors st) = true) by (eapply snapR_of_reader; eauto; rewrite Ep; auto).
      destruct (step_ext_owned _ _ _ _ _ _ Hls Hl) as [_ [E2 _]]. congruence.
    + assert (Hl : snapR (actors st) = true) by (eapply snapR_of_reader; eauto; rewrite Ep; auto).
      destruct (step_ext_owned _ _ _ _ _ _ Hls Hl) as [_ [E2 _]]. congruence.
Qed.

Lemma ptr_ok_init : forall l, forallb fresh l = true -> ptr_ok (init_state l).
Proof.
  intros l Hl i r Hi. rewrite forallb_forall in Hl. apply nth_error_In in Hi. apply Hl in Hi. simpl in Hi.
  destruct (r_ph r); auto; discriminate.
Qed.

(* ---------------------------------------------------------------- (S3) removed / recycled containers have no holders *)
Definition gone_ok (s : shared) : Prop :=
  (forall f x, get_file s f = Some x -> f_removed x = true -> f_hold x = []) /\
  (forall m t, get_mt s m = Some t -> m_dead t = true -> m_hold t = []).

Lemma gone_ok_step : forall st i st', Inv1 st -> ptr_ok st -> gone_ok (sh st) -> exec correct st i = Some st' -> gone_ok (sh st').
Proof.
  intros st i st' [[Ha [Hs Hne]] [Hfl _] Hfi _] Hp [Hf Hm] H. inv_step H. unfold gone_ok.
  destruct st' as [s' l']. simpl in *. subst l'.
  inversion Hls; subst; repeat match goal with x := _ |- _ => subst x end; try (split; assumption).
  - (* append *) split.
    + intros f x G. rewrite get_file_set_logs, get_file_map_mt in G. eauto.
    + intros m t0 G. rewrite get_mt_set_logs, get_mt_map_mt in G.
      destruct (get_mt (sh st) a0) eqn:Ga; eauto. destruct (Nat.eqb a0 m) eqn:Ek; eauto.
      inversion G; subst. simpl. eauto.
  - (* files *) destruct (fclosed (sh st)); [split; assumption|]. split; auto.
    intros f x G R. rewrite get_file_set_files, nth_error_map_at, <- get_file_unfold in G.
    destruct (get_file (sh st) f) eqn:E; simpl in G; [|discriminate]. inversion G; subst.
    destruct (mem_nat f (listed (sh st))) eqn:Em; eauto. simpl in *.
    apply mem_nat_In in Em. apply listed_In in Em. destruct Em as [x [G' L]]. rewrite E in G'. inversion G'; subst.
    rewrite (Hfi _ _ E L) in R. discriminate.
  - (* mem *) split; auto. intros m t0 G D. rewrite get_mt_set_mts, nth_error_map_at, <- get_mt_unfold in G.
    destruct (get_mt (sh st) m) eqn:E; simpl in G; [|discriminate]. inversion G; subst.
    destruct (mem_nat m _) eqn:Em; eauto. simpl in *. exfalso.
    specialize (Hp _ _ Hnth). match goal with Hx : r_ph r = R2 _ _ _ |- _ => rewrite Hx in Hp end.
    apply mem_nat_In in Em. apply in_app_or in Em. destruct Em as [Em|Em].
    + destruct (active (sh st)) eqn:Ea; simpl in Em; [|tauto]. destruct Em as [<-|[]].
      destruct (Ha _ eq_refl) as [t1 [G1 [_ G3]]]. rewrite E in G1; inversion G1; subst. congruence.
    + destruct fl; [destruct Em|]. destruct sn eqn:Es; simpl in Em; [|tauto]. destruct Em as [<-|[]].
      destruct (Hs _ Hp) as [t1 [G1 G3]]. rewrite E in G1; inversion G1; subst. congruence.
  - (* done *) split.
    + intros f x G R. rewrite get_file_set_mts, get_file_set_files, nth_error_map_at, <- get_file_unfold in G.
      destruct (get_file (sh st) f) eqn:E; simpl in G; [|discriminate]. inversion G; subst.
      destruct (mem_nat f fs); eauto. simpl in *. rewrite (Hf _ _ E R). reflexivity.
    + intros m t0 G D. rewrite get_mt_set_mts, nth_error_unhold_all in G. simpl in G. rewrite <- get_mt_unfold in G.
      destruct (get_mt (sh st) m) eqn:E; simpl in G; [|discriminate]. inversion G; subst.
      destruct (mem_nat m ms); eauto. unfold mt_unhold in *.
      destruct (is_nil (remove_nat i (m_hold m0)) && negb (mem_nat m (owned_ids (sh st)))) eqn:Ec; simpl in *.
      * apply andb_true_iff in Ec. destruct Ec as [Ec _]. apply is_nil_true; auto.
      * rewrite (Hm _ _ E D). reflexivity.
  - (* swap *) split; auto. intros m t0 G. rewrite get_mt_set_as, get_mt_set_mts in G. apply nth_error_app_new in G.
    destruct G as [[_ G]|[_ ->]]; eauto.
  - (* publish *) split.
    + intros f0 x G R. apply get_file_publish in G. destruct G as [G|[_ [G _]]]; eauto. congruence.
    + intros m0 t0 G. rewrite publish_mts in G. destruct (get_mt (sh st) m) eqn:E; eauto.
      destruct (Nat.eqb m m0) eqn:Ek; eauto. apply Nat.eqb_eq in Ek; subst. inversion G; subst. simpl. eauto.
  - (* publish_b *) split.
    + intros f0 x G R. apply get_file_publish in G. destruct G as [G|[_ [G _]]]; eauto. congruence.
    + intros m0 t0 G. rewrite publish_mts in G. destruct (get_mt (sh st) m) eqn:E; eauto.
      destruct (Nat.eqb m m0) eqn:Ek; eauto. apply Nat.eqb_eq in Ek; subst. inversion G; subst. simpl. eauto.
  - (* drop *) split.
    + intros f0 x G. unfold drop_snap in G. rewrite get_mt_set_as in G.
      destruct (get_mt (sh st) m); [destruct (is_nil (m_hold m0))|]; autorewrite with shr in G; eauto.
    + intros m0 t0 G D. unfold drop_snap in G. rewrite get_mt_set_as in G.
      destruct (get_mt (sh st) m) eqn:E; [|rewrite get_mt_set_as in G; eauto].
      destruct (is_nil (m_hold m1)) eqn:En; [|rewrite get_mt_set_as in G; eauto].
      rewrite get_mt_map_mt, get_mt_set_as, E in G. destruct (Nat.eqb m m0).
      * inversion G; subst. simpl. apply is_nil_true; auto.
      * rewrite get_mt_set_as in G. eauto.
  - (* gc *) split.
    + intros f0 x0 G R. rewrite get_file_map_file in G.
      match goal with Hx : get_file (sh st) f = Some _ |- _ => rewrite Hx in G end.
      destruct (Nat.eqb f f0); eauto. inversion G; subst. simpl. auto.
    + intros m t0 G. rewrite get_mt_map_file in G. eauto.
  - (* replace *) split; auto. intros f0 x G R. rewrite get_file_set_files in G. simpl in G. apply nth_error_app_new in G.
    destruct G as [[_ G]|[_ ->]]; [|simpl in R; discriminate].
    rewrite nth_error_map_at, <- get_file_unfold in G. destruct (get_file (sh st) f0) eqn:E; simpl in G; [|discriminate].
    inversion G; subst. destruct (mem_nat f0 olds); simpl in *; eauto.
  - (* delist *) split; auto. intros f0 x G R. rewrite get_file_set_files, nth_error_map_at, <- get_file_unfold in G.
    destruct (get_file (sh st) f0) eqn:E; simpl in G; [|discriminate].
    inversion G; subst. destruct (mem_nat f0 fs); simpl in *; eauto.
  - (* merge *) split; auto. intros f0 x G R. rewrite get_file_set_files in G. simpl in G. apply nth_error_app_new in G.
    destruct G as [[_ G]|[_ ->]]; [|simpl in R; discriminate].
    rewrite nth_error_map_at, <- get_file_unfold in G. destruct (get_file (sh st) f0) eqn:E; simpl in G; [|discriminate].
    inversion G; subst. destruct (mem_nat f0 _); simpl in *; eauto.
Qed.

Lemma gone_ok_init : gone_ok init_shared.
Proof.
  split; simpl.
  - intros f x G. unfold get_file in G; simpl in G. destruct f; discriminate.
  - intros m t G D. unfold get_mt in G; simpl in G. destruct m; [inversion G; subst; simpl in D; discriminate|destruct m; discriminate].
Qed.

Record Inv3 (st : state) : Prop := { i3_2 : Inv2 st; i3_rows : rows_ok st; i3_ptr : ptr_ok st; i3_gone : gone_ok (sh st) }.

Lemma inv3_reach : forall l st, forallb fresh l = true -> reach correct (init_state l) st -> Inv3 st.
Proof.
  intros l st Hl R. induction R.
  - constructor; [eapply inv2_reach; eauto; apply reach_refl|apply rows_ok_init|apply ptr_ok_init|apply gone_ok_init]; auto.
  - destruct H as [i H]. destruct IHR as [A B C D]. pose proof (i2_1 _ A) as A1. constructor.
    + eapply inv2_reach; eauto. eapply reach_step; eauto. exists i; eauto.
    + eapply rows_ok_step; eauto.
    + eapply ptr_ok_step; eauto.
    + eapply gone_ok_step; eauto.
Qed.

(* ---------------------------------------------------------------- theorems *)
Theorem view_values_appended_all : forall l st i r ok start res,
  forallb fresh l = true -> reach correct (init_state l) st ->
  nth_error (actors st) i = Some (AR r) -> In (ok, start, res) (r_hist r) -> incl res (appended (sh st)).
Proof.
  intros l st i r ok start res Hl R Hn Hi. destruct (inv3_reach _ _ Hl R) as [_ [_ [_ B]] _ _].
  destruct (B _ _ Hn) as [_ X]. eauto.
Qed.

(* a query that started before the close: while it holds its references (phases R2, R3) no file of its view has been
   physically removed and no memtable of its view has been recycled *)
Theorem no_removal_while_referenced_all : forall l st i r,
  forallb fresh l = true -> reach correct (init_state l) st ->
  nth_error (actors st) i = Some (AR r) -> r_ok r = true ->
  match r_ph r with
  | R2 _ fs _ => forall f, In f fs -> exists x, get_file (sh st) f = Some x /\ In i (f_hold x) /\ f_removed x = false
  | R3 ms fs =>
      (forall f, In f fs -> exists x, get_file (sh st) f = Some x /\ In i (f_hold x) /\ f_removed x = false) /\
      (forall m, In m ms -> exists t, get_mt (sh st) m = Some t /\ In i (m_hold t) /\ m_dead t = false)
  | _ => True
  end.
Proof.
  intros l st i r Hl R Hn Hk. destruct (inv3_reach _ _ Hl R) as [[_ _ _ D] _ _ [Gf Gm]].
  destruct (D _ _ Hn) as [Hok _]. specialize (Hok Hk). unfold rd_ok in Hok. destruct (r_ph r); auto.
  - destruct Hok as [_ [_ [C _]]]. intros f Hf. destruct (C _ Hf) as [x [G Hx]]. exists x. repeat split; auto.
    destruct (f_removed x) eqn:E; auto. rewrite (Gf _ _ G E) in Hx. destruct Hx.
  - destruct Hok as [C [D' _]]. split.
    + intros f Hf. destruct (C _ Hf) as [x [G Hx]]. exists x. repeat split; auto.
      destruct (f_removed x) eqn:E; auto. rewrite (Gf _ _ G E) in Hx. destruct Hx.
    + intros m Hm. destruct (D' _ Hm) as [t [G Ht]]. exists t. repeat split; auto.
      destruct (m_dead t) eqn:E; auto. rewrite (Gm _ _ G E) in Ht. destruct Ht.
Qed.

(* ---------------------------------------------------------------- monotone reads *)
Definition start_of (e : bool * list nat * list nat) : list nat := snd (fst e).
Definition sorted_hist (h : list (bool * list nat * list nat)) : Prop :=
  forall pre e2 post, h = pre ++ e2 :: post -> forall e1, In e1 post -> incl (start_of e1) (start_of e2).

Definition chain_ok (st : state) : Prop :=
  forall i r, nth_error (actors st) i = Some (AR r) ->
    (forall e, In e (r_hist r) -> incl (start_of e) (acked (sh st))) /\
    (r_ph r <> R0 -> incl (r_start r) (acked (sh st)) /\ forall e, In e (r_hist r) -> incl (start_of e) (r_start r)) /\
    sorted_hist (r_hist r).

Lemma step_acked_mono : forall s l i a s' a', lstep s l i a s' a' -> incl (acked s) (acked s').
Proof.
  intros s l i a s' a' Hls.
  inversion Hls; subst; repeat match goal with x := _ |- _ => subst x end; try apply incl_refl.
  - simpl. intros x Hx; right; auto.
  - destruct (fclosed s); apply incl_refl.
  - unfold publish, map_mt; simpl. destruct (get_mt _ m); apply incl_refl.
  - unfold publish, map_mt; simpl. destruct (get_mt _ m); apply incl_refl.
  - unfold drop_snap, map_mt; simpl. destruct (get_mt _ m); simpl; try apply incl_refl.
    destruct (is_nil (m_hold m0)); simpl; try apply incl_refl.
  - unfold map_file. destruct (get_file s f); apply incl_refl.
Qed.

Lemma sorted_hist_cons : forall e h, sorted_hist h -> (forall e1, In e1 h -> incl (start_of e1) (start_of e)) -> sorted_hist (e :: h).
Proof.
  intros e h Hs He pre e2 post E e1 Hi. destruct pre as [|p pre]; simpl in E; inversion E; subst.
  - auto.
  - eapply Hs; eauto.
Qed.

Lemma chain_ok_step : forall st i st', chain_ok st -> exec correct st i = Some st' -> chain_ok st'.
Proof.
  intros st i st' Hc H. inv_step H. pose proof (step_acked_mono _ _ _ _ _ _ Hls) as Hmono.
  intros j r Hj. rewrite Hact in Hj. apply nth_error_upd in Hj. destruct Hj as [[<- Ej]|[N Hj]].
  - subst a'. destruct st' as [s' l']. simpl in *. subst l'.
    inversion Hls; subst; repeat match goal with x := _ |- _ => subst x end; simpl;
      destruct (Hc _ _ Hnth) as [A [B C]].
    + (* begin *) split; [|split]; auto; try (intros _; split; [apply incl_refl|auto]).
    + (* files *) assert (Hn0 : r_ph r0 <> R0) by congruence. destruct (B Hn0) as [B1 B2].
      split; [|split]; auto.
      * intros e He. eapply incl_tran; eauto.
      * intros _. split; auto. eapply incl_tran; eauto.
    + (* mem *) assert (Hn0 : r_ph r0 <> R0) by congruence. destruct (B Hn0) as [B1 B2]. split; [|split]; auto.
    + (* read *) assert (Hn0 : r_ph r0 <> R0) by congruence. destruct (B Hn0) as [B1 B2]. split; [|split]; auto.
    + (* done *) assert (Hn0 : r_ph r0 <> R0) by congruence. destruct (B Hn0) as [B1 B2]. split; [|split].
      * intros e [<-|He]; simpl; auto.
      * intros X; congruence.
      * apply sorted_hist_cons; auto.
  - destruct (Hc _ _ Hj) as [A [B C]]. split; [|split]; auto.
    + intros e He. eapply incl_tran; eauto.
    + intros Hn0. destruct (B Hn0) as [B1 B2]. split; auto. eapply incl_tran; eauto.
Qed.

Lemma chain_ok_init : forall l, forallb fresh l = true -> chain_ok (init_state l).
Proof.
  intros l Hl i r Hi. rewrite forallb_forall in Hl. apply nth_error_In in Hi. apply Hl in Hi. simpl in Hi.
  destruct (r_ph r) eqn:E; try discriminate. apply is_nil_true in Hi. rewrite Hi. split; [|split].
  - intros e [].
  - congruence.
  - intros pre e2 post X. destruct pre; discriminate.
Qed.

Lemma chain_ok_reach : forall l st, forallb fresh l = true -> reach correct (init_state l) st -> chain_ok st.
Proof.
  intros l st Hl R. induction R; [apply chain_ok_init; auto|]. destruct H as [i H]. eapply chain_ok_step; eauto.
Qed.

(* successive queries of one client: the later query (started before the close) returns every batch that was
   acknowledged when the EARLIER query started, and every batch of the earlier result that had been acknowledged
   when the later query started *)
Theorem monotone_reads_all : forall l st i r pre ok2 s2 res2 post ok1 s1 res1,
  forallb fresh l = true -> reach correct (init_state l) st ->
  nth_error (actors st) i = Some (AR r) ->
  r_hist r = pre ++ (ok2, s2, res2) :: post -> In (ok1, s1, res1) post -> ok2 = true ->
  incl s1 s2 /\ incl s1 res2 /\ (forall b, In b res1 -> In b s2 -> In b res2).
Proof.
  intros l st i r pre ok2 s2 res2 post ok1 s1 res1 Hl R Hn Eh Hi Hk.
  pose proof (chain_ok_reach _ _ Hl R _ _ Hn) as [_ [_ C]].
  assert (H12 : incl s1 s2) by (apply (C _ _ _ Eh (ok1, s1, res1) Hi)).
  assert (H2 : incl s2 res2).
  { eapply view_complete_all; eauto. rewrite Eh. apply in_or_app. right. left. reflexivity. }
  split; auto. split; [eapply incl_tran; eauto|]. intros b _ Hb. auto.
Qed.
