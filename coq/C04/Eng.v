(* C04, engine / partition level: the close / drop protocol around one partition (DBPTInfo) and its shard.

   Operations are PROGRAMS over four locks and the partition's reference counter; the machine interleaves any number
   of them.  Locks (index = rank; the programs of the code acquire them in increasing rank):
     0  the droppingDB token of EngineImpl.startDrop / endDrop (a plain mutex: only taken exclusively)
     1  EngineImpl.mu      2  DBPTInfo.mu      3  shard.mu          (sync.RWMutex)
   RWMutex semantics with WRITER PREFERENCE as in Go: Lock() = Ann (the writer holds the internal writer mutex and has
   announced itself: from now on every new RLock blocks) followed by Acq (waits until the readers that were inside have
   left).  RLock is enabled only while no writer is announced - so a goroutine that re-enters RLock while a writer
   waits deadlocks.

   Code anchors (engine/engine.go, engine/engine_ddl.go, engine/partition.go, engine/shard.go):
     Ref / Unref     DBPTInfo.ref / unref (under DBPTInfo.mu.RLock; exeCount; refused while offloading)
     Lookup          e.DBPartitions[db][pt]              ShardLookup   dbPT.shards[id] / DBPTInfo.Shard
     Mark / Unmark   DBPTInfo.markOffload / unMarkOffload (under DBPTInfo.mu.Lock)
     Wait            DeleteDatabase: select { <-done | <-time.After(DeleteDatabaseTimeout) }  (done is signalled by the
                     unref that brings exeCount to 0 while offloading)
     CloseShard      shard.Close (under shard.mu.Lock)    Unmap   delete(dbPT.shards, id)
     DelDirs         deleteDataAndWalPath                 DropPt  dropDBPTInfo (under EngineImpl.mu.Lock)
     Use             an operation that holds a partition reference works on the partition's data
     ShardOp         the body of shard.WriteRows / CreateLogicalPlan / DropMeasurement under shard.mu.RLock: rejected with
                     ErrShardClosed after Close, else it touches the shard's files
   Executable Gallina only; theorems are in EngInv.v / EngSafe.v / Props.v. *)
From Coq Require Import List Bool Arith PeanoNat.
From OG Require Import C04.Model.
Import ListNotations.

Inductive mode := MR | MA | MW.      (* read-held | writer announced | write-held *)
Definition mode_eqb (a b : mode) : bool :=
  match a, b with MR, MR | MA, MA | MW, MW => true | _, _ => false end.

Inductive lockop := RLock (k : nat) | RUnlock (k : nat) | Ann (k : nat) | Acq (k : nat) | WUnlock (k : nat).
Inductive dataop := Unref | Mark | Unmark | CloseShard | Unmap | DelDirs | DropPt | Use | ShardOp.
Inductive op := L (o : lockop) | D (o : dataop).
Inductive br := Ref | Lookup | ShardLookup | Wait.
(* Br b fail ok: a branching instruction with the continuation after failure and after success *)
Inductive prog := Done | Seq (o : op) (p : prog) | Br (b : br) (fail ok : prog).

(* ---------------------------------------------------------------- per-operation ghost state (typestate) *)
Record tstate := { held : list (nat * mode); hasref : bool; marked : bool; drained : bool; closedk : bool }.
Definition ts0 : tstate := {| held := []; hasref := false; marked := false; drained := false; closedk := false |}.

Definition set_held (t : tstate) (h : list (nat * mode)) : tstate :=
  {| held := h; hasref := hasref t; marked := marked t; drained := drained t; closedk := closedk t |}.
Definition set_flags (t : tstate) (r m d c : bool) : tstate :=
  {| held := held t; hasref := r; marked := m; drained := d; closedk := c |}.

Definition is_km (k : nat) (m : mode) (x : nat * mode) : bool := Nat.eqb (fst x) k && mode_eqb (snd x) m.
Definition holds (k : nat) (m : mode) (t : tstate) : bool := existsb (is_km k m) (held t).
Definition holds_any (k : nat) (t : tstate) : bool := existsb (fun x => Nat.eqb (fst x) k) (held t).
Definition all_lt (k : nat) (t : tstate) : bool := forallb (fun x => fst x <? k) (held t).
Fixpoint rm_km (k : nat) (m : mode) (l : list (nat * mode)) : list (nat * mode) :=
  match l with [] => [] | x :: r => if is_km k m x then r else x :: rm_km k m r end.

Definition upg (k : nat) (x : nat * mode) : nat * mode := if is_km k MA x then (k, MW) else x.
Definition ts_lock (o : lockop) (t : tstate) : tstate :=
  match o with
  | RLock k => set_held t ((k, MR) :: held t)
  | RUnlock k => set_held t (rm_km k MR (held t))
  | Ann k => set_held t ((k, MA) :: held t)
  | Acq k => set_held t (map (upg k) (held t))
  | WUnlock k => set_held t (rm_km k MW (held t))
  end.
Definition ts_data (o : dataop) (t : tstate) : tstate :=
  match o with
  | Unref => set_flags t false (marked t) (drained t) (closedk t)
  | Mark => set_flags t (hasref t) true (drained t) (closedk t)
  | Unmark => set_flags t (hasref t) false (drained t) (closedk t)
  | CloseShard => set_flags t (hasref t) (marked t) (drained t) true
  | DropPt => set_flags t (hasref t) false false (closedk t)
  | Unmap | DelDirs | Use | ShardOp => t
  end.
Definition ts_op (o : op) (t : tstate) : tstate := match o with L x => ts_lock x t | D x => ts_data x t end.
(* typestate after the SUCCESS branch (the failure branch leaves it unchanged) *)
Definition ts_br (b : br) (t : tstate) : tstate :=
  match b with
  | Ref => set_flags t true (marked t) (drained t) (closedk t)
  | Wait => set_flags t (hasref t) (marked t) true (closedk t)
  | Lookup | ShardLookup => t
  end.

(* the static discipline: locks in increasing rank (hence never re-entered), every release matches an acquisition,
   and the protocol typestate (reference before use, exclusive partition lock around mark / unmark, drained and closed
   before the directories go) *)
Definition ok_lock (o : lockop) (t : tstate) : bool :=
  match o with
  | RLock k => all_lt k t && (k <? 4)
  | RUnlock k => holds k MR t
  | Ann k => all_lt k t && (k <? 4)
  | Acq k => holds k MA t
  | WUnlock k => holds k MW t && (if Nat.eqb k 0 then negb (marked t) else true)
  end.
Definition ok_data (o : dataop) (t : tstate) : bool :=
  match o with
  | Unref => hasref t && holds_any 1 t && all_lt 2 t
  | Mark => holds 2 MW t && holds 0 MW t && negb (marked t)
  | Unmark => holds 2 MW t && marked t && negb (drained t)
  | CloseShard => holds 3 MW t
  | Unmap => holds 2 MW t
  | DelDirs => drained t && closedk t
  | DropPt => holds 1 MW t && (negb (marked t) || drained t)
  | Use => hasref t
  | ShardOp => holds 3 MR t
  end.
Definition ok_op (o : op) (t : tstate) : bool := match o with L x => ok_lock x t | D x => ok_data x t end.
Definition ok_br (b : br) (t : tstate) : bool :=
  match b with
  | Ref => holds_any 1 t && all_lt 2 t && negb (hasref t)
  | Lookup => holds_any 1 t
  | ShardLookup => holds_any 2 t
  | Wait => marked t && negb (drained t)
  end.

(* Lock() is Ann immediately followed by Acq *)
Definition ann_then_acq (o : op) (q : prog) : bool :=
  match o with
  | L (Ann k) => match q with Seq (L (Acq k')) _ => Nat.eqb k k' | _ => false end
  | _ => true
  end.

Fixpoint chk (t : tstate) (p : prog) : bool :=
  match p with
  | Done => is_nil (held t) && negb (hasref t) && negb (marked t)
  | Seq o q => ok_op o t && ann_then_acq o q && chk (ts_op o t) q
  | Br b f q => ok_br b t && chk t f && chk (ts_br b t) q
  end.

(* ---------------------------------------------------------------- shared state *)
Record rw := { rd : list nat; pend : option nat; wheld : bool }.
Definition rw0 : rw := {| rd := []; pend := None; wheld := false |}.

Record eshared := {
  lk : nat -> rw;
  refs : nat;          (* DBPTInfo.exeCount *)
  offl : bool;         (* DBPTInfo.offloading *)
  present : bool;      (* the partition is in EngineImpl.DBPartitions *)
  mapped : bool;       (* the shard is in DBPTInfo.shards *)
  closed : bool;       (* shard.Close has run *)
  gone : bool;         (* the partition's directories have been deleted *)
  bad : list nat       (* violations seen: 1 reference counter underflow, 2 use of deleted data under a reference,
                          3 shard operation on deleted files, 4 directories deleted while references are held *)
}.
Definition einit_shared : eshared :=
  {| lk := fun _ => rw0; refs := 0; offl := false; present := true; mapped := true; closed := false; gone := false; bad := [] |}.

Definition set_lk (s : eshared) (k : nat) (x : rw) : eshared :=
  {| lk := fun k' => if Nat.eqb k' k then x else lk s k'; refs := refs s; offl := offl s; present := present s;
     mapped := mapped s; closed := closed s; gone := gone s; bad := bad s |}.
Definition set_refs (s : eshared) (n : nat) : eshared :=
  {| lk := lk s; refs := n; offl := offl s; present := present s; mapped := mapped s; closed := closed s; gone := gone s; bad := bad s |}.
Definition set_pt (s : eshared) (o p m c g : bool) : eshared :=
  {| lk := lk s; refs := refs s; offl := o; present := p; mapped := m; closed := c; gone := g; bad := bad s |}.
Definition add_bad (s : eshared) (c : nat) : eshared :=
  {| lk := lk s; refs := refs s; offl := offl s; present := present s; mapped := mapped s; closed := closed s; gone := gone s;
     bad := c :: bad s |}.

Fixpoint rm_one (x : nat) (l : list nat) : list nat :=
  match l with [] => [] | y :: t => if Nat.eqb x y then t else y :: rm_one x t end.

Definition is_none {A} (o : option A) : bool := match o with None => true | Some _ => false end.

(* ---------------------------------------------------------------- variants *)
Record evariant := {
  ev_timeout : bool;           (* DeleteDatabase's wait for the references has a time-out (the code: 15 s) *)
  ev_ref_ignores_offl : bool   (* mutant: DBPTInfo.ref succeeds although the partition is offloading *)
}.
Definition ecode : evariant := {| ev_timeout := true; ev_ref_ignores_offl := false |}.

(* ---------------------------------------------------------------- steps *)
Definition guard_lock (o : lockop) (s : eshared) : bool :=
  match o with
  | RLock k => is_none (pend (lk s k))          (* writer preference: no new reader once a writer is announced *)
  | Ann k => is_none (pend (lk s k))            (* writers are serialised by the RWMutex's internal mutex *)
  | Acq k => is_nil (rd (lk s k))               (* wait for the readers that were inside *)
  | RUnlock _ | WUnlock _ => true
  end.
Definition eff_lock (i : nat) (o : lockop) (s : eshared) : eshared :=
  let x k := lk s k in
  match o with
  | RLock k => set_lk s k {| rd := i :: rd (x k); pend := pend (x k); wheld := wheld (x k) |}
  | RUnlock k => set_lk s k {| rd := rm_one i (rd (x k)); pend := pend (x k); wheld := wheld (x k) |}
  | Ann k => set_lk s k {| rd := rd (x k); pend := Some i; wheld := false |}
  | Acq k => set_lk s k {| rd := rd (x k); pend := pend (x k); wheld := true |}
  | WUnlock k => set_lk s k {| rd := rd (x k); pend := None; wheld := false |}
  end.
(* DBPTInfo.ref / unref take DBPTInfo.mu.RLock for the duration of the call *)
Definition guard_data (o : dataop) (s : eshared) : bool :=
  match o with Unref => is_none (pend (lk s 2)) | _ => true end.
Definition eff_data (o : dataop) (s : eshared) : eshared :=
  match o with
  | Unref => match refs s with O => add_bad s 1 | S n => set_refs s n end
  | Mark => set_pt s true (present s) (mapped s) (closed s) (gone s)
  | Unmark => set_pt s false (present s) (mapped s) (closed s) (gone s)
  | CloseShard => set_pt s (offl s) (present s) (mapped s) true (gone s)
  | Unmap => set_pt s (offl s) (present s) false (closed s) (gone s)
  | DelDirs => let s1 := set_pt s (offl s) (present s) (mapped s) (closed s) true in
               match refs s with O => s1 | S _ => add_bad s1 4 end
  | DropPt => set_pt s (offl s) false (mapped s) (closed s) (gone s)
  | Use => if gone s then add_bad s 2 else s
  | ShardOp => if negb (closed s) && gone s then add_bad s 3 else s
  end.

Record eactor := { pr : prog; ts : tstate }.
Record estate := { esh : eshared; eacts : list eactor }.

(* c: the choice at a Wait - true = the references have drained, false = the time-out fires *)
Definition estep (V : evariant) (i : nat) (c : bool) (s : eshared) (a : eactor) : option (eshared * eactor) :=
  match pr a with
  | Done => None
  | Seq (L o) q => if guard_lock o s then Some (eff_lock i o s, {| pr := q; ts := ts_lock o (ts a) |}) else None
  | Seq (D o) q => if guard_data o s then Some (eff_data o s, {| pr := q; ts := ts_data o (ts a) |}) else None
  | Br Ref f q =>
      if is_none (pend (lk s 2))
      then (if present s && (negb (offl s) || ev_ref_ignores_offl V)
            then Some (set_refs s (S (refs s)), {| pr := q; ts := ts_br Ref (ts a) |})
            else Some (s, {| pr := f; ts := ts a |}))
      else None
  | Br Lookup f q => if present s then Some (s, {| pr := q; ts := ts a |}) else Some (s, {| pr := f; ts := ts a |})
  | Br ShardLookup f q => if mapped s then Some (s, {| pr := q; ts := ts a |}) else Some (s, {| pr := f; ts := ts a |})
  | Br Wait f q =>
      if c then (if Nat.eqb (refs s) 0 then Some (s, {| pr := q; ts := ts_br Wait (ts a) |}) else None)
      else (if ev_timeout V then Some (s, {| pr := f; ts := ts a |}) else None)
  end.

Definition eexec (V : evariant) (st : estate) (i : nat) (c : bool) : option estate :=
  match nth_error (eacts st) i with
  | None => None
  | Some a => match estep V i c (esh st) a with
              | Some (s', a') => Some {| esh := s'; eacts := upd (eacts st) i a' |}
              | None => None
              end
  end.

Definition estepr (V : evariant) (st st' : estate) : Prop := exists i c, eexec V st i c = Some st'.
Inductive ereach (V : evariant) (st0 : estate) : estate -> Prop :=
| ereach_refl : ereach V st0 st0
| ereach_step : forall st st', ereach V st0 st -> estepr V st st' -> ereach V st0 st'.

Fixpoint erun (V : evariant) (st : estate) (sched : list (nat * bool)) : option estate :=
  match sched with
  | [] => Some st
  | (i, c) :: t => match eexec V st i c with Some st' => erun V st' t | None => None end
  end.

Definition fresh_actor (p : prog) : eactor := {| pr := p; ts := ts0 |}.
Definition einit (ps : list prog) : estate := {| esh := einit_shared; eacts := map fresh_actor ps |}.
Definition edone (a : eactor) : bool := match pr a with Done => true | _ => false end.
(* some actor can step *)
Definition can_step (V : evariant) (st : estate) : bool :=
  existsb (fun i => match eexec V st i true, eexec V st i false with None, None => false | _, _ => true end)
          (seq 0 (length (eacts st))).
(* a deadlock: somebody is not done and nobody can step *)
Definition deadlocked (V : evariant) (st : estate) : bool :=
  negb (forallb edone (eacts st)) && negb (can_step V st).

(* ---------------------------------------------------------------- the programs of the code *)
Fixpoint seqs (os : list op) (p : prog) : prog := match os with [] => p | o :: t => Seq o (seqs t p) end.
Definition Lock (k : nat) : list op := [L (Ann k); L (Acq k)].
(* e.unrefDBPT: e.mu.RLock; unrefDBPTNoLock; e.mu.RUnlock *)
Definition unrefDBPT (p : prog) : prog := seqs [L (RLock 1); D Unref; L (RUnlock 1)] p.

(* the store's select handler: DbPTRef; GetShard (getDBPTInfo, DBPTInfo.Shard); shard.CreateLogicalPlan under
   shard.mu.RLock; the cursors run on the references they took; DbPTUnref *)
Definition P_query : prog :=
  Seq (L (RLock 1)) (Br Ref (Seq (L (RUnlock 1)) Done)
    (seqs [L (RUnlock 1); L (RLock 1); L (RUnlock 1); L (RLock 2)]
      (Br ShardLookup (Seq (L (RUnlock 2)) (unrefDBPT Done))
         (seqs [L (RUnlock 2); L (RLock 3); D ShardOp; L (RUnlock 3); D Use] (unrefDBPT Done))))).

(* EngineImpl.WriteRows: getShard (reference held only for the lookup), then shard.WriteRows under shard.mu.RLock *)
Definition P_write : prog :=
  Seq (L (RLock 1)) (Br Ref (Seq (L (RUnlock 1)) Done)
    (seqs [L (RUnlock 1); L (RLock 2)]
      (Br ShardLookup (Seq (L (RUnlock 2)) (unrefDBPT Done))
         (Seq (L (RUnlock 2)) (unrefDBPT (seqs [L (RLock 3); D ShardOp; L (RUnlock 3)] Done)))))).

(* checkAndGetDBPTInfo (first step of WriteToRaft) as the code has it TODAY: the deferred unrefDBPT takes
   EngineImpl.mu.RLock while the function still holds it *)
Definition P_raft_current : prog :=
  Seq (L (RLock 1)) (Br Ref (Seq (L (RUnlock 1)) Done) (unrefDBPT (Seq (L (RUnlock 1)) Done))).
(* repaired: release the reference under the read lock already held *)
Definition P_raft : prog :=
  Seq (L (RLock 1)) (Br Ref (Seq (L (RUnlock 1)) Done) (seqs [D Unref; L (RUnlock 1)] Done)).

(* EngineImpl.DropMeasurement: references, then under DBPTInfo.mu.RLock shard.DropMeasurement (shard.mu.RLock) *)
Definition P_dropmst : prog :=
  Seq (L (RLock 1)) (Br Lookup (Seq (L (RUnlock 1)) Done) (Br Ref (Seq (L (RUnlock 1)) Done)
    (seqs [L (RUnlock 1); L (RLock 2)]
      (Br ShardLookup (Seq (L (RUnlock 2)) (unrefDBPT Done))
         (seqs [L (RLock 3); D ShardOp; L (RUnlock 3); L (RUnlock 2)] (unrefDBPT Done)))))).

(* EngineImpl.DeleteMstInShard: the shard is looked up under DBPTInfo.mu.Lock *)
Definition P_delmst : prog :=
  Seq (L (RLock 1)) (Br Ref (Seq (L (RUnlock 1)) Done)
    (seqs (L (RUnlock 1) :: Lock 2)
      (Br ShardLookup (Seq (L (WUnlock 2)) (unrefDBPT Done))
         (seqs [L (WUnlock 2); L (RLock 3); D ShardOp; L (RUnlock 3)] (unrefDBPT Done))))).

(* EngineImpl.ForceFlush: everything under EngineImpl.mu.RLock; DBPTInfo.unref directly *)
Definition P_flush : prog :=
  Seq (L (RLock 1)) (Br Ref (Seq (L (RUnlock 1)) Done)
    (seqs [L (RLock 2); D Use; L (RUnlock 2); D Unref; L (RUnlock 1)] Done)).

(* EngineImpl.DeleteDatabase *)
Definition P_dropdb : prog :=
  seqs (Lock 0 ++ [L (RLock 1)])
    (Br Lookup (seqs [L (RUnlock 1); L (WUnlock 0)] Done)
      (seqs (Lock 2 ++ [D Mark; L (WUnlock 2)])
        (Br Wait (seqs (Lock 2 ++ [D Unmark; L (WUnlock 2); L (RUnlock 1); L (WUnlock 0)]) Done)
          (seqs (Lock 2 ++ Lock 3 ++ [D CloseShard; L (WUnlock 3); D Unmap; L (WUnlock 2); D DelDirs; L (RUnlock 1)]
                 ++ Lock 1 ++ [D DropPt; L (WUnlock 1); L (WUnlock 0)]) Done)))).

(* EngineImpl.Close: closeDBPt under EngineImpl.mu.Lock, then dropDBPt *)
Definition P_close : prog :=
  seqs (Lock 1 ++ Lock 2 ++ Lock 3 ++ [D CloseShard; L (WUnlock 3); L (WUnlock 2); L (WUnlock 1)] ++ Lock 1
        ++ [D DropPt; L (WUnlock 1)]) Done.

(* EngineImpl.DeleteShard (the shard's own directories are removed after its Close; not the partition's) *)
Definition P_delshard : prog :=
  Seq (L (RLock 1)) (Br Ref (Seq (L (RUnlock 1)) Done)
    (seqs (L (RUnlock 1) :: Lock 2)
      (Br ShardLookup (Seq (L (WUnlock 2)) (unrefDBPT Done))
         (seqs ([D Unmap; L (WUnlock 2)] ++ Lock 3 ++ [D CloseShard; L (WUnlock 3)] ++ Lock 2 ++ [L (WUnlock 2)]) (unrefDBPT Done))))).

Definition code_progs : list prog :=
  [P_query; P_write; P_raft; P_dropmst; P_delmst; P_flush; P_dropdb; P_close; P_delshard].

(* ---------------------------------------------------------------- probes used by the correspondence *)
(* run actor i as far as it goes (taking the "drained" choice at a Wait); returns the state and whether it is done *)
Fixpoint run_until_blocked (V : evariant) (fuel : nat) (st : estate) (i : nat) : estate :=
  match fuel with
  | O => st
  | S n => match eexec V st i true with Some st' => run_until_blocked V n st' i | None => st end
  end.
Definition actor_done (st : estate) (i : nat) : bool :=
  match nth_error (eacts st) i with Some a => edone a | None => true end.
(* the lock operation the actor is blocked at: (lock, true = it wants it exclusively) *)
Definition blocked_at (st : estate) (i : nat) : option (nat * bool) :=
  match nth_error (eacts st) i with
  | Some a => match pr a with
              | Seq (L (RLock k)) _ => Some (k, false)
              | Seq (L (Ann k)) _ => Some (k, true)
              | Seq (L (Acq k)) _ => Some (k, true)
              | Seq (D Unref) _ => Some (2, false)
              | Br Ref _ _ => Some (2, false)
              | _ => None
              end
  | None => None
  end.
(* the harness as an actor: holds lock k (exclusively or shared) and then releases it *)
Definition P_hold (k : nat) (w : bool) : prog :=
  if w then seqs (Lock k ++ [L (WUnlock k)]) Done else seqs [L (RLock k); L (RUnlock k)] Done.
(* footprint probe: the harness holds lock k; the operation runs; blocked? *)
Definition probe_footprint (p : prog) (k : nat) (w : bool) : option (nat * bool) :=
  let st0 := einit [P_hold k w; p] in
  let st1 := run_until_blocked ecode (if w then 2 else 1) st0 0 in
  let st2 := run_until_blocked ecode 200 st1 1 in
  if actor_done st2 1 then None else blocked_at st2 1.
(* round-robin: run each of the actors is as far as it goes, n times *)
Fixpoint run_rounds (V : evariant) (n : nat) (st : estate) (is : list nat) : estate :=
  match n with
  | O => st
  | S m => run_rounds V m (fold_left (fun s i => run_until_blocked V 200 s i) is st) is
  end.
(* re-entry probe: the harness holds DBPTInfo.mu exclusively, the operation stalls in Ref, the finale becomes a pending
   writer, the harness releases, both run as far as they go; result: (operation done, finale done) *)
Definition probe_reentry (p fin : prog) : bool * bool :=
  let st0 := einit [P_hold 2 true; p; fin] in
  let st1 := run_until_blocked ecode 2 st0 0 in
  let st2 := run_until_blocked ecode 200 st1 1 in
  let st3 := run_until_blocked ecode 200 st2 2 in
  let st4 := run_until_blocked ecode 1 st3 0 in
  let st5 := run_rounds ecode 6 st4 [1; 2] in
  (actor_done st5 1, actor_done st5 2).
