(* C04 sensitivity of the model: protocol MUTANTS reach a bad view.  These theorems are about mutated machines
   (variant records other than `correct`); they document that the properties proved for `correct` are not vacuous
   consequences of the modelling.  They are not findings about the repository. *)
From Coq Require Import List Bool Arith.
From OG Require Import C04.Model C04.Proofs.
Import ListNotations.

Definition mut (a b c d : bool) : variant :=
  {| v_flag_first := a; v_drop_first := b; v_gc_ignores_refs := c; v_no_snap_lock := d; v_stale_list := false |}.

Definition sys1 : list actor := [fresh_writer [1]; fresh_reader 1; fresh_flusher 1; AP [Replace [0] []; Gc 0]].

Lemma sys1_fresh : forallb fresh sys1 = true. Proof. reflexivity. Qed.

(* reading *flushed BEFORE taking the file references: the view holds the snapshot table AND the file flushed from it *)
Theorem flag_before_refs_refuted :
  exists st, reach (mut true false false false) (init_state sys1) st /\ some_view_dup st = true.
Proof.
  destruct (run (mut true false false false) (init_state sys1) [0;0;2;1;2;1;1;1;1]) as [st|] eqn:E; [|vm_compute in E; discriminate].
  exists st. split; [eapply run_reach; exact E|]. vm_compute in E. inversion E; subst. vm_compute. reflexivity.
Qed.

(* dropping the snapshot table BEFORE the files are listed: a query in between misses acknowledged batches *)
Theorem drop_before_publish_refuted :
  exists st, reach (mut false true false false) (init_state sys1) st /\ some_view_missing st = true.
Proof.
  destruct (run (mut false true false false) (init_state sys1) [0;0;2;2;1;1;1;1;1]) as [st|] eqn:E; [|vm_compute in E; discriminate].
  exists st. split; [eapply run_reach; exact E|]. vm_compute in E. inversion E; subst. vm_compute. reflexivity.
Qed.

(* physical removal that does not wait for reference count 0: a query holding the replaced file loses its rows *)
Theorem removal_ignores_refs_refuted :
  exists st, reach (mut false false true false) (init_state sys1) st /\ some_view_missing st = true.
Proof.
  destruct (run (mut false false true false) (init_state sys1) [0;0;2;2;2;1;1;3;3;1;1;1]) as [st|] eqn:E; [|vm_compute in E; discriminate].
  exists st. split; [eapply run_reach; exact E|]. vm_compute in E. inversion E; subst. vm_compute. reflexivity.
Qed.

(* swapping / dropping the snapshot table without the exclusive snapshot lock: the table is recycled under a query *)
Theorem no_snapshot_lock_refuted :
  exists st, reach (mut false false false true) (init_state sys1) st /\ some_view_missing st = true.
Proof.
  destruct (run (mut false false false true) (init_state sys1) [0;0;1;1;2;2;2;1;1;1]) as [st|] eqn:E; [|vm_compute in E; discriminate].
  exists st. split; [eapply run_reach; exact E|]. vm_compute in E. inversion E; subst. vm_compute. reflexivity.
Qed.

(* the same schedules on the correct machine are either not executable or end in a good view *)
Example correct_on_mutant_schedules :
  forallb (fun sched => match run correct (init_state sys1) sched with
                        | Some st => negb (some_view_missing st) && negb (some_view_dup st)
                        | None => true end)
          [[0;0;2;1;2;1;1;1;1]; [0;0;2;2;1;1;1;1;1]; [0;0;2;2;2;1;1;3;3;1;1;1]; [0;0;1;1;2;2;2;1;1;1]] = true.
Proof. vm_compute. reflexivity. Qed.

Print Assumptions flag_before_refs_refuted.
Print Assumptions drop_before_publish_refuted.
Print Assumptions removal_ignores_refs_refuted.
Print Assumptions no_snapshot_lock_refuted.
