(* C04 sensitivity of the model: protocol MUTANTS reach a bad view.  These theorems are about mutated machines
   (variant records other than `correct`); they document that the properties proved for `correct` are not vacuous
   consequences of the modelling.  They are not findings about the repository. *)
From Coq Require Import List Bool Arith.
From OG Require Import C04.Model C04.Proofs.
Import ListNotations.

Definition mut (a b c d : bool) : variant :=
  {| v_flag_first := a; v_drop_first := b; v_gc_ignores_refs := c; v_no_snap_lock := d; v_stale_list := false; v_drop_blind := false; v_no_wait_snap := false |}.

Definition sys1 : list actor := [fresh_writer [1]; fresh_reader 1; fresh_flusher 1; AP [Replace [0] []; Gc 0]].

Lemma sys1_fresh : forallb fresh sys1 = true. Proof. reflexivity. Qed.

(* reading *flushed BEFORE taking the file references: the view holds the snapshot table AND the file flushed from it *)
Theorem flag_before_refs_refuted :
  exists st, reach (mut true false false false) (init_state sys1) st /\ some_view_dup st = true.
Proof.
  destruct (run (mut true false false false) (init_state sys1) [0;0;2;1;2;1;1;1;1]) as [st|] eqn:E; [|vm_compute in E; discriminate].
  exists st. split; [eapply run_reach; exact E|]. vm_compute in E. inversion E; subst. vm_compute. reflexivity.
Qed.

(* dropping the snapshot table BEFORE the files are listed: a query in between misses acknowledged batches *)
Theorem drop_before_publish_refuted :
  exists st, reach (mut false true false false) (init_state sys1) st /\ some_view_missing st = true.
Proof.
  destruct (run (mut false true false false) (init_state sys1) [0;0;2;2;1;1;1;1;1]) as [st|] eqn:E; [|vm_compute in E; discriminate].
  exists st. split; [eapply run_reach; exact E|]. vm_compute in E. inversion E; subst. vm_compute. reflexivity.
Qed.

(* physical removal that does not wait for reference count 0: a query holding the replaced file loses its rows *)
Theorem removal_ignores_refs_refuted :
  exists st, reach (mut false false true false) (init_state sys1) st /\ some_view_missing st = true.
Proof.
  destruct (run (mut false false true false) (init_state sys1) [0;0;2;2;2;1;1;3;3;1;1;1]) as [st|] eqn:E; [|vm_compute in E; discriminate].
  exists st. split; [eapply run_reach; exact E|]. vm_compute in E. inversion E; subst. vm_compute. reflexivity.
Qed.

(* swapping / dropping the snapshot table without the exclusive snapshot lock: the table is recycled under a query *)
Theorem no_snapshot_lock_refuted :
  exists st, reach (mut false false false true) (init_state sys1) st /\ some_view_missing st = true.
Proof.
  destruct (run (mut false false false true) (init_state sys1) [0;0;1;1;2;2;2;1;1;1]) as [st|] eqn:E; [|vm_compute in E; discriminate].
  exists st. split; [eapply run_reach; exact E|]. vm_compute in E. inversion E; subst. vm_compute. reflexivity.
Qed.

(* the same schedules on the correct machine are either not executable or end in a good view *)
Example correct_on_mutant_schedules :
  forallb (fun sched => match run correct (init_state sys1) sched with
                        | Some st => negb (some_view_missing st) && negb (some_view_dup st)
                        | None => true end)
          [[0;0;2;1;2;1;1;1;1]; [0;0;2;2;1;1;1;1;1]; [0;0;2;2;2;1;1;3;3;1;1;1]; [0;0;1;1;2;2;2;1;1;1]] = true.
Proof. vm_compute. reflexivity. Qed.

(* deleteUnorderedFiles deleting the out-of-order list object on the stale "empty" decision of its first critical
   section (no re-check under m.mu): a flush that lists its out-of-order file between the two sections is orphaned.
   W: 5 flush (ordered), 3 flush (out of order), 4; merge replaces and de-lists {3}; the flush of {4} is published;
   the merge's second section deletes the list object; a query misses 4 *)
Definition mutv (blind nowait : bool) : variant :=
  {| v_flag_first := false; v_drop_first := false; v_gc_ignores_refs := false; v_no_snap_lock := false;
     v_stale_list := false; v_drop_blind := blind; v_no_wait_snap := nowait |}.
Definition sys2 : list actor := [fresh_writer [5;3;4]; fresh_flusher 3; AP [Merge]; fresh_reader 1].
Definition sched_blind : list nat := [0;0; 1;1;1;  0;0; 1;1;1;  0;0;  2;2;  1;1;  2;  1;  3;3;3;3;3].

Theorem map_delete_without_recheck_refuted :
  exists st, reach (mutv true false) (init_state sys2) st /\ some_view_missing st = true.
Proof.
  destruct (run (mutv true false) (init_state sys2) sched_blind) as [st|] eqn:E; [|vm_compute in E; discriminate].
  exists st. split; [eapply run_reach; exact E|]. vm_compute in E. inversion E; subst. vm_compute. reflexivity.
Qed.

(* a flush that does not wait for the snapshot already in flight overwrites the single snapshot slot: the first
   snapshot's batches are in no container a query looks at.  W: 5; flusher A swaps; W: 3; flusher B swaps too *)
Definition sys3 : list actor := [fresh_writer [5;3]; fresh_flusher 1; fresh_flusher 1; fresh_reader 1].
Definition sched_nowait : list nat := [0;0; 1; 0;0; 2; 3;3;3;3;3].

Theorem flush_without_waiting_refuted :
  exists st, reach (mutv false true) (init_state sys3) st /\ some_view_missing st = true.
Proof.
  destruct (run (mutv false true) (init_state sys3) sched_nowait) as [st|] eqn:E; [|vm_compute in E; discriminate].
  exists st. split; [eapply run_reach; exact E|]. vm_compute in E. inversion E; subst. vm_compute. reflexivity.
Qed.

(* on the correct machine the first schedule ends in a complete view and the second is not executable (the second
   swap is not enabled while a snapshot is in flight) *)
Example correct_on_new_mutant_schedules :
  (match run correct (init_state sys2) sched_blind with
   | Some st => negb (some_view_missing st) | None => false end) = true /\
  run correct (init_state sys3) sched_nowait = None /\
  run correct (init_state sys3) [0;0; 1; 0;0] <> None /\ exec correct
    (match run correct (init_state sys3) [0;0; 1; 0;0] with Some st => st | None => init_state [] end) 2 = None.
Proof. vm_compute. repeat split; discriminate. Qed.

Print Assumptions map_delete_without_recheck_refuted.
Print Assumptions flush_without_waiting_refuted.
Print Assumptions flag_before_refs_refuted.
Print Assumptions drop_before_publish_refuted.
Print Assumptions removal_ignores_refs_refuted.
Print Assumptions no_snapshot_lock_refuted.

(* ---------------------------------------------------------------- engine level (C04/Eng.v) *)
From OG Require Import C04.Eng C04.EngRefuted.

(* without the time-out of DeleteDatabase's wait a writer pending on EngineImpl.mu deadlocks the drop (the query cannot
   release its reference, the drop holds the read lock the writer waits for); with the time-out - the code - the same
   state has exactly one way out, and taking it everything drains *)
Theorem engine_drop_wait_needs_timeout :
  ereach no_timeout (einit [P_query; P_dropdb; P_close]) (stall_state no_timeout) /\
  deadlocked no_timeout (stall_state no_timeout) = true /\
  deadlocked ecode (stall_state ecode) = false /\
  match eexec ecode (stall_state ecode) 1 false with
  | Some st => forallb edone (eacts (run_rounds ecode 6 st [1; 2; 0])) = true /\ bad (esh (run_rounds ecode 6 st [1; 2; 0])) = []
  | None => False
  end.
Proof. exact drop_wait_needs_timeout. Qed.

(* a DBPTInfo.ref that ignores `offloading` lets the directories be deleted under a reference *)
Theorem engine_ref_ignoring_offloading_refuted : exists st,
  ereach ref_ignores_offloading (einit [P_dropdb; P_query]) st /\ bad (esh st) <> [].
Proof. exact ref_ignoring_offloading_refuted. Qed.

Print Assumptions engine_drop_wait_needs_timeout.
Print Assumptions engine_ref_ignoring_offloading_refuted.
